(* Proofs/ProfilesProofs.v — lemmas and final statements of C16. *)
From NC Require Import Model.Base Model.Lit Model.Profiles Spec.ProfilesSpec Proofs.BaseFacts.

(* ---------- subsystems ---------- *)
Lemma nodupb_NoDup l : nodupb l = true -> NoDup l.
Proof.
  induction l as [|x l IH]; simpl; intros H; [constructor|].
  apply andb_true_iff in H. destruct H as [H1 H2]. constructor; auto.
  intros Hin. apply mem_bytes_In in Hin. rewrite Hin in H1. discriminate.
Qed.

Lemma c16_subsystems : forall pref : option bytes,
  NoDup (nexus_subsystems pref) /\
  hd_error (nexus_subsystems pref) = Some (preferred_or_default pref).
Proof.
  intros pref.
  assert (Hbase : NoDup [s_netconf; s_xmlagent]).
  { apply nodupb_NoDup. vm_compute. reflexivity. }
  destruct pref as [[|c r]|]; simpl; try (split; [exact Hbase|reflexivity]).
  split; [|reflexivity].
  change (NoDup ((c :: r) :: filter (fun n => negb (beq n (c :: r))) [s_netconf; s_xmlagent])).
  constructor.
  - intros Hin. apply filter_In in Hin. destruct Hin as [_ Hne].
    rewrite beq_refl in Hne. discriminate.
  - apply NoDup_filter. exact Hbase.
Qed.

Lemma c16_subsystems_all : forall p dp, wf_subsys p = true ->
  NoDup (subsystems p dp) /\ hd_error (subsystems p dp) = Some (first_subsystem p dp).
Proof.
  intros p dp Hwf. unfold subsystems, first_subsystem, wf_subsys in *.
  destruct (pr_subsys p) as [l|].
  - apply andb_true_iff in Hwf. destruct Hwf as [Hn Hh]. split; [now apply nodupb_NoDup|].
    destruct l as [|x l]; [discriminate|]. apply beq_eq in Hh. subst x. reflexivity.
  - apply c16_subsystems.
Qed.

(* ---------- base URI ---------- *)
Lemma has_base_app l1 l2 : has_base (l1 ++ l2) = has_base l1 || has_base l2.
Proof. unfold has_base. apply existsb_app. Qed.

Lemma c16_base_uri : forall p dp user, wf_caps p = true ->
  exists l, capabilities p dp user = Ok l /\ has_base l = true.
Proof.
  intros p dp user Hwf. unfold capabilities, wf_caps, default_caps in *.
  destruct (pr_caps p) as [|l| | |].
  - eexists; split; [reflexivity|]. rewrite has_base_app, Hwf. reflexivity.
  - eexists; split; [reflexivity|exact Hwf].
  - eexists; split; [reflexivity|]. rewrite !has_base_app, Hwf. reflexivity.
  - destruct (pr_base_caps p) as [|b t]; [discriminate|]. simpl in *.
    eexists; split; [reflexivity|].
    unfold has_base in *. apply existsb_exists in Hwf. destruct Hwf as [x [Hx1 Hx2]].
    apply existsb_exists. exists x. split; [|exact Hx2]. right. apply in_or_app. now left.
  - eexists; split; [reflexivity|]. rewrite !has_base_app, Hwf. reflexivity.
Qed.

(* the capability list never raises for a well-formed profile, and user additions are kept *)
Lemma c16_user_caps_kept : forall p dp user l u,
  capabilities p dp user = Ok l -> In u user ->
  match pr_caps p with CapsLit _ => True | _ => pr_base_caps p <> [] -> In u l end.
Proof.
  intros p dp user l u Hc Hin. unfold capabilities, default_caps in Hc.
  destruct (pr_caps p) as [|l0| | |]; auto; intros Hne.
  - injection Hc as <-. apply in_or_app; auto.
  - injection Hc as <-. apply in_or_app; left. apply in_or_app; auto.
  - destruct (pr_base_caps p) as [|b t]; [congruence|]. simpl in Hc. injection Hc as <-.
    right. apply in_or_app; auto.
  - injection Hc as <-. apply in_or_app; left. apply in_or_app; auto.
Qed.

(* ---------- vendor precedence ---------- *)
Lemma c16_vendor_wins : forall vendor ops name c,
  dict_get name vendor = Some c -> resolve vendor ops name = Vendor c.
Proof. intros vendor ops name c H. unfold resolve. now rewrite H. Qed.

Lemma c16_standard_kept : forall vendor ops name c,
  dict_get name vendor = None -> dict_get name ops = Some c -> resolve vendor ops name = Standard c.
Proof. intros vendor ops name c H1 H2. unfold resolve. now rewrite H1, H2. Qed.

Lemma c16_resolve_missing : forall vendor ops name,
  resolve vendor ops name = Missing <-> (dict_get name vendor = None /\ dict_get name ops = None).
Proof.
  intros vendor ops name. unfold resolve.
  destruct (dict_get name vendor); [split; [discriminate|intros [H _]; discriminate]|].
  destruct (dict_get name ops); [split; [discriminate|intros [_ H]; discriminate]|]. tauto.
Qed.

Lemma dict_get_app {V} k (a b : list (bytes * V)) :
  dict_get k (a ++ b) = match dict_get k a with Some v => Some v | None => dict_get k b end.
Proof.
  induction a as [|[k' v'] a IH]; simpl; [reflexivity|]. destruct (beq k k'); auto.
Qed.

(* d.update(u): the last binding of u wins, otherwise d's *)
Lemma dict_get_update {V} k (u d : list (bytes * V)) :
  dict_get k (dict_update d u) =
  match dict_get k (rev u) with Some v => Some v | None => dict_get k d end.
Proof.
  unfold dict_update. revert d. induction u as [|[k' v'] u IH]; intros d; simpl; [reflexivity|].
  rewrite IH, dict_get_app. destruct (dict_get k (rev u)); [reflexivity|]. simpl.
  destruct (beq k k') eqn:E.
  - apply beq_eq in E. subst. apply dict_get_set_same.
  - apply beq_neq in E. now apply dict_get_set_other.
Qed.

Lemma c16_vendor_callable : forall p ops name,
  In name (map fst (pr_vendor p)) -> exists c, resolve (manager_vendor p) ops name = Vendor c.
Proof.
  intros p ops name Hin. unfold manager_vendor.
  destruct (dict_get name (dict_update [] (pr_vendor p))) as [c|] eqn:E.
  - exists c. now apply c16_vendor_wins.
  - exfalso. rewrite dict_get_update in E.
    destruct (dict_get name (rev (pr_vendor p))) eqn:E2; [discriminate|].
    apply dict_get_None in E2. apply E2. rewrite map_rev. apply in_rev. now rewrite rev_involutive.
Qed.

Lemma c16_standard_callable : forall p ops name c,
  ~ In name (map fst (pr_vendor p)) -> dict_get name ops = Some c ->
  resolve (manager_vendor p) ops name = Standard c.
Proof.
  intros p ops name c Hn Hs. apply c16_standard_kept; [|exact Hs].
  unfold manager_vendor. rewrite dict_get_update. simpl.
  destruct (dict_get name (rev (pr_vendor p))) eqn:E; [|reflexivity].
  exfalso. apply dict_get_In in E. apply Hn. apply in_rev in E.
  change name with (fst (name, o)). now apply in_map.
Qed.

(* ---------- every name resolves to its own class ---------- *)
Lemma c16_make_handler_sound : forall nm tbl name p,
  make_handler nm tbl name = Ok p ->
  In p tbl /\
  pr_module p = match name with Some n => n | None => n_default nm end /\
  pr_class p = class_name_of nm (pr_module p).
Proof.
  intros nm tbl name p H. unfold make_handler in H.
  set (n := match name with Some n => n | None => n_default nm end) in *.
  destruct (existsb _ tbl); [|discriminate].
  destruct (find _ tbl) as [q|] eqn:F; [|discriminate]. injection H as <-.
  apply find_some in F. destruct F as [Hin Hb]. apply andb_true_iff in Hb. destruct Hb as [H1 H2].
  apply beq_eq in H1, H2. split; [exact Hin|]. split; [exact H1|]. now rewrite H1.
Qed.

(* ---------- isolation ---------- *)
Lemma slot_get_set_same i x s : slot_get i (slot_set i x s) = Some x.
Proof.
  induction s as [|[j y] s IH]; simpl.
  - now rewrite N.eqb_refl.
  - destruct (N.eqb i j) eqn:E; simpl; rewrite E; auto.
Qed.

Lemma slot_get_set_other i j x s : i <> j -> slot_get i (slot_set j x s) = slot_get i s.
Proof.
  intros Hn. induction s as [|[k y] s IH]; simpl.
  - apply N.eqb_neq in Hn. now rewrite Hn.
  - destruct (N.eqb j k) eqn:E; simpl.
    + apply N.eqb_eq in E. subst k. apply N.eqb_neq in Hn. now rewrite Hn.
    + destruct (N.eqb i k); auto.
Qed.

Definition agree (i : N) (w1 w2 : world) : Prop :=
  w_g w1 = w_g w2 /\ slot_get i (w_slots w1) = slot_get i (w_slots w2).

(* the repaired code never writes module-level state *)
Lemma step_globals : forall w i o, w_g (fst (step false w i o)) = w_g w.
Proof.
  intros w i o. destruct o as [src dp ig us|g|g|name|ns]; simpl.
  - destruct src as [name|p]; [destruct (make_handler _ _ name)|]; reflexivity.
  - destruct (slot_get i (w_slots w)); reflexivity.
  - destruct (slot_get i (w_slots w)); reflexivity.
  - destruct (slot_get i (w_slots w)); reflexivity.
  - destruct (slot_get i (w_slots w)); reflexivity.
Qed.

Lemma step_other_slot : forall w i j o, i <> j ->
  slot_get i (w_slots (fst (step false w j o))) = slot_get i (w_slots w).
Proof.
  intros w i j o Hn. destruct o as [src dp ig us|g|g|name|ns]; simpl.
  - destruct src as [name|p]; [destruct (make_handler _ _ name)|]; simpl; auto using slot_get_set_other.
  - destruct (slot_get j (w_slots w)); reflexivity.
  - destruct (slot_get j (w_slots w)); reflexivity.
  - destruct (slot_get j (w_slots w)); reflexivity.
  - destruct (slot_get j (w_slots w)); reflexivity.
Qed.

Lemma step_same_slot : forall w1 w2 i o, agree i w1 w2 ->
  snd (step false w1 i o) = snd (step false w2 i o) /\
  agree i (fst (step false w1 i o)) (fst (step false w2 i o)).
Proof.
  intros w1 w2 i o [Hg Hs]. unfold agree.
  destruct o as [src dp ig us|g|g|name|ns]; simpl; rewrite <- ?Hg, <- ?Hs.
  - destruct src as [name|p]; [destruct (make_handler _ _ name)|]; simpl;
      rewrite ?slot_get_set_same; auto.
  - destruct (slot_get i (w_slots w1)) eqn:E; simpl; repeat split; auto; congruence.
  - destruct (slot_get i (w_slots w1)) eqn:E; simpl; repeat split; auto; congruence.
  - destruct (slot_get i (w_slots w1)) eqn:E; simpl; repeat split; auto; congruence.
  - destruct (slot_get i (w_slots w1)) eqn:E; simpl; repeat split; auto; congruence.
Qed.

Definition obs_of (i : N) (l : list (N * obs)) : list obs :=
  map snd (filter (fun e => N.eqb (fst e) i) l).

Lemma isolated_from : forall i h w1 w2, agree i w1 w2 ->
  obs_of i (run_from false w1 h) = obs_of i (run_from false w2 (restrict i h)).
Proof.
  intros i h. induction h as [|[j o] h IH]; intros w1 w2 Hag; [reflexivity|].
  cbn [run_from restrict filter fst].
  destruct (N.eqb j i) eqn:E.
  - apply N.eqb_eq in E. subst j. cbn [run_from].
    destruct (step_same_slot w1 w2 i o Hag) as [Ho Hag'].
    destruct (step false w1 i o) as [w1' o1]. destruct (step false w2 i o) as [w2' o2].
    simpl in Ho, Hag'. subst o2. unfold obs_of. cbn [filter fst]. rewrite N.eqb_refl. cbn [map snd].
    f_equal. apply (IH w1' w2' Hag').
  - pose proof (step_globals w1 j o) as Hg.
    assert (Hne : i <> j) by (apply N.eqb_neq in E; congruence).
    pose proof (step_other_slot w1 i j o Hne) as Hs.
    destruct (step false w1 j o) as [w1' o1]. simpl in Hg, Hs.
    unfold obs_of. cbn [filter fst]. rewrite E.
    apply (IH w1' w2). destruct Hag as [H1 H2]. split; congruence.
Qed.

Lemma c16_isolated : forall (g : globals) (i : N) (h : history), isolated false g i h.
Proof.
  intros g i h. unfold isolated, observations. apply isolated_from. split; reflexivity.
Qed.

(* consequence: operations on other slots can be inserted anywhere without changing what slot i sees *)
Lemma c16_isolated_insert : forall g i h1 h2 j o, j <> i ->
  observations false g i (h1 ++ (j, o) :: h2) = observations false g i (h1 ++ h2).
Proof.
  intros g i h1 h2 j o Hn. rewrite (c16_isolated g i (h1 ++ (j, o) :: h2)), (c16_isolated g i (h1 ++ h2)).
  unfold restrict. rewrite !filter_app. cbn [filter fst].
  apply N.eqb_neq in Hn. now rewrite Hn.
Qed.

(* every getter observation is a function of the constructor arguments alone *)
Lemma c16_getter_function_of_ctor : forall g i src dp ig us gt h,
  (forall o, In (i, o) h -> match o with Construct _ _ _ _ => False | _ => True end) ->
  forall p, (match src with ByName n => make_handler (g_naming g) (g_table g) n | UserClass q => Ok q end) = Ok p ->
  last (observations false g i ((i, Construct src dp ig us) :: h ++ [(i, Get gt)])) ONothing =
  observe_getter (mk_instance p dp ig us) gt.
Proof.
  intros g i src dp ig us gt h Hno p Hp.
  rewrite c16_isolated. unfold observations, restrict.
  cbn [filter fst]. rewrite N.eqb_refl. rewrite filter_app. cbn [filter fst]. rewrite N.eqb_refl.
  unfold init_world. cbn [run_from]. cbn [step w_g w_slots].
  replace (match src with ByName name => make_handler (g_naming g) (g_table g) name | UserClass p0 => Ok p0 end) with (Ok p : res profile).
  cbn [w_slots slot_set].
  set (w0 := mk_world g [(i, mk_instance p dp ig us)]).
  assert (Hinv : forall h' w, w_g w = g -> slot_get i (w_slots w) = Some (mk_instance p dp ig us) ->
            (forall o, In (i, o) h' -> match o with Construct _ _ _ _ => False | _ => True end) ->
            (forall e, In e h' -> fst e = i) ->
            forall pre, last (map snd (filter (fun e => N.eqb (fst e) i) (pre ++ run_from false w (h' ++ [(i, Get gt)])))) ONothing
                 = observe_getter (mk_instance p dp ig us) gt).
  { induction h' as [|[j o] h' IH]; intros w Hg Hs Hc Hall pre.
    - cbn [app run_from step]. rewrite Hs. rewrite filter_app, map_app. cbn [filter fst]. rewrite N.eqb_refl.
      cbn [map snd]. apply last_last.
    - assert (j = i) by (apply (Hall (j, o)); left; reflexivity). subst j.
      cbn [app run_from].
      pose proof (Hc o (or_introl eq_refl)) as Hk.
      pose proof (step_globals w i o) as Hg'.
      assert (Hs' : slot_get i (w_slots (fst (step false w i o))) = Some (mk_instance p dp ig us)).
      { destruct o as [s0 d0 i0 u0|g0|g0|n0|ns0]; [contradiction| | | |]; simpl; rewrite Hs; exact Hs. }
      destruct (step false w i o) as [w' ob]. simpl in Hg', Hs'.
      replace (pre ++ (i, ob) :: run_from false w' (h' ++ [(i, Get gt)]))
        with ((pre ++ [(i, ob)]) ++ run_from false w' (h' ++ [(i, Get gt)])) by (now rewrite <- app_assoc).
      apply IH; try congruence.
      + intros o' Hin. apply Hc. now right.
      + intros e Hin. apply Hall. now right. }
  specialize (Hinv (filter (fun e => N.eqb (fst e) i) h) w0 eq_refl).
  apply (fun a b c => Hinv a b c [(i, OConstructed (pr_class p))]).
  - unfold w0. simpl. now rewrite N.eqb_refl.
  - intros o Hin. apply filter_In in Hin. apply Hno. tauto.
  - intros e Hin. apply filter_In in Hin. destruct Hin as [_ He]. now apply N.eqb_eq in He.
Qed.
