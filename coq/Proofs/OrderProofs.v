(* OrderProofs.v — C09 over the order of calls: the operation object is built before ([None]) or after
   ([Some (SCaps d)]) the <hello> exchange of the session it is later requested on.  Both orders reduce to
   [perform] (object built on the connected session) or to a construction that fails before anything is
   registered; the statements then follow from GatingProofs / VendorGatingProofs. *)
From Coq Require Import String List Bool.
From NC Require Import Model.Base Model.Lit Model.Caps Model.Xml Model.Gating Model.VendorGating.
From NC Require Import Spec.CapsSpec Spec.GatingSpec Spec.VendorGatingSpec Proofs.BaseFacts Proofs.CapsProofs Proofs.GatingProofs.
From NC Require Import Proofs.VendorGatingProofs.
Import ListNotations.

(* the moments an object can be built relative to the session [s] it is requested on *)
Definition moment_of (s : sess) (s0 : option sess) : Prop := s0 = None \/ s0 = Some s.

Lemma construct_nil s : construct s [] = ([EvRegister], None).
Proof. reflexivity. Qed.

Lemma prog_at_connected s deps prog : perform_prog_at (Some s) s deps prog = perform_prog s deps prog.
Proof. reflexivity. Qed.

Lemma prog_at_nodeps s prog : perform_prog_at None s [] prog = perform_prog s [] prog.
Proof. unfold perform_prog_at, perform_prog. simpl construct_at. now rewrite construct_nil. Qed.

Lemma prog_at_deps s k deps prog : perform_prog_at None s (k :: deps) prog = ([], Exn TypeError).
Proof. reflexivity. Qed.

Lemma perform_at_connected s c : perform_at (Some s) s c = perform s c.
Proof. reflexivity. Qed.

Lemma perform_at_early_nodeps s c : class_deps c = [] -> perform_at None s c = perform s c.
Proof. intros D. unfold perform_at. rewrite D, prog_at_nodeps, perform_is_prog, D. reflexivity. Qed.

Lemma perform_at_early_deps s c : class_deps c <> [] -> perform_at None s c = ([], Exn TypeError).
Proof. intros D. unfold perform_at. destruct (class_deps c) as [|k deps]; [congruence|]. apply prog_at_deps. Qed.

(* either the history is the one of an object built on the connected session, or the construction failed
   (TypeError) with nothing registered, nothing tested, nothing sent *)
Lemma perform_at_cases s s0 c : moment_of s s0 ->
  perform_at s0 s c = perform s c \/ (s0 = None /\ class_deps c <> [] /\ perform_at s0 s c = ([], Exn TypeError)).
Proof.
  intros [-> | ->].
  - destruct (class_deps c) as [|k deps] eqn:D.
    + left. now apply perform_at_early_nodeps.
    + right. split; [reflexivity|]. split; [congruence|]. apply perform_at_early_deps. congruence.
  - left. apply perform_at_connected.
Qed.

Section Order.
  Variable uris : list bytes.
  Let S := SCaps (caps_of uris).

  (* a documented dependency is not advertised: whatever the moment the object was built, the history ends in an
     exception and nothing was sent; the exception is MissingCapabilityError, or the TypeError of a construction
     attempted before the server's capabilities were known (then nothing was registered either) *)
  Lemma c09_order_refused : forall (s0 : option sess) (c : call) (k : bytes),
    moment_of S s0 -> In k (needs c) -> ~ advertised uris k ->
    exists e, snd (perform_at s0 S c) = Exn e
              /\ count_send (fst (perform_at s0 S c)) = 0%nat
              /\ (wellformed c = true -> e = MissingCapability \/ (s0 = None /\ e = TypeError /\ fst (perform_at s0 S c) = [])).
  Proof.
    intros s0 c k M Hin Hna. destruct (perform_at_cases S s0 c M) as [E | (E0 & D & E)]; rewrite E.
    - destruct (c09_refused uris c k Hin Hna) as (e & H1 & H2 & H3). exists e. repeat split; auto.
    - exists TypeError. simpl. repeat split; auto.
  Qed.

  (* what was sent is backed, whatever the moment the object was built *)
  Lemma c09_order_wire_backed : forall (s0 : option sess) (c : call) (w : wire) (k : bytes),
    moment_of S s0 -> snd (perform_at s0 S c) = Sent -> In w (wire_of c) -> In k (wire_needs w) -> advertised uris k.
  Proof.
    intros s0 c w k M H Hw Hk. destruct (perform_at_cases S s0 c M) as [E | (E0 & D & E)]; rewrite E in H.
    - exact (c09_wire_backed uris c w k H Hw Hk).
    - discriminate.
  Qed.

  Lemma c09_order_sent_needs : forall (s0 : option sess) (c : call) (k : bytes),
    moment_of S s0 -> snd (perform_at s0 S c) = Sent -> In k (needs c) -> advertised uris k.
  Proof.
    intros s0 c k M H Hin. destruct (perform_at_cases S s0 c M) as [E | (E0 & D & E)]; rewrite E in H.
    - destruct (sent_needs uris c H) as [_ A]. now apply A.
    - discriminate.
  Qed.

  Lemma c09_order_sent_mode : forall (s0 : option sess) (c : call) (norm : bytes),
    moment_of S s0 -> snd (perform_at s0 S c) = Sent -> wd_of c = Some norm -> wd_accepts uris norm.
  Proof.
    intros s0 c norm M H Hwd. destruct (perform_at_cases S s0 c M) as [E | (E0 & D & E)]; rewrite E in H.
    - exact (c09_sent_mode uris c norm H Hwd).
    - discriminate.
  Qed.

  (* everything advertised: an object built on the connected session — or built early by a class without DEPENDS —
     sends its request, once *)
  Lemma c09_order_allowed : forall (s0 : option sess) (c : call),
    moment_of S s0 -> (s0 = None -> class_deps c = []) ->
    wellformed c = true -> (forall k, In k (needs c) -> advertised uris k) ->
    (forall norm, wd_of c = Some norm -> wd_accepts uris norm /\ xml_chars_ok norm = true) ->
    snd (perform_at s0 S c) = Sent /\ count_send (fst (perform_at s0 S c)) = 1%nat.
  Proof.
    intros s0 c M D W A Wd. destruct (perform_at_cases S s0 c M) as [E | (E0 & D' & E)].
    - rewrite E. now apply c09_allowed.
    - exfalso. apply D'. now apply D.
  Qed.

  (* the vendor classes declare no DEPENDS: building them early changes nothing *)
  Lemma vperform_at_same : forall (s0 : option sess) (s : sess) (c : vgcall),
    moment_of s s0 -> vperform_at s0 s c = vperform s c.
  Proof.
    intros s0 s c [-> | ->]; unfold vperform_at, vperform, vg_deps.
    - apply prog_at_nodeps.
    - apply prog_at_connected.
  Qed.

  Lemma c09_order_vendor_wire_backed : forall (s0 : option sess) (c : vgcall) (w : wire) (k : bytes),
    moment_of S s0 -> snd (vperform_at s0 S c) = Sent -> In w (vwire_of c) -> In k (wire_needs w) -> advertised uris k.
  Proof.
    intros s0 c w k M H Hw Hk. rewrite (vperform_at_same s0 S c M) in H.
    exact (c09_vendor_wire_backed uris c w k H Hw Hk).
  Qed.

  Lemma c09_order_vendor_refused : forall (s0 : option sess) (c : vgcall) (k : bytes),
    moment_of S s0 -> In k (vneeds c) -> ~ advertised uris k ->
    exists e, snd (vperform_at s0 S c) = Exn e
              /\ count_send (fst (vperform_at s0 S c)) = 0%nat
              /\ (vwellformed c = true -> e = MissingCapability).
  Proof.
    intros s0 c k M Hin Hna. rewrite (vperform_at_same s0 S c M). exact (c09_vendor_refused uris c k Hin Hna).
  Qed.
End Order.

(* whatever the two sessions and the call: an exception means no send, a sent request exactly one *)
Lemma c09_order_send_once : forall (s0 : option sess) (s : sess) (c : call),
  match snd (perform_at s0 s c) with
  | Sent => count_send (fst (perform_at s0 s c)) = 1%nat
  | Exn _ => count_send (fst (perform_at s0 s c)) = 0%nat
  end.
Proof.
  intros s0 s c. unfold perform_at, perform_prog_at.
  assert (Q : count_send (fst (construct_at s0 (class_deps c))) = 0%nat).
  { destruct s0 as [s1|]; simpl; [apply construct_quiet|]. destruct (class_deps c); reflexivity. }
  destruct (construct_at s0 (class_deps c)) as [tr [e|]]; simpl in *; [exact Q|].
  pose proof (run_steps_quiet s (steps_of c)) as [Q' _].
  destruct (run_steps s (steps_of c)) as [tr' [e|]]; simpl in *.
  - now rewrite count_send_app, Q, Q'.
  - rewrite !count_send_app, Q, Q'. reflexivity.
Qed.
