(* Proofs/TakeNotifProofs.v — the last sentence of C11 on Model/TakeNotif.v *)
From Coq Require Import ZArith Lia.
From NC Require Import Model.Base Model.TakeNotif.
Open Scope Z_scope.

Lemma c11_take_nonblocking_empty : forall t arr,
  manager_take false t (mkenv [] arr) = Ret None 0.
Proof. intros t arr. reflexivity. Qed.

Lemma c11_take_timeout_empty : forall z arr,
  0 <= z -> (forall a n, In (a, n) arr -> z <= a) ->
  manager_take true (TNum z) (mkenv [] arr) = Ret None z.
Proof.
  intros z arr Hz Harr. unfold manager_take, session_take, queue_get. cbn [negb queued arrivals].
  destruct (z <? 0) eqn:Hneg; [apply Z.ltb_lt in Hneg; lia|].
  destruct arr as [|[a n] arr']; [reflexivity|].
  assert (Ha : z <= a) by (apply (Harr a n); left; reflexivity).
  destruct (a <? z) eqn:Hlt; [apply Z.ltb_lt in Hlt; lia|reflexivity].
Qed.

Lemma c11_take_timeout_zero : forall arr,
  (forall a n, In (a, n) arr -> 0 <= a) ->
  manager_take true (TNum 0) (mkenv [] arr) = Ret None 0.
Proof. intros arr H. apply c11_take_timeout_empty; [lia|exact H]. Qed.

Lemma c11_take_arrival_in_time : forall z a n arr,
  0 <= a -> a < z ->
  manager_take true (TNum z) (mkenv [] ((a, n) :: arr)) = Ret (Some n) a.
Proof.
  intros z a n arr Ha Haz. unfold manager_take, session_take, queue_get. cbn [negb queued arrivals].
  destruct (z <? 0) eqn:Hneg; [apply Z.ltb_lt in Hneg; lia|].
  destruct (a <? z) eqn:Hlt; [|apply Z.ltb_ge in Hlt; lia].
  rewrite Z.max_r by lia. reflexivity.
Qed.

Lemma c11_take_untimed : forall arr,
  manager_take true TNone (mkenv [] arr) =
  match arr with [] => Blocks | (a, n) :: _ => Ret (Some n) (Z.max 0 a) end.
Proof. intros [|[a n] arr]; reflexivity. Qed.

Lemma c11_take_untimed_never_none : forall e at_,
  manager_take true TNone e <> Ret None at_.
Proof.
  intros [q arr] at_. unfold manager_take, session_take, queue_get. cbn [negb queued arrivals].
  destruct q as [|n q]; [destruct arr as [|[a n] arr]|]; discriminate.
Qed.

Lemma c11_take_queued : forall b t n q arr,
  (forall z, b = true -> t = TNum z -> 0 <= z) ->
  manager_take b t (mkenv (n :: q) arr) = Ret (Some n) 0 /\
  queue_after (manager_take b t (mkenv (n :: q) arr)) (mkenv (n :: q) arr) = q.
Proof.
  intros b t n q arr Ht.
  assert (E : manager_take b t (mkenv (n :: q) arr) = Ret (Some n) 0).
  { unfold manager_take, session_take, queue_get. cbn [queued arrivals].
    destruct b; cbn [negb]; [|reflexivity].
    destruct t as [|z]; [reflexivity|].
    destruct (z <? 0) eqn:Hneg; [apply Z.ltb_lt in Hneg; specialize (Ht z eq_refl eq_refl); lia|reflexivity]. }
  rewrite E. split; reflexivity.
Qed.

(* None is returned only with nothing queued, at once when non-blocking and exactly at the timeout otherwise *)
Lemma c11_take_none_inv : forall b t e at_,
  manager_take b t e = Ret None at_ ->
  queued e = [] /\
  ((b = false /\ at_ = 0) \/
   (b = true /\ exists z, t = TNum z /\ 0 <= z /\ at_ = z /\
                forall a n, hd_error (arrivals e) = Some (a, n) -> z <= a)).
Proof.
  intros b t [q arr] at_. unfold manager_take, session_take, queue_get. cbn [queued arrivals].
  destruct b; cbn [negb].
  - destruct t as [|z].
    + destruct q as [|n q]; [destruct arr as [|[a n] arr]|]; discriminate.
    + destruct (z <? 0) eqn:Hneg; [discriminate|]. apply Z.ltb_ge in Hneg.
      destruct q as [|n q]; [|discriminate].
      destruct arr as [|[a n] arr].
      * intros H. injection H as H. split; [reflexivity|]. right. split; [reflexivity|].
        exists z. repeat split; try lia. intros a n Hh. discriminate.
      * destruct (a <? z) eqn:Hlt; [discriminate|]. apply Z.ltb_ge in Hlt.
        intros H. injection H as H. split; [reflexivity|]. right. split; [reflexivity|].
        exists z. repeat split; try lia. intros a' n' Hh. cbn in Hh. injection Hh as Ha Hn. lia.
  - destruct q as [|n q]; [|discriminate]. intros H. injection H as H.
    split; [reflexivity|]. left. split; [reflexivity|lia].
Qed.

(* the wrapper adds nothing: every call form is Queue.get with Empty turned into None *)
Lemma c11_take_wrapper : forall ob ot e,
  manager_call ob ot e =
  match queue_get (match ob with Some b => b | None => true end) (match ot with Some t => t | None => TNone end) e with
  | QItem n a => Ret (Some n) a | QEmpty a => Ret None a | QForever => Blocks | QValueError => RaisesValueError
  end.
Proof. intros ob ot e. reflexivity. Qed.

Lemma c11_take_default_blocks : forall e,
  manager_call None None e = manager_take true TNone e.
Proof. intros e. reflexivity. Qed.
