(* JunosProcessProofs.v — several sessions in one process (Model/JunosProcess.v): under ANY schedule every session ends
   in the state it reaches alone over its own reads; hence the process state does not depend on how the sessions'
   reads interleave, equals the one reached when the sessions run one after the other, and (base:1.0 driver, with the
   segmentation theorem) depends on each session's octets only. *)
From Coq Require Import List Arith Lia.
Import ListNotations.
From NC Require Import Model.Base Model.JunosParse Model.JunosSax Model.JunosProcess.
From NC Require Import Proofs.JunosParseProofs Proofs.JunosSaxProofs.
Local Open Scope nat_scope.

Lemma upd_length {A} (f : A -> A) : forall l k, length (upd k f l) = length l.
Proof. induction l as [|x t IH]; intros [|k]; cbn; auto. Qed.

Lemma upd_nth_eq {A} (f : A -> A) : forall l k, nth_error (upd k f l) k = option_map f (nth_error l k).
Proof. induction l as [|x t IH]; intros [|k]; cbn; auto. Qed.

Lemma upd_nth_neq {A} (f : A -> A) : forall l k j, j <> k -> nth_error (upd k f l) j = nth_error l j.
Proof.
  induction l as [|x t IH]; intros [|k] [|j] Hn; cbn; try reflexivity; try congruence.
  apply IH. congruence.
Qed.

Lemma nth_error_ext {A} : forall l1 l2 : list A, (forall k, nth_error l1 k = nth_error l2 k) -> l1 = l2.
Proof.
  induction l1 as [|x t IH]; intros [|y u] H.
  - reflexivity.
  - specialize (H 0). discriminate H.
  - specialize (H 0). discriminate H.
  - pose proof (H 0) as H0. cbn in H0. injection H0 as ->. f_equal. apply IH. intro k. exact (H (S k)).
Qed.

Section Process.
  Variable St : Type.
  Variable parse : St -> bytes -> St.
  Notation prun := (prun St parse).
  Notation reads_of := (reads_of).

  Lemma prun_length : forall sched ss, length (prun ss sched) = length ss.
  Proof.
    induction sched as [|r t IH]; intro ss; cbn; [reflexivity|].
    change (length (prun (pstep St parse ss r) t) = length ss). rewrite IH. unfold pstep. apply upd_length.
  Qed.

  (* every session ends where it ends alone, over its own reads *)
  Lemma prun_nth : forall sched ss k,
    nth_error (prun ss sched) k = option_map (fun s => fold_left parse (reads_of k sched) s) (nth_error ss k).
  Proof.
    induction sched as [|[j r] t IH]; intros ss k.
    - cbn. destruct (nth_error ss k); reflexivity.
    - change (prun ss ((j, r) :: t)) with (prun (pstep St parse ss (j, r)) t). rewrite IH.
      unfold pstep, JunosProcess.reads_of. cbn [fst snd filter].
      destruct (Nat.eqb_spec j k) as [->|Hn].
      + rewrite upd_nth_eq. destruct (nth_error ss k); reflexivity.
      + rewrite upd_nth_neq by congruence. reflexivity.
  Qed.

  (* two schedules that give every session the same reads leave the same process state *)
  Lemma prun_ext : forall ss s1 s2,
    (forall k, k < length ss -> reads_of k s1 = reads_of k s2) -> prun ss s1 = prun ss s2.
  Proof.
    intros ss s1 s2 H. apply nth_error_ext. intro k. rewrite !prun_nth.
    destruct (nth_error ss k) eqn:E; [|reflexivity].
    rewrite H; [reflexivity|]. apply nth_error_Some. congruence.
  Qed.

  Lemma reads_of_app : forall k a b, reads_of k (a ++ b) = reads_of k a ++ reads_of k b.
  Proof. intros. unfold JunosProcess.reads_of. rewrite filter_app, map_app. reflexivity. Qed.

  Lemma reads_of_tagged : forall k j l, reads_of k (map (pair j) l) = if Nat.eqb j k then l else [].
  Proof.
    intros k j l. unfold JunosProcess.reads_of. induction l as [|x t IH]; cbn [map filter fst].
    - destruct (Nat.eqb j k); reflexivity.
    - destruct (Nat.eqb j k) eqn:E; cbn [map snd]; rewrite IH; reflexivity.
  Qed.

  Lemma reads_of_one_by_one_seq : forall sched k n a,
    reads_of k (flat_map (fun j => map (pair j) (reads_of j sched)) (seq a n)) =
    if (a <=? k) && (k <? a + n) then reads_of k sched else [].
  Proof.
    intros sched k. induction n as [|n IH]; intro a; cbn [seq flat_map].
    - destruct (Nat.leb_spec a k), (Nat.ltb_spec k (a + 0)); cbn [andb]; try reflexivity. lia.
    - rewrite reads_of_app, reads_of_tagged, IH.
      destruct (Nat.eqb_spec a k), (Nat.leb_spec (S a) k), (Nat.ltb_spec k (S a + n)),
               (Nat.leb_spec a k), (Nat.ltb_spec k (a + S n));
        cbn [andb app]; try rewrite app_nil_r; try subst a; try reflexivity; lia.
  Qed.

  (* ... in particular the state reached when the sessions run one after the other *)
  Lemma prun_one_by_one : forall ss sched, prun ss sched = prun ss (one_by_one (length ss) sched).
  Proof.
    intros ss sched. apply prun_ext. intros k Hk. unfold one_by_one. rewrite reads_of_one_by_one_seq.
    replace (0 <=? k) with true by (symmetry; apply Nat.leb_le; lia).
    replace (k <? 0 + length ss) with true by (symmetry; apply Nat.ltb_lt; lia). reflexivity.
  Qed.

  (* when what a session reaches depends on the octets it reads only (and on whether it reads at all), so does the
     process *)
  Hypothesis reads_indep : forall s r1 r2, r1 <> [] -> r2 <> [] -> concat r1 = concat r2 ->
    fold_left parse r1 s = fold_left parse r2 s.

  Lemma prun_octets : forall ss s1 s2,
    (forall k, k < length ss ->
       concat (reads_of k s1) = concat (reads_of k s2) /\ (reads_of k s1 = [] <-> reads_of k s2 = [])) ->
    prun ss s1 = prun ss s2.
  Proof.
    intros ss s1 s2 H. apply nth_error_ext. intro k. rewrite !prun_nth.
    destruct (nth_error ss k) eqn:E; [|reflexivity]. cbn [option_map]. f_equal.
    assert (k < length ss) as Hk by (apply nth_error_Some; congruence).
    destruct (H k Hk) as [Hc He].
    destruct (reads_of k s1) as [|a1 t1] eqn:E1.
    - destruct He as [He _]. rewrite (He eq_refl). reflexivity.
    - destruct (reads_of k s2) as [|a2 t2] eqn:E2.
      + destruct He as [_ He]. discriminate (He eq_refl).
      + apply reads_indep; [discriminate|discriminate|exact Hc].
  Qed.
End Process.

(* the process the correspondence runs (sessions in end-of-message or chunked framing, SAX instance) *)
Lemma c18_sessions_alone : forall ss sched k,
  nth_error (sx_prun ss sched) k = option_map (fun s => fold_left sparse (reads_of k sched) s) (nth_error ss k).
Proof. intros. apply prun_nth. Qed.

Lemma c18_sessions_one_by_one : forall ss sched, sx_prun ss sched = sx_prun ss (one_by_one (length ss) sched).
Proof. intros. apply prun_one_by_one. Qed.

(* base:1.0 driver, any machine that meets the two conditions of the segmentation theorem, any dispatch function *)
Lemma c18_sessions_octets :
  forall (W X : Type) (xnew : W -> X) (xstep : W -> X -> N -> xres X) (xrooted : X -> bool)
         (dispatch : W -> bool -> bytes -> dres W),
    (forall w x c x' o, xstep w x c = XOk x' o -> xrooted x = true -> xrooted x' = true) ->
    (forall w, xrooted (xnew w) = false) ->
    forall ss s1 s2,
      (forall k, k < length ss ->
         concat (reads_of k s1) = concat (reads_of k s2) /\ (reads_of k s1 = [] <-> reads_of k s2 = [])) ->
      prun _ (JunosParse.parse W X xnew xstep xrooted dispatch) ss s1 =
      prun _ (JunosParse.parse W X xnew xstep xrooted dispatch) ss s2.
Proof.
  intros W X xnew xstep xrooted dispatch Hm Hn ss s1 s2 H. apply prun_octets; [|exact H].
  intros s r1 r2 H1 H2 Hc.
  exact (c18_reads_independent W X xnew xstep xrooted dispatch Hm Hn s r1 r2 H1 H2 Hc).
Qed.
