(* JunosParseProofs.v — proofs about Model/JunosParse.v: the result of JunosXMLParser.parse over a byte stream does
   not depend on how the stream is cut into reads (go_app, parse_app, run_concat), and no octet of an end-of-message
   delimiter reaches the XML parser (fed_frames). *)
From NC Require Import Model.Base Model.Utf8 Model.Framing10 Model.JunosParse.
From NC Require Import Proofs.BaseFacts Proofs.ListFacts.

(* ------------------------------------------------------------------ octet strings *)
Lemma ws_not_rb c : is_bws c = true -> N.eqb c 93 = false.
Proof. destruct (N.eqb_spec c 93) as [->|]; [vm_compute; discriminate | reflexivity]. Qed.

Lemma bblank_app a b : bblank (a ++ b) = bblank a && bblank b.
Proof. apply forallb_app. Qed.

Lemma blstrip_blank_app r t : bblank r = true -> blstrip (r ++ t) = blstrip t.
Proof.
  induction r as [|c r IH]; intros H; [reflexivity|]. cbn in H. apply andb_true_iff in H as [Hc Hr].
  cbn. rewrite Hc. auto.
Qed.

Lemma blstrip_nil_blank p : blstrip p = [] -> bblank p = true.
Proof.
  induction p as [|c p IH]; [reflexivity|]. cbn [blstrip bblank forallb]. destruct (is_bws c); intros H; [cbn; auto | discriminate H].
Qed.

Lemma blank_blstrip p : bblank p = true -> blstrip p = [].
Proof. intros H. rewrite <- (app_nil_r p). rewrite blstrip_blank_app; auto. Qed.

Lemma blstrip_app_cons p t c q : blstrip p = c :: q -> blstrip (p ++ t) = (c :: q) ++ t.
Proof.
  induction p as [|a p IH]; [discriminate|]. cbn [blstrip app]. destruct (is_bws a); [auto|].
  intros E. injection E as -> ->. reflexivity.
Qed.

Lemma blstrip_idem_app p t : blstrip (blstrip p ++ t) = blstrip (p ++ t).
Proof.
  induction p as [|a p IH]; [reflexivity|]. cbn [blstrip app]. destruct (is_bws a) eqn:E; [auto|]. cbn [blstrip app]. rewrite E. reflexivity.
Qed.

Lemma blstrip_len p : (length (blstrip p) <= length p)%nat.
Proof. induction p as [|a p IH]; cbn [blstrip length]; [lia|]. destruct (is_bws a); cbn [length]; lia. Qed.

(* the hold-back, structurally: the longest end of the string that is a proper beginning of the delimiter *)
Definition short_prefix (b : bytes) : bool := (length b <? 6)%nat && prefixb b delim10.
Fixpoint hb (b : bytes) : bytes * bytes :=
  match b with
  | [] => ([], [])
  | c :: r => if short_prefix b then ([], b) else let (m, h) := hb r in (c :: m, h)
  end.

Lemma hb_split : forall u p h, hb u = (p, h) -> u = p ++ h.
Proof.
  induction u as [|c u IH]; intros p h H; cbn [hb] in H.
  - injection H as <- <-. reflexivity.
  - destruct (short_prefix (c :: u)); [injection H as <- <-; reflexivity|].
    destruct (hb u) as [m h0]. injection H as <- <-. cbn. f_equal. auto.
Qed.

Lemma find_nil_prefix u : find_sub delim10 u = None -> prefixb delim10 u = false.
Proof. destruct u; cbn [find_sub]; destruct (prefixb delim10 _); auto; discriminate. Qed.

Lemma find_tail c u : find_sub delim10 (c :: u) = None -> find_sub delim10 u = None.
Proof.
  cbn [find_sub]. destruct (prefixb delim10 (c :: u)); [discriminate|].
  destruct (find_sub delim10 u) as [[? ?]|]; [discriminate | reflexivity].
Qed.

Lemma not_short_app u b : short_prefix u = false -> short_prefix (u ++ b) = false.
Proof.
  intros H. destruct (short_prefix (u ++ b)) eqn:E; [|reflexivity]. exfalso.
  unfold short_prefix in *. apply andb_true_iff in E as [L P]. apply Nat.ltb_lt in L.
  apply prefixb_spec in P as [q P]. rewrite app_length in L.
  assert (prefixb u delim10 = true) by (apply prefixb_spec; exists (b ++ q); rewrite P, app_assoc; reflexivity).
  assert ((length u <? 6)%nat = true) by (apply Nat.ltb_lt; lia).
  rewrite H0, H1 in H. discriminate.
Qed.

Lemma not_short_no_start u b : short_prefix u = false -> prefixb delim10 u = false -> prefixb delim10 (u ++ b) = false.
Proof.
  intros S P. destruct (prefixb delim10 (u ++ b)) eqn:E; [|reflexivity]. exfalso.
  apply prefixb_spec in E as [q E]. apply app_eq_app in E as [l [[E1 E2]|[E1 E2]]].
  - assert (prefixb delim10 u = true) by (apply prefixb_spec; eauto). congruence.
  - destruct l as [|x l].
    + rewrite app_nil_r in E1. subst u. rewrite (proj2 (prefixb_spec delim10 delim10)) in P; [discriminate|].
      exists []. now rewrite app_nil_r.
    + unfold short_prefix in S.
      assert (prefixb u delim10 = true) as Hp by (apply prefixb_spec; eauto).
      assert ((length u <? 6)%nat = true) as Hl.
      { apply Nat.ltb_lt. apply (f_equal (@length N)) in E1. rewrite app_length in E1. cbn in E1. lia. }
      rewrite Hp, Hl in S. discriminate.
Qed.

(* L1: the first delimiter of a string that goes on, in terms of what was held back *)
Lemma hb_find : forall u p h b, find_sub delim10 u = None -> hb u = (p, h) ->
  find_sub delim10 (u ++ b) = match find_sub delim10 (h ++ b) with Some (m, r) => Some (p ++ m, r) | None => None end.
Proof.
  induction u as [|c u IH]; intros p h b F H; cbn [hb] in H.
  - injection H as <- <-. cbn [app]. destruct (find_sub delim10 b) as [[? ?]|]; reflexivity.
  - destruct (short_prefix (c :: u)) eqn:S.
    + injection H as <- <-. cbn [app]. destruct (find_sub delim10 (c :: u ++ b)) as [[? ?]|]; reflexivity.
    + destruct (hb u) as [m h0] eqn:Hu. injection H as <- <-.
      change ((c :: u) ++ b) with (c :: u ++ b). cbn [find_sub].
      pose proof (not_short_no_start (c :: u) b S (find_nil_prefix _ F)) as NP. cbn [app] in NP. rewrite NP.
      rewrite (IH m h0 b (find_tail _ _ F) eq_refl).
      destruct (find_sub delim10 (h0 ++ b)) as [[? ?]|]; reflexivity.
Qed.

(* L2: the same for the hold-back *)
Lemma hb_hold : forall u p h b, hb u = (p, h) -> hb (u ++ b) = let (m, h') := hb (h ++ b) in (p ++ m, h').
Proof.
  induction u as [|c u IH]; intros p h b H; cbn [hb] in H.
  - injection H as <- <-. cbn [app]. destruct (hb b); reflexivity.
  - destruct (short_prefix (c :: u)) eqn:S.
    + injection H as <- <-. cbn [app]. destruct (hb (c :: u ++ b)); reflexivity.
    + destruct (hb u) as [m h0] eqn:Hu. injection H as <- <-.
      change ((c :: u) ++ b) with (c :: u ++ b). cbn [hb].
      pose proof (not_short_app (c :: u) b S) as NS. cbn [app] in NS. rewrite NS.
      rewrite (IH m h0 b eq_refl). destruct (hb (h0 ++ b)); reflexivity.
Qed.

Lemma blank_find r : bblank r = true -> find_sub delim10 r = None.
Proof.
  induction r as [|c r IH]; intros H; [reflexivity|]. cbn in H. apply andb_true_iff in H as [Hc Hr].
  cbn [find_sub]. assert (prefixb delim10 (c :: r) = false) as ->.
  { cbn [prefixb delim10]. rewrite N.eqb_sym, (ws_not_rb c Hc). reflexivity. }
  rewrite (IH Hr). reflexivity.
Qed.

Lemma hb_blank r : bblank r = true -> hb r = (r, []).
Proof.
  induction r as [|c r IH]; intros H; [reflexivity|]. cbn in H. apply andb_true_iff in H as [Hc Hr].
  cbn [hb]. assert (short_prefix (c :: r) = false) as ->.
  { unfold short_prefix. cbn [prefixb delim10]. rewrite (ws_not_rb c Hc). cbn. apply andb_false_r. }
  rewrite (IH Hr). reflexivity.
Qed.

Lemma blank_find_app r b : bblank r = true ->
  find_sub delim10 (r ++ b) = match find_sub delim10 b with Some (m, q) => Some (r ++ m, q) | None => None end.
Proof. intros H. apply (hb_find r r [] b (blank_find r H) (hb_blank r H)). Qed.

Lemma blank_hb_app r b : bblank r = true -> hb (r ++ b) = let (m, h') := hb b in (r ++ m, h').
Proof. intros H. apply (hb_hold r r [] b (hb_blank r H)). Qed.

(* ---- the loop of the code (n = 5 .. 1, endswith) computes the structural hold-back ---- *)
Lemma firstn_delim_len j : (j <= 6)%nat -> length (firstn j delim10) = j.
Proof. intros H. rewrite firstn_length. cbn. lia. Qed.

Lemma prefix_firstn : forall u d, prefixb u d = true -> u = firstn (length u) d.
Proof.
  induction u as [|a u IH]; intros d H; [reflexivity|]. destruct d as [|b d]; [discriminate|].
  cbn in H. apply andb_true_iff in H as [E H]. apply N.eqb_eq in E. subst b. cbn. f_equal. auto.
Qed.

Lemma firstn_prefix : forall j (d : bytes), prefixb (firstn j d) d = true.
Proof.
  induction j as [|j IH]; intros d; [reflexivity|]. destruct d as [|b d]; [reflexivity|].
  cbn. rewrite N.eqb_refl. cbn. auto.
Qed.

Lemma ends_with_cons c r pat : (length pat <= length r)%nat -> ends_with (c :: r) pat = ends_with r pat.
Proof.
  intros H. unfold ends_with. cbn [length].
  replace (S (length r) - length pat)%nat with (S (length r - length pat)) by lia. cbn [skipn].
  destruct (Nat.leb_spec (length pat) (length r)); [|lia].
  destruct (Nat.leb_spec (length pat) (S (length r))); [|lia]. reflexivity.
Qed.

Lemma ends_with_long u pat : (length u < length pat)%nat -> ends_with u pat = false.
Proof. intros H. unfold ends_with. destruct (Nat.leb_spec (length pat) (length u)); [lia|reflexivity]. Qed.

Lemma ends_with_all u pat : length u = length pat -> ends_with u pat = beq u pat.
Proof.
  intros H. unfold ends_with. rewrite H, Nat.sub_diag. cbn [skipn].
  destruct (Nat.leb_spec (length pat) (length pat)); [reflexivity|lia].
Qed.

Lemma hb_spec : forall u p h, hb u = (p, h) ->
  h = firstn (length h) delim10 /\ (length h <= 5)%nat /\
  (forall j, (length h < j <= 5)%nat -> ends_with u (firstn j delim10) = false).
Proof.
  induction u as [|c u IH]; intros p h H; cbn [hb] in H.
  - injection H as <- <-. repeat split; [cbn; lia|]. intros j Hj. apply ends_with_long.
    rewrite firstn_delim_len; cbn; lia.
  - destruct (short_prefix (c :: u)) eqn:SP.
    + injection H as <- <-. unfold short_prefix in SP. apply andb_true_iff in SP as [L P]. apply Nat.ltb_lt in L.
      repeat split; [apply prefix_firstn; exact P | lia |].
      intros j Hj. apply ends_with_long. rewrite firstn_delim_len; lia.
    + destruct (hb u) as [m h0] eqn:Hu. injection H as <- <-.
      destruct (IH m h0 eq_refl) as (A & B & C). repeat split; auto.
      intros j Hj. destruct (Nat.le_gt_cases j (length u)) as [Le|Gt].
      * rewrite ends_with_cons by (rewrite firstn_delim_len; lia). auto.
      * destruct (Nat.eq_dec j (S (length u))) as [->|Ne].
        -- rewrite ends_with_all by (rewrite firstn_delim_len; cbn; lia).
           destruct (beq (c :: u) (firstn (S (length u)) delim10)) eqn:E; [|reflexivity]. exfalso.
           apply beq_eq in E. unfold short_prefix in SP.
           assert (prefixb (c :: u) delim10 = true) as Hp by (rewrite E; apply firstn_prefix).
           assert ((length (c :: u) <? 6)%nat = true) as Hl by (apply Nat.ltb_lt; cbn; lia).
           rewrite Hp, Hl in SP. discriminate.
        -- apply ends_with_long. rewrite firstn_delim_len; cbn; lia.
Qed.

Lemma hb_try_char u k : forall n, (k <= n)%nat -> (n <= 5)%nat ->
  (forall j, (k < j <= n)%nat -> ends_with u (firstn j delim10) = false) ->
  ((1 <= k)%nat -> ends_with u (firstn k delim10) = true) ->
  hb_try n u = (firstn (length u - k) u, skipn (length u - k) u).
Proof.
  induction n as [|n IH]; intros Hk Hn Hmax Hat.
  - assert (k = 0)%nat as -> by lia. cbn [hb_try]. rewrite Nat.sub_0_r, firstn_all, skipn_all. reflexivity.
  - cbn [hb_try]. destruct (Nat.eq_dec k (S n)) as [->|Ne].
    + rewrite Hat by lia. reflexivity.
    + rewrite Hmax by lia. apply IH; try lia; auto. intros j Hj. apply Hmax. lia.
Qed.

Lemma holdback_hb u : holdback u = hb u.
Proof.
  destruct (hb u) as [p h] eqn:H. destruct (hb_spec u p h H) as (A & B & C).
  pose proof (hb_split u p h H) as E. unfold holdback.
  rewrite (hb_try_char u (length h) 5); try lia; auto.
  - subst u. rewrite app_length. replace (length p + length h - length h)%nat with (length p) by lia.
    rewrite firstn_app, Nat.sub_diag, firstn_all. cbn [firstn]. rewrite app_nil_r.
    rewrite skipn_app, Nat.sub_diag, skipn_all. reflexivity.
  - intros _. rewrite <- A. unfold ends_with. subst u. rewrite app_length.
    replace (length p + length h - length h)%nat with (length p) by lia.
    rewrite skipn_app, Nat.sub_diag, skipn_all. cbn [skipn app]. rewrite beq_refl.
    destruct (Nat.leb_spec (length h) (length p + length h)); [reflexivity|lia].
Qed.

Lemma addfed_nil (f : list bytes) : addfed [] f = f.
Proof. destruct f; cbn; [reflexivity|]. now rewrite app_nil_r. Qed.
Lemma addfed_addfed u v (f : list bytes) : addfed v (addfed u f) = addfed (u ++ v) f.
Proof. destruct f; cbn; [reflexivity|]. now rewrite app_assoc. Qed.

(* ------------------------------------------------------------------ the driver *)
Section DriverProofs.
  Variables W X : Type.
  Variable xnew : W -> X.
  Variable xstep : W -> X -> N -> xres X.
  Variable xrooted : X -> bool.
  Variable dispatch : W -> bool -> bytes -> dres W.
  (* the handler's _root, once set, stays set; a new parser has none *)
  Hypothesis Hmono : forall w x c x' o, xstep w x c = XOk x' o -> xrooted x = true -> xrooted x' = true.
  Hypothesis Hnew : forall w, xrooted (xnew w) = false.

  Local Notation feed' := (feed W X xstep xrooted).
  Local Notation go' := (go W X xnew xstep xrooted dispatch).
  Local Notation dom' := (dom_body W X xnew dispatch).
  Local Notation onx' := (on_exc W X xnew dispatch).
  Local Notation fresh' := (fresh W X xnew).
  Local Notation cont' := (cont W X).
  Local Notation started' := (started X xrooted).
  Local Notation st' := (st W X).

  Definition shift (o1 p : bytes) (r : fres X) : fres X :=
    match r with
    | FOk x o => FOk x (o1 ++ o)
    | FSwitch rt o u => FSwitch rt (o1 ++ o) (p ++ u)
    | FErr u => FErr (p ++ u)
    | FExc e u => FExc e (p ++ u)
    end.

  Lemma feed_app w : forall a x b,
    feed' w x (a ++ b) = match feed' w x a with FOk x' o => shift o a (feed' w x' b) | r => r end.
  Proof.
    induction a as [|c a IH]; intros x b.
    - cbn [app feed]. destruct (feed' w x b); reflexivity.
    - cbn [app feed]. destruct (xstep w x c) as [x' o| | |]; try reflexivity.
      rewrite IH. destruct (feed' w x' a) as [x2 o2| | |]; try reflexivity.
      destruct (feed' w x2 b); cbn [shift]; rewrite ?app_assoc; reflexivity.
  Qed.

  Lemma feed_mono w : forall a x x' o, feed' w x a = FOk x' o -> xrooted x = true -> xrooted x' = true.
  Proof.
    induction a as [|c a IH]; intros x x' o H R; cbn [feed] in H.
    - injection H as <- _. exact R.
    - destruct (xstep w x c) as [x1 o1| | |] eqn:E; try discriminate.
      destruct (feed' w x1 a) as [x2 o2| | |] eqn:F; try discriminate. injection H as <- _.
      eapply IH; eauto.
  Qed.

  Lemma feed_switch_unrooted w : forall a x o u, feed' w x a = FSwitch false o u -> xrooted x = false.
  Proof.
    induction a as [|c a IH]; intros x o u H; cbn [feed] in H; [discriminate|].
    destruct (xstep w x c) as [x1 o1|o1| |] eqn:E; try discriminate.
    - destruct (feed' w x1 a) as [x2 o2|rt o2 u2| |] eqn:F; try discriminate. injection H as -> _ _.
      destruct (xrooted x) eqn:R; [|reflexivity].
      pose proof (IH _ _ _ F) as Q. rewrite (Hmono _ _ _ _ _ E R) in Q. discriminate.
    - injection H as -> _ _. reflexivity.
  Qed.

  Definition sfun (head : bytes) (x : X) (m : bytes) : bytes := if started' head x then m else blstrip m.

  Lemma sfun_len head x m : (length (sfun head x m) <= length m)%nat.
  Proof. unfold sfun. destruct (started' head x); [lia | apply blstrip_len]. Qed.

  Lemma sfun_split w head x p m x1 o1 : feed' w x (sfun head x p) = FOk x1 o1 ->
    sfun head x (p ++ m) = sfun head x p ++ sfun (if xrooted x1 then [] else head ++ sfun head x p) x1 m.
  Proof.
    unfold sfun. intros F. destruct (started' head x) eqn:S0.
    - assert (started' (if xrooted x1 then [] else head ++ p) x1 = true) as ->; [|reflexivity].
      unfold started in *. destruct (xrooted x1) eqn:R1; [apply orb_true_r|].
      apply orb_true_iff in S0 as [S0|S0].
      + destruct head; [discriminate|reflexivity].
      + rewrite (feed_mono _ _ _ _ _ F S0) in R1. discriminate.
    - unfold started in S0. apply orb_false_iff in S0 as [S0 R0]. destruct head; [|discriminate].
      destruct (blstrip p) as [|c t] eqn:BP.
      + cbn [feed] in F. injection F as <- _. unfold started. rewrite R0. cbn.
        apply blstrip_blank_app, blstrip_nil_blank, BP.
      + rewrite (blstrip_app_cons _ _ _ _ BP).
        assert (started' (if xrooted x1 then [] else [] ++ c :: t) x1 = true) as ->; [|reflexivity].
        unfold started. destruct (xrooted x1); [apply orb_true_r|reflexivity].
  Qed.

  (* when the first part already raises, the whole raises the same way *)
  Lemma sfun_prefix w head x p m : (forall x1 o1, feed' w x (sfun head x p) <> FOk x1 o1) ->
    feed' w x (sfun head x (p ++ m)) = feed' w x (sfun head x p).
  Proof.
    intros NF. assert (sfun head x (p ++ m) = sfun head x p ++ m) as ->.
    { unfold sfun in *. destruct (started' head x); [reflexivity|].
      destruct (blstrip p) as [|c t] eqn:BP; [exfalso; eapply NF; reflexivity|].
      apply (blstrip_app_cons _ _ _ _ BP). }
    rewrite feed_app. destruct (feed' w x (sfun head x p)) as [x1 o1| | |]; try reflexivity.
    exfalso. eapply NF. reflexivity.
  Qed.

  (* ---- what the DOM side and the exception clauses depend on ---- *)
  Lemma dom_strip_eq rec w o f B1 B2 : blstrip B1 = blstrip B2 -> dom' rec w o f B1 = dom' rec w o f B2.
  Proof. intros E. unfold dom_body. rewrite E. reflexivity. Qed.

  Lemma onx_strip_eq rec s head sbuf d1 d2 r : blstrip (head ++ d1) = blstrip (head ++ d2) ->
    onx' rec s head sbuf d1 r = onx' rec s head sbuf d2 r.
  Proof.
    intros E. destruct r as [|rt o u| |]; cbn [on_exc]; try reflexivity.
    destruct rt; [reflexivity|]. destruct (negb (is_nil (sbuf ++ o))); [reflexivity|]. apply dom_strip_eq, E.
  Qed.

  Lemma find_rem_len B m rem : find_sub delim10 B = Some (m, rem) -> (length rem + 6 <= length B)%nat.
  Proof.
    intros F. apply find_some in F as [E _]. apply (f_equal (@length N)) in E. rewrite !app_length in E.
    cbn in E. lia.
  Qed.

  Lemma dom_ext rec1 rec2 w o f B :
    (forall s' rem, size s' = 0%nat -> (length rem + 6 <= length B)%nat -> rec1 s' rem = rec2 s' rem) ->
    dom' rec1 w o f B = dom' rec2 w o f B.
  Proof.
    intros H. unfold dom_body. destruct (find_sub delim10 (blstrip B)) as [[m rem]|] eqn:F; [|reflexivity].
    pose proof (find_rem_len _ _ _ F) as L. pose proof (blstrip_len B) as L2.
    destruct (dispatch w false m) as [w' reset|]; [|reflexivity].
    destruct reset; unfold cont; destruct (bblank rem); try reflexivity; apply H; try reflexivity; lia.
  Qed.

  Lemma onx_ext rec1 rec2 s head sbuf data r :
    (forall s' rem, size s' = 0%nat -> (length rem + 6 <= length head + length data)%nat -> rec1 s' rem = rec2 s' rem) ->
    onx' rec1 s head sbuf data r = onx' rec2 s head sbuf data r.
  Proof.
    intros H. destruct r as [|rt o u| |]; cbn [on_exc]; try reflexivity.
    destruct rt; [reflexivity|]. destruct (negb (is_nil (sbuf ++ o))); [reflexivity|].
    apply dom_ext. intros s' rem Z L. apply H; auto. rewrite app_length in L. lia.
  Qed.

  (* ---- the amount of fuel does not matter ---- *)
  Lemma go_fuel : forall n m (s : st') data, (size s + length data < n)%nat -> (size s + length data < m)%nat ->
    go' n s data = go' m s data.
  Proof.
    induction n as [|n IH]; intros m s data Hn Hm; [lia|]. destruct m as [|m]; [lia|].
    cbn [go]. unfold size in Hn, Hm. destruct (stat s) as [[held head x sbuf|dbuf]| | |] eqn:St; try reflexivity.
    - assert (forall s' rem, size s' = 0%nat -> (length rem + 6 <= length head + length (held ++ data))%nat ->
                             go' n s' rem = go' m s' rem) as REC.
      { intros s' rem Z L. rewrite app_length in L. apply IH; lia. }
      destruct (find_sub delim10 (held ++ data)) as [[msg rem]|] eqn:F.
      + pose proof (find_rem_len _ _ _ F) as L.
        destruct (feed' (wd s) x _) as [x' o| | |]; try (apply onx_ext; exact REC).
        destruct (dispatch (wd s) true (sbuf ++ o)); [|reflexivity].
        unfold cont. destruct (bblank rem); [reflexivity|]. apply REC; [reflexivity|lia].
      + destruct (holdback (held ++ data)) as [msg held'].
        destruct (feed' (wd s) x _) as [x' o| | |]; try (apply onx_ext; exact REC). reflexivity.
    - apply dom_ext. intros s' rem Z L. rewrite app_length in L. apply IH; lia.
  Qed.

  (* ---- what a state keeps is bounded by what it was given ---- *)
  Lemma dom_size rec w o f B :
    (forall s' rem, size s' = 0%nat -> (length rem + 6 <= length B)%nat -> (size (rec s' rem) <= length rem)%nat) ->
    (size (dom' rec w o f B) <= length B)%nat.
  Proof.
    intros H. unfold dom_body. pose proof (blstrip_len B) as L2.
    destruct (find_sub delim10 (blstrip B)) as [[m rem]|] eqn:F; [|cbn; lia].
    pose proof (find_rem_len _ _ _ F) as L.
    destruct (dispatch w false m) as [w' reset|]; [|cbn; lia].
    destruct reset; unfold cont; destruct (bblank rem); try (cbn; lia);
      (etransitivity; [apply H; [reflexivity|lia] | lia]).
  Qed.

  Lemma onx_size rec s head sbuf data r :
    (forall s' rem, size s' = 0%nat -> (length rem + 6 <= length head + length data)%nat -> (size (rec s' rem) <= length rem)%nat) ->
    (forall x o, r <> FOk x o) ->
    (size (onx' rec s head sbuf data r) <= length head + length data)%nat.
  Proof.
    intros H NF. destruct r as [x o|rt o u| |]; cbn [on_exc]; try (cbn; lia).
    - exfalso. eapply NF. reflexivity.
    - destruct rt; [cbn; lia|]. destruct (negb (is_nil (sbuf ++ o))); [cbn; lia|].
      rewrite <- app_length. apply dom_size. intros s' rem Z L. apply H; auto. rewrite app_length in L. lia.
  Qed.

  Lemma go_size : forall n (s : st') a, (size s + length a < n)%nat -> (size (go' n s a) <= size s + length a)%nat.
  Proof.
    induction n as [|n IH]; intros s a Hn; [lia|].
    cbn [go]. unfold size at 2. unfold size in Hn. destruct (stat s) as [[held head x sbuf|dbuf]| | |] eqn:St;
      try (unfold size; rewrite St; lia).
    - assert (forall s' rem, size s' = 0%nat -> (length rem + 6 <= length head + length (held ++ a))%nat ->
                             (size (go' n s' rem) <= length rem)%nat) as REC.
      { intros s' rem Z L. rewrite app_length in L. etransitivity; [apply IH; lia | lia]. }
      assert (length head + length (held ++ a) = length head + length held + length a)%nat as EL
          by (rewrite app_length; lia).
      destruct (find_sub delim10 (held ++ a)) as [[msg rem]|] eqn:F.
      + pose proof (find_rem_len _ _ _ F) as L.
        destruct (feed' (wd s) x _) as [x' o| | |] eqn:FE;
          try (rewrite <- EL; apply onx_size; [exact REC | intros ? ?; discriminate]).
        destruct (dispatch (wd s) true (sbuf ++ o)); [|cbn; lia].
        unfold cont. destruct (bblank rem); [cbn; lia|]. etransitivity; [apply REC; [reflexivity|lia] | lia].
      + destruct (holdback (held ++ a)) as [msg held'] eqn:HB. rewrite holdback_hb in HB.
        apply hb_split in HB. apply (f_equal (@length N)) in HB. rewrite !app_length in HB.
        destruct (feed' (wd s) x _) as [x' o| | |] eqn:FE;
          try (rewrite <- EL; apply onx_size; [exact REC | intros ? ?; discriminate]).
        pose proof (sfun_len head x msg) as SL. unfold sfun in SL. unfold size. cbn [stat].
        destruct (xrooted x'); cbn [length]; rewrite ?app_length; lia.
    - rewrite <- app_length. apply dom_size. intros s' rem Z L. rewrite app_length in L.
      etransitivity; [apply IH; lia | lia].
  Qed.

  (* ---- a new parser and white space ---- *)
  Lemma go_term k (s : st') b : match stat s with Run _ => False | _ => True end -> go' (S k) s b = s.
  Proof. intros H. cbn [go]. destruct (stat s) as [m| | |]; [contradiction|..]; reflexivity. Qed.

  Lemma fresh_blank_id k w o f b : bblank b = true -> go' (S k) (fresh' w o f) b = fresh' w o f.
  Proof.
    intros B. cbn [go stat fresh app wd outs fed]. rewrite (blank_find b B), holdback_hb, (hb_blank b B).
    unfold started. rewrite Hnew. cbn [is_nil negb orb]. rewrite (blank_blstrip b B). cbn [feed].
    rewrite Hnew. reflexivity.
  Qed.

  Lemma fresh_ws k w o f r b : bblank r = true -> go' k (fresh' w o f) (r ++ b) = go' k (fresh' w o f) b.
  Proof.
    intros B. destruct k; [reflexivity|]. cbn [go stat fresh wd outs fed app].
    rewrite (blank_find_app r b B), !holdback_hb, (blank_hb_app r b B).
    unfold started. rewrite Hnew. cbn [is_nil negb orb].
    destruct (find_sub delim10 b) as [[m q]|].
    - rewrite (blstrip_blank_app r m B).
      destruct (feed' w (xnew w) (blstrip m)); try reflexivity;
        apply onx_strip_eq; cbn [app]; apply blstrip_blank_app; exact B.
    - destruct (hb b) as [m h']. rewrite (blstrip_blank_app r m B).
      destruct (feed' w (xnew w) (blstrip m)); try reflexivity;
        apply onx_strip_eq; cbn [app]; apply blstrip_blank_app; exact B.
  Qed.

  (* ---- joining two reads ---- *)
  Definition APP (n : nat) : Prop := forall (s : st') a b,
    (size s + length a + length b < n)%nat -> go' n s (a ++ b) = go' n (go' n s a) b.

  Lemma cont_app n s' rem b : APP n ->
    (exists w o f, s' = fresh' w o f \/ s' = mk w o ([] :: f) (Run (Dom []))) ->
    (length rem + length b < n)%nat ->
    go' (S n) (cont' (go' n) s' rem) b = cont' (go' n) s' (rem ++ b).
  Proof.
    intros IH Hs L. assert (size s' = 0%nat) as Z by (destruct Hs as (w&o&f&[->| ->]); reflexivity).
    unfold cont. rewrite bblank_app. destruct (bblank rem) eqn:Br; cbn [andb].
    - destruct (bblank b) eqn:Bb.
      + destruct Hs as (w&o&f&[->| ->]).
        * apply fresh_blank_id; auto.
        * cbn [go stat wd outs fed app]. unfold dom_body. rewrite (blank_blstrip b Bb). reflexivity.
      + rewrite (go_fuel (S n) n) by lia. destruct Hs as (w&o&f&[->| ->]).
        * symmetry. apply fresh_ws; auto.
        * destruct n; [lia|]. cbn [go stat wd outs fed]. apply dom_strip_eq. cbn [app].
          symmetry; apply blstrip_blank_app; auto.
    - rewrite IH by lia. pose proof (go_size n s' rem). apply go_fuel; lia.
  Qed.

  Lemma dom_app n w o f B b : APP n -> (length B + length b < S n)%nat ->
    go' (S n) (dom' (go' n) w o f B) b = dom' (go' n) w o f (B ++ b).
  Proof.
    intros IH L. remember (dom' (go' n) w o f (B ++ b)) as R eqn:ER. unfold dom_body.
    destruct (find_sub delim10 (blstrip B)) as [[m rem]|] eqn:F.
    - assert (blstrip (B ++ b) = blstrip B ++ b) as E.
      { destruct (blstrip B) as [|c q] eqn:E; [discriminate F | apply (blstrip_app_cons _ _ _ _ E)]. }
      subst R. unfold dom_body. rewrite E, (find_app _ _ b _ _ F).
      destruct (dispatch w false m) as [w' reset|]; [|apply go_term; exact I].
      pose proof (find_rem_len _ _ _ F). pose proof (blstrip_len B).
      destruct reset; apply cont_app; auto; try lia.
      + eexists _, _, _; left; reflexivity.
      + eexists _, _, _; right; reflexivity.
    - cbn [go stat wd outs fed]. subst R. apply dom_strip_eq, blstrip_idem_app.
  Qed.

  Lemma onx_app n s head sbuf data r b : APP n -> (forall x o, r <> FOk x o) ->
    (length head + length data + length b < S n)%nat ->
    go' (S n) (onx' (go' n) s head sbuf data r) b = onx' (go' n) s head sbuf (data ++ b) r.
  Proof.
    intros IH NF L. destruct r as [x o|rt o u| |]; cbn [on_exc];
      [exfalso; eapply NF; reflexivity | | apply go_term; exact I | apply go_term; exact I].
    destruct rt; [apply go_term; exact I|]. destruct (negb (is_nil (sbuf ++ o))); [apply go_term; exact I|].
    rewrite app_assoc. apply dom_app; auto. rewrite app_length; lia.
  Qed.

  Lemma onx_two rec w s s1 head sbuf x p h1 b x1 o1 m' r2 :
    feed' w x (sfun head x p) = FOk x1 o1 -> feed' w x1 m' = r2 -> (forall x2 o2, r2 <> FOk x2 o2) ->
    wd s1 = wd s -> outs s1 = outs s -> fed s1 = addfed (sfun head x p) (fed s) ->
    onx' rec s head sbuf (p ++ h1 ++ b) (shift o1 (sfun head x p) r2) =
    onx' rec s1 (if xrooted x1 then [] else head ++ sfun head x p) (sbuf ++ o1) (h1 ++ b) r2.
  Proof.
    intros F1 F2 NF Ew Eo Ef. destruct r2 as [x2 o2|rt o' u| |]; cbn [shift on_exc];
      rewrite ?Ew, ?Eo, ?Ef, ?addfed_addfed; try reflexivity.
    - exfalso. eapply NF. reflexivity.
    - destruct rt; [reflexivity|]. rewrite app_assoc. destruct (negb (is_nil ((sbuf ++ o1) ++ o'))); [reflexivity|].
      apply dom_strip_eq. rewrite (feed_switch_unrooted _ _ _ _ _ F2).
      unfold sfun. destruct (started' head x) eqn:S0; [now rewrite <- app_assoc|].
      unfold started in S0. apply orb_false_iff in S0 as [S0 _]. destruct head; [|discriminate]. cbn [app].
      symmetry. apply blstrip_idem_app.
  Qed.

  Definition body (rec : st' -> bytes -> st') (s : st') (data : bytes) : st' :=
    match stat s with
    | Run (Sax held head x sbuf) =>
        let data' := held ++ data in
        match find_sub delim10 data' with
        | None =>
            let (msg, held') := holdback data' in
            let msg' := if started' head x then msg else blstrip msg in
            match feed' (wd s) x msg' with
            | FOk x' o =>
                mk (wd s) (outs s) (addfed msg' (fed s))
                   (Run (Sax held' (if xrooted x' then [] else head ++ msg') x' (sbuf ++ o)))
            | r => onx' rec s head sbuf data' r
            end
        | Some (msg, rem) =>
            let msg' := if started' head x then msg else blstrip msg in
            match feed' (wd s) x msg' with
            | FOk x' o =>
                match dispatch (wd s) true (sbuf ++ o) with
                | DExc => mk (wd s) (outs s) (addfed msg' (fed s)) (Dead E_LISTENER)
                | DOk w' _ => cont' rec (fresh' w' (outs s ++ [(true, sbuf ++ o)]) (addfed msg' (fed s))) rem
                end
            | r => onx' rec s head sbuf data' r
            end
        end
    | Run (Dom dbuf) => dom' rec (wd s) (outs s) (fed s) (dbuf ++ data)
    | _ => s
    end.

  Lemma go_S n s data : go' (S n) s data = body (go' n) s data.
  Proof. reflexivity. Qed.

  Lemma go_app : forall n, APP n.
  Proof.
    induction n as [|n IH]; intros s a b L; [lia|].
    rewrite (go_S n s (a ++ b)), (go_S n s a). unfold body. unfold size in L.
    destruct (stat s) as [[held head x sbuf|dbuf]| | |] eqn:St;
      try (symmetry; apply go_term; rewrite St; exact I).
    2:{ rewrite app_assoc. symmetry. apply dom_app; auto. rewrite app_length. lia. }
    cbv zeta. rewrite (app_assoc held a b).
    destruct (find_sub delim10 (held ++ a)) as [[msg rem]|] eqn:F.
    - rewrite (find_app _ _ b _ _ F). pose proof (find_rem_len _ _ _ F) as LR. rewrite app_length in LR.
      destruct (feed' (wd s) x (if started' head x then msg else blstrip msg)) as [x' o| | |] eqn:FE;
        try (symmetry; apply onx_app; auto; [intros ? ?; discriminate | rewrite app_length; lia]).
      destruct (dispatch (wd s) true (sbuf ++ o)) as [w' r|]; [|symmetry; apply go_term; exact I].
      symmetry. apply cont_app; auto; [eexists _, _, _; left; reflexivity | lia].
    - rewrite !holdback_hb. destruct (hb (held ++ a)) as [p h1] eqn:HB.
      rewrite (hb_find _ _ _ b F HB), (hb_hold _ _ _ b HB).
      pose proof (hb_split _ _ _ HB) as EP.
      fold (sfun head x p).
      destruct (feed' (wd s) x (sfun head x p)) as [x1 o1| | |] eqn:FE1.
      + (* the first read ends normally *)
        rewrite go_S. unfold body. cbn [stat wd outs fed]. cbv zeta. rewrite holdback_hb.
        destruct (find_sub delim10 (h1 ++ b)) as [[m rem]|] eqn:F2.
        * fold (sfun head x (p ++ m)). rewrite (sfun_split _ _ _ _ m _ _ FE1), feed_app, FE1.
          fold (sfun (if xrooted x1 then [] else head ++ sfun head x p) x1 m).
          destruct (feed' (wd s) x1 (sfun (if xrooted x1 then [] else head ++ sfun head x p) x1 m))
            as [x2 o2| | |] eqn:FE2; cbn [shift];
            try (rewrite EP, <- app_assoc;
                 apply (onx_two _ _ _ _ _ _ _ _ _ _ _ _ _ _ FE1 FE2); try reflexivity; intros ? ?; discriminate).
          rewrite addfed_addfed, (app_assoc sbuf o1 o2). reflexivity.
        * destruct (hb (h1 ++ b)) as [m h'] eqn:HB2.
          fold (sfun head x (p ++ m)). rewrite (sfun_split _ _ _ _ m _ _ FE1), feed_app, FE1.
          fold (sfun (if xrooted x1 then [] else head ++ sfun head x p) x1 m).
          destruct (feed' (wd s) x1 (sfun (if xrooted x1 then [] else head ++ sfun head x p) x1 m))
            as [x2 o2| | |] eqn:FE2; cbn [shift];
            try (rewrite EP, <- app_assoc;
                 apply (onx_two _ _ _ _ _ _ _ _ _ _ _ _ _ _ FE1 FE2); try reflexivity; intros ? ?; discriminate).
          rewrite addfed_addfed, (app_assoc sbuf o1 o2). f_equal. f_equal. f_equal.
          destruct (xrooted x2) eqn:R2; [reflexivity|].
          destruct (xrooted x1) eqn:R1; [|now rewrite app_assoc].
          rewrite (feed_mono _ _ _ _ _ FE2 R1) in R2. discriminate.
      + (* the first read already raises: so does the whole *)
        assert (forall m, feed' (wd s) x (sfun head x (p ++ m)) = FSwitch rooted out used) as FA.
        { intros m. rewrite sfun_prefix; [exact FE1|]. intros ? ?. rewrite FE1. discriminate. }
        transitivity (onx' (go' n) s head sbuf ((held ++ a) ++ b) (FSwitch rooted out used)).
        * destruct (find_sub delim10 (h1 ++ b)) as [[m rem]|]; [|destruct (hb (h1 ++ b)) as [m h']];
            fold (sfun head x (p ++ m)); rewrite FA; reflexivity.
        * symmetry. apply onx_app; auto; [intros ? ?; discriminate | rewrite app_length; lia].
      + assert (forall m, feed' (wd s) x (sfun head x (p ++ m)) = FErr used) as FA.
        { intros m. rewrite sfun_prefix; [exact FE1|]. intros ? ?. rewrite FE1. discriminate. }
        transitivity (onx' (go' n) s head sbuf ((held ++ a) ++ b) (FErr used)).
        * destruct (find_sub delim10 (h1 ++ b)) as [[m rem]|]; [|destruct (hb (h1 ++ b)) as [m h']];
            fold (sfun head x (p ++ m)); rewrite FA; reflexivity.
        * symmetry. apply onx_app; auto; [intros ? ?; discriminate | rewrite app_length; lia].
      + assert (forall m, feed' (wd s) x (sfun head x (p ++ m)) = FExc e used) as FA.
        { intros m. rewrite sfun_prefix; [exact FE1|]. intros ? ?. rewrite FE1. discriminate. }
        transitivity (onx' (go' n) s head sbuf ((held ++ a) ++ b) (FExc e used)).
        * destruct (find_sub delim10 (h1 ++ b)) as [[m rem]|]; [|destruct (hb (h1 ++ b)) as [m h']];
            fold (sfun head x (p ++ m)); rewrite FA; reflexivity.
        * symmetry. apply onx_app; auto; [intros ? ?; discriminate | rewrite app_length; lia].
  Qed.

  Local Notation parse' := (parse W X xnew xstep xrooted dispatch).
  Local Notation run' := (run W X xnew xstep xrooted dispatch).

  Lemma parse_app (s : st') a b : parse' (parse' s a) b = parse' s (a ++ b).
  Proof.
    unfold parse. rewrite app_length.
    set (n := S (size s + (length a + length b))).
    rewrite (go_app n s a b) by (unfold n; lia).
    pose proof (go_size n s a) as B1. 
    rewrite (go_fuel (S (size s + length a)) n s a) by (unfold n; lia).
    apply go_fuel; unfold n in *; lia.
  Qed.

  Lemma run_concat : forall reads (s : st') r, run' s (r :: reads) = parse' s (concat (r :: reads)).
  Proof.
    induction reads as [|r2 rs IH]; intros s r.
    - cbn. now rewrite app_nil_r.
    - change (run' s (r :: r2 :: rs)) with (run' (parse' s r) (r2 :: rs)). rewrite IH, parse_app. reflexivity.
  Qed.

End DriverProofs.

Lemma segments_concat : forall cuts stream, concat (segments stream cuts) = stream.
Proof.
  induction cuts as [|k ks IH]; intros stream; cbn [segments concat].
  - apply app_nil_r.
  - rewrite IH. apply firstn_skipn.
Qed.

Lemma segments_cons cuts stream : exists r rs, segments stream cuts = r :: rs.
Proof. destruct cuts; cbn; eauto. Qed.

Lemma c18_segmentation_independent W X xnew xstep xrooted dispatch :
  (forall w x c x' o, xstep w x c = XOk x' o -> xrooted x = true -> xrooted x' = true) ->
  (forall w, xrooted (xnew w) = false) ->
  forall s stream cuts,
    run W X xnew xstep xrooted dispatch s (segments stream cuts) = run W X xnew xstep xrooted dispatch s [stream].
Proof.
  intros Hm Hn s stream cuts. destruct (segments_cons cuts stream) as (r & rs & E).
  rewrite E, !(run_concat W X xnew xstep xrooted dispatch Hm Hn), <- E, segments_concat. cbn. now rewrite app_nil_r.
Qed.

Lemma c18_reads_independent W X xnew xstep xrooted dispatch :
  (forall w x c x' o, xstep w x c = XOk x' o -> xrooted x = true -> xrooted x' = true) ->
  (forall w, xrooted (xnew w) = false) ->
  forall s reads1 reads2, reads1 <> [] -> reads2 <> [] -> concat reads1 = concat reads2 ->
    run W X xnew xstep xrooted dispatch s reads1 = run W X xnew xstep xrooted dispatch s reads2.
Proof.
  intros Hm Hn s [|r1 t1] [|r2 t2] N1 N2 E; try congruence.
  rewrite !(run_concat W X xnew xstep xrooted dispatch Hm Hn). f_equal. exact E.
Qed.

(* ------------------------------------------------------------------ no octet of a delimiter reaches the XML parser *)
(* [cov fs ps]: the k-th parser was given a beginning of the k-th frame of the stream (without its leading white
   space); frames are what lies between the delimiters, so they contain no octet of a delimiter *)
Inductive cov : list bytes -> list bytes -> Prop :=
| cov_nil : forall ps, cov [] ps
| cov_cons : forall f p fs ps, (exists t, blstrip p = f ++ t) -> cov fs ps -> cov (f :: fs) (p :: ps).

Lemma pieces_fuel : forall n m b, (length b <= n)%nat -> (length b <= m)%nat -> pieces n b = pieces m b.
Proof.
  induction n as [|n IH]; intros m b Hn Hm.
  - destruct b; [|cbn in Hn; lia]. destruct m; reflexivity.
  - destruct m as [|m]; [destruct b; [reflexivity | cbn in Hm; lia]|].
    cbn [pieces]. destruct (find_sub delim10 b) as [[x r]|] eqn:F; [|reflexivity].
    apply find_some in F as [E _]. apply (f_equal (@length N)) in E. rewrite !app_length in E. cbn in E.
    f_equal. apply IH; lia.
Qed.

Lemma frames_none b : find_sub delim10 b = None -> frames b = [b].
Proof. unfold frames. destruct (length b); cbn [pieces]; [reflexivity|]. intros ->. reflexivity. Qed.

Lemma frames_some b m r : find_sub delim10 b = Some (m, r) -> frames b = m :: frames r.
Proof.
  intros F. unfold frames. pose proof F as F'. apply find_some in F' as [E _].
  apply (f_equal (@length N)) in E. rewrite !app_length in E. cbn in E.
  destruct (length b) as [|k] eqn:L; [lia|]. cbn [pieces]. rewrite F. f_equal. apply pieces_fuel; lia.
Qed.

Lemma frames_nonempty b : exists p ps, frames b = p :: ps.
Proof.
  destruct (find_sub delim10 b) as [[m r]|] eqn:F; [rewrite (frames_some _ _ _ F) | rewrite (frames_none _ F)]; eauto.
Qed.

Lemma blstrip_suffix : forall b, exists ws, bblank ws = true /\ b = ws ++ blstrip b.
Proof.
  induction b as [|c b [ws [B E]]]; [exists []; auto|]. cbn [blstrip]. destruct (is_bws c) eqn:C.
  - exists (c :: ws). split; [cbn [bblank forallb]; rewrite C; exact B | cbn; f_equal; exact E].
  - exists []. auto.
Qed.

Lemma blstrip_head : forall b c q, blstrip b = c :: q -> is_bws c = false.
Proof.
  induction b as [|a b IH]; intros c q H; [discriminate|]. cbn [blstrip] in H. destruct (is_bws a) eqn:A; [eauto|].
  injection H as <- _. exact A.
Qed.

Lemma find_blstrip b : find_sub delim10 (blstrip b) =
  match find_sub delim10 b with Some (m, r) => Some (blstrip m, r) | None => None end.
Proof.
  destruct (blstrip_suffix b) as [ws [B E]]. rewrite E at 2. rewrite (blank_find_app ws _ B).
  destruct (find_sub delim10 (blstrip b)) as [[m r]|] eqn:F; [|reflexivity].
  rewrite (blstrip_blank_app ws m B). f_equal. f_equal.
  destruct m as [|c m]; [reflexivity|]. apply find_some in F as [E2 _]. cbn [blstrip].
  rewrite (blstrip_head _ _ _ E2). reflexivity.
Qed.

Lemma blstrip_prefix_app p h : exists t, blstrip (p ++ h) = blstrip p ++ t.
Proof.
  destruct (blstrip p) as [|c q] eqn:E.
  - exists (blstrip h). cbn. apply blstrip_blank_app, blstrip_nil_blank, E.
  - exists h. apply (blstrip_app_cons _ _ _ _ E).
Qed.

Section DriverProofs2.
  Variables W X : Type.
  Variable xnew : W -> X.
  Variable xstep : W -> X -> N -> xres X.
  Variable xrooted : X -> bool.
  Variable dispatch : W -> bool -> bytes -> dres W.
  Hypothesis Hnew : forall w, xrooted (xnew w) = false.

  Local Notation feed' := (feed W X xstep xrooted).
  Local Notation go' := (go W X xnew xstep xrooted dispatch).
  Local Notation dom' := (dom_body W X xnew dispatch).
  Local Notation fresh' := (fresh W X xnew).
  Local Notation st' := (st W X).

  Lemma feed_used w : forall m x, match feed' w x m with
                                  | FOk _ _ => True
                                  | FSwitch _ _ u | FErr u | FExc _ u => exists t, m = u ++ t
                                  end.
  Proof.
    induction m as [|c m IH]; intros x; cbn [feed]; [exact I|].
    destruct (xstep w x c) as [x' o|o| |e]; try (exists m; reflexivity).
    specialize (IH x'). destruct (feed' w x' m); auto; destruct IH as [t ->]; exists t; reflexivity.
  Qed.

  (* a state at the beginning of a frame *)
  Definition at_start (s : st') : Prop :=
    (exists x sbuf, stat s = Run (Sax [] [] x sbuf) /\ xrooted x = false) \/ stat s = Run (Dom []).

  Definition GOAL (n : nat) : Prop := forall (s : st') data F,
    (length data < n)%nat -> at_start s -> fed s = [] :: F ->
    exists fs, fed (go' n s data) = rev fs ++ F /\ cov fs (frames data).

  Lemma cov_one u b : (exists t, blstrip b = u ++ t) -> forall ps, cov [u] (b :: ps).
  Proof. intros H ps. constructor; [exact H | constructor]. Qed.

  Lemma cont_frames n s' rem u F m : GOAL n -> (length rem < n)%nat -> at_start s' -> fed s' = [] :: u :: F ->
    (exists t, blstrip m = u ++ t) ->
    exists fs, fed (cont W X (go' n) s' rem) = rev fs ++ F /\ cov fs (m :: frames rem).
  Proof.
    intros IH L A Ef P. unfold cont. destruct (bblank rem).
    - exists [u; []]. split; [rewrite Ef; reflexivity|]. destruct (frames_nonempty rem) as (p & ps & ->).
      constructor; [exact P|]. apply cov_one. exists (blstrip p). reflexivity.
    - destruct (IH s' rem (u :: F) L A Ef) as (fs & E & C). exists (u :: fs). split.
      + rewrite E. cbn [rev]. rewrite <- app_assoc. reflexivity.
      + constructor; assumption.
  Qed.

  Lemma fresh_start w o f : at_start (fresh' w o f).
  Proof. left. eexists _, _. split; [reflexivity | apply Hnew]. Qed.

  Lemma dom_frames n w o u F B : GOAL n -> (length B <= n)%nat ->
    (forall p ps, frames B = p :: ps -> exists t, blstrip p = u ++ t) ->
    exists fs, fed (dom' (go' n) w o (u :: F) B) = rev fs ++ F /\ cov fs (frames B).
  Proof.
    intros IH L P. unfold dom_body. rewrite find_blstrip.
    destruct (find_sub delim10 B) as [[m rem]|] eqn:FB.
    - rewrite (frames_some _ _ _ FB) in *. specialize (P _ _ eq_refl).
      pose proof (find_rem_len _ _ _ FB) as LR.
      destruct (dispatch w false (blstrip m)) as [w' reset|].
      + destruct reset; apply (cont_frames n _ rem u F m); auto; try lia; try reflexivity.
        * apply fresh_start.
        * right. reflexivity.
      + exists [u]. split; [reflexivity | apply cov_one, P].
    - rewrite (frames_none _ FB) in *. exists [u]. split; [reflexivity | apply cov_one, (P _ _ eq_refl)].
  Qed.

  Lemma onx_frames n s sbuf data r u0 F ps m :
    GOAL n -> (length data <= n)%nat -> fed s = [] :: F ->
    frames data = m :: ps ->
    match r with FOk _ _ => False | FSwitch _ _ u | FErr u | FExc _ u => u = u0 end ->
    (exists t, blstrip m = u0 ++ t) ->
    exists fs, fed (on_exc W X xnew dispatch (go' n) s [] sbuf data r) = rev fs ++ F /\ cov fs (frames data).
  Proof.
    intros IH L Ef Fr Hr P. assert (exists fs, [u0] ++ F = rev fs ++ F /\ cov fs (frames data)) as TERM.
    { exists [u0]. split; [reflexivity | rewrite Fr; apply cov_one, P]. }
    destruct r as [|rt o u|u|e u]; [contradiction|..]; subst u0; cbn [on_exc]; rewrite Ef; cbn [addfed app fed];
      try exact TERM.
    destruct rt; [exact TERM|]. destruct (negb (is_nil (sbuf ++ o))); [exact TERM|].
    apply dom_frames; auto. intros p ps' E. rewrite Fr in E. injection E as <- _. exact P.
  Qed.

  Lemma go_frames : forall n, GOAL n.
  Proof.
    induction n as [|n IH]; intros s data F L A Ef; [lia|].
    cbn [go]. destruct A as [(x & sbuf & St & R)|St]; rewrite St.
    - cbn [app]. unfold started. rewrite R. cbn [is_nil negb orb].
      destruct (find_sub delim10 data) as [[m rem]|] eqn:FD.
      + pose proof (find_rem_len _ _ _ FD) as LR. pose proof (frames_some _ _ _ FD) as Fr.
        pose proof (feed_used (wd s) (blstrip m) x) as FU.
        destruct (feed' (wd s) x (blstrip m)) as [x' o|rt o u|u|e u] eqn:FE.
        * destruct (dispatch (wd s) true (sbuf ++ o)) as [w' r|].
          -- rewrite Fr. apply (cont_frames n _ rem (blstrip m) F m); auto; try lia.
             ++ apply fresh_start.
             ++ rewrite Ef. reflexivity.
             ++ exists []. now rewrite app_nil_r.
          -- exists [blstrip m]. split; [rewrite Ef; reflexivity | rewrite Fr; apply cov_one; exists []; now rewrite app_nil_r].
        * eapply onx_frames; eauto; try lia; try reflexivity.
        * eapply onx_frames; eauto; try lia; try reflexivity.
        * eapply onx_frames; eauto; try lia; try reflexivity.
      + pose proof (frames_none _ FD) as Fr. rewrite holdback_hb.
        destruct (hb data) as [p h1] eqn:HB. pose proof (hb_split _ _ _ HB) as EP.
        pose proof (feed_used (wd s) (blstrip p) x) as FU.
        assert (forall u, (exists t, blstrip p = u ++ t) -> exists t, blstrip data = u ++ t) as PRE.
        { intros u [t E]. destruct (blstrip_prefix_app p h1) as [t2 E2]. exists (t ++ t2).
          rewrite EP, E2, E, app_assoc. reflexivity. }
        destruct (feed' (wd s) x (blstrip p)) as [x' o|rt o u|u|e u] eqn:FE.
        * exists [blstrip p]. split; [rewrite Ef; reflexivity | rewrite Fr; apply cov_one, PRE; exists []; now rewrite app_nil_r].
        * eapply onx_frames; eauto; try lia; try reflexivity.
        * eapply onx_frames; eauto; try lia; try reflexivity.
        * eapply onx_frames; eauto; try lia; try reflexivity.
    - cbn [app]. rewrite Ef. apply dom_frames; auto; try lia.
      intros p ps E. exists (blstrip p). reflexivity.
  Qed.
End DriverProofs2.

Lemma c18_delimiter_never_parsed W X xnew xstep xrooted dispatch :
  (forall w x c x' o, xstep w x c = XOk x' o -> xrooted x = true -> xrooted x' = true) ->
  (forall w, xrooted (xnew w) = false) ->
  forall w reads, reads <> [] ->
    cov (rev (fed (run W X xnew xstep xrooted dispatch (init W X xnew w) reads))) (frames (concat reads)).
Proof.
  intros Hm Hn w [|r rs] NE; [congruence|].
  rewrite (run_concat W X xnew xstep xrooted dispatch Hm Hn). unfold parse.
  destruct (go_frames W X xnew xstep xrooted dispatch Hn (S (size (init W X xnew w) + length (concat (r :: rs))))
              (init W X xnew w) (concat (r :: rs)) []) as (fs & E & C).
  - cbn. lia.
  - left. eexists _, _. split; [reflexivity | apply Hn].
  - reflexivity.
  - rewrite E, app_nil_r, rev_involutive. exact C.
Qed.

(* frames contain no delimiter *)
Lemma pieces_clean : forall n b, (length b <= n)%nat -> Forall (fun p => find_sub delim10 p = None) (pieces n b).
Proof.
  induction n as [|n IH]; intros b L.
  - destruct b; [|cbn in L; lia]. repeat constructor.
  - cbn [pieces]. destruct (find_sub delim10 b) as [[m r]|] eqn:F; [|repeat constructor; exact F].
    pose proof (find_some _ _ _ _ F) as [E Min]. constructor.
    + apply find_none. intros (p1 & q1 & E1). subst m.
      specialize (Min p1 (q1 ++ delim10 ++ r)). rewrite E in Min. rewrite <- !app_assoc in Min.
      specialize (Min eq_refl). rewrite !app_length in Min. cbn in Min. lia.
    + apply IH. apply (f_equal (@length N)) in E. rewrite !app_length in E. cbn in E. lia.
Qed.

Lemma frames_clean b : Forall (fun p => find_sub delim10 p = None) (frames b).
Proof. apply pieces_clean. lia. Qed.
