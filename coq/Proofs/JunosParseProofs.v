(* JunosParseProofs.v — proofs about Model/JunosParse.v: the result of JunosXMLParser.parse over a byte stream does
   not depend on how the stream is cut into reads (go_app, parse_app, run_concat), and no octet of an end-of-message
   delimiter reaches the XML parser (fed_frames). *)
From NC Require Import Model.Base Model.Utf8 Model.Framing10 Model.JunosParse.
From NC Require Import Proofs.BaseFacts Proofs.ListFacts.

(* ------------------------------------------------------------------ octet strings *)
Lemma ws_not_rb c : is_bws c = true -> N.eqb c 93 = false.
Proof. destruct (N.eqb_spec c 93) as [->|]; [vm_compute; discriminate | reflexivity]. Qed.

Lemma bblank_app a b : bblank (a ++ b) = bblank a && bblank b.
Proof. apply forallb_app. Qed.

Lemma blstrip_blank_app r t : bblank r = true -> blstrip (r ++ t) = blstrip t.
Proof.
  induction r as [|c r IH]; intros H; [reflexivity|]. cbn in H. apply andb_true_iff in H as [Hc Hr].
  cbn. rewrite Hc. auto.
Qed.

Lemma blstrip_nil_blank p : blstrip p = [] -> bblank p = true.
Proof.
  induction p as [|c p IH]; [reflexivity|]. cbn [blstrip bblank forallb]. destruct (is_bws c); intros H; [cbn; auto | discriminate H].
Qed.

Lemma blank_blstrip p : bblank p = true -> blstrip p = [].
Proof. intros H. rewrite <- (app_nil_r p). rewrite blstrip_blank_app; auto. Qed.

Lemma blstrip_app_cons p t c q : blstrip p = c :: q -> blstrip (p ++ t) = (c :: q) ++ t.
Proof.
  induction p as [|a p IH]; [discriminate|]. cbn [blstrip app]. destruct (is_bws a); [auto|].
  intros E. injection E as -> ->. reflexivity.
Qed.

Lemma blstrip_idem_app p t : blstrip (blstrip p ++ t) = blstrip (p ++ t).
Proof.
  induction p as [|a p IH]; [reflexivity|]. cbn [blstrip app]. destruct (is_bws a) eqn:E; [auto|]. cbn [blstrip app]. rewrite E. reflexivity.
Qed.

Lemma blstrip_len p : (length (blstrip p) <= length p)%nat.
Proof. induction p as [|a p IH]; cbn [blstrip length]; [lia|]. destruct (is_bws a); cbn [length]; lia. Qed.

(* the hold-back, structurally: the longest end of the string that is a proper beginning of the delimiter *)
Definition short_prefix (b : bytes) : bool := (length b <? 6)%nat && prefixb b delim10.
Fixpoint hb (b : bytes) : bytes * bytes :=
  match b with
  | [] => ([], [])
  | c :: r => if short_prefix b then ([], b) else let (m, h) := hb r in (c :: m, h)
  end.

Lemma hb_split : forall u p h, hb u = (p, h) -> u = p ++ h.
Proof.
  induction u as [|c u IH]; intros p h H; cbn [hb] in H.
  - injection H as <- <-. reflexivity.
  - destruct (short_prefix (c :: u)); [injection H as <- <-; reflexivity|].
    destruct (hb u) as [m h0]. injection H as <- <-. cbn. f_equal. auto.
Qed.

Lemma find_nil_prefix u : find_sub delim10 u = None -> prefixb delim10 u = false.
Proof. destruct u; cbn [find_sub]; destruct (prefixb delim10 _); auto; discriminate. Qed.

Lemma find_tail c u : find_sub delim10 (c :: u) = None -> find_sub delim10 u = None.
Proof.
  cbn [find_sub]. destruct (prefixb delim10 (c :: u)); [discriminate|].
  destruct (find_sub delim10 u) as [[? ?]|]; [discriminate | reflexivity].
Qed.

Lemma not_short_app u b : short_prefix u = false -> short_prefix (u ++ b) = false.
Proof.
  intros H. destruct (short_prefix (u ++ b)) eqn:E; [|reflexivity]. exfalso.
  unfold short_prefix in *. apply andb_true_iff in E as [L P]. apply Nat.ltb_lt in L.
  apply prefixb_spec in P as [q P]. rewrite app_length in L.
  assert (prefixb u delim10 = true) by (apply prefixb_spec; exists (b ++ q); rewrite P, app_assoc; reflexivity).
  assert ((length u <? 6)%nat = true) by (apply Nat.ltb_lt; lia).
  rewrite H0, H1 in H. discriminate.
Qed.

Lemma not_short_no_start u b : short_prefix u = false -> prefixb delim10 u = false -> prefixb delim10 (u ++ b) = false.
Proof.
  intros S P. destruct (prefixb delim10 (u ++ b)) eqn:E; [|reflexivity]. exfalso.
  apply prefixb_spec in E as [q E]. apply app_eq_app in E as [l [[E1 E2]|[E1 E2]]].
  - assert (prefixb delim10 u = true) by (apply prefixb_spec; eauto). congruence.
  - destruct l as [|x l].
    + rewrite app_nil_r in E1. subst u. rewrite (proj2 (prefixb_spec delim10 delim10)) in P; [discriminate|].
      exists []. now rewrite app_nil_r.
    + unfold short_prefix in S.
      assert (prefixb u delim10 = true) as Hp by (apply prefixb_spec; eauto).
      assert ((length u <? 6)%nat = true) as Hl.
      { apply Nat.ltb_lt. apply (f_equal (@length N)) in E1. rewrite app_length in E1. cbn in E1. lia. }
      rewrite Hp, Hl in S. discriminate.
Qed.

(* L1: the first delimiter of a string that goes on, in terms of what was held back *)
Lemma hb_find : forall u p h b, find_sub delim10 u = None -> hb u = (p, h) ->
  find_sub delim10 (u ++ b) = match find_sub delim10 (h ++ b) with Some (m, r) => Some (p ++ m, r) | None => None end.
Proof.
  induction u as [|c u IH]; intros p h b F H; cbn [hb] in H.
  - injection H as <- <-. cbn [app]. destruct (find_sub delim10 b) as [[? ?]|]; reflexivity.
  - destruct (short_prefix (c :: u)) eqn:S.
    + injection H as <- <-. cbn [app]. destruct (find_sub delim10 (c :: u ++ b)) as [[? ?]|]; reflexivity.
    + destruct (hb u) as [m h0] eqn:Hu. injection H as <- <-.
      change ((c :: u) ++ b) with (c :: u ++ b). cbn [find_sub].
      pose proof (not_short_no_start (c :: u) b S (find_nil_prefix _ F)) as NP. cbn [app] in NP. rewrite NP.
      rewrite (IH m h0 b (find_tail _ _ F) eq_refl).
      destruct (find_sub delim10 (h0 ++ b)) as [[? ?]|]; reflexivity.
Qed.

(* L2: the same for the hold-back *)
Lemma hb_hold : forall u p h b, hb u = (p, h) -> hb (u ++ b) = let (m, h') := hb (h ++ b) in (p ++ m, h').
Proof.
  induction u as [|c u IH]; intros p h b H; cbn [hb] in H.
  - injection H as <- <-. cbn [app]. destruct (hb b); reflexivity.
  - destruct (short_prefix (c :: u)) eqn:S.
    + injection H as <- <-. cbn [app]. destruct (hb (c :: u ++ b)); reflexivity.
    + destruct (hb u) as [m h0] eqn:Hu. injection H as <- <-.
      change ((c :: u) ++ b) with (c :: u ++ b). cbn [hb].
      pose proof (not_short_app (c :: u) b S) as NS. cbn [app] in NS. rewrite NS.
      rewrite (IH m h0 b eq_refl). destruct (hb (h0 ++ b)); reflexivity.
Qed.

Lemma blank_find r : bblank r = true -> find_sub delim10 r = None.
Proof.
  induction r as [|c r IH]; intros H; [reflexivity|]. cbn in H. apply andb_true_iff in H as [Hc Hr].
  cbn [find_sub]. assert (prefixb delim10 (c :: r) = false) as ->.
  { cbn [prefixb delim10]. rewrite N.eqb_sym, (ws_not_rb c Hc). reflexivity. }
  rewrite (IH Hr). reflexivity.
Qed.

Lemma hb_blank r : bblank r = true -> hb r = (r, []).
Proof.
  induction r as [|c r IH]; intros H; [reflexivity|]. cbn in H. apply andb_true_iff in H as [Hc Hr].
  cbn [hb]. assert (short_prefix (c :: r) = false) as ->.
  { unfold short_prefix. cbn [prefixb delim10]. rewrite (ws_not_rb c Hc). cbn. apply andb_false_r. }
  rewrite (IH Hr). reflexivity.
Qed.

Lemma blank_find_app r b : bblank r = true ->
  find_sub delim10 (r ++ b) = match find_sub delim10 b with Some (m, q) => Some (r ++ m, q) | None => None end.
Proof. intros H. apply (hb_find r r [] b (blank_find r H) (hb_blank r H)). Qed.

Lemma blank_hb_app r b : bblank r = true -> hb (r ++ b) = let (m, h') := hb b in (r ++ m, h').
Proof. intros H. apply (hb_hold r r [] b (hb_blank r H)). Qed.
