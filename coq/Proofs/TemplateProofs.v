(* TemplateProofs.v — generic facts about request templates (Spec/Template.v):
   [fill_only_holes]   filling depends on the values only through the holes of the template;
   [realizes]          compositional reasoning for templates written with the numbering combinators. *)
From Coq Require Import String List Arith Lia.
From NC Require Import Model.Base Model.Lit Model.Xml Model.Gating Model.Builders Spec.Template.
Import ListNotations.

(* ---------------- induction over templates (nested lists) ---------------- *)
Section TplInd.
  Variable P : tpl -> Prop.
  Hypothesis HEl : forall q a ks, Forall P ks -> P (TEl q a ks).
  Hypothesis HText : forall i, P (TText i).
  Hypothesis HNamed : forall ns i ks, Forall P ks -> P (TNamed ns i ks).
  Hypothesis HFrag : forall x i, P (TFrag x i).
  Hypothesis HFrags : forall i, P (TFrags i).
  Hypothesis HOwn : forall i ks, Forall P ks -> P (TOwn i ks).
  Hypothesis HLeaves : forall q i, P (TLeaves q i).
  Fixpoint tpl_ind' (t : tpl) : P t :=
    let go := fix go (l : list tpl) : Forall P l :=
                match l with [] => Forall_nil P | x :: l' => Forall_cons x (tpl_ind' x) (go l') end in
    match t with
    | TEl q a ks => HEl q a ks (go ks)
    | TText i => HText i
    | TNamed ns i ks => HNamed ns i ks (go ks)
    | TFrag x i => HFrag x i
    | TFrags i => HFrags i
    | TOwn i ks => HOwn i ks (go ks)
    | TLeaves q i => HLeaves q i
    end.
End TplInd.

Lemma flat_map_ext_in {A B} (f g : A -> list B) l : (forall x, In x l -> f x = g x) -> flat_map f l = flat_map g l.
Proof. induction l as [|x l IH]; simpl; intros H; [reflexivity|]. rewrite (H x), IH; auto. Qed.

(* the instance of a template depends on the values only through its holes *)
Lemma fill_only_holes : forall (t : tpl) (vs vs' : list value),
  (forall i, In i (holes t) -> nth_error vs i = nth_error vs' i) -> fill vs t = fill vs' t.
Proof.
  intros t vs vs'. induction t as [q a ks IH|i|ns i ks IH|x i|i|i ks IH|q i] using tpl_ind'; simpl; intros H.
  - f_equal. f_equal.
    + apply flat_map_ext_in. intros [k [v|j]] Hin; unfold fill_attr; simpl; [reflexivity|].
      rewrite (H j); [reflexivity|]. apply in_or_app. left. unfold attr_holes. apply in_flat_map.
      exists (k, AHole j). split; [exact Hin|simpl; auto].
    + apply flat_map_ext_in. intros x Hin. rewrite Forall_forall in IH. apply IH; [exact Hin|].
      intros j Hj. apply H. apply in_or_app. right. apply in_flat_map. eauto.
  - rewrite (H i); auto.
  - rewrite (H i); [|auto]. destruct (nth_error vs' i) as [[s| | |]|]; try reflexivity.
    f_equal. f_equal. apply flat_map_ext_in. intros x Hin. rewrite Forall_forall in IH. apply IH; [exact Hin|].
    intros j Hj. apply H. right. apply in_flat_map. eauto.
  - rewrite (H i); auto.
  - rewrite (H i); auto.
  - rewrite (H i); [|auto]. destruct (nth_error vs' i) as [[s|[q a cs|s]| |]|]; try reflexivity.
    f_equal. f_equal. f_equal. apply flat_map_ext_in. intros x Hin. rewrite Forall_forall in IH. apply IH; [exact Hin|].
    intros j Hj. apply H. right. apply in_flat_map. eauto.
  - rewrite (H i); auto.
Qed.

(* ---------------- compositional reasoning ---------------- *)
(* the templates k writes, starting at hole number |pre|, instantiate to ts when the values pv stand at
   positions |pre| … of the value list; their holes are exactly those positions; k leaves the counter after them *)
Definition realizes (k : T) (pv : list value) (ts : list tree) : Prop :=
  forall pre post,
    flat_map (fill (pre ++ pv ++ post)) (fst (k (length pre))) = ts
    /\ flat_map holes (fst (k (length pre))) = seq (length pre) (length pv)
    /\ snd (k (length pre)) = (length pre + length pv)%nat.

Lemma nth_mid {A} (pre post : list A) x : nth_error (pre ++ x :: post) (length pre) = Some x.
Proof. rewrite nth_error_app2, Nat.sub_diag; [reflexivity|lia]. Qed.

Lemma realizes_none : realizes noneT [] [].
Proof. intros pre post. simpl. repeat split. lia. Qed.

Lemma realizes_seq a b pa pb ta tb :
  realizes a pa ta -> realizes b pb tb -> realizes (a +++ b) (pa ++ pb) (ta ++ tb).
Proof.
  intros Ha Hb pre post. unfold seqT.
  destruct (Ha pre (pb ++ post)) as (A1 & A2 & A3).
  destruct (a (length pre)) as [x n1] eqn:Ea. simpl in *. subst n1.
  destruct (Hb (pre ++ pa) post) as (B1 & B2 & B3). rewrite app_length in *.
  destruct (b (length pre + length pa)%nat) as [y n2] eqn:Eb. simpl in *.
  rewrite !flat_map_app, <- !app_assoc in *. rewrite A1, B1, A2, B2, B3. repeat split.
  - now rewrite seq_app.
  - lia.
Qed.

Lemma realizes_when (b : bool) k pv ts :
  (b = true -> realizes k pv ts) -> (b = false -> pv = [] /\ ts = []) -> realizes (whenT b k) pv ts.
Proof.
  destruct b; simpl; intros H1 H2; [auto|]. destruct (H2 eq_refl) as [-> ->]. apply realizes_none.
Qed.

Lemma realizes_text s : realizes textT [VStr s] (text_nodes s).
Proof.
  intros pre post. simpl. rewrite nth_mid, app_nil_r. repeat split. lia.
Qed.

Lemma realizes_frag x t : realizes (fragT x) [VTree t] [apply_x x t].
Proof. intros pre post. simpl. rewrite nth_mid. repeat split. lia. Qed.

Lemma realizes_frags ts : realizes fragsT [VTrees ts] ts.
Proof. intros pre post. simpl. rewrite nth_mid, app_nil_r. repeat split. lia. Qed.

Lemma realizes_leaves q l : realizes (leavesT q) [VStrs l] (map (fun s => Elem q [] (text_nodes s)) l).
Proof. intros pre post. simpl. rewrite nth_mid, app_nil_r. repeat split. lia. Qed.

Lemma realizes_named ns s k pv ts :
  realizes k pv ts -> realizes (namedT ns k) (VStr s :: pv) [Elem (qn ns s) [] ts].
Proof.
  intros Hk pre post. unfold namedT.
  destruct (Hk (pre ++ [VStr s]) post) as (A1 & A2 & A3). rewrite app_length in *. simpl in *.
  rewrite Nat.add_1_r in *.
  destruct (k (S (length pre))) as [ks n'] eqn:E. simpl in *.
  rewrite <- app_assoc in A1. simpl in A1. rewrite nth_mid, A1, A2, ?app_nil_r. repeat split. lia.
Qed.

Lemma realizes_own q a cs k pv ts :
  realizes k pv ts -> realizes (ownT k) (VTree (Elem q a cs) :: pv) [Elem q a (cs ++ ts)].
Proof.
  intros Hk pre post. unfold ownT.
  destruct (Hk (pre ++ [VTree (Elem q a cs)]) post) as (A1 & A2 & A3). rewrite app_length in *. simpl in *.
  rewrite Nat.add_1_r in *.
  destruct (k (S (length pre))) as [ks n'] eqn:E. simpl in *.
  rewrite <- app_assoc in A1. simpl in A1. rewrite nth_mid, A1, A2, ?app_nil_r. repeat split. lia.
Qed.

(* attributes: the values of the holes, in order *)
Fixpoint inst_attrs (a : list (qname * option bytes)) (av : list bytes) : list (qname * bytes) :=
  match a with
  | [] => []
  | (k, Some v) :: a' => (k, v) :: inst_attrs a' av
  | (k, None) :: a' => match av with v :: av' => (k, v) :: inst_attrs a' av' | [] => [] end
  end.
Fixpoint attr_hole_count (a : list (qname * option bytes)) : nat :=
  match a with [] => 0 | (_, Some _) :: a' => attr_hole_count a' | (_, None) :: a' => S (attr_hole_count a') end.

Lemma attrs_real a : forall av pre post, length av = attr_hole_count a ->
  flat_map (fill_attr (pre ++ map VStr av ++ post)) (fst (attrsT a (length pre))) = inst_attrs a av
  /\ attr_holes (fst (attrsT a (length pre))) = seq (length pre) (length av)
  /\ snd (attrsT a (length pre)) = (length pre + length av)%nat.
Proof.
  induction a as [|[k [v|]] a IH]; intros av pre post L; simpl in *.
  - destruct av; [|discriminate]. simpl. repeat split. lia.
  - destruct (IH av pre post L) as (A1 & A2 & A3).
    destruct (attrsT a (length pre)) as [r n'] eqn:E. simpl in *. unfold fill_attr in *. simpl.
    rewrite A1. unfold attr_holes in *. simpl. now rewrite A2.
  - destruct av as [|v av]; [discriminate|]. injection L as L.
    destruct (IH av (pre ++ [VStr v]) post L) as (A1 & A2 & A3). rewrite app_length in *. simpl in *.
    rewrite Nat.add_1_r in *.
    destruct (attrsT a (S (length pre))) as [r n'] eqn:E. simpl in *.
    rewrite <- app_assoc in A1. simpl in A1. unfold fill_attr in *. simpl. rewrite nth_mid, A1.
    unfold attr_holes in *. simpl. rewrite A2. repeat split. lia.
Qed.

Lemma realizes_el q a av k pv ts :
  length av = attr_hole_count a -> realizes k pv ts ->
  realizes (elT q a k) (map VStr av ++ pv) [Elem q (inst_attrs a av) ts].
Proof.
  intros L Hk pre post. unfold elT.
  destruct (attrs_real a av pre (pv ++ post) L) as (A1 & A2 & A3).
  destruct (attrsT a (length pre)) as [a' n1] eqn:Ea. simpl in *. subst n1.
  destruct (Hk (pre ++ map VStr av) post) as (B1 & B2 & B3). rewrite app_length, map_length in *.
  destruct (k (length pre + length av)%nat) as [ks n2] eqn:Ek. simpl in *.
  rewrite <- !app_assoc in *. rewrite A1, B1, A2, B2, app_nil_r. repeat split.
  - now rewrite seq_app.
  - lia.
Qed.

(* no attribute holes *)
Lemma realizes_el0 q a k pv ts :
  attr_hole_count a = 0%nat -> realizes k pv ts -> realizes (elT q a k) pv [Elem q (inst_attrs a []) ts].
Proof. intros L Hk. apply (realizes_el q a [] k pv ts); [now rewrite L|exact Hk]. Qed.

Lemma realizes_leaf q s : realizes (leafT q) [VStr s] [Elem q [] (text_nodes s)].
Proof. apply (realizes_el0 q [] textT); [reflexivity|apply realizes_text]. Qed.

Lemma realizes_flag q : realizes (flagT q) [] [Elem q [] []].
Proof. apply (realizes_el0 q [] noneT); [reflexivity|apply realizes_none]. Qed.

(* a T that writes exactly one template *)
Definition single (k : T) : Prop := forall n, exists t, fst (k n) = [t].
Lemma single_el q a k : single (elT q a k).
Proof. intros n. unfold elT. destruct (attrsT a n) as [a' n1]. destruct (k n1) as [ks n2]. simpl. eauto. Qed.
Lemma single_named ns k : single (namedT ns k).
Proof. intros n. unfold namedT. destruct (k (S n)) as [ks n']. simpl. eauto. Qed.
Lemma single_own k : single (ownT k).
Proof. intros n. unfold ownT. destruct (k (S n)) as [ks n']. simpl. eauto. Qed.
Lemma single_frag x : single (fragT x).
Proof. intros n. simpl. eauto. Qed.

Lemma realizes_the_tpl k pv op :
  single k -> realizes k pv [op] ->
  fill pv (the_tpl k) = [op] /\ holes (the_tpl k) = seq 0 (length pv).
Proof.
  intros S R. destruct (S 0%nat) as [t E]. destruct (R [] []) as (A1 & A2 & _). simpl in *.
  unfold the_tpl. rewrite E in *. simpl in *. rewrite !app_nil_r in *. auto.
Qed.
