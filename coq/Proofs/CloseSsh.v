(* Proofs/CloseSsh.v — C12 on SSH: the worker drains paramiko's channel buffer and ends.
   The channel buffer is the field [chan] of Model/Close.v (oracle hypotheses O4, O5 there):
   after the closing flag is set every loop iteration the worker begins either consumes one
   buffered chunk or is its last one. *)
From Coq Require Import Lia.
From NC Require Import Model.Base Model.Close Spec.CloseSpec Proofs.CloseProofs Proofs.CloseThms.

Local Open Scope nat_scope.

Lemma do_cstep_chan : forall s a c d s', do_cstep s a c d = Some s' -> chan s' = chan s.
Proof. intros s a c d s' H; destruct c; simpl in H; crunch; reflexivity. Qed.

Lemma do_cstep_worker : forall s a c d s', do_cstep s a c d = Some s' -> worker s' = worker s.
Proof. intros s a c d s' H; destruct (do_cstep_facts _ _ _ _ _ H) as (_&_&F&_); exact F. Qed.

(* the closing flag, once set, stays set (it is cleared by connect() only, before the session is up) *)
Lemma closing_stable : forall s l s', Inv s -> step s l = Some s' -> closing s = true -> closing s' = true.
Proof.
  intros s l s' I H C.
  destruct l; unfold step in H; crunch; unfold note_cb, after_dispatch; simpl;
    repeat match goal with
    | |- context[if ?b then _ else _] => destruct b
    | |- context[match ?n with O => _ | S _ => _ end] => destruct n end; simpl; auto;
    try (match goal with H : do_cstep _ _ _ _ = Some _ |- _ =>
           destruct (do_cstep_facts _ _ _ _ _ H) as (_&_&_&_&_&_&_&_&_&_&_&_&_&M1&_); simpl; auto end).
  - (* SetConn *) destruct (i_handle _ I Heqp) as (_ & X & _); congruence.
  - destruct (ph s); simpl; destruct (cs s); simpl; auto.
Qed.

Ltac chanrw :=
  repeat match goal with
  | H : chan ?s = _ |- _ => is_var s; rewrite H in *; clear H
  end.
Ltac wrw :=
  repeat match goal with
  | H : worker ?s = _ |- context[worker ?s] => rewrite H
  end.

(* ---------- iterations: select calls begun once the closing flag is set ---------- *)
Lemma ssh_sel_step : forall s l s', step s l = Some s' -> closing s = true -> is_ssh (tr s) = true ->
  (if is_select_begin l then 1 else 0) + sel_credit (worker s') + length (chan s') <=
  sel_credit (worker s) + length (chan s) + (if is_arrive l then 1 else 0).
Proof.
  intros s l s' H C T.
  destruct l; unfold step in H; simpl;
    crunch; unfold note_cb, after_dispatch; simpl;
    repeat match goal with
    | |- context[if ?b then _ else _] => destruct b
    | |- context[match ?n with O => _ | S _ => _ end] => destruct n end; simpl;
    chanrw; wrw; simpl; try rewrite app_length; simpl; try lia;
    try (match goal with H : do_cstep _ _ _ _ = Some _ |- _ =>
           rewrite (do_cstep_chan _ _ _ _ _ H); try rewrite (do_cstep_worker _ _ _ _ _ H) end;
         repeat match goal with H : worker _ = _ |- _ => rewrite H end; simpl; try lia).
  all: try (destruct (ph s); simpl; destruct (cs s); simpl; lia).
  all: try (rewrite C in *; simpl in *; discriminate).
  all: try (rewrite T in *; simpl in *; discriminate).
Qed.

Lemma ssh_sel_bound_from : forall ls s s', Inv s -> closing s = true -> is_ssh (tr s) = true ->
  accepts s ls = Some s' ->
  count is_select_begin ls + sel_credit (worker s') + length (chan s') <=
  sel_credit (worker s) + length (chan s) + count is_arrive ls.
Proof.
  induction ls as [|l ls IH]; simpl; intros s s' I C T H.
  - inversion H; subst; lia.
  - destruct (step s l) as [s1|] eqn:E; [|discriminate].
    assert (T1 : is_ssh (tr s1) = true) by (rewrite (tr_step _ _ _ E); exact T).
    specialize (IH s1 s' (inv_step _ _ _ I E) (closing_stable _ _ _ I E C) T1 H).
    pose proof (ssh_sel_step _ _ _ E C T) as P. lia.
Qed.

(* (O4) nothing arrives once the transport is closed *)
Lemma no_arrival_closed : forall ls s s', Inv s -> closing s = true -> socket_open s = false ->
  accepts s ls = Some s' -> count is_arrive ls = 0.
Proof.
  induction ls as [|l ls IH]; simpl; intros s s' I C O H; [reflexivity|].
  destruct (step s l) as [s1|] eqn:E; [|discriminate].
  destruct (closed_stable _ _ _ I E C O) as [C1 O1].
  rewrite (IH s1 s' (inv_step _ _ _ I E) C1 O1 H).
  destruct l; simpl; try reflexivity.
  unfold step in E. rewrite O, Bool.andb_false_r in E. discriminate.
Qed.

Lemma ssh_tr : forall ls s, run_of Ssh ls s -> is_ssh (tr s) = true.
Proof. intros ls s R. rewrite (tr_accepts _ _ _ R). reflexivity. Qed.

(* from the moment the closing flag is set: iterations begun <= 1 + chunks buffered + chunks that still arrive *)
Lemma c12_ssh_bound_from_closing : forall ls0 s ls s',
  run_of Ssh ls0 s -> closing s = true -> accepts s ls = Some s' ->
  count is_select_begin ls <= 1 + length (chan s) + count is_arrive ls.
Proof.
  intros ls0 s ls s' R C H.
  pose proof (ssh_sel_bound_from ls s s' (run_inv _ _ _ R) C (ssh_tr _ _ R) H) as B.
  assert (sel_credit (worker s) <= 1) by (destruct (worker s) as [| | | | | | | | | | | |? k|]; simpl; try lia; destruct k; simpl; lia).
  lia.
Qed.

(* once close() has closed the transport: iterations begun <= 1 + chunks buffered at that time *)
Lemma c12_ssh_bound : forall buffered ls0 s ls s',
  run_of Ssh ls0 s -> closing s = true -> socket_open s = false -> chan s = buffered ->
  accepts s ls = Some s' ->
  count is_select_begin ls <= 1 + length buffered.
Proof.
  intros buffered ls0 s ls s' R C O B H. subst buffered.
  pose proof (c12_ssh_bound_from_closing _ _ _ _ R C H) as P.
  rewrite (no_arrival_closed ls s s' (run_inv _ _ _ R) C O H) in P. lia.
Qed.

(* ---------- termination: a measure that every worker step decreases ---------- *)
Lemma ssh_measure_step : forall s l s', step s l = Some s' ->
  closing s = true -> socket_open s = false -> is_ssh (tr s) = true ->
  (if is_worker_label l then 1 else 0) + smeasure s' <= smeasure s.
Proof.
  intros s l s' H C O T. pose proof (close_prog_len (tr s)) as L. unfold smeasure.
  destruct l; unfold step in H; simpl;
    crunch; repeat match goal with H : Nat.eqb _ _ = true |- _ => apply Nat.eqb_eq in H; subst end;
    unfold note_cb, after_dispatch; simpl;
    repeat match goal with
    | |- context[if ?b then _ else _] => destruct b
    | |- context[match ?n with O => _ | S _ => _ end] => destruct n end; simpl;
    chanrw; wrw; simpl; try lia;
    try (match goal with H : do_cstep _ _ _ _ = Some _ |- _ =>
           rewrite (do_cstep_chan _ _ _ _ _ H); try rewrite (do_cstep_worker _ _ _ _ _ H) end;
         wrw; simpl; try lia).
  all: try (destruct (ph s); simpl; destruct (cs s); simpl; lia).
  all: try (destruct k; simpl; lia).
  all: try (rewrite C in *; simpl in *; discriminate).
  all: try (rewrite T in *; simpl in *; discriminate).
  all: try (rewrite O, ?Bool.andb_false_r in *; simpl in *; discriminate).
Qed.

Lemma ssh_measure_from : forall ls s s', Inv s ->
  closing s = true -> socket_open s = false -> is_ssh (tr s) = true ->
  accepts s ls = Some s' -> count is_worker_label ls + smeasure s' <= smeasure s.
Proof.
  induction ls as [|l ls IH]; simpl; intros s s' I C O T H.
  - inversion H; subst; lia.
  - destruct (step s l) as [s1|] eqn:E; [|discriminate].
    destruct (closed_stable _ _ _ I E C O) as [C1 O1].
    assert (T1 : is_ssh (tr s1) = true) by (rewrite (tr_step _ _ _ E); exact T).
    specialize (IH s1 s' (inv_step _ _ _ I E) C1 O1 T1 H).
    pose proof (ssh_measure_step _ _ _ E C O T) as P. lia.
Qed.

(* in any continuation from a locally closed SSH session the worker performs at most
   smeasure s steps, a number fixed by its program counter and the buffered chunks *)
Lemma c12_ssh_worker_terminates : forall ls0 s ls s',
  run_of Ssh ls0 s -> closing s = true -> socket_open s = false ->
  accepts s ls = Some s' -> count is_worker_label ls + smeasure s' <= smeasure s.
Proof.
  intros ls0 s ls s' R C O H.
  exact (ssh_measure_from ls s s' (run_inv _ _ _ R) C O (ssh_tr _ _ R) H).
Qed.

Lemma worker_label_cprog : forall s l s', step s l = Some s' -> is_worker_label l = true -> cprog s' = cprog s.
Proof.
  intros s l s' H W; destruct l; simpl in W; try discriminate;
    try (destruct a; try discriminate); unfold step in H; crunch; unfold note_cb, after_dispatch; simpl;
    repeat match goal with
    | |- context[if ?b then _ else _] => destruct b
    | |- context[match ?n with O => _ | S _ => _ end] => destruct n end; simpl; try reflexivity;
    try (match goal with H : do_cstep _ _ _ _ = Some _ |- _ =>
           destruct (do_cstep_facts _ _ _ _ _ H) as (_&_&_&F&_); simpl; congruence end).
Qed.

(* ... and reaches its end by its own steps alone: no other thread is needed *)
Lemma ssh_worker_runs_out : forall n s, Inv s ->
  closing s = true -> socket_open s = false -> is_ssh (tr s) = true -> smeasure s <= n ->
  exists ls s', accepts s ls = Some s' /\ (forall l, In l ls -> is_worker_label l = true) /\
    not_alive (worker s') = true /\ length ls <= smeasure s /\ cprog s' = cprog s /\
    Inv s' /\ tr s' = tr s.
Proof.
  assert (Done : forall s, Inv s -> not_alive (worker s) = true ->
    exists ls s', accepts s ls = Some s' /\ (forall l, In l ls -> is_worker_label l = true) /\
      not_alive (worker s') = true /\ length ls <= smeasure s /\ cprog s' = cprog s /\ Inv s' /\ tr s' = tr s).
  { intros s I A. exists [], s. simpl. split; [reflexivity|]. split; [intros ? []|]. split; [exact A|].
    split; [lia|]. split; [reflexivity|]. split; [exact I|reflexivity]. }
  induction n as [|n IH]; intros s I C O T M.
  - apply Done; [exact I|].
    unfold smeasure in M. destruct (worker s) as [| | | | | | | | | | |c|r k|]; simpl in *; try lia; try reflexivity.
    + destruct c; simpl in M; lia.
    + destruct k; simpl in M; lia.
  - destruct (not_alive (worker s)) eqn:A.
    + apply Done; assumption.
    + destruct (c12_worker_progress_closed s A O) as (l & W & E).
      destruct (step s l) as [s1|] eqn:E1; [|congruence].
      destruct (closed_stable _ _ _ I E1 C O) as [C1 O1].
      assert (T1 : is_ssh (tr s1) = true) by (rewrite (tr_step _ _ _ E1); exact T).
      pose proof (ssh_measure_step _ _ _ E1 C O T) as P. rewrite W in P.
      destruct (IH s1 (inv_step _ _ _ I E1) C1 O1 T1 ltac:(lia)) as (ls & s' & Ac & Wl & NA & Len & Cp & I' & Tr').
      exists (l :: ls), s'. rewrite accepts_cons, E1. simpl length.
      split; [exact Ac|]. split; [intros l0 [X|X]; [subst; exact W | apply Wl; exact X]|].
      split; [exact NA|]. split; [lia|].
      split; [rewrite Cp; eapply worker_label_cprog; eauto|].
      split; [exact I'|]. rewrite Tr'. eapply tr_step; eauto.
Qed.

(* ---------- close() returns ---------- *)
Lemma ssh_suffix_cases : forall rest, suffix_of rest (close_prog Ssh) ->
  rest = [SetClosing; ClearConn; CloseHandle; JoinW; ChanDrop; ClearConn] \/
  rest = [ClearConn; CloseHandle; JoinW; ChanDrop; ClearConn] \/
  rest = [CloseHandle; JoinW; ChanDrop; ClearConn] \/
  rest = [JoinW; ChanDrop; ClearConn] \/
  rest = [ChanDrop; ClearConn] \/ rest = [ClearConn] \/ rest = [].
Proof.
  intros rest [dn E]. simpl in E.
  do 7 (destruct dn as [|? dn]; [simpl in E; subst; tauto | simpl in E; inversion E; subst; clear E; rename H1 into E]).
Qed.

Lemma ssh_close_completes : forall rest s, Inv s -> tr s = Ssh -> cprog s = Some rest ->
  exists ls s', accepts s ls = Some s' /\ In (CloseRet Client) ls /\ client_closed s' = true /\
    (forall l, In l ls -> is_worker_label l = true \/ l = CloseRet Client \/ exists c d, l = CStep Client c d).
Proof.
  induction rest as [|c rest IH]; intros s I T Cp.
  - destruct (step s (CloseRet Client)) as [s1|] eqn:E.
    + exists [CloseRet Client], s1. rewrite accepts_cons, E. simpl. repeat split; auto.
      * eapply closeret_sets; eauto.
      * intros l [X|[]]; subst; auto.
    + unfold step in E. rewrite Cp in E. discriminate.
  - destruct (i_cprog _ I _ Cp) as (_ & Suf & Eff). rewrite T in Suf.
    assert (J : c = JoinW \/ c <> JoinW) by (destruct c; auto; right; discriminate).
    destruct J as [J|J].
    + subst c.
      assert (R3 : rest = [ChanDrop; ClearConn]).
      { destruct (ssh_suffix_cases _ Suf) as [X|[X|[X|[X|[X|[X|X]]]]]]; inversion X; reflexivity. }
      subst rest. destruct Eff as (E1 & E2 & _).
      assert (C : closing s = true) by (apply E1; simpl; intuition discriminate).
      assert (O : socket_open s = false) by (apply E2; simpl; intuition discriminate).
      assert (T' : is_ssh (tr s) = true) by (rewrite T; reflexivity).
      destruct (ssh_worker_runs_out (smeasure s) s I C O T' (le_n _)) as (lw & s1 & Ac & Wl & NA & _ & Cp1 & I1 & Tr1).
      rewrite Cp in Cp1.
      set (d := match worker s1 with WExited => true | _ => false end).
      assert (E : step s1 (CStep Client JoinW d) = Some (w_cprog s1 (Some [ChanDrop; ClearConn]))).
      { unfold step. rewrite Cp1. simpl. unfold d. destruct (worker s1); simpl in *; try discriminate; reflexivity. }
      destruct (IH _ (inv_step _ _ _ I1 E) ltac:(simpl; congruence) eq_refl) as (ls & s' & Ac' & Hin & CC & Lab).
      exists (lw ++ CStep Client JoinW d :: ls), s'. rewrite accepts_app, Ac, accepts_cons, E.
      repeat split; auto.
      * apply in_or_app; right; right; exact Hin.
      * intros l Hl. apply in_app_or in Hl. destruct Hl as [X|[X|X]]; [left; apply Wl; exact X | subst; right; right; eauto | apply Lab; exact X].
    + destruct (do_cstep s Client c true) as [s1|] eqn:D.
      * assert (E : step s (CStep Client c true) = Some (w_cprog s1 (Some rest))).
        { unfold step. rewrite Cp. replace (cstep_eqb c c) with true by (destruct c; reflexivity). rewrite D. reflexivity. }
        assert (T1 : tr (w_cprog s1 (Some rest)) = Ssh).
        { rewrite (tr_step _ _ _ E). exact T. }
        destruct (IH _ (inv_step _ _ _ I E) T1 eq_refl) as (ls & s' & Ac' & Hin & CC & Lab).
        exists (CStep Client c true :: ls), s'. rewrite accepts_cons, E.
        split; [exact Ac'|]. split; [right; exact Hin|]. split; [exact CC|].
        intros l [X|X]; [subst; right; right; eauto | apply Lab; exact X].
      * destruct c; simpl in D; try discriminate. congruence.
Qed.

(* a client thread inside close() on an SSH session can always be brought to the return of
   close() by steps of that thread and of the worker only; when it returns the worker has ended *)
Lemma c12_ssh_close_returns : forall ls0 s rest, run_of Ssh ls0 s -> cprog s = Some rest ->
  exists ls s', accepts s ls = Some s' /\ In (CloseRet Client) ls /\
    (forall l, In l ls -> is_worker_label l = true \/ l = CloseRet Client \/ exists c d, l = CStep Client c d) /\
    client_closed s' = true /\ not_alive (worker s') = true /\ connected s' = false /\ socket_open s' = false.
Proof.
  intros ls0 s rest R Cp.
  destruct (ssh_close_completes rest s (run_inv _ _ _ R) (tr_accepts _ _ _ R) Cp) as (ls & s' & Ac & Hin & CC & Lab).
  exists ls, s'. repeat split; auto.
  all: assert (I' : Inv s') by (eapply reachable_inv, accepts_reachable; [eapply run_reachable; exact R | exact Ac]);
       destruct (i_closed _ I' CC) as (A & B & _ & _ & E & _); assumption.
Qed.
