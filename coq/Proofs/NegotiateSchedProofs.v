(* NegotiateSchedProofs.v — invariants of the two-thread hello exchange (Model/NegotiateSched.v),
   each proved preserved by EVERY label, hence true after every accepted label sequence,
   i.e. under every interleaving of the connecting thread and the worker. *)
From Coq Require Import String Lia.
From NC Require Import Model.Base Model.Lit Model.Caps Model.Writer Model.Negotiate Model.NegotiateSched.
From NC Require Import Spec.CapsSpec Proofs.NegotiateProofs.

Definition holding (w : wpc) : nat := match w with WGot _ | WClr _ | WRdB _ | WFr _ _ => 1 | _ => 0 end.
Definition dying (w : wpc) : Prop :=
  match w with WRaised _ | WErr0 _ true | WSet true | WClosing | WExiting | WDone => True | _ => False end.
Definition early (m : mpc) : bool := match m with M0 | M1 | M2 => true | _ => false end.

Ltac projs := cbn [f_base f_q f_pending f_wire f_lis f_ev f_err f_sid f_caps f_conn f_m f_w f_chosen f_seen
                   set_m set_w set_base set_q set_pending set_wire set_lis set_ev set_err set_sid set_caps set_conn set_chosen set_seen] in *.

Lemma base_eqb_eq a b : base_eqb a b = true -> a = b.
Proof. destruct a, b; cbn; congruence. Qed.
Lemma bool_eqb_eq a b : Bool.eqb a b = true -> a = b.
Proof. destruct a, b; cbn; congruence. Qed.

Lemma run_fapp c : forall l1 l2 s s2, run_flabels c s (l1 ++ l2) = Some s2 ->
  exists s1, run_flabels c s l1 = Some s1 /\ run_flabels c s1 l2 = Some s2.
Proof.
  induction l1 as [|l l1 IH]; intros l2 s s2 H; cbn in *.
  - eauto.
  - destruct (fstep c s l) as [s1|]; [|discriminate]. apply IH. exact H.
Qed.

(* ------------------------------------------------------------ InvA: framing *)
Record InvA (c : list bytes) (s : fstate) : Prop := {
  a_pre : match f_m s with
          | M0 | M1 => f_pending s = false /\ f_q s = [] /\ f_wire s = [] /\ f_w s = WNot
          | M2 => f_pending s = true /\ f_q s = [] /\ f_wire s = [] /\ f_w s = WNot
          | M3 => f_pending s = true /\ f_q s = [0] /\ f_wire s = [] /\ f_w s = WNot
          | _ => f_w s <> WNot
          end;
  a_hello : early (f_m s) = false ->
       (f_pending s = true /\ f_wire s = [] /\
          (((exists q1, f_q s = 0 :: q1) /\ holding (f_w s) = 0%nat) \/ f_w s = WGot 0 \/ f_w s = WClr 0))
    \/ (f_pending s = false /\ f_wire s = [] /\ f_w s = WFr B10 0)
    \/ (f_pending s = false /\ ((exists rest, f_wire s = (B10, 0) :: rest) \/ (f_wire s = [] /\ dying (f_w s))));
  a_count : f_m s <> MDone None -> (length (f_wire s) + length (f_q s) + holding (f_w s) <= 1)%nat;
  a_base : match f_m s with
           | M8 => f_base s = B10 /\ exists sv, f_chosen s = Some sv /\ choose_base sv c = Ok B11
           | M9 None | MDone None => exists sv, f_chosen s = Some sv /\ choose_base sv c = Ok (f_base s)
           | _ => f_base s = B10
           end;
  a_later : forall i fm, nth_error (f_wire s) (S i) = Some fm -> fst fm = f_base s /\ f_m s = MDone None;
  a_rdb : forall m, f_w s = WRdB m -> f_m s = MDone None;
  a_clr : forall m, f_w s = WClr m -> f_pending s = true;
  a_fr : forall f m, f_w s = WFr f m -> (f_wire s = [] /\ f = B10 /\ m = 0) \/ (f = f_base s /\ f_m s = MDone None)
}.

Lemma inva_init c : InvA c finit.
Proof.
  constructor; cbn; auto; try discriminate; try lia;
  try (intros [|i] fm H; discriminate).
Qed.

Ltac brk I := destruct I as [Ipre Ihello Icount Ibase Ilater Irdb Iclr Ifr].
Ltac easy_a := projs; auto; try discriminate; try congruence; try lia.

(* labels of the connecting thread that only move its program counter among M4..M7 / to a failure *)
Lemma inva_mmove c s x :
  InvA c s ->
  match f_m s with M4 | M5 | M6 | M7 => True | _ => False end ->
  match x with M5 | M6 | M7 | M9 (Some _) | MDone (Some _) => True | _ => False end ->
  InvA c (set_m s x).
Proof.
  intros I Hm Hx. brk I.
  assert (Hn : f_m s <> MDone None) by (destruct (f_m s); try contradiction; discriminate).
  assert (Hb : f_base s = B10) by (destruct (f_m s); try contradiction; exact Ibase).
  assert (Hw : f_w s <> WNot) by (destruct (f_m s); try contradiction; exact Ipre).
  assert (He : early (f_m s) = false) by (destruct (f_m s); try contradiction; reflexivity).
  constructor; projs.
  - destruct x as [| | | | | | | | |[e|]|[e|]]; try contradiction; exact Hw.
  - intros _. exact (Ihello He).
  - intros _. exact (Icount Hn).
  - destruct x as [| | | | | | | | |[e|]|[e|]]; try contradiction; exact Hb.
  - intros i fm Hx2. destruct (Ilater i fm Hx2) as [_ X]. contradiction.
  - intros m Hx2. exfalso. exact (Hn (Irdb m Hx2)).
  - exact Iclr.
  - intros f m Hx2. destruct (Ifr f m Hx2) as [L|[_ R]]; [left; exact L|contradiction].
Qed.

Ltac t_later Ilater :=
  let i := fresh "i" in let fm := fresh "fm" in let Hx := fresh "Hx" in let X := fresh "X" in let Y := fresh "Y" in
  intros i fm Hx; first [ destruct (Ilater i fm Hx) as [Y X]; first [discriminate X | congruence | (split; [exact Y|congruence])]
                        | exfalso; congruence | (rewrite_strat (topdown (hints core)) in Hx; discriminate) ].
Ltac t_rdb Irdb :=
  let m := fresh "m" in let Hx := fresh "Hx" in let X := fresh "X" in
  intros m Hx; first [ pose proof (Irdb m Hx) as X; first [discriminate X | congruence] | congruence ].
Ltac t_fr Ifr :=
  let f := fresh "f" in let m := fresh "m" in let Hx := fresh "Hx" in let L := fresh "L" in let R1 := fresh "R" in let R2 := fresh "R" in
  intros f m Hx; first [ destruct (Ifr f m Hx) as [L|[R1 R2]]; [left; exact L| first [discriminate R2 | (right; split; congruence)]]
                       | congruence ].

Lemma inva_mlabels c s l s1 : InvA c s -> is_mlabel l = true -> fstep c s l = Some s1 -> InvA c s1.
Proof.
  intros I Hl H. destruct l; try discriminate; cbn [fstep] in H.
  - (* FMReg *) destruct (f_m s) eqn:Em; try discriminate. inversion H; subst s1; clear H. brk I. rewrite Em in *.
    destruct Ipre as (P1 & P2 & P3 & P4).
    constructor; projs.
    + auto.
    + discriminate.
    + intros _. rewrite P2, P3, P4. cbn. lia.
    + exact Ibase.
    + intros i fm Hx. rewrite P3 in Hx. discriminate.
    + intros m Hx. congruence.
    + intros m Hx. congruence.
    + intros f m Hx. congruence.
  - (* FMPend *) destruct (f_m s) eqn:Em; try discriminate. inversion H; subst s1; clear H. brk I. rewrite Em in *.
    destruct Ipre as (P1 & P2 & P3 & P4).
    constructor; projs.
    + auto.
    + discriminate.
    + intros _. rewrite P2, P3, P4. cbn. lia.
    + exact Ibase.
    + intros i fm Hx. rewrite P3 in Hx. discriminate.
    + intros m Hx. congruence.
    + intros m Hx. congruence.
    + intros f m Hx. congruence.
  - (* FMPutHello *) destruct (f_m s) eqn:Em; try discriminate. inversion H; subst s1; clear H. brk I. rewrite Em in *.
    destruct Ipre as (P1 & P2 & P3 & P4).
    constructor; projs.
    + rewrite P2. cbn. auto.
    + intros _. left. rewrite P2, P4. cbn. repeat split; auto. left. split; eauto.
    + intros _. rewrite P2, P3, P4. cbn. lia.
    + exact Ibase.
    + intros i fm Hx. rewrite P3 in Hx. discriminate.
    + intros m Hx. congruence.
    + intros m Hx. congruence.
    + intros f m Hx. congruence.
  - (* FMStart *) destruct (f_m s) eqn:Em; try discriminate. destruct (f_w s) eqn:Ew; try discriminate.
    inversion H; subst s1; clear H. brk I. rewrite Em in *.
    destruct Ipre as (P1 & P2 & P3 & P4).
    constructor; projs.
    + discriminate.
    + intros _. left. rewrite P2. cbn. repeat split; auto. left. split; eauto.
    + intros _. rewrite P2, P3. cbn. lia.
    + exact Ibase.
    + intros i fm Hx. rewrite P3 in Hx. discriminate.
    + intros m Hx. discriminate.
    + intros m Hx. discriminate.
    + intros f m Hx. discriminate.
  - (* FMWait *) destruct (f_m s) eqn:Em; try discriminate. destruct (Bool.eqb b (f_ev s)); [|discriminate].
    inversion H; subst s1. apply inva_mmove; [exact I|rewrite Em; exact Logic.I|exact Logic.I].
  - (* FMIsSet *) destruct (f_m s) eqn:Em; try discriminate. destruct (Bool.eqb b (f_ev s)); [|discriminate].
    inversion H; subst s1. apply inva_mmove; [exact I|rewrite Em; exact Logic.I|destruct b; exact Logic.I].
  - (* FMUnreg *) destruct (f_m s) eqn:Em; try discriminate. inversion H; subst s1; clear H.
    pose proof (inva_mmove c s M7 I) as X. rewrite Em in X. specialize (X Logic.I Logic.I).
    brk X. constructor; projs; assumption.
  - (* FMCaps *) destruct (f_m s) eqn:Em; try discriminate. destruct (f_err s) eqn:Ee; try discriminate.
    inversion H; subst s1; clear H. unfold decide.
    destruct (f_caps s) as [sv|] eqn:Ec.
    2:{ apply inva_mmove; [exact I|rewrite Em; exact Logic.I|exact Logic.I]. }
    destruct (choose_base sv c) as [[|]| |x] eqn:Ech;
      try (apply inva_mmove; [exact I|rewrite Em; exact Logic.I|exact Logic.I]).
    + (* B10: M9 None *) brk I. rewrite Em in *.
      assert (Hn : M7 <> MDone None) by discriminate.
      constructor; projs.
      * exact Ipre.
      * intros _. apply Ihello. reflexivity.
      * intros _. exact (Icount Hn).
      * rewrite Ibase. eauto.
      * t_later Ilater.
      * t_rdb Irdb.
      * exact Iclr.
      * t_fr Ifr.
    + (* B11: M8 *) brk I. rewrite Em in *.
      assert (Hn : M7 <> MDone None) by discriminate.
      constructor; projs.
      * exact Ipre.
      * intros _. apply Ihello. reflexivity.
      * intros _. exact (Icount Hn).
      * split; eauto.
      * t_later Ilater.
      * t_rdb Irdb.
      * exact Iclr.
      * t_fr Ifr.
  - (* FMBase *) destruct (f_m s) eqn:Em; try discriminate. inversion H; subst s1; clear H. brk I. rewrite Em in *.
    destruct Ibase as (B & sv & Hc & Hch).
    assert (Hn : M8 <> MDone None) by discriminate.
    constructor; projs.
    + exact Ipre.
    + intros _. apply Ihello. reflexivity.
    + intros _. exact (Icount Hn).
    + eauto.
    + t_later Ilater.
    + t_rdb Irdb.
    + exact Iclr.
    + t_fr Ifr.
  - (* FMRet *) destruct (f_m s) eqn:Em; try discriminate.
    + destruct (f_err s) eqn:Ee; try discriminate. inversion H; subst s1.
      apply inva_mmove; [exact I|rewrite Em; exact Logic.I|exact Logic.I].
    + inversion H; subst s1; clear H. brk I. rewrite Em in *.
      assert (Hn : M9 r <> MDone None) by discriminate.
      constructor; projs.
      * exact Ipre.
      * intros _. apply Ihello. reflexivity.
      * intros _. exact (Icount Hn).
      * destruct r; exact Ibase.
      * t_later Ilater.
      * t_rdb Irdb.
      * exact Iclr.
      * t_fr Ifr.
Qed.

(* the worker moves among program points that hold no message and are started; nothing else changes
   except fields InvA does not mention (callbacks, event, error, close) *)
Lemma inva_wmove c s s1 :
  InvA c s ->
  f_base s1 = f_base s -> f_q s1 = f_q s -> f_pending s1 = f_pending s -> f_wire s1 = f_wire s ->
  f_m s1 = f_m s -> f_chosen s1 = f_chosen s ->
  holding (f_w s) = 0%nat -> f_w s <> WNot -> holding (f_w s1) = 0%nat -> f_w s1 <> WNot ->
  (dying (f_w s) -> dying (f_w s1)) ->
  InvA c s1.
Proof.
  intros I Eb Eq Ep Ewi Em Ech H0 Hn0 H1 Hn1 Hd. brk I.
  constructor; rewrite ?Eb, ?Eq, ?Ep, ?Ewi, ?Em, ?Ech, ?H1.
  - destruct (f_m s); try exact Hn1; destruct Ipre as (_ & _ & _ & X); contradiction.
  - intros He. destruct (Ihello He) as [(P & W & [(Q & _)|[X|X]])|[(P & W & X)|(P & [W|(W & D)])]];
      try (rewrite X in H0; discriminate).
    + left. auto.
    + right. right. auto.
    + right. right. auto.
  - intros Hn. specialize (Icount Hn). lia.
  - exact Ibase.
  - exact Ilater.
  - intros m X. rewrite X in H1. discriminate.
  - intros m X. rewrite X in H1. discriminate.
  - intros f m X. rewrite X in H1. discriminate.
Qed.

Lemma main_dec' (m : mpc) : m = MDone None \/ m <> MDone None.
Proof. destruct m as [| | | | | | | | | |[e|]]; try (right; discriminate). left; reflexivity. Qed.

Lemma nth_error_snoc' {A} (l : list A) x i y :
  nth_error (l ++ [x]) i = Some y -> nth_error l i = Some y \/ (i = length l /\ y = x).
Proof. apply nth_error_snoc. Qed.

Lemma inva_olabels c s l s1 : InvA c s -> is_mlabel l = false -> fstep c s l = Some s1 -> InvA c s1.
Proof.
  intros I Hl H. destruct l; try discriminate; cbn [fstep] in H.
  - (* FMPut *) destruct (f_m s) as [| | | | | | | | | |[e|]] eqn:Em; try discriminate.
    inversion H; subst s1; clear H. brk I. rewrite Em in *.
    constructor; projs; rewrite ?Em.
    + exact Ipre.
    + intros He. destruct (Ihello He) as [(P & W & [((q1 & Q) & H0)|X])|X]; auto.
      left. repeat split; auto. left. split; [|exact H0]. rewrite Q. cbn. eauto.
    + intros X. congruence.
    + exact Ibase.
    + exact Ilater.
    + exact Irdb.
    + exact Iclr.
    + exact Ifr.
  - (* FWGet *) destruct (f_w s) eqn:Ew; try discriminate. destruct (f_q s) as [|m' q'] eqn:Eq; try discriminate.
    destruct (N.eqb m m') eqn:En; try discriminate. apply N.eqb_eq in En. subst m'.
    inversion H; subst s1; clear H. brk I. rewrite Ew in *.
    constructor; projs.
    + destruct (f_m s); try discriminate; destruct Ipre as (_ & _ & _ & X); congruence.
    + intros He. destruct (Ihello He) as [(P & W & [((q1 & Q) & H0)|[X|X]])|[(P & W & X)|(P & [W|(W & D)])]];
        try discriminate; try congruence; try contradiction.
      * left. rewrite Eq in Q. inversion Q; subst. auto.
      * right. right. auto.
    + intros Hn. specialize (Icount Hn). rewrite Eq in Icount. cbn in *. lia.
    + exact Ibase.
    + exact Ilater.
    + discriminate.
    + discriminate.
    + discriminate.
  - (* FWPendRd *) destruct (f_w s) eqn:Ew; try discriminate.
    destruct (Bool.eqb b (f_pending s)) eqn:Eb; try discriminate. apply bool_eqb_eq in Eb. subst b.
    inversion H; subst s1; clear H. brk I. rewrite Ew in *.
    assert (Hst : early (f_m s) = false).
    { destruct (f_m s); try reflexivity; destruct Ipre as (_ & _ & _ & X); congruence. }
    destruct (f_pending s) eqn:Ep.
    + (* True: WClr *)
      destruct (Ihello Hst) as [(P & W & [((q1 & Q) & H0)|[X|X]])|[(P & W & X)|(P & _)]]; try discriminate.
      inversion X; subst m.
      constructor; projs.
      * destruct (f_m s); try discriminate; destruct Ipre as (_ & _ & _ & Y); congruence.
      * intros _. left. auto.
      * intros Hn. exact (Icount Hn).
      * exact Ibase.
      * exact Ilater.
      * discriminate.
      * intros m _. exact Ep.
      * discriminate.
    + (* False: WRdB *)
      destruct (Ihello Hst) as [(P & _)|[(P & W & X)|(P & [(rest & W)|(W & D)])]]; try discriminate; try congruence; try contradiction.
      assert (Hd : f_m s = MDone None).
      { destruct (main_dec' (f_m s)) as [E|E]; [exact E|]. specialize (Icount E). rewrite W in Icount. cbn in Icount. lia. }
      constructor; projs.
      * rewrite Hd. discriminate.
      * intros _. right. right. split; eauto.
      * intros Hn. contradiction.
      * exact Ibase.
      * exact Ilater.
      * intros _ _. exact Hd.
      * discriminate.
      * discriminate.
  - (* FWPendClr *) destruct (f_w s) eqn:Ew; try discriminate. inversion H; subst s1; clear H. brk I. rewrite Ew in *.
    assert (Hst : early (f_m s) = false).
    { destruct (f_m s); try reflexivity; destruct Ipre as (_ & _ & _ & X); congruence. }
    pose proof (Iclr m eq_refl) as Ep.
    destruct (Ihello Hst) as [(P & W & [((q1 & Q) & H0)|[X|X]])|[(P & _)|(P & _)]]; try discriminate; try congruence.
    inversion X; subst m.
    constructor; projs.
    + destruct (f_m s); try discriminate; destruct Ipre as (_ & _ & _ & Y); congruence.
    + intros _. right. left. auto.
    + intros Hn. exact (Icount Hn).
    + exact Ibase.
    + exact Ilater.
    + discriminate.
    + discriminate.
    + intros f m Hx. inversion Hx; subst. left. auto.
  - (* FWBaseRd *) destruct (f_w s) eqn:Ew; try discriminate.
    destruct (base_eqb b (f_base s)) eqn:Eb; try discriminate. apply base_eqb_eq in Eb. subst b.
    inversion H; subst s1; clear H. brk I. rewrite Ew in *.
    pose proof (Irdb m eq_refl) as Hd.
    constructor; projs.
    + rewrite Hd. discriminate.
    + intros He. destruct (Ihello He) as [(P & W & [((q1 & Q) & H0)|[X|X]])|[(P & W & X)|(P & [W|(W & D)])]];
        try discriminate; try congruence; try contradiction.
      right. right. auto.
    + intros Hn. contradiction.
    + exact Ibase.
    + exact Ilater.
    + discriminate.
    + discriminate.
    + intros f m0 Hx. inversion Hx; subst. right. auto.
  - (* FWWrite *) destruct (f_w s) eqn:Ew; try discriminate. inversion H; subst s1; clear H. brk I. rewrite Ew in *.
    assert (Hst : early (f_m s) = false).
    { destruct (f_m s); try reflexivity; destruct Ipre as (_ & _ & _ & X); congruence. }
    constructor; projs.
    + destruct (f_m s); try discriminate; destruct Ipre as (_ & _ & _ & Y); congruence.
    + intros _. right. right.
      destruct (Ihello Hst) as [(P & W & [((q1 & Q) & H0)|[X|X]])|[(P & W & X)|(P & [(rest & W)|(W & D)])]];
        try discriminate; try congruence; try contradiction.
      * inversion X; subst. split; [exact P|]. left. rewrite W. cbn. eauto.
      * split; [exact P|]. left. rewrite W. cbn. eauto.
    + intros Hn. specialize (Icount Hn). rewrite app_length. cbn in *. lia.
    + exact Ibase.
    + intros i fm Hx. apply nth_error_snoc in Hx. destruct Hx as [Hx|[Hi ->]]; [eauto|].
      destruct (Ifr f m eq_refl) as [(W & _)|(F & D)].
      * rewrite W in Hi. discriminate.
      * cbn. auto.
    + discriminate.
    + discriminate.
    + discriminate.
  - (* FWWriteFail *) destruct (f_w s) eqn:Ew; try discriminate. inversion H; subst s1; clear H. brk I. rewrite Ew in *.
    assert (Hst : early (f_m s) = false).
    { destruct (f_m s); try reflexivity; destruct Ipre as (_ & _ & _ & X); congruence. }
    constructor; projs.
    + destruct (f_m s); try discriminate; destruct Ipre as (_ & _ & _ & Y); congruence.
    + intros _. right. right.
      destruct (Ihello Hst) as [(P & W & [((q1 & Q) & H0)|[X|X]])|[(P & W & X)|(P & [(rest & W)|(W & D)])]];
        try discriminate; try congruence; try contradiction.
      * split; [exact P|]. right. split; [exact W|exact Logic.I].
      * split; [exact P|]. left. eauto.
    + intros Hn. specialize (Icount Hn). cbn in *. lia.
    + exact Ibase.
    + exact Ilater.
    + discriminate.
    + discriminate.
    + discriminate.
  - (* FWDisp *) destruct (f_w s) eqn:Ew; try discriminate. inversion H; subst s1; clear H.
    unfold on_hello. destruct h as [t|]; [|exact I].
    destruct (f_lis (set_seen s (f_seen s ++ [t]))).
    + destruct (parse_hello t) as [[sd uris]| |x];
        (eapply inva_wmove; [exact I|projs; try reflexivity; try rewrite Ew; cbn; try discriminate; auto ..]).
    + eapply inva_wmove; [exact I|projs; try reflexivity; try rewrite Ew; cbn; try discriminate; auto ..].
  - (* FWSid *) destruct (f_w s) eqn:Ew; try discriminate. inversion H; subst s1; clear H.
    eapply inva_wmove; [exact I|projs; try reflexivity; try rewrite Ew; cbn; try discriminate; auto ..].
  - (* FWCaps *) destruct (f_w s) eqn:Ew; try discriminate. inversion H; subst s1; clear H.
    eapply inva_wmove; [exact I|projs; try reflexivity; try rewrite Ew; cbn; try discriminate; auto ..].
  - (* FWErrCb *) destruct (f_w s) eqn:Ew; try discriminate. inversion H; subst s1; clear H.
    eapply inva_wmove; [exact I|projs; try reflexivity; try rewrite Ew; cbn; try discriminate; auto ..].
  - (* FWEvSet *) destruct (f_w s) eqn:Ew; try discriminate. inversion H; subst s1; clear H.
    eapply inva_wmove; [exact I|projs; try reflexivity; try rewrite Ew; cbn; try (destruct dying0; cbn); try discriminate; auto ..].
  - (* FWDie *) destruct (f_w s) eqn:Ew; try discriminate. destruct e; try discriminate; inversion H; subst s1; clear H;
    (eapply inva_wmove; [exact I|projs; try reflexivity; try rewrite Ew; cbn; try discriminate; auto ..]).
  - (* FWBcast *) destruct (f_w s) eqn:Ew; try discriminate. inversion H; subst s1; clear H.
    eapply inva_wmove; [exact I|projs; try reflexivity; try rewrite Ew; cbn; try (destruct (f_lis s); cbn); try discriminate; auto ..].
  - (* FWClose *) destruct (f_w s) eqn:Ew; try discriminate. inversion H; subst s1; clear H.
    eapply inva_wmove; [exact I|projs; try reflexivity; try rewrite Ew; cbn; try discriminate; auto ..].
  - (* FWExit *) destruct (f_w s) eqn:Ew; try discriminate. inversion H; subst s1; clear H.
    eapply inva_wmove; [exact I|projs; try reflexivity; try rewrite Ew; cbn; try discriminate; auto ..].
Qed.

Lemma inva_step c s l s1 : InvA c s -> fstep c s l = Some s1 -> InvA c s1.
Proof.
  intros I H. destruct (is_mlabel l) eqn:E; [eapply inva_mlabels|eapply inva_olabels]; eauto.
Qed.

Lemma inva_run c : forall ls s s1, InvA c s -> run_flabels c s ls = Some s1 -> InvA c s1.
Proof.
  induction ls as [|l ls IH]; intros s s1 I H; cbn in H.
  - inversion H; subst; exact I.
  - destruct (fstep c s l) as [s2|] eqn:E; [|discriminate].
    eapply IH; [|exact H]. eapply inva_step; eauto.
Qed.

(* ------------------------------------------------------------ InvB: the callbacks publish before they signal *)
Definition transport_err (e : herr) : Prop := e = ESessionClose \/ e = EOther \/ e = EParse.

Record InvB (s : fstate) : Prop := {
  b_set : forall d, f_w s = WSet d -> f_err s <> None \/ f_caps s <> None;
  b_ev : f_ev s = true -> f_err s <> None \/ f_caps s <> None;
  b_m : (f_m s = M6 \/ f_m s = M7) -> f_ev s = true;
  b_errk : forall e, f_err s = Some e -> transport_err e;
  b_w0 : forall e d, f_w s = WErr0 e d -> transport_err e;
  b_wr : forall e, f_w s = WRaised e -> transport_err e;
  b_res : forall e, (f_m s = M9 (Some e) \/ f_m s = MDone (Some e)) -> e = ETimeout \/ transport_err e
}.

Lemma invb_init : InvB finit.
Proof. constructor; cbn; try discriminate; intros; intuition discriminate. Qed.

Ltac brkb I := destruct I as [Bset Bev Bm Berrk Bw0 Bwr Bres].

(* a step that leaves event, error and capabilities alone, moves the worker to a program point InvB does not
   constrain (or leaves it), and moves the connecting thread to a point InvB does not constrain (or leaves it) *)
Lemma invb_keep s s1 :
  InvB s -> f_ev s1 = f_ev s -> f_err s1 = f_err s -> f_caps s1 = f_caps s ->
  (f_w s1 = f_w s \/ match f_w s1 with WSet _ | WErr0 _ _ | WRaised _ => False | _ => True end) ->
  (f_m s1 = f_m s \/ match f_m s1 with M6 | M7 | M9 (Some _) | MDone (Some _) => False | _ => True end) ->
  InvB s1.
Proof.
  intros I Ee Er Ec Hw Hm. brkb I.
  constructor; rewrite ?Ee, ?Er, ?Ec.
  - intros d X. destruct Hw as [Hw|Hw]; [rewrite Hw in X; eauto|rewrite X in Hw; contradiction].
  - exact Bev.
  - intros X. destruct Hm as [Hm|Hm]; [rewrite Hm in X; auto|destruct X as [X|X]; rewrite X in Hm; contradiction].
  - exact Berrk.
  - intros e d X. destruct Hw as [Hw|Hw]; [rewrite Hw in X; eauto|rewrite X in Hw; contradiction].
  - intros e X. destruct Hw as [Hw|Hw]; [rewrite Hw in X; eauto|rewrite X in Hw; contradiction].
  - intros e X. destruct Hm as [Hm|Hm]; [rewrite Hm in X; auto|destruct X as [X|X]; rewrite X in Hm; contradiction].
Qed.

Ltac keep_b I := eapply invb_keep; [exact I|projs; try reflexivity; auto ..].

Lemma invb_step c s l s1 : InvB s -> fstep c s l = Some s1 -> InvB s1.
Proof.
  intros I H. destruct l; cbn [fstep] in H.
  - (* FMReg *) destruct (f_m s) eqn:Em; try discriminate. inversion H; subst s1; clear H. keep_b I.
  - (* FMPend *) destruct (f_m s) eqn:Em; try discriminate. inversion H; subst s1; clear H. keep_b I.
  - (* FMPutHello *) destruct (f_m s) eqn:Em; try discriminate. inversion H; subst s1; clear H. keep_b I.
  - (* FMStart *) destruct (f_m s) eqn:Em; try discriminate. destruct (f_w s) eqn:Ew; try discriminate.
    inversion H; subst s1; clear H. keep_b I.
  - (* FMWait *) destruct (f_m s) eqn:Em; try discriminate. destruct (Bool.eqb b (f_ev s)); [|discriminate].
    inversion H; subst s1; clear H. keep_b I.
  - (* FMIsSet *) destruct (f_m s) eqn:Em; try discriminate.
    destruct (Bool.eqb b (f_ev s)) eqn:Eb; [apply bool_eqb_eq in Eb; subst b|discriminate].
    inversion H; subst s1; clear H. brkb I.
    destruct (f_ev s) eqn:Ev; constructor; projs; try assumption; try (intros; discriminate).
    + intros _. apply Bev. reflexivity.
    + intros _. exact Ev.
    + intros e [X|X]; discriminate.
    + rewrite Ev. discriminate.
    + intros [X|X]; discriminate.
    + intros e [X|X]; try discriminate. inversion X. auto.
  - (* FMUnreg *) destruct (f_m s) eqn:Em; try discriminate. inversion H; subst s1; clear H. brkb I.
    constructor; projs; try assumption.
    + intros _. apply Bm. auto.
    + intros e [X|X]; discriminate.
  - (* FMCaps *) destruct (f_m s) eqn:Em; try discriminate. destruct (f_err s) eqn:Ee; try discriminate.
    inversion H; subst s1; clear H. unfold decide.
    assert (Hc : f_caps s <> None).
    { brkb I. destruct (Bev (Bm (or_intror Em))) as [X|X]; congruence. }
    destruct (f_caps s) as [sv|] eqn:Ec; [|congruence].
    destruct (c05_choose_total sv c) as [b Hb]. rewrite Hb. destruct b; keep_b I.
  - (* FMBase *) destruct (f_m s) eqn:Em; try discriminate. inversion H; subst s1; clear H. keep_b I.
  - (* FMRet *) destruct (f_m s) eqn:Em; try discriminate.
    + destruct (f_err s) eqn:Ee; try discriminate. inversion H; subst s1; clear H. brkb I.
      constructor; projs; try assumption.
      * intros [X|X]; discriminate.
      * intros e [X|X]; try discriminate. inversion X; subst. right. apply Berrk. exact Ee.
    + inversion H; subst s1; clear H. brkb I.
      constructor; projs; try assumption.
      * intros [X|X]; discriminate.
      * intros e [X|X]; try discriminate. inversion X; subst. apply Bres. auto.
  - (* FMPut *) destruct (f_m s) as [| | | | | | | | | |[e|]] eqn:Em; try discriminate. inversion H; subst s1; clear H. keep_b I.
  - (* FWGet *) destruct (f_w s) eqn:Ew; try discriminate. destruct (f_q s) as [|m' q'] eqn:Eq; try discriminate.
    destruct (N.eqb m m'); try discriminate. inversion H; subst s1; clear H. keep_b I.
  - (* FWPendRd *) destruct (f_w s) eqn:Ew; try discriminate. destruct (Bool.eqb b (f_pending s)); try discriminate.
    inversion H; subst s1; clear H. destruct b; keep_b I.
  - (* FWPendClr *) destruct (f_w s) eqn:Ew; try discriminate. inversion H; subst s1; clear H. keep_b I.
  - (* FWBaseRd *) destruct (f_w s) eqn:Ew; try discriminate. destruct (base_eqb b (f_base s)); try discriminate.
    inversion H; subst s1; clear H. keep_b I.
  - (* FWWrite *) destruct (f_w s) eqn:Ew; try discriminate. inversion H; subst s1; clear H. keep_b I.
  - (* FWWriteFail *) destruct (f_w s) eqn:Ew; try discriminate. inversion H; subst s1; clear H. brkb I.
    constructor; projs; try assumption; try discriminate.
    intros e X. inversion X. left. reflexivity.
  - (* FWDisp *) destruct (f_w s) eqn:Ew; try discriminate. inversion H; subst s1; clear H.
    unfold on_hello. destruct h as [t|]; [|exact I].
    destruct (f_lis (set_seen s (f_seen s ++ [t]))); [|keep_b I; left; congruence].
    destruct (parse_hello t) as [[sd uris]| |x]; [keep_b I| |]; brkb I;
      (constructor; projs; try assumption; try discriminate; intros e d X; inversion X; right; right; reflexivity).
  - (* FWSid *) destruct (f_w s) eqn:Ew; try discriminate. inversion H; subst s1; clear H. keep_b I.
  - (* FWCaps *) destruct (f_w s) eqn:Ew; try discriminate. inversion H; subst s1; clear H. brkb I.
    constructor; projs; try assumption; try discriminate.
    + intros d _. right. discriminate.
    + intros _. right. discriminate.
  - (* FWErrCb *) destruct (f_w s) eqn:Ew; try discriminate. inversion H; subst s1; clear H. brkb I.
    constructor; projs; try assumption; try discriminate.
    + intros d _. left. discriminate.
    + intros _. left. discriminate.
    + intros e0 X. inversion X; subst. eapply Bw0. exact Ew.
  - (* FWEvSet *) destruct (f_w s) eqn:Ew; try discriminate. inversion H; subst s1; clear H. brkb I.
    constructor; projs; try assumption.
    + intros d X. destruct dying0; discriminate.
    + intros _. eapply Bset. exact Ew.
    + intros _. reflexivity.
    + intros e d X. destruct dying0; discriminate.
    + intros e X. destruct dying0; discriminate.
  - (* FWDie *) destruct (f_w s) eqn:Ew; try discriminate. destruct e; try discriminate; inversion H; subst s1; clear H; brkb I;
    (constructor; projs; try assumption; try discriminate; intros e X; inversion X; unfold transport_err; auto).
  - (* FWBcast *) destruct (f_w s) eqn:Ew; try discriminate. inversion H; subst s1; clear H. brkb I.
    destruct (f_lis s); constructor; projs; try assumption; try discriminate.
    intros e0 d X. inversion X; subst. eapply Bwr. exact Ew.
  - (* FWClose *) destruct (f_w s) eqn:Ew; try discriminate. inversion H; subst s1; clear H. keep_b I.
  - (* FWExit *) destruct (f_w s) eqn:Ew; try discriminate. inversion H; subst s1; clear H. keep_b I.
Qed.

Lemma invb_run c : forall ls s s1, InvB s -> run_flabels c s ls = Some s1 -> InvB s1.
Proof.
  induction ls as [|l ls IH]; intros s s1 I H; cbn in H.
  - inversion H; subst; exact I.
  - destruct (fstep c s l) as [s2|] eqn:E; [|discriminate].
    eapply IH; [|exact H]. eapply invb_step; eauto.
Qed.

(* ------------------------------------------------------------ InvC: what is reported comes from a dispatched <hello> *)
Definition from_seen (s : fstate) (sd : sid) (sv : list bytes) : Prop :=
  exists t, In t (f_seen s) /\ parse_hello t = Ok (sd, sv).

Record InvC (s : fstate) : Prop := {
  c_caps : forall sv, f_caps s = Some sv -> exists sd, from_seen s sd sv;
  c_chosen : forall sv, f_chosen s = Some sv -> exists sd, from_seen s sd sv;
  c_ok0 : forall sd uris, f_w s = WOk0 sd uris -> from_seen s sd uris;
  c_ok1 : forall uris, f_w s = WOk1 uris -> from_seen s (f_sid s) uris;
  c_one_w : (length (f_seen s) <= 1)%nat ->
            match f_w s with WOk0 _ _ | WOk1 _ => f_caps s = None | _ => True end;
  c_one_pair : (length (f_seen s) <= 1)%nat -> forall sv, f_caps s = Some sv -> from_seen s (f_sid s) sv;
  c_one_chosen : (length (f_seen s) <= 1)%nat -> forall sv, f_chosen s = Some sv -> f_caps s = Some sv
}.

Lemma invc_init : InvC finit.
Proof. constructor; cbn; try discriminate; auto. Qed.

Ltac brkc I := destruct I as [Ccaps Cchosen Cok0 Cok1 Conew Conepair Conechosen].

(* steps that leave sid, caps, chosen and seen alone and keep the worker out of (or inside the same point of) ok_cb *)
Lemma invc_keep s s1 :
  InvC s -> f_sid s1 = f_sid s -> f_caps s1 = f_caps s -> f_chosen s1 = f_chosen s -> f_seen s1 = f_seen s ->
  (f_w s1 = f_w s \/ match f_w s1 with WOk0 _ _ | WOk1 _ => False | _ => True end) ->
  InvC s1.
Proof.
  intros I Es Ec Eh En Hw. brkc I. unfold from_seen in *.
  constructor; unfold from_seen; rewrite ?Es, ?Ec, ?Eh, ?En.
  - exact Ccaps.
  - exact Cchosen.
  - intros sd uris X. destruct Hw as [Hw|Hw]; [rewrite Hw in X; eauto|rewrite X in Hw; contradiction].
  - intros uris X. destruct Hw as [Hw|Hw]; [rewrite Hw in X; eauto|rewrite X in Hw; contradiction].
  - intros L. destruct Hw as [Hw|Hw]; [rewrite Hw; exact (Conew L)|destruct (f_w s1); try contradiction; exact Logic.I].
  - exact Conepair.
  - exact Conechosen.
Qed.

Ltac keep_c I := eapply invc_keep; [exact I|projs; try reflexivity; auto ..].

Lemma invc_step c s l s1 : InvC s -> fstep c s l = Some s1 -> InvC s1.
Proof.
  intros I H. destruct l; cbn [fstep] in H.
  - destruct (f_m s) eqn:Em; try discriminate. inversion H; subst s1; clear H. keep_c I.
  - destruct (f_m s) eqn:Em; try discriminate. inversion H; subst s1; clear H. keep_c I.
  - destruct (f_m s) eqn:Em; try discriminate. inversion H; subst s1; clear H. keep_c I.
  - destruct (f_m s) eqn:Em; try discriminate. destruct (f_w s) eqn:Ew; try discriminate.
    inversion H; subst s1; clear H. keep_c I.
  - destruct (f_m s) eqn:Em; try discriminate. destruct (Bool.eqb b (f_ev s)); [|discriminate].
    inversion H; subst s1; clear H. keep_c I.
  - destruct (f_m s) eqn:Em; try discriminate. destruct (Bool.eqb b (f_ev s)); [|discriminate].
    inversion H; subst s1; clear H. keep_c I.
  - destruct (f_m s) eqn:Em; try discriminate. inversion H; subst s1; clear H. keep_c I.
  - (* FMCaps *) destruct (f_m s) eqn:Em; try discriminate. destruct (f_err s) eqn:Ee; try discriminate.
    inversion H; subst s1; clear H. unfold decide.
    destruct (f_caps s) as [sv|] eqn:Ec; [|keep_c I].
    destruct (choose_base sv c) as [[|]| |x] eqn:Ech; [ | |keep_c I|keep_c I]; brkc I; unfold from_seen in *;
      (constructor; unfold from_seen; projs; try assumption;
       [intros sv0 X; inversion X; subst; apply Ccaps; exact Ec | intros L sv0 X; inversion X; subst; exact Ec]).
  - destruct (f_m s) eqn:Em; try discriminate. inversion H; subst s1; clear H. keep_c I.
  - destruct (f_m s) eqn:Em; try discriminate.
    + destruct (f_err s) eqn:Ee; try discriminate. inversion H; subst s1; clear H. keep_c I.
    + inversion H; subst s1; clear H. keep_c I.
  - destruct (f_m s) as [| | | | | | | | | |[e|]] eqn:Em; try discriminate. inversion H; subst s1; clear H. keep_c I.
  - destruct (f_w s) eqn:Ew; try discriminate. destruct (f_q s) as [|m' q'] eqn:Eq; try discriminate.
    destruct (N.eqb m m'); try discriminate. inversion H; subst s1; clear H. keep_c I.
  - destruct (f_w s) eqn:Ew; try discriminate. destruct (Bool.eqb b (f_pending s)); try discriminate.
    inversion H; subst s1; clear H. destruct b; keep_c I.
  - destruct (f_w s) eqn:Ew; try discriminate. inversion H; subst s1; clear H. keep_c I.
  - destruct (f_w s) eqn:Ew; try discriminate. destruct (base_eqb b (f_base s)); try discriminate.
    inversion H; subst s1; clear H. keep_c I.
  - destruct (f_w s) eqn:Ew; try discriminate. inversion H; subst s1; clear H. keep_c I.
  - destruct (f_w s) eqn:Ew; try discriminate. inversion H; subst s1; clear H. keep_c I.
  - (* FWDisp *) destruct (f_w s) eqn:Ew; try discriminate. inversion H; subst s1; clear H.
    unfold on_hello. destruct h as [t|]; [|exact I].
    assert (Hmono : forall sd sv, from_seen s sd sv -> from_seen (set_seen s (f_seen s ++ [t])) sd sv).
    { intros sd sv (t0 & Hin & Hp). exists t0. projs. split; [apply in_or_app; auto|exact Hp]. }
    assert (Hone : (length (f_seen s ++ [t]) <= 1)%nat -> f_caps s = None /\ f_chosen s = None).
    { intros L. rewrite app_length in L. cbn in L. destruct (f_seen s) as [|t0 r] eqn:En; [|cbn in L; lia].
      brkc I. split.
      - destruct (f_caps s) as [sv|] eqn:Ec; [|reflexivity]. destruct (Ccaps sv eq_refl) as (sd & t1 & Hin & _).
        rewrite En in Hin. contradiction.
      - destruct (f_chosen s) as [sv|] eqn:Ec; [|reflexivity]. destruct (Cchosen sv eq_refl) as (sd & t1 & Hin & _).
        rewrite En in Hin. contradiction. }
    assert (IC : InvC (set_seen s (f_seen s ++ [t]))).
    { brkc I. constructor; projs.
      - intros sv X. destruct (Ccaps sv X) as (sd & F). exists sd. apply Hmono. exact F.
      - intros sv X. destruct (Cchosen sv X) as (sd & F). exists sd. apply Hmono. exact F.
      - intros sd uris X. congruence.
      - intros uris X. congruence.
      - intros _. rewrite Ew. exact Logic.I.
      - intros L sv X. destruct (Hone L) as [Y _]. congruence.
      - intros L sv X. destruct (Hone L) as [_ Y]. congruence. }
    destruct (f_lis (set_seen s (f_seen s ++ [t]))); [|exact IC].
    destruct (parse_hello t) as [[sd uris]| |x] eqn:Ep;
      [ |eapply invc_keep; [exact IC|projs; try reflexivity; auto ..]|eapply invc_keep; [exact IC|projs; try reflexivity; auto ..]].
    brkc IC. constructor; projs; try assumption.
    + intros sd0 uris0 X. inversion X; subst. exists t. projs. split; [apply in_or_app; right; left; reflexivity|exact Ep].
    + intros uris0 X. discriminate.
    + intros L. destruct (Hone L) as [Y _]. exact Y.
  - (* FWSid *) destruct (f_w s) eqn:Ew; try discriminate. inversion H; subst s1; clear H. brkc I.
    constructor; unfold from_seen in *; projs; try assumption.
    + intros sd0 uris0 X. discriminate.
    + intros uris0 X. inversion X; subst. apply Cok0. exact Ew.
    + intros L. specialize (Conew L). rewrite Ew in Conew. exact Conew.
    + intros L sv X. specialize (Conew L). rewrite Ew in Conew. congruence.
  - (* FWCaps *) destruct (f_w s) eqn:Ew; try discriminate. inversion H; subst s1; clear H. brkc I.
    constructor; unfold from_seen in *; projs; try assumption.
    + intros sv X. inversion X; subst. exists (f_sid s). apply Cok1. exact Ew.
    + intros sd0 uris0 X. discriminate.
    + intros uris0 X. discriminate.
    + intros _. exact Logic.I.
    + intros L sv X. inversion X; subst. apply Cok1. exact Ew.
    + intros L sv X. specialize (Conew L). rewrite Ew in Conew. specialize (Conechosen L sv X). congruence.
  - destruct (f_w s) eqn:Ew; try discriminate. inversion H; subst s1; clear H. keep_c I.
  - destruct (f_w s) eqn:Ew; try discriminate. inversion H; subst s1; clear H. keep_c I. destruct dying0; auto.
  - destruct (f_w s) eqn:Ew; try discriminate. destruct e; try discriminate; inversion H; subst s1; clear H; keep_c I.
  - destruct (f_w s) eqn:Ew; try discriminate. inversion H; subst s1; clear H. keep_c I. destruct (f_lis s); auto.
  - destruct (f_w s) eqn:Ew; try discriminate. inversion H; subst s1; clear H. keep_c I.
  - destruct (f_w s) eqn:Ew; try discriminate. inversion H; subst s1; clear H. keep_c I.
Qed.

Lemma invc_run c : forall ls s s1, InvC s -> run_flabels c s ls = Some s1 -> InvC s1.
Proof.
  induction ls as [|l ls IH]; intros s s1 I H; cbn in H.
  - inversion H; subst; exact I.
  - destruct (fstep c s l) as [s2|] eqn:E; [|discriminate].
    eapply IH; [|exact H]. eapply invc_step; eauto.
Qed.

(* ------------------------------------------------------------ the ghost list is the list of dispatched hellos *)
Definition hello_of (l : flabel) : list node := match l with FWDisp (HTree t) => [t] | _ => [] end.
Definition hellos (ls : list flabel) : list node := flat_map hello_of ls.

Ltac split_step H :=
  repeat match type of H with
         | context [match ?x with _ => _ end] => destruct x eqn:?; try discriminate
         end.

Lemma step_seen c s l s1 : fstep c s l = Some s1 -> f_seen s1 = f_seen s ++ hello_of l.
Proof.
  intros H. destruct l; cbn [fstep] in H; unfold decide, on_hello in H; split_step H;
  inversion H; subst; projs; cbn [hello_of]; rewrite ?app_nil_r; reflexivity.
Qed.

Lemma run_seen c : forall ls s s1, run_flabels c s ls = Some s1 -> f_seen s1 = f_seen s ++ hellos ls.
Proof.
  induction ls as [|l ls IH]; intros s s1 H; cbn in H.
  - inversion H; subst. cbn. rewrite app_nil_r. reflexivity.
  - destruct (fstep c s l) as [s2|] eqn:E; [|discriminate].
    rewrite (IH _ _ H), (step_seen _ _ _ _ E). unfold hellos. cbn [flat_map]. rewrite app_assoc. reflexivity.
Qed.

Lemma in_hellos t ls : In t (hellos ls) -> In (FWDisp (HTree t)) ls.
Proof.
  unfold hellos. intros H. apply in_flat_map in H. destruct H as (l & Hin & Hl).
  destruct l; cbn in Hl; try contradiction. destruct h as [t0|]; cbn in Hl; [|contradiction].
  destruct Hl as [->|[]]. exact Hin.
Qed.

(* ------------------------------------------------------------ final statements *)
Section Final.
Variable c : list bytes.
Variable labels : list flabel.
Variable s : fstate.
Hypothesis Hrun : run_flabels c finit labels = Some s.

Lemma f_inva : InvA c s. Proof. exact (inva_run c labels finit s (inva_init c) Hrun). Qed.
Lemma f_invb : InvB s. Proof. exact (invb_run c labels finit s invb_init Hrun). Qed.
Lemma f_invc : InvC s. Proof. exact (invc_run c labels finit s invc_init Hrun). Qed.
Lemma f_seen_hellos : f_seen s = hellos labels. Proof. exact (run_seen c labels finit s Hrun). Qed.

Lemma fc05_first_frame : f_wire s = [] \/ exists rest, f_wire s = (B10, 0) :: rest.
Proof.
  destruct f_inva as [Ipre Ihello _ _ _ _ _ _].
  destruct (early (f_m s)) eqn:E.
  - left. destruct (f_m s); try discriminate; destruct Ipre as (_ & _ & W & _); exact W.
  - destruct (Ihello eq_refl) as [(_ & W & _)|[(_ & W & _)|(_ & [W|(W & _)])]]; auto.
Qed.

Lemma fc05_iff : forall i f m, nth_error (f_wire s) (S i) = Some (f, m) ->
  f_m s = MDone None /\ exists sv, f_chosen s = Some sv /\ (f = B11 <-> has11 sv /\ has11 c).
Proof.
  intros i f m Hn. destruct f_inva as [_ _ _ Ibase Ilater _ _ _].
  destruct (Ilater i (f, m) Hn) as [Hf Hm]. cbn in Hf. split; [exact Hm|].
  rewrite Hm in Ibase. destruct Ibase as (sv & Hc & Hch). exists sv. split; [exact Hc|].
  rewrite <- c05_choose_iff. rewrite Hch, Hf. split; congruence.
Qed.

Lemma fc05_base :
  (f_base s = B11 -> exists sv, f_chosen s = Some sv /\ has11 sv /\ has11 c) /\
  (f_m s = MDone None -> exists sv, f_chosen s = Some sv /\ (f_base s = B11 <-> has11 sv /\ has11 c)).
Proof.
  destruct f_inva as [_ _ _ Ibase _ _ _ _]. split.
  - intros Hb. destruct (f_m s) as [| | | | | | | | |[e|]|[e|]]; try congruence;
    try (destruct Ibase as (B & _); congruence);
    destruct Ibase as (sv & Hc & Hch); exists sv; (split; [exact Hc|]); apply c05_choose_iff; congruence.
  - intros Hm. rewrite Hm in Ibase. destruct Ibase as (sv & Hc & Hch). exists sv. split; [exact Hc|].
    rewrite <- c05_choose_iff. rewrite Hch. split; congruence.
Qed.

Lemma fc05_before_return : f_m s <> MDone None -> (length (f_wire s) <= 1)%nat.
Proof. intros H. pose proof (a_count _ _ f_inva H). lia. Qed.

Lemma fc05_chosen_from_hello : forall sv, f_chosen s = Some sv ->
  exists t sd, In (FWDisp (HTree t)) labels /\ parse_hello t = Ok (sd, sv).
Proof.
  intros sv H. destruct (c_chosen _ f_invc sv H) as (sd & t & Hin & Hp).
  exists t, sd. split; [|exact Hp]. apply in_hellos. rewrite <- f_seen_hellos. exact Hin.
Qed.

Lemma fc05_reports : (length (hellos labels) <= 1)%nat -> f_m s = MDone None ->
  exists t sv, hellos labels = [t] /\ parse_hello t = Ok (f_sid s, sv) /\ f_caps s = Some sv /\ f_chosen s = Some sv.
Proof.
  intros L Hm. rewrite <- f_seen_hellos in *.
  pose proof (a_base _ _ f_inva) as Ibase. rewrite Hm in Ibase. destruct Ibase as (sv & Hc & _).
  pose proof (c_one_chosen _ f_invc L sv Hc) as Hcaps.
  destruct (c_one_pair _ f_invc L sv Hcaps) as (t & Hin & Hp).
  exists t, sv. repeat split; auto.
  destruct (f_seen s) as [|t0 [|t1 r]]; cbn in *; try contradiction; try lia.
  destruct Hin as [->|[]]. reflexivity.
Qed.

Lemma fc05_no_typeerror : f_m s <> M9 (Some EChoose) /\ f_m s <> MDone (Some EChoose).
Proof.
  pose proof (b_res _ f_invb EChoose) as B. unfold transport_err in B.
  split; intros X; [destruct (B (or_introl X)) as [Y|[Y|[Y|Y]]]|destruct (B (or_intror X)) as [Y|[Y|[Y|Y]]]]; discriminate.
Qed.

Definition fgood (l : flabel) : Prop := exists t sd uris, l = FWDisp (HTree t) /\ parse_hello t = Ok (sd, uris).

Lemma fc05_needs_hello : (forall l, In l labels -> ~ fgood l) -> f_m s <> MDone None.
Proof.
  intros Hno Hm. pose proof (a_base _ _ f_inva) as Ibase. rewrite Hm in Ibase. destruct Ibase as (sv & Hc & _).
  destruct (fc05_chosen_from_hello sv Hc) as (t & sd & Hin & Hp).
  apply (Hno _ Hin). exists t, sd, sv. auto.
Qed.
End Final.

Lemma dying_step c s l s1 : dying (f_w s) -> fstep c s l = Some s1 -> dying (f_w s1) /\ forall h, l <> FWDisp h.
Proof.
  intros D H. destruct l; cbn [fstep] in H; unfold decide, on_hello in H; split_step H;
  inversion H; subst; projs; cbn in *; try contradiction; (split; [auto|intros; discriminate]).
Qed.

Lemma dying_run c : forall ls s s1, dying (f_w s) -> run_flabels c s ls = Some s1 -> forall l h, In l ls -> l <> FWDisp h.
Proof.
  induction ls as [|l ls IH]; intros s s1 D H l0 h Hin; [contradiction|]. cbn in H.
  destruct (fstep c s l) as [s2|] eqn:E; [|discriminate].
  destruct (dying_step _ _ _ _ D E) as [D2 Hl]. destruct Hin as [->|Hin]; [apply Hl|].
  eapply IH; eauto.
Qed.

Lemma fc05_die_first : forall c pre e post s,
  run_flabels c finit (pre ++ FWDie e :: post) = Some s ->
  (forall l, In l pre -> ~ fgood l) -> f_m s <> MDone None.
Proof.
  intros c pre e post s H Hno.
  apply (fc05_needs_hello c _ s H). intros l Hin.
  apply in_app_or in Hin. destruct Hin as [Hin|[<-|Hin]].
  - apply Hno. exact Hin.
  - intros (t & sd & uris & X & _). discriminate.
  - destruct (run_fapp c pre (FWDie e :: post) finit s H) as (s1 & H1 & H2). cbn [run_flabels] in H2.
    destruct (fstep c s1 (FWDie e)) as [s2|] eqn:E; [|discriminate].
    assert (D : dying (f_w s2)).
    { cbn [fstep] in E. destruct (f_w s1); try discriminate. destruct e; try discriminate; inversion E; subst; exact Logic.I. }
    intros (t & sd & uris & X & _). exact (dying_run c post s2 s D H2 l (HTree t) Hin X).
Qed.

(* ------------------------------------------------------------ the connecting thread is never blocked and bounded *)
Definition mrank (m : mpc) : nat :=
  match m with M0 => 0 | M1 => 1 | M2 => 2 | M3 => 3 | M4 => 4 | M5 => 5 | M6 => 6 | M7 => 7 | M8 => 8 | M9 _ => 9 | MDone _ => 10 end.
Definition count_m (ls : list flabel) : nat := length (filter is_mlabel ls).

Lemma fc05_main_never_blocked : forall c labels s,
  run_flabels c finit labels = Some s -> (forall r, f_m s <> MDone r) ->
  exists l s', is_mlabel l = true /\ fstep c s l = Some s'.
Proof.
  intros c labels s H Hn. pose proof (a_pre _ _ (f_inva c labels s H)) as Ipre.
  destruct (f_m s) eqn:Em.
  - exists FMReg. eexists. split; [reflexivity|]. cbn. rewrite Em. reflexivity.
  - exists FMPend. eexists. split; [reflexivity|]. cbn. rewrite Em. reflexivity.
  - exists FMPutHello. eexists. split; [reflexivity|]. cbn. rewrite Em. reflexivity.
  - exists FMStart. eexists. split; [reflexivity|]. cbn. rewrite Em. destruct Ipre as (_ & _ & _ & ->). reflexivity.
  - exists (FMWait (f_ev s)). eexists. split; [reflexivity|]. cbn. rewrite Em, Bool.eqb_reflx. reflexivity.
  - exists (FMIsSet (f_ev s)). eexists. split; [reflexivity|]. cbn. rewrite Em, Bool.eqb_reflx. reflexivity.
  - exists FMUnreg. eexists. split; [reflexivity|]. cbn. rewrite Em. reflexivity.
  - destruct (f_err s) eqn:Ee.
    + exists FMRet. eexists. split; [reflexivity|]. cbn. rewrite Em, Ee. reflexivity.
    + exists FMCaps. eexists. split; [reflexivity|]. cbn. rewrite Em, Ee. reflexivity.
  - exists FMBase. eexists. split; [reflexivity|]. cbn. rewrite Em. reflexivity.
  - exists FMRet. eexists. split; [reflexivity|]. cbn. rewrite Em. reflexivity.
  - exfalso. exact (Hn r eq_refl).
Qed.

Lemma step_rank c s l s1 : fstep c s l = Some s1 ->
  (mrank (f_m s) + (if is_mlabel l then 1 else 0) <= mrank (f_m s1))%nat.
Proof.
  intros H. destruct l; cbn [fstep] in H; unfold decide, on_hello in H; split_step H;
  inversion H; subst; projs; cbn; repeat match goal with E : f_m _ = _ |- _ => rewrite E end; cbn; lia.
Qed.

Lemma run_rank c : forall ls s s1, run_flabels c s ls = Some s1 -> (mrank (f_m s) + count_m ls <= mrank (f_m s1))%nat.
Proof.
  induction ls as [|l ls IH]; intros s s1 H; cbn in H.
  - inversion H; subst. cbn. lia.
  - destruct (fstep c s l) as [s2|] eqn:E; [|discriminate].
    pose proof (step_rank _ _ _ _ E). pose proof (IH _ _ H). unfold count_m in *. cbn [filter].
    destruct (is_mlabel l); cbn [length]; lia.
Qed.

Lemma fc05_main_bounded : forall c labels s, run_flabels c finit labels = Some s -> (count_m labels <= 10)%nat.
Proof.
  intros c labels s H. pose proof (run_rank _ _ _ _ H). cbn in H0.
  assert (mrank (f_m s) <= 10)%nat by (destruct (f_m s); cbn; lia). lia.
Qed.
