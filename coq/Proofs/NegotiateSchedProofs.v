(* NegotiateSchedProofs.v — invariants of the two-thread hello exchange (Model/NegotiateSched.v),
   each proved preserved by EVERY label, hence true after every accepted label sequence,
   i.e. under every interleaving of the connecting thread and the worker. *)
From Coq Require Import String Lia.
From NC Require Import Model.Base Model.Lit Model.Caps Model.Writer Model.Negotiate Model.NegotiateSched.
From NC Require Import Spec.CapsSpec Proofs.NegotiateProofs.

Definition holding (w : wpc) : nat := match w with WGot _ | WClr _ | WRdB _ | WFr _ _ => 1 | _ => 0 end.
Definition dying (w : wpc) : Prop :=
  match w with WRaised _ | WErr0 _ true | WSet true | WClosing | WExiting | WDone => True | _ => False end.
Definition early (m : mpc) : bool := match m with M0 | M1 | M2 => true | _ => false end.

Ltac projs := cbn [f_base f_q f_pending f_wire f_lis f_ev f_err f_sid f_caps f_conn f_m f_w f_chosen f_seen
                   set_m set_w set_base set_q set_pending set_wire set_lis set_ev set_err set_sid set_caps set_conn set_chosen set_seen] in *.

Lemma base_eqb_eq a b : base_eqb a b = true -> a = b.
Proof. destruct a, b; cbn; congruence. Qed.
Lemma bool_eqb_eq a b : Bool.eqb a b = true -> a = b.
Proof. destruct a, b; cbn; congruence. Qed.

Lemma run_fapp c : forall l1 l2 s s2, run_flabels c s (l1 ++ l2) = Some s2 ->
  exists s1, run_flabels c s l1 = Some s1 /\ run_flabels c s1 l2 = Some s2.
Proof.
  induction l1 as [|l l1 IH]; intros l2 s s2 H; cbn in *.
  - eauto.
  - destruct (fstep c s l) as [s1|]; [|discriminate]. apply IH. exact H.
Qed.

(* ------------------------------------------------------------ InvA: framing *)
Record InvA (c : list bytes) (s : fstate) : Prop := {
  a_pre : match f_m s with
          | M0 | M1 => f_pending s = false /\ f_q s = [] /\ f_wire s = [] /\ f_w s = WNot
          | M2 => f_pending s = true /\ f_q s = [] /\ f_wire s = [] /\ f_w s = WNot
          | M3 => f_pending s = true /\ f_q s = [0] /\ f_wire s = [] /\ f_w s = WNot
          | _ => f_w s <> WNot
          end;
  a_hello : early (f_m s) = false ->
       (f_pending s = true /\ f_wire s = [] /\
          (((exists q1, f_q s = 0 :: q1) /\ holding (f_w s) = 0%nat) \/ f_w s = WGot 0 \/ f_w s = WClr 0))
    \/ (f_pending s = false /\ f_wire s = [] /\ f_w s = WFr B10 0)
    \/ (f_pending s = false /\ ((exists rest, f_wire s = (B10, 0) :: rest) \/ (f_wire s = [] /\ dying (f_w s))));
  a_count : f_m s <> MDone None -> (length (f_wire s) + length (f_q s) + holding (f_w s) <= 1)%nat;
  a_base : match f_m s with
           | M8 => f_base s = B10 /\ exists sv, f_chosen s = Some sv /\ choose_base sv c = Ok B11
           | M9 None | MDone None => exists sv, f_chosen s = Some sv /\ choose_base sv c = Ok (f_base s)
           | _ => f_base s = B10
           end;
  a_later : forall i fm, nth_error (f_wire s) (S i) = Some fm -> fst fm = f_base s /\ f_m s = MDone None;
  a_rdb : forall m, f_w s = WRdB m -> f_m s = MDone None;
  a_clr : forall m, f_w s = WClr m -> f_pending s = true;
  a_fr : forall f m, f_w s = WFr f m -> (f_wire s = [] /\ f = B10 /\ m = 0) \/ (f = f_base s /\ f_m s = MDone None)
}.

Lemma inva_init c : InvA c finit.
Proof.
  constructor; cbn; auto; try discriminate; try lia;
  try (intros [|i] fm H; discriminate).
Qed.

Ltac brk I := destruct I as [Ipre Ihello Icount Ibase Ilater Irdb Iclr Ifr].
Ltac easy_a := projs; auto; try discriminate; try congruence; try lia.

(* labels of the connecting thread that only move its program counter among M4..M7 / to a failure *)
Lemma inva_mmove c s x :
  InvA c s ->
  match f_m s with M4 | M5 | M6 | M7 => True | _ => False end ->
  match x with M5 | M6 | M7 | M9 (Some _) | MDone (Some _) => True | _ => False end ->
  InvA c (set_m s x).
Proof.
  intros I Hm Hx. brk I.
  assert (Hn : f_m s <> MDone None) by (destruct (f_m s); try contradiction; discriminate).
  assert (Hb : f_base s = B10) by (destruct (f_m s); try contradiction; exact Ibase).
  assert (Hw : f_w s <> WNot) by (destruct (f_m s); try contradiction; exact Ipre).
  assert (He : early (f_m s) = false) by (destruct (f_m s); try contradiction; reflexivity).
  constructor; projs.
  - destruct x as [| | | | | | | | |[e|]|[e|]]; try contradiction; exact Hw.
  - intros _. exact (Ihello He).
  - intros _. exact (Icount Hn).
  - destruct x as [| | | | | | | | |[e|]|[e|]]; try contradiction; exact Hb.
  - intros i fm Hx2. destruct (Ilater i fm Hx2) as [_ X]. contradiction.
  - intros m Hx2. exfalso. exact (Hn (Irdb m Hx2)).
  - exact Iclr.
  - intros f m Hx2. destruct (Ifr f m Hx2) as [L|[_ R]]; [left; exact L|contradiction].
Qed.

Ltac t_later Ilater :=
  let i := fresh "i" in let fm := fresh "fm" in let Hx := fresh "Hx" in let X := fresh "X" in let Y := fresh "Y" in
  intros i fm Hx; first [ destruct (Ilater i fm Hx) as [Y X]; first [discriminate X | congruence | (split; [exact Y|congruence])]
                        | exfalso; congruence | (rewrite_strat (topdown (hints core)) in Hx; discriminate) ].
Ltac t_rdb Irdb :=
  let m := fresh "m" in let Hx := fresh "Hx" in let X := fresh "X" in
  intros m Hx; first [ pose proof (Irdb m Hx) as X; first [discriminate X | congruence] | congruence ].
Ltac t_fr Ifr :=
  let f := fresh "f" in let m := fresh "m" in let Hx := fresh "Hx" in let L := fresh "L" in let R1 := fresh "R" in let R2 := fresh "R" in
  intros f m Hx; first [ destruct (Ifr f m Hx) as [L|[R1 R2]]; [left; exact L| first [discriminate R2 | (right; split; congruence)]]
                       | congruence ].

Lemma inva_mlabels c s l s1 : InvA c s -> is_mlabel l = true -> fstep c s l = Some s1 -> InvA c s1.
Proof.
  intros I Hl H. destruct l; try discriminate; cbn [fstep] in H.
  - (* FMReg *) destruct (f_m s) eqn:Em; try discriminate. inversion H; subst s1; clear H. brk I. rewrite Em in *.
    destruct Ipre as (P1 & P2 & P3 & P4).
    constructor; projs.
    + auto.
    + discriminate.
    + intros _. rewrite P2, P3, P4. cbn. lia.
    + exact Ibase.
    + intros i fm Hx. rewrite P3 in Hx. discriminate.
    + intros m Hx. congruence.
    + intros m Hx. congruence.
    + intros f m Hx. congruence.
  - (* FMPend *) destruct (f_m s) eqn:Em; try discriminate. inversion H; subst s1; clear H. brk I. rewrite Em in *.
    destruct Ipre as (P1 & P2 & P3 & P4).
    constructor; projs.
    + auto.
    + discriminate.
    + intros _. rewrite P2, P3, P4. cbn. lia.
    + exact Ibase.
    + intros i fm Hx. rewrite P3 in Hx. discriminate.
    + intros m Hx. congruence.
    + intros m Hx. congruence.
    + intros f m Hx. congruence.
  - (* FMPutHello *) destruct (f_m s) eqn:Em; try discriminate. inversion H; subst s1; clear H. brk I. rewrite Em in *.
    destruct Ipre as (P1 & P2 & P3 & P4).
    constructor; projs.
    + rewrite P2. cbn. auto.
    + intros _. left. rewrite P2, P4. cbn. repeat split; auto. left. split; eauto.
    + intros _. rewrite P2, P3, P4. cbn. lia.
    + exact Ibase.
    + intros i fm Hx. rewrite P3 in Hx. discriminate.
    + intros m Hx. congruence.
    + intros m Hx. congruence.
    + intros f m Hx. congruence.
  - (* FMStart *) destruct (f_m s) eqn:Em; try discriminate. destruct (f_w s) eqn:Ew; try discriminate.
    inversion H; subst s1; clear H. brk I. rewrite Em in *.
    destruct Ipre as (P1 & P2 & P3 & P4).
    constructor; projs.
    + discriminate.
    + intros _. left. rewrite P2. cbn. repeat split; auto. left. split; eauto.
    + intros _. rewrite P2, P3. cbn. lia.
    + exact Ibase.
    + intros i fm Hx. rewrite P3 in Hx. discriminate.
    + intros m Hx. discriminate.
    + intros m Hx. discriminate.
    + intros f m Hx. discriminate.
  - (* FMWait *) destruct (f_m s) eqn:Em; try discriminate. destruct (Bool.eqb b (f_ev s)); [|discriminate].
    inversion H; subst s1. apply inva_mmove; [exact I|rewrite Em; exact Logic.I|exact Logic.I].
  - (* FMIsSet *) destruct (f_m s) eqn:Em; try discriminate. destruct (Bool.eqb b (f_ev s)); [|discriminate].
    inversion H; subst s1. apply inva_mmove; [exact I|rewrite Em; exact Logic.I|destruct b; exact Logic.I].
  - (* FMUnreg *) destruct (f_m s) eqn:Em; try discriminate. inversion H; subst s1; clear H.
    pose proof (inva_mmove c s M7 I) as X. rewrite Em in X. specialize (X Logic.I Logic.I).
    brk X. constructor; projs; assumption.
  - (* FMCaps *) destruct (f_m s) eqn:Em; try discriminate. destruct (f_err s) eqn:Ee; try discriminate.
    inversion H; subst s1; clear H. unfold decide.
    destruct (f_caps s) as [sv|] eqn:Ec.
    2:{ apply inva_mmove; [exact I|rewrite Em; exact Logic.I|exact Logic.I]. }
    destruct (choose_base sv c) as [[|]| |x] eqn:Ech;
      try (apply inva_mmove; [exact I|rewrite Em; exact Logic.I|exact Logic.I]).
    + (* B10: M9 None *) brk I. rewrite Em in *.
      assert (Hn : M7 <> MDone None) by discriminate.
      constructor; projs.
      * exact Ipre.
      * intros _. apply Ihello. reflexivity.
      * intros _. exact (Icount Hn).
      * rewrite Ibase. eauto.
      * t_later Ilater.
      * t_rdb Irdb.
      * exact Iclr.
      * t_fr Ifr.
    + (* B11: M8 *) brk I. rewrite Em in *.
      assert (Hn : M7 <> MDone None) by discriminate.
      constructor; projs.
      * exact Ipre.
      * intros _. apply Ihello. reflexivity.
      * intros _. exact (Icount Hn).
      * split; eauto.
      * t_later Ilater.
      * t_rdb Irdb.
      * exact Iclr.
      * t_fr Ifr.
  - (* FMBase *) destruct (f_m s) eqn:Em; try discriminate. inversion H; subst s1; clear H. brk I. rewrite Em in *.
    destruct Ibase as (B & sv & Hc & Hch).
    assert (Hn : M8 <> MDone None) by discriminate.
    constructor; projs.
    + exact Ipre.
    + intros _. apply Ihello. reflexivity.
    + intros _. exact (Icount Hn).
    + eauto.
    + t_later Ilater.
    + t_rdb Irdb.
    + exact Iclr.
    + t_fr Ifr.
  - (* FMRet *) destruct (f_m s) eqn:Em; try discriminate.
    + destruct (f_err s) eqn:Ee; try discriminate. inversion H; subst s1.
      apply inva_mmove; [exact I|rewrite Em; exact Logic.I|exact Logic.I].
    + inversion H; subst s1; clear H. brk I. rewrite Em in *.
      assert (Hn : M9 r <> MDone None) by discriminate.
      constructor; projs.
      * exact Ipre.
      * intros _. apply Ihello. reflexivity.
      * intros _. exact (Icount Hn).
      * destruct r; exact Ibase.
      * t_later Ilater.
      * t_rdb Irdb.
      * exact Iclr.
      * t_fr Ifr.
Qed.

(* the worker moves among program points that hold no message and are started; nothing else changes
   except fields InvA does not mention (callbacks, event, error, close) *)
Lemma inva_wmove c s s1 :
  InvA c s ->
  f_base s1 = f_base s -> f_q s1 = f_q s -> f_pending s1 = f_pending s -> f_wire s1 = f_wire s ->
  f_m s1 = f_m s -> f_chosen s1 = f_chosen s ->
  holding (f_w s) = 0%nat -> f_w s <> WNot -> holding (f_w s1) = 0%nat -> f_w s1 <> WNot ->
  (dying (f_w s) -> dying (f_w s1)) ->
  InvA c s1.
Proof.
  intros I Eb Eq Ep Ewi Em Ech H0 Hn0 H1 Hn1 Hd. brk I.
  constructor; rewrite ?Eb, ?Eq, ?Ep, ?Ewi, ?Em, ?Ech, ?H1.
  - destruct (f_m s); try exact Hn1; destruct Ipre as (_ & _ & _ & X); contradiction.
  - intros He. destruct (Ihello He) as [(P & W & [(Q & _)|[X|X]])|[(P & W & X)|(P & [W|(W & D)])]];
      try (rewrite X in H0; discriminate).
    + left. auto.
    + right. right. auto.
    + right. right. auto.
  - intros Hn. specialize (Icount Hn). lia.
  - exact Ibase.
  - exact Ilater.
  - intros m X. rewrite X in H1. discriminate.
  - intros m X. rewrite X in H1. discriminate.
  - intros f m X. rewrite X in H1. discriminate.
Qed.

Lemma main_dec' (m : mpc) : m = MDone None \/ m <> MDone None.
Proof. destruct m as [| | | | | | | | | |[e|]]; try (right; discriminate). left; reflexivity. Qed.

Lemma nth_error_snoc' {A} (l : list A) x i y :
  nth_error (l ++ [x]) i = Some y -> nth_error l i = Some y \/ (i = length l /\ y = x).
Proof. apply nth_error_snoc. Qed.

Lemma inva_olabels c s l s1 : InvA c s -> is_mlabel l = false -> fstep c s l = Some s1 -> InvA c s1.
Proof.
  intros I Hl H. destruct l; try discriminate; cbn [fstep] in H.
  - (* FMPut *) destruct (f_m s) as [| | | | | | | | | |[e|]] eqn:Em; try discriminate.
    inversion H; subst s1; clear H. brk I. rewrite Em in *.
    constructor; projs; rewrite ?Em.
    + exact Ipre.
    + intros He. destruct (Ihello He) as [(P & W & [((q1 & Q) & H0)|X])|X]; auto.
      left. repeat split; auto. left. split; [|exact H0]. rewrite Q. cbn. eauto.
    + intros X. congruence.
    + exact Ibase.
    + exact Ilater.
    + exact Irdb.
    + exact Iclr.
    + exact Ifr.
  - (* FWGet *) destruct (f_w s) eqn:Ew; try discriminate. destruct (f_q s) as [|m' q'] eqn:Eq; try discriminate.
    destruct (N.eqb m m') eqn:En; try discriminate. apply N.eqb_eq in En. subst m'.
    inversion H; subst s1; clear H. brk I. rewrite Ew in *.
    constructor; projs.
    + destruct (f_m s); try discriminate; destruct Ipre as (_ & _ & _ & X); congruence.
    + intros He. destruct (Ihello He) as [(P & W & [((q1 & Q) & H0)|[X|X]])|[(P & W & X)|(P & [W|(W & D)])]];
        try discriminate; try congruence; try contradiction.
      * left. rewrite Eq in Q. inversion Q; subst. auto.
      * right. right. auto.
    + intros Hn. specialize (Icount Hn). rewrite Eq in Icount. cbn in *. lia.
    + exact Ibase.
    + exact Ilater.
    + discriminate.
    + discriminate.
    + discriminate.
  - (* FWPendRd *) destruct (f_w s) eqn:Ew; try discriminate.
    destruct (Bool.eqb b (f_pending s)) eqn:Eb; try discriminate. apply bool_eqb_eq in Eb. subst b.
    inversion H; subst s1; clear H. brk I. rewrite Ew in *.
    assert (Hst : early (f_m s) = false).
    { destruct (f_m s); try reflexivity; destruct Ipre as (_ & _ & _ & X); congruence. }
    destruct (f_pending s) eqn:Ep.
    + (* True: WClr *)
      destruct (Ihello Hst) as [(P & W & [((q1 & Q) & H0)|[X|X]])|[(P & W & X)|(P & _)]]; try discriminate.
      inversion X; subst m.
      constructor; projs.
      * destruct (f_m s); try discriminate; destruct Ipre as (_ & _ & _ & Y); congruence.
      * intros _. left. auto.
      * intros Hn. exact (Icount Hn).
      * exact Ibase.
      * exact Ilater.
      * discriminate.
      * intros m _. exact Ep.
      * discriminate.
    + (* False: WRdB *)
      destruct (Ihello Hst) as [(P & _)|[(P & W & X)|(P & [(rest & W)|(W & D)])]]; try discriminate; try congruence; try contradiction.
      assert (Hd : f_m s = MDone None).
      { destruct (main_dec' (f_m s)) as [E|E]; [exact E|]. specialize (Icount E). rewrite W in Icount. cbn in Icount. lia. }
      constructor; projs.
      * rewrite Hd. discriminate.
      * intros _. right. right. split; eauto.
      * intros Hn. contradiction.
      * exact Ibase.
      * exact Ilater.
      * intros _ _. exact Hd.
      * discriminate.
      * discriminate.
  - (* FWPendClr *) destruct (f_w s) eqn:Ew; try discriminate. inversion H; subst s1; clear H. brk I. rewrite Ew in *.
    assert (Hst : early (f_m s) = false).
    { destruct (f_m s); try reflexivity; destruct Ipre as (_ & _ & _ & X); congruence. }
    pose proof (Iclr m eq_refl) as Ep.
    destruct (Ihello Hst) as [(P & W & [((q1 & Q) & H0)|[X|X]])|[(P & _)|(P & _)]]; try discriminate; try congruence.
    inversion X; subst m.
    constructor; projs.
    + destruct (f_m s); try discriminate; destruct Ipre as (_ & _ & _ & Y); congruence.
    + intros _. right. left. auto.
    + intros Hn. exact (Icount Hn).
    + exact Ibase.
    + exact Ilater.
    + discriminate.
    + discriminate.
    + intros f m Hx. inversion Hx; subst. left. auto.
  - (* FWBaseRd *) destruct (f_w s) eqn:Ew; try discriminate.
    destruct (base_eqb b (f_base s)) eqn:Eb; try discriminate. apply base_eqb_eq in Eb. subst b.
    inversion H; subst s1; clear H. brk I. rewrite Ew in *.
    pose proof (Irdb m eq_refl) as Hd.
    constructor; projs.
    + rewrite Hd. discriminate.
    + intros He. destruct (Ihello He) as [(P & W & [((q1 & Q) & H0)|[X|X]])|[(P & W & X)|(P & [W|(W & D)])]];
        try discriminate; try congruence; try contradiction.
      right. right. auto.
    + intros Hn. contradiction.
    + exact Ibase.
    + exact Ilater.
    + discriminate.
    + discriminate.
    + intros f m0 Hx. inversion Hx; subst. right. auto.
  - (* FWWrite *) destruct (f_w s) eqn:Ew; try discriminate. inversion H; subst s1; clear H. brk I. rewrite Ew in *.
    assert (Hst : early (f_m s) = false).
    { destruct (f_m s); try reflexivity; destruct Ipre as (_ & _ & _ & X); congruence. }
    constructor; projs.
    + destruct (f_m s); try discriminate; destruct Ipre as (_ & _ & _ & Y); congruence.
    + intros _. right. right.
      destruct (Ihello Hst) as [(P & W & [((q1 & Q) & H0)|[X|X]])|[(P & W & X)|(P & [(rest & W)|(W & D)])]];
        try discriminate; try congruence; try contradiction.
      * inversion X; subst. split; [exact P|]. left. rewrite W. cbn. eauto.
      * split; [exact P|]. left. rewrite W. cbn. eauto.
    + intros Hn. specialize (Icount Hn). rewrite app_length. cbn in *. lia.
    + exact Ibase.
    + intros i fm Hx. apply nth_error_snoc in Hx. destruct Hx as [Hx|[Hi ->]]; [eauto|].
      destruct (Ifr f m eq_refl) as [(W & _)|(F & D)].
      * rewrite W in Hi. discriminate.
      * cbn. auto.
    + discriminate.
    + discriminate.
    + discriminate.
  - (* FWWriteFail *) destruct (f_w s) eqn:Ew; try discriminate. inversion H; subst s1; clear H. brk I. rewrite Ew in *.
    assert (Hst : early (f_m s) = false).
    { destruct (f_m s); try reflexivity; destruct Ipre as (_ & _ & _ & X); congruence. }
    constructor; projs.
    + destruct (f_m s); try discriminate; destruct Ipre as (_ & _ & _ & Y); congruence.
    + intros _. right. right.
      destruct (Ihello Hst) as [(P & W & [((q1 & Q) & H0)|[X|X]])|[(P & W & X)|(P & [(rest & W)|(W & D)])]];
        try discriminate; try congruence; try contradiction.
      * split; [exact P|]. right. split; [exact W|exact Logic.I].
      * split; [exact P|]. left. eauto.
    + intros Hn. specialize (Icount Hn). cbn in *. lia.
    + exact Ibase.
    + exact Ilater.
    + discriminate.
    + discriminate.
    + discriminate.
  - (* FWDisp *) destruct (f_w s) eqn:Ew; try discriminate. inversion H; subst s1; clear H.
    unfold on_hello. destruct h as [t|]; [|exact I].
    destruct (f_lis (set_seen s (f_seen s ++ [t]))).
    + destruct (parse_hello t) as [[sd uris]| |x];
        (eapply inva_wmove; [exact I|projs; try reflexivity; try rewrite Ew; cbn; try discriminate; auto ..]).
    + eapply inva_wmove; [exact I|projs; try reflexivity; try rewrite Ew; cbn; try discriminate; auto ..].
  - (* FWSid *) destruct (f_w s) eqn:Ew; try discriminate. inversion H; subst s1; clear H.
    eapply inva_wmove; [exact I|projs; try reflexivity; try rewrite Ew; cbn; try discriminate; auto ..].
  - (* FWCaps *) destruct (f_w s) eqn:Ew; try discriminate. inversion H; subst s1; clear H.
    eapply inva_wmove; [exact I|projs; try reflexivity; try rewrite Ew; cbn; try discriminate; auto ..].
  - (* FWErrCb *) destruct (f_w s) eqn:Ew; try discriminate. inversion H; subst s1; clear H.
    eapply inva_wmove; [exact I|projs; try reflexivity; try rewrite Ew; cbn; try discriminate; auto ..].
  - (* FWEvSet *) destruct (f_w s) eqn:Ew; try discriminate. inversion H; subst s1; clear H.
    eapply inva_wmove; [exact I|projs; try reflexivity; try rewrite Ew; cbn; try (destruct dying0; cbn); try discriminate; auto ..].
  - (* FWDie *) destruct (f_w s) eqn:Ew; try discriminate. destruct e; try discriminate; inversion H; subst s1; clear H;
    (eapply inva_wmove; [exact I|projs; try reflexivity; try rewrite Ew; cbn; try discriminate; auto ..]).
  - (* FWBcast *) destruct (f_w s) eqn:Ew; try discriminate. inversion H; subst s1; clear H.
    eapply inva_wmove; [exact I|projs; try reflexivity; try rewrite Ew; cbn; try (destruct (f_lis s); cbn); try discriminate; auto ..].
  - (* FWClose *) destruct (f_w s) eqn:Ew; try discriminate. inversion H; subst s1; clear H.
    eapply inva_wmove; [exact I|projs; try reflexivity; try rewrite Ew; cbn; try discriminate; auto ..].
  - (* FWExit *) destruct (f_w s) eqn:Ew; try discriminate. inversion H; subst s1; clear H.
    eapply inva_wmove; [exact I|projs; try reflexivity; try rewrite Ew; cbn; try discriminate; auto ..].
Qed.

Lemma inva_step c s l s1 : InvA c s -> fstep c s l = Some s1 -> InvA c s1.
Proof.
  intros I H. destruct (is_mlabel l) eqn:E; [eapply inva_mlabels|eapply inva_olabels]; eauto.
Qed.

Lemma inva_run c : forall ls s s1, InvA c s -> run_flabels c s ls = Some s1 -> InvA c s1.
Proof.
  induction ls as [|l ls IH]; intros s s1 I H; cbn in H.
  - inversion H; subst; exact I.
  - destruct (fstep c s l) as [s2|] eqn:E; [|discriminate].
    eapply IH; [|exact H]. eapply inva_step; eauto.
Qed.

(* ------------------------------------------------------------ InvB: the callbacks publish before they signal *)
Definition transport_err (e : herr) : Prop := e = ESessionClose \/ e = EOther \/ e = EParse.

Record InvB (s : fstate) : Prop := {
  b_set : forall d, f_w s = WSet d -> f_err s <> None \/ f_caps s <> None;
  b_ev : f_ev s = true -> f_err s <> None \/ f_caps s <> None;
  b_m : (f_m s = M6 \/ f_m s = M7) -> f_ev s = true;
  b_errk : forall e, f_err s = Some e -> transport_err e;
  b_w0 : forall e d, f_w s = WErr0 e d -> transport_err e;
  b_wr : forall e, f_w s = WRaised e -> transport_err e;
  b_res : forall e, (f_m s = M9 (Some e) \/ f_m s = MDone (Some e)) -> e = ETimeout \/ transport_err e
}.

Lemma invb_init : InvB finit.
Proof. constructor; cbn; try discriminate; intros; intuition discriminate. Qed.

Ltac brkb I := destruct I as [Bset Bev Bm Berrk Bw0 Bwr Bres].

(* a step that leaves event, error and capabilities alone, moves the worker to a program point InvB does not
   constrain (or leaves it), and moves the connecting thread to a point InvB does not constrain (or leaves it) *)
Lemma invb_keep s s1 :
  InvB s -> f_ev s1 = f_ev s -> f_err s1 = f_err s -> f_caps s1 = f_caps s ->
  (f_w s1 = f_w s \/ match f_w s1 with WSet _ | WErr0 _ _ | WRaised _ => False | _ => True end) ->
  (f_m s1 = f_m s \/ match f_m s1 with M6 | M7 | M9 (Some _) | MDone (Some _) => False | _ => True end) ->
  InvB s1.
Proof.
  intros I Ee Er Ec Hw Hm. brkb I.
  constructor; rewrite ?Ee, ?Er, ?Ec.
  - intros d X. destruct Hw as [Hw|Hw]; [rewrite Hw in X; eauto|rewrite X in Hw; contradiction].
  - exact Bev.
  - intros X. destruct Hm as [Hm|Hm]; [rewrite Hm in X; auto|destruct X as [X|X]; rewrite X in Hm; contradiction].
  - exact Berrk.
  - intros e d X. destruct Hw as [Hw|Hw]; [rewrite Hw in X; eauto|rewrite X in Hw; contradiction].
  - intros e X. destruct Hw as [Hw|Hw]; [rewrite Hw in X; eauto|rewrite X in Hw; contradiction].
  - intros e X. destruct Hm as [Hm|Hm]; [rewrite Hm in X; auto|destruct X as [X|X]; rewrite X in Hm; contradiction].
Qed.

Ltac keep_b I := eapply invb_keep; [exact I|projs; try reflexivity; auto ..].

Lemma invb_step c s l s1 : InvB s -> fstep c s l = Some s1 -> InvB s1.
Proof.
  intros I H. destruct l; cbn [fstep] in H.
  - (* FMReg *) destruct (f_m s) eqn:Em; try discriminate. inversion H; subst s1; clear H. keep_b I.
  - (* FMPend *) destruct (f_m s) eqn:Em; try discriminate. inversion H; subst s1; clear H. keep_b I.
  - (* FMPutHello *) destruct (f_m s) eqn:Em; try discriminate. inversion H; subst s1; clear H. keep_b I.
  - (* FMStart *) destruct (f_m s) eqn:Em; try discriminate. destruct (f_w s) eqn:Ew; try discriminate.
    inversion H; subst s1; clear H. keep_b I.
  - (* FMWait *) destruct (f_m s) eqn:Em; try discriminate. destruct (Bool.eqb b (f_ev s)); [|discriminate].
    inversion H; subst s1; clear H. keep_b I.
  - (* FMIsSet *) destruct (f_m s) eqn:Em; try discriminate.
    destruct (Bool.eqb b (f_ev s)) eqn:Eb; [apply bool_eqb_eq in Eb; subst b|discriminate].
    inversion H; subst s1; clear H. brkb I.
    destruct (f_ev s) eqn:Ev; constructor; projs; try assumption; try (intros; discriminate).
    + intros _. apply Bev. reflexivity.
    + intros _. exact Ev.
    + intros e [X|X]; discriminate.
    + rewrite Ev. discriminate.
    + intros [X|X]; discriminate.
    + intros e [X|X]; try discriminate. inversion X. auto.
  - (* FMUnreg *) destruct (f_m s) eqn:Em; try discriminate. inversion H; subst s1; clear H. brkb I.
    constructor; projs; try assumption.
    + intros _. apply Bm. auto.
    + intros e [X|X]; discriminate.
  - (* FMCaps *) destruct (f_m s) eqn:Em; try discriminate. destruct (f_err s) eqn:Ee; try discriminate.
    inversion H; subst s1; clear H. unfold decide.
    assert (Hc : f_caps s <> None).
    { brkb I. destruct (Bev (Bm (or_intror Em))) as [X|X]; congruence. }
    destruct (f_caps s) as [sv|] eqn:Ec; [|congruence].
    destruct (c05_choose_total sv c) as [b Hb]. rewrite Hb. destruct b; keep_b I.
  - (* FMBase *) destruct (f_m s) eqn:Em; try discriminate. inversion H; subst s1; clear H. keep_b I.
  - (* FMRet *) destruct (f_m s) eqn:Em; try discriminate.
    + destruct (f_err s) eqn:Ee; try discriminate. inversion H; subst s1; clear H. brkb I.
      constructor; projs; try assumption.
      * intros [X|X]; discriminate.
      * intros e [X|X]; try discriminate. inversion X; subst. right. apply Berrk. exact Ee.
    + inversion H; subst s1; clear H. brkb I.
      constructor; projs; try assumption.
      * intros [X|X]; discriminate.
      * intros e [X|X]; try discriminate. inversion X; subst. apply Bres. auto.
  - (* FMPut *) destruct (f_m s) as [| | | | | | | | | |[e|]] eqn:Em; try discriminate. inversion H; subst s1; clear H. keep_b I.
  - (* FWGet *) destruct (f_w s) eqn:Ew; try discriminate. destruct (f_q s) as [|m' q'] eqn:Eq; try discriminate.
    destruct (N.eqb m m'); try discriminate. inversion H; subst s1; clear H. keep_b I.
  - (* FWPendRd *) destruct (f_w s) eqn:Ew; try discriminate. destruct (Bool.eqb b (f_pending s)); try discriminate.
    inversion H; subst s1; clear H. destruct b; keep_b I.
  - (* FWPendClr *) destruct (f_w s) eqn:Ew; try discriminate. inversion H; subst s1; clear H. keep_b I.
  - (* FWBaseRd *) destruct (f_w s) eqn:Ew; try discriminate. destruct (base_eqb b (f_base s)); try discriminate.
    inversion H; subst s1; clear H. keep_b I.
  - (* FWWrite *) destruct (f_w s) eqn:Ew; try discriminate. inversion H; subst s1; clear H. keep_b I.
  - (* FWWriteFail *) destruct (f_w s) eqn:Ew; try discriminate. inversion H; subst s1; clear H. brkb I.
    constructor; projs; try assumption; try discriminate.
    intros e X. inversion X. left. reflexivity.
  - (* FWDisp *) destruct (f_w s) eqn:Ew; try discriminate. inversion H; subst s1; clear H.
    unfold on_hello. destruct h as [t|]; [|exact I].
    destruct (f_lis (set_seen s (f_seen s ++ [t]))); [|keep_b I; left; congruence].
    destruct (parse_hello t) as [[sd uris]| |x]; [keep_b I| |]; brkb I;
      (constructor; projs; try assumption; try discriminate; intros e d X; inversion X; right; right; reflexivity).
  - (* FWSid *) destruct (f_w s) eqn:Ew; try discriminate. inversion H; subst s1; clear H. keep_b I.
  - (* FWCaps *) destruct (f_w s) eqn:Ew; try discriminate. inversion H; subst s1; clear H. brkb I.
    constructor; projs; try assumption; try discriminate.
    + intros d _. right. discriminate.
    + intros _. right. discriminate.
  - (* FWErrCb *) destruct (f_w s) eqn:Ew; try discriminate. inversion H; subst s1; clear H. brkb I.
    constructor; projs; try assumption; try discriminate.
    + intros d _. left. discriminate.
    + intros _. left. discriminate.
    + intros e0 X. inversion X; subst. eapply Bw0. exact Ew.
  - (* FWEvSet *) destruct (f_w s) eqn:Ew; try discriminate. inversion H; subst s1; clear H. brkb I.
    constructor; projs; try assumption.
    + intros d X. destruct dying0; discriminate.
    + intros _. eapply Bset. exact Ew.
    + intros _. reflexivity.
    + intros e d X. destruct dying0; discriminate.
    + intros e X. destruct dying0; discriminate.
  - (* FWDie *) destruct (f_w s) eqn:Ew; try discriminate. destruct e; try discriminate; inversion H; subst s1; clear H; brkb I;
    (constructor; projs; try assumption; try discriminate; intros e X; inversion X; unfold transport_err; auto).
  - (* FWBcast *) destruct (f_w s) eqn:Ew; try discriminate. inversion H; subst s1; clear H. brkb I.
    destruct (f_lis s); constructor; projs; try assumption; try discriminate.
    intros e0 d X. inversion X; subst. eapply Bwr. exact Ew.
  - (* FWClose *) destruct (f_w s) eqn:Ew; try discriminate. inversion H; subst s1; clear H. keep_b I.
  - (* FWExit *) destruct (f_w s) eqn:Ew; try discriminate. inversion H; subst s1; clear H. keep_b I.
Qed.
