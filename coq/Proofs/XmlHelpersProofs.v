(* XmlHelpersProofs.v — C17: declaration logic of to_xml, parse_root vs full parse,
   validated_element.  (replace_namespace: XmlReplaceProofs.v; constructors: XmlCtorProofs.v) *)
From Coq Require Import String.
From NC Require Import Model.Base Model.Lit Model.XTree Model.XmlHelpers Spec.XmlHelpersSpec Proofs.BaseFacts.

(* ---------------- to_xml ---------------- *)
Definition VER : bytes := Eval compute in lit "version=""1.0"" encoding="""%string.

Lemma decl_a_split : DECL_A = XML_PFX ++ 32 :: VER.
Proof. reflexivity. Qed.
Lemma decl_b_split : DECL_B = 34 :: Q_GT.
Proof. reflexivity. Qed.

Lemma noq_contains s : forallb (fun c => negb (N.eqb c 63)) s = true -> contains s Q_GT = false.
Proof.
  induction s as [|x s IH]; intros H; [reflexivity|].
  simpl in H. apply andb_true_iff in H as [Hx Hs].
  apply negb_true_iff in Hx. rewrite N.eqb_sym in Hx.
  unfold Q_GT in *. cbn [contains prefixb]. rewrite Hx. cbn [andb orb]. auto.
Qed.

Lemma startswith_pfx r : startswith (XML_PFX ++ r) XML_PFX = true.
Proof. reflexivity. Qed.

Lemma starts_elem_not_pfx body : starts_elem body -> startswith body XML_PFX = false.
Proof.
  intros (c & r & -> & Hc). unfold startswith, XML_PFX. cbn [prefixb].
  assert (E : N.eqb 63 c = false) by (apply N.eqb_neq; congruence).
  rewrite E. reflexivity.
Qed.

Lemma c17_decl_once : forall ser enc body,
  ser_shape ser body -> enc_ok enc ->
  exists d, to_xml ser enc = d ++ body /\ decl_shape d.
Proof.
  intros ser enc body [Hb [-> | (mid & -> & Hmid)]] Henc.
  - unfold to_xml. rewrite (starts_elem_not_pfx _ Hb).
    exists (DECL_A ++ enc ++ DECL_B). split.
    + now rewrite <- !app_assoc.
    + exists (VER ++ enc ++ [34]), []. split; [|split].
      * rewrite decl_a_split, decl_b_split, app_nil_r.
        rewrite <- !app_assoc. cbn [app]. rewrite <- ?app_assoc. reflexivity.
      * apply noq_contains. rewrite !forallb_app. rewrite Henc. reflexivity.
      * reflexivity.
  - unfold to_xml. rewrite startswith_pfx.
    exists (XML_PFX ++ 32 :: mid ++ Q_GT ++ [10]). split.
    + rewrite <- !app_assoc. cbn [app]. do 2 f_equal. now rewrite <- !app_assoc.
    + exists mid, [10]. repeat split; auto.
Qed.

(* content is kept: what follows the declaration is the serialised element itself (same lemma,
   read for the body) and nothing of it starts another declaration *)
Lemma c17_decl_body_not_decl : forall body, starts_elem body -> startswith body XML_PFX = false.
Proof. exact starts_elem_not_pfx. Qed.

(* ---------------- parse_root vs the full parse ---------------- *)
Fixpoint bottom (st : list frame) : option (name * list attr) :=
  match st with
  | [] => None
  | (n, a, _) :: st' => match st' with [] => Some (n, a) | _ => bottom st' end
  end.

Lemma build_bottom : forall evs st t na,
  build evs st = Some t -> bottom st = Some na ->
  root_name t = Some (fst na) /\ root_attrs t = snd na.
Proof.
  induction evs as [|e r IH]; intros st t na Hb Hbot; [discriminate|].
  destruct e as [n a| |s|s|x y|]; cbn [build] in Hb.
  - (* start *) eapply IH; [exact Hb|].
    destruct st as [|f st']; [discriminate|]. cbn [bottom]. exact Hbot.
  - (* end *)
    destruct st as [|[[n a] k] st']; [discriminate|].
    destruct st' as [|[[n2 a2] k2] st''].
    + destruct (epilog_ok r); [|discriminate]. injection Hb as <-.
      cbn in Hbot. injection Hbot as <-. split; reflexivity.
    + eapply IH; [exact Hb|]. cbn [bottom] in *. exact Hbot.
  - destruct st as [|[[n a] k] st']; [discriminate|].
    eapply IH; [exact Hb|]. cbn [bottom] in *. exact Hbot.
  - destruct st as [|[[n a] k] st']; [discriminate|].
    eapply IH; [exact Hb|]. cbn [bottom] in *. exact Hbot.
  - destruct st as [|[[n a] k] st']; [discriminate|].
    eapply IH; [exact Hb|]. cbn [bottom] in *. exact Hbot.
  - destruct st; discriminate.
Qed.

Lemma c17_root_agrees : forall evs t,
  to_ele_ev evs = Some t ->
  exists n a, parse_root_ev evs = Some (n, a) /\ root_name t = Some n /\ root_attrs t = a.
Proof.
  unfold to_ele_ev. induction evs as [|e r IH]; intros t Hb; [discriminate|].
  destruct e as [n a| |s|s|x y|]; cbn [build] in Hb; cbn [parse_root_ev].
  - exists n, a. split; [reflexivity|].
    apply (build_bottom r [(n, a, [])] t (n, a) Hb). reflexivity.
  - discriminate.
  - destruct (blank s); [auto|discriminate].
  - auto.
  - auto.
  - discriminate.
Qed.

(* the root-only parse needs nothing after the root's start tag: it also answers on streams the
   full parse rejects *)
Lemma c17_root_prefix : forall pro n a rest,
  prolog_ok pro = true -> parse_root_ev (pro ++ EvStart n a :: rest) = Some (n, a).
Proof.
  induction pro as [|e pro IH]; intros n a rest H; [reflexivity|].
  destruct e; cbn [prolog_ok] in H; try discriminate; cbn [app parse_root_ev]; auto.
  apply andb_true_iff in H as [_ H]. auto.
Qed.

(* ---------------- validated_element ---------------- *)
Lemma ns_eqb_eq a b : ns_eqb a b = true <-> a = b.
Proof.
  destruct a as [x|], b as [y|]; simpl; try (split; [discriminate|discriminate]); try tauto.
  - rewrite beq_eq. split; [intros ->; reflexivity|intros [= ->]; reflexivity].
Qed.

Lemma name_eqb_eq a b : name_eqb a b = true <-> a = b.
Proof.
  destruct a as [u l], b as [v m]. unfold name_eqb. simpl.
  rewrite andb_true_iff, ns_eqb_eq, beq_eq. split; [intros [-> ->]; reflexivity|intros [= -> ->]; auto].
Qed.

Lemma mem_name_In n l : mem_name n l = true <-> In n l.
Proof.
  induction l as [|m l IH]; simpl; [split; [discriminate|tauto]|].
  rewrite orb_true_iff, IH, name_eqb_eq. split; intros [H|H]; auto.
Qed.

Lemma alt_loop_true alts ks :
  alt_loop alts ks = Some true -> exists a n, In a alts /\ parse_clark a = Some n /\ In n ks.
Proof.
  induction alts as [|a r IH]; simpl; [discriminate|].
  destruct (parse_clark a) as [n|] eqn:E; [|discriminate].
  destruct (mem_name n ks) eqn:M.
  - intros _. exists a, n. apply mem_name_In in M. auto.
  - intros H. destruct (IH H) as (a' & n' & Hi & Hp & Hk). exists a', n'. auto.
Qed.

Lemma alt_loop_complete alts ks :
  (forall a, In a alts -> parse_clark a <> None) ->
  (exists a n, In a alts /\ parse_clark a = Some n /\ In n ks) -> alt_loop alts ks = Some true.
Proof.
  induction alts as [|a r IH]; intros Hwf (a' & n' & Hi & Hp & Hk); [destruct Hi|].
  simpl. destruct (parse_clark a) as [n|] eqn:E; [|exfalso; apply (Hwf a); simpl; auto].
  destruct (mem_name n ks) eqn:M; [reflexivity|].
  apply IH; [intros x Hx; apply Hwf; simpl; auto|].
  destruct Hi as [<-|Hi].
  - rewrite E in Hp. injection Hp as ->. apply mem_name_In in Hk. congruence.
  - exists a', n'. auto.
Qed.

Lemma tag_ok_spec tags root :
  tag_ok tags root = true <-> (tags_list tags = [] \/ In (clark root) (tags_list tags)).
Proof.
  unfold tag_ok. destruct (tags_list tags) as [|x l] eqn:E.
  - split; auto.
  - rewrite mem_bytes_In. split; [auto|intros [H|H]; [discriminate|auto]].
Qed.

Lemma c17_validated_sound : forall tags attrs root ks,
  validated tags attrs root ks = VAccept -> validated_spec tags attrs root ks.
Proof.
  intros tags attrs root ks. unfold validated, validated_spec.
  destruct (tag_ok tags root) eqn:T; [|discriminate].
  intros H. split; [now apply tag_ok_spec|].
  induction attrs as [|r rs IH]; [intros r []|].
  simpl in H. destruct (alt_loop (alts_of r) ks) as [[|]|] eqn:A; try discriminate.
  intros r' [<-|Hr]; [now apply alt_loop_true|auto].
Qed.

Lemma c17_validated_iff : forall tags attrs root ks,
  alts_wellformed attrs ->
  (validated tags attrs root ks = VAccept <-> validated_spec tags attrs root ks).
Proof.
  intros tags attrs root ks Hwf. split; [apply c17_validated_sound|].
  intros [Ht Ha]. unfold validated. apply tag_ok_spec in Ht. rewrite Ht.
  induction attrs as [|r rs IH]; [reflexivity|].
  simpl. rewrite (alt_loop_complete (alts_of r) ks).
  - apply IH; [intros r' a Hr; apply Hwf; simpl; auto|intros r' Hr; apply Ha; simpl; auto].
  - intros a Hin. apply (Hwf r); simpl; auto.
  - apply Ha. simpl; auto.
Qed.

(* rejected for the right reason *)
Lemma c17_validated_reject_tag : forall tags attrs root ks,
  validated tags attrs root ks = VRejectTag <->
  (tags_list tags <> [] /\ ~ In (clark root) (tags_list tags)).
Proof.
  intros. unfold validated. destruct (tag_ok tags root) eqn:T.
  - apply tag_ok_spec in T. split.
    + intros H. exfalso. induction attrs as [|r rs IH]; simpl in H; [discriminate|].
      destruct (alt_loop (alts_of r) ks) as [[|]|]; try discriminate. auto.
    + intros [H1 H2]. tauto.
  - split; [intros _|reflexivity].
    split; intros H; assert (X : tag_ok tags root = true) by (apply tag_ok_spec; auto); congruence.
Qed.
