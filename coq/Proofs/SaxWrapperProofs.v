(* SaxWrapperProofs.v — C18, the one-level wrapper (Spec/ProjectionW.v against Model/SaxFilter.v).
   Inside and after the wrapper w the handler is in the state of a kept element matched with the filter node
   FN w [f], with default tags [top; w]; so the children of the wrapper are in the class WFks of SaxProofs.kept_kids
   and the whole case reduces to that lemma. *)
From Coq Require Import String.
From NC Require Import Model.Base Model.Lit Model.SaxFilter Spec.Projection Spec.ProjectionW.
From NC Require Import Proofs.BaseFacts Proofs.SaxProofs.

Lemma pk_kids_only g1 g2 k : fkids g1 = fkids g2 -> pk g1 k = pk g2 k.
Proof. intro H. destruct k as [c|m a ks]; cbn [pk]; [reflexivity|]. rewrite H. reflexivity. Qed.

Lemma flat_map_pk_kids_only g1 g2 l : fkids g1 = fkids g2 -> flat_map (pk g1) l = flat_map (pk g2) l.
Proof.
  intro H. induction l as [|k l IH]; [reflexivity|]. cbn [flat_map].
  rewrite IH, (pk_kids_only g1 g2 k H). reflexivity.
Qed.

Lemma db_obare w : drop_blank (oes [OBare w]) = [Start w []]. Proof. reflexivity. Qed.

Section Wrapper.
  Variables (e : env) (top : bytes) (f : ftree) (nc : bool).
  Hypothesis Htop : is_reply top = true.
  Hypothesis Hroot : is_reply (ftag f) = false.

  (* the wrapper's children (and the siblings after it) are children of a kept element matched with FN w [f] *)
  Lemma WFwk_WFks w l : beq w (ftag f) = false -> WFwk top w f l -> WFks [top; w] (FN w [f]) true l.
  Proof.
    intros Hw H. induction H as [| c l Hblank _ IH | a ks l Hcolon Hks _ IH | m a ks l Hok Hb Hav _ IH].
    - apply WFks_nil.
    - apply WFks_T; [intros _; exact Hblank | exact IH].
    - apply (WFks_kept [top; w] (FN w [f]) true (ftag f) a ks f l).
      + unfold kid_ok. cbn [ftag mem_bytes]. repeat split.
        * exact Hw.
        * exact Hcolon.
        * rewrite (beq_root_top top f Htop Hroot), (beq_sym (ftag f) w), Hw. reflexivity.
        * exact Hroot.
      + cbn [fkids find_f]. rewrite beq_refl. reflexivity.
      + apply WFm_E. exact Hks.
      + exact IH.
    - apply (WFks_skipped [top; w] (FN w [f]) true m a ks l).
      + exact Hok.
      + cbn [fkids find_f]. rewrite Hb. reflexivity.
      + exact Hav.
      + exact IH.
  Qed.

  Local Notation wstate w ct := (kstate [top; w] (FN w [f]) [] (Some (ftag f)) 2%nat ct nc).

  Lemma start_wrapper w wa :
    beq w (ftag f) = false -> has_colon w = false -> is_reply w = false ->
    start e (tstate top f nc true) w wa = Done (wstate w false) [OBare w].
  Proof.
    intros Hw Hc Hr. unfold start, tstate. rewrite Hr.
    cbn [ign cur roottag rootdepth validate ncns curtag dtags].
    rewrite Hw, Hc. reflexivity.
  Qed.

  Lemma end_wrapper w ct : endel (wstate w ct) w = Done (wstate w false) [OEnd w].
  Proof.
    unfold endel, kstate. cbn [ign cur roottag rootdepth validate ncns curtag dtags mem_bytes].
    rewrite beq_refl, orb_true_r. reflexivity.
  Qed.

  Lemma end_top_w w ct : endel (wstate w ct) top = Done (wstate w false) [OEnd top].
  Proof.
    unfold endel, kstate. cbn [ign cur roottag rootdepth validate ncns curtag dtags mem_bytes].
    rewrite beq_refl. reflexivity.
  Qed.

  Lemma wtop_kids : forall ks, WFwtop top f ks ->
    exists o w ct,
      exec e (tstate top f nc true) (flat_map ev ks) = (o, Fin (wstate w ct)) /\
      drop_blank (oes o) = drop_blank (flat_map ev (pw_kids top f ks)).
  Proof.
    intros ks H. induction H as [c l Hblank _ IH | w wa wks l Hw Hc Hr Hwks Hl].
    - destruct IH as [o [w [ct [Hex Hdb]]]]. exists o, w, ct. split.
      + cbn [flat_map ev app exec step]. unfold chars, tstate at 1. cbn [curtag].
        fold (tstate top f nc true). rewrite Hex. reflexivity.
      + rewrite Hdb. cbn [pw_kids flat_map ev app]. unfold drop_blank. cbn [filter keep].
        rewrite Hblank. reflexivity.
    - destruct (kept_kids e [top; w] (FN w [f]) true wks (WFwk_WFks w wks Hw Hwks) [] (Some (ftag f)) 2%nat nc)
        as [o1 [ct1 [Hex1 Hdb1]]].
      destruct (kept_kids e [top; w] (FN w [f]) true l (WFwk_WFks w l Hw Hl) [] (Some (ftag f)) 2%nat nc)
        as [o2 [ct2 [Hex2 Hdb2]]].
      cbn [negb] in Hex1, Hex2.
      exists ([OBare w] ++ o1 ++ [OEnd w] ++ o2), w, ct2. split.
      + cbn [flat_map]. rewrite ev_E.
        change (Start w wa :: flat_map ev wks ++ [End w]) with ([Start w wa] ++ flat_map ev wks ++ [End w]).
        rewrite <- !app_assoc.
        eapply exec_app_fin. { cbn [exec step]. rewrite (start_wrapper w wa Hw Hc Hr). reflexivity. }
        eapply exec_app_fin. { exact Hex1. }
        eapply exec_app_fin. { cbn [exec step]. rewrite (end_wrapper w ct1). reflexivity. }
        exact Hex2.
      + cbn [pw_kids]. rewrite !proj_E. cbn [xkids flat_map]. rewrite ev_E.
        change (Start w [] :: flat_map ev (flat_map (pk (FN w [f])) wks) ++ [End w])
          with ([Start w []] ++ flat_map ev (flat_map (pk (FN w [f])) wks) ++ [End w]).
        rewrite (flat_map_pk_kids_only (FN top [f]) (FN w [f]) l eq_refl).
        rewrite !oes_app, !drop_blank_app, Hdb1, Hdb2, db_obare, db_oend, db_start, db_end.
        rewrite <- !app_assoc. reflexivity.
  Qed.
End Wrapper.

Lemma c18_projection_wrapper : forall e f doc, wf_reply_w e f doc ->
  exists o s', exec e init (ev doc) = (o, Fin s') /\
               drop_blank (oes o) = drop_blank (ev (project_w f doc)).
Proof.
  intros e f doc [[top [a [ks [id [Hdoc [Htop [Hmsg [Hl [Htab Hwf]]]]]]]]] Hroot [Hn1 Hn2]].
  subst doc.
  set (nc := false || beq top s_ncreply).
  assert (Hstart : start e init top a = Done (tstate top f nc true) [OStart top a]).
  { unfold start, init. rewrite Htop, Hmsg, Hl, Htab.
    cbn [negb ign cur roottag rootdepth validate ncns curtag dtags length Nat.eqb].
    rewrite (beq_root_top top f Htop Hroot). cbn [andb].
    pose proof Htop as Htop'.
    unfold is_reply in Htop'. apply orb_true_iff in Htop'. destruct Htop' as [Ht|Ht]; apply beq_eq in Ht; subst top.
    - change (resolve (false || beq s_reply s_ncreply) s_reply) with (Some s_reply).
      cbv beta iota. rewrite Hn1. reflexivity.
    - change (resolve (false || beq s_ncreply s_ncreply) s_ncreply) with (Some (s_base_clark ++ s_reply)).
      cbv beta iota. rewrite Hn2. reflexivity. }
  destruct (wtop_kids e top f nc Htop Hroot ks Hwf) as [o [w [ct [Hex Hdb]]]].
  exists ([OStart top a] ++ o ++ [OEnd top]), (kstate [top; w] (FN w [f]) [] (Some (ftag f)) 2%nat false nc).
  split.
  - rewrite ev_E.
    change (Start top a :: flat_map ev ks ++ [End top]) with ([Start top a] ++ flat_map ev ks ++ [End top]).
    eapply exec_app_fin. { cbn [exec step]. rewrite Hstart. reflexivity. }
    eapply exec_app_fin. { exact Hex. }
    cbn [exec step]. rewrite (end_top_w top f nc w ct). reflexivity.
  - cbn [project_w]. rewrite ev_E.
    change (Start top a :: flat_map ev (pw_kids top f ks) ++ [End top])
      with ([Start top a] ++ flat_map ev (pw_kids top f ks) ++ [End top]).
    rewrite !oes_app, !drop_blank_app, Hdb, db_ostart, db_oend, db_start, db_end. reflexivity.
Qed.
