(* HandoverProofs.v — C01 with the session's parser being the Junos streaming parser (device_params use_filter):
   the branch of DefaultXMLParser._parse10 that hands the octets following a 1.0 terminator to the session's
   current parser,

       if len(remaining.strip()) > 0:
           if type(self._session.parser) != DefaultXMLParser: self._session.parser.parse(remaining)

   composed with JunosXMLParser.parse (Model/JunosParse.v: [cont], [dom_body], [on_exc], [go]).  A message whose
   streaming parser signals the switch to DOM parsing before it has a root and before it wrote anything (a
   <notification>, a reply to a request without filter: SAXFilterXMLNotFoundError) and whose dispatch reinstalls the
   streaming parser (SAXParserHandler.callback) is [handed].  For a stream of such messages, however it is cut into
   reads and whatever incomplete message follows the last terminator:
     exactly one DOM dispatch per message, in order, the octets of the frame (without leading ASCII white space),
     nothing before its terminator is complete, nothing of what follows a terminator lost        (handover_delivery)
     = the deliveries of the reference automaton ref10 of C01 on the same stream                   (handover_ref). *)
From Coq Require Import Lia.
From NC Require Import Model.Base Model.Utf8 Model.Framing10 Model.JunosParse Spec.RefFraming.
From NC Require Import Proofs.BaseFacts Proofs.ListFacts Proofs.Utf8Facts Proofs.FramingProofs Proofs.JunosParseProofs.

Lemma delim_not_blank a b : bblank (a ++ delim10 ++ b) = false.
Proof.
  destruct (bblank (a ++ delim10 ++ b)) eqn:B; [|reflexivity].
  rewrite !Utf8Facts.bblank_app in B. apply andb_true_iff in B as [_ B]. apply andb_true_iff in B as [B _].
  discriminate.
Qed.

Lemma enc10_cons m ms : enc10 (m :: ms) = m ++ delim10 ++ enc10 ms.
Proof. unfold enc10. cbn [map concat]. now rewrite <- app_assoc. Qed.

Lemma strip_blstrip m : strip (blstrip m) = strip m.
Proof.
  destruct (blstrip_suffix m) as [ws [B E]]. rewrite E at 2. symmetry. apply strip_blank_prefix, B.
Qed.

Section Handover.
  Variables W X : Type.
  Variable xnew : W -> X.
  Variable xstep : W -> X -> N -> xres X.
  Variable xrooted : X -> bool.
  Variable dispatch : W -> bool -> bytes -> dres W.
  Hypothesis Hmono : forall w x c x' o, xstep w x c = XOk x' o -> xrooted x = true -> xrooted x' = true.
  Hypothesis Hnew : forall w, xrooted (xnew w) = false.

  Local Notation feed' := (feed W X xstep xrooted).
  Local Notation go' := (go W X xnew xstep xrooted dispatch).
  Local Notation fresh' := (fresh W X xnew).
  Local Notation run' := (run W X xnew xstep xrooted dispatch).
  Local Notation parse' := (parse W X xnew xstep xrooted dispatch).
  Local Notation init' := (init W X xnew).

  (* the message takes the SAX -> DOM hand-over, in every state of the session side *)
  Definition handed (m : bytes) : Prop :=
    (forall w, exists u, feed' w (xnew w) (blstrip m) = FSwitch false [] u) /\
    (forall w, exists w', dispatch w false (blstrip m) = DOk w' true).

  Definition dom_out (m : bytes) : bool * bytes := (false, blstrip m).

  (* what follows the last terminator and holds no terminator dispatches nothing *)
  Lemma go_tail_outs : forall n w o f tail, find_sub delim10 tail = None ->
    outs (go' n (fresh' w o f) tail) = o.
  Proof.
    intros [|n] w o f tail F; [reflexivity|].
    cbn [go fresh stat wd outs fed app]. rewrite F.
    destruct (holdback tail) as [msg held'].
    destruct (feed' w (xnew w) _) as [x' o1|rt o1 u| |]; cbn [on_exc wd outs fed]; try reflexivity.
    destruct rt; [reflexivity|]. destruct (negb (is_nil ([] ++ o1))); [reflexivity|].
    unfold dom_body. cbn [app]. rewrite find_blstrip, F. reflexivity.
  Qed.

  Lemma handover_one_read : forall msgs n w o f tail,
    Forall clean10 msgs -> Forall handed msgs -> find_sub delim10 tail = None ->
    (length (enc10 msgs ++ tail) < n)%nat ->
    outs (go' n (fresh' w o f) (enc10 msgs ++ tail)) = o ++ map dom_out msgs.
  Proof.
    induction msgs as [|m ms IH]; intros n w o f tail Hc Hh Ft Hn.
    - cbn [enc10 map concat app]. rewrite app_nil_r. now apply go_tail_outs.
    - inversion Hc as [|? ? Hc1 Hc2]; inversion Hh as [|? ? [Hs Hd] Hh2]; subst.
      destruct n as [|n]; [lia|].
      rewrite enc10_cons, <- !app_assoc in *.
      cbn [go fresh stat wd outs fed]. cbn [app].
      rewrite (clean10_find m (enc10 ms ++ tail) Hc1).
      assert (started X xrooted [] (xnew w) = false) as -> by (unfold started; cbn; apply Hnew).
      destruct (Hs w) as [u Fu]. rewrite Fu. cbn [on_exc wd outs fed app is_nil negb].
      unfold dom_body. rewrite find_blstrip, (clean10_find m (enc10 ms ++ tail) Hc1).
      cbn [fresh wd outs fed]. destruct (Hd w) as [w' Dw]. rewrite Dw. unfold cont.
      destruct ms as [|m2 ms].
      + cbn [enc10 map concat app] in *. destruct (bblank tail) eqn:Bt.
        * reflexivity.
        * rewrite go_tail_outs by exact Ft. reflexivity.
      + assert (bblank (enc10 (m2 :: ms) ++ tail) = false) as ->
          by (rewrite enc10_cons, <- !app_assoc; apply delim_not_blank).
        rewrite IH; auto.
        * rewrite <- app_assoc. reflexivity.
        * rewrite !app_length in Hn. change (length delim10) with 6%nat in Hn. rewrite app_length. lia.
  Qed.

  (* The composition: after the last terminator the session is exactly a NEW streaming parser (nothing held back,
     no head, no output, the messages dispatched, some state w' of the session side) that is given, as one read, the
     octets that follow the terminator - unchanged - when they are not blank ([cont]: `if len(remaining.strip()) > 0:
     self._session.parser.parse(remaining)`) *)
  Lemma handover_state : forall msgs n w o f tail,
    msgs <> [] -> Forall clean10 msgs -> Forall handed msgs -> find_sub delim10 tail = None ->
    (length (enc10 msgs ++ tail) < n)%nat ->
    exists w' f', go' n (fresh' w o f) (enc10 msgs ++ tail) =
                  cont W X parse' (fresh' w' (o ++ map dom_out msgs) f') tail.
  Proof.
    induction msgs as [|m ms IH]; intros n w o f tail Hne Hc Hh Ft Hn; [congruence|].
    inversion Hc as [|? ? Hc1 Hc2]; inversion Hh as [|? ? [Hs Hd] Hh2]; subst.
    destruct n as [|n]; [lia|].
    rewrite enc10_cons, <- !app_assoc in *.
    cbn [go fresh stat wd outs fed]. cbn [app].
    rewrite (clean10_find m (enc10 ms ++ tail) Hc1).
    assert (started X xrooted [] (xnew w) = false) as -> by (unfold started; cbn; apply Hnew).
    destruct (Hs w) as [u Fu]. rewrite Fu. cbn [on_exc wd outs fed app is_nil negb].
    unfold dom_body. rewrite find_blstrip, (clean10_find m (enc10 ms ++ tail) Hc1).
    cbn [fresh wd outs fed]. destruct (Hd w) as [w1 Dw]. rewrite Dw.
    rewrite !app_length in Hn. change (length delim10) with 6%nat in Hn.
    destruct ms as [|m2 ms].
    - exists w1, (addfed u ([] :: f)). cbn [enc10 map concat app] in *. unfold cont.
      destruct (bblank tail); [reflexivity|]. unfold parse. apply go_fuel; cbn [size fresh stat length]; lia.
    - unfold cont at 1.
      assert (bblank (enc10 (m2 :: ms) ++ tail) = false) as ->
        by (rewrite enc10_cons, <- !app_assoc; apply delim_not_blank).
      destruct (IH n w1 (o ++ [(false, blstrip m)]) (addfed u ([] :: f)) tail) as (w' & f' & E); auto; try discriminate.
      { rewrite app_length. lia. }
      exists w', f'. rewrite E, <- app_assoc. reflexivity.
  Qed.

  (* However the stream is cut into reads (empty reads included): one DOM dispatch per message, in order, the octets
     of its frame; [tail] is what follows the last complete terminator (an incomplete message, possibly empty) *)
  Lemma handover_delivery : forall msgs tail reads w,
    Forall clean10 msgs -> Forall handed msgs -> find_sub delim10 tail = None ->
    reads <> [] -> concat reads = enc10 msgs ++ tail ->
    outs (run' (init' w) reads) = map dom_out msgs.
  Proof.
    intros msgs tail [|r rs] w Hc Hh Ft Hne E; [congruence|].
    rewrite (run_concat W X xnew xstep xrooted dispatch Hmono Hnew).
    assert (forall d, d = enc10 msgs ++ tail -> outs (parse' (init' w) d) = map dom_out msgs) as K.
    { intros d ->. unfold parse. change (init' w) with (fresh' w [] []).
      rewrite handover_one_read; auto. }
    apply K, E.
  Qed.

  (* the same for any cut into reads: the state after the reads is the state of a new streaming parser given what
     follows the last terminator *)
  Lemma handover_next : forall msgs tail reads w,
    msgs <> [] -> Forall clean10 msgs -> Forall handed msgs -> find_sub delim10 tail = None ->
    reads <> [] -> concat reads = enc10 msgs ++ tail ->
    exists w' f', run' (init' w) reads = cont W X parse' (fresh' w' (map dom_out msgs) f') tail.
  Proof.
    intros msgs tail [|r rs] w Hm Hc Hh Ft Hne E; [congruence|].
    rewrite (run_concat W X xnew xstep xrooted dispatch Hmono Hnew).
    assert (forall d, d = enc10 msgs ++ tail ->
            exists w' f', parse' (init' w) d = cont W X parse' (fresh' w' (map dom_out msgs) f') tail) as K.
    { intros d ->. unfold parse at 1. change (init' w) with (fresh' w [] []).
      apply (handover_state msgs _ w [] [] tail); auto. }
    apply K, E.
  Qed.

  (* ... which are the deliveries of C01's reference automaton on the same octets: the text Session._dispatch_message
     gets is the decoded, stripped frame *)
  Lemma handover_ref : forall msgs reads w,
    Forall clean10 msgs -> Forall handed msgs -> Forall (fun m => utf8_valid m = true) msgs ->
    reads <> [] -> concat reads = enc10 msgs ->
    map (fun p => Deliver (strip (snd p))) (outs (run' (init' w) reads)) = snd (ref10 rinit10 (concat reads)).
  Proof.
    intros msgs reads w Hc Hh Hv Hne E.
    rewrite (handover_delivery msgs [] reads w Hc Hh eq_refl Hne) by (now rewrite app_nil_r).
    rewrite E, c01_roundtrip10 by assumption. cbn [snd]. rewrite map_map.
    apply map_ext. intros m. cbn [dom_out snd]. now rewrite strip_blstrip.
  Qed.
End Handover.
