(* CarriesVendor.v — the carries tables of the 30 vendor operation classes (property C07; read with Spec/Template.v
   and Spec/CarriesBase.v): [vvalues c] the caller's values the request must carry, in document order (attributes
   before content); [verase c] the call with every caller string and fragment forgotten; [vtemplateT c] the request
   template as the code builds it IN MEMORY (Model/VendorBuilders.vop_node; what a reader sees is [vwrap] of it:
   rules R1-R3, C07_vendor_fragment_verbatim).  Sources: the docstrings of ncclient/operations/third_party/*/rpc.py
   and the vendor documents cited in Spec/VendorSchema.v.
   Documented conversions (the converted value is what is carried): a list config of junos load_configuration and the
   command list of hpcomware cli_display / cli_config are joined with LF; junos commit(timeout=seconds) is sent in
   minutes, rounded up.  Enumerated selectors (junos format / action == 'set', alu content / format) are classes, not
   data: [verase] keeps them when they are members of the set.
   Not carried, by documentation: junos load_configuration(format=…) when action == 'set' (the code forces 'text');
   junos commit at_time when confirmed (refused), timeout when not confirmed; sros/RFC 6241 confirm-timeout and persist when
   not confirmed; an empty persist_id; a blank sros comment.  Not carried, open findings: alu content / format outside
   {xml, cli} (C07-alu-unknown-selector), calls without config (C07-vendor-config-omitted); alu get_configuration(content=
   'cli', filter=<an element>) iterates the element's children — none, or TypeError. *)
From Coq Require Import String List ZArith.
From NC Require Import Model.Base Model.Lit Model.Xml Model.Gating Model.Builders Model.VendorBuilders.
From NC Require Import Spec.Template Spec.CarriesBase.
Import ListNotations.

(* ---------------- values ---------------- *)
Definition v_elarg (x : elarg) : list value := match x with EElem t => [VTree t] | EStr s => [VStr s] end.
Definition v_oelarg (o : option elarg) : list value := match o with Some x => v_elarg x | None => [] end.
Definition v_doc (x : docarg) : list value := match x with DocTree t => [VTree t] | DocBad _ => [] end.
Definition v_jcfg (c : jcfg) : list value :=
  match c with JList l => [VStr (join_with 10 l)] | JOne x => v_elarg x | JNone => [] end.
Definition ALU_SELECTORS : list bytes := [s_xml; s_cli].

Definition vvalues (c : vcall) : list value :=
  match c with
  | VJCommand command format => VStr format :: v_ostr command
  | VJGetConfiguration format filter => VStr format :: v_oelarg filter
  | VJLoadConfiguration format action config =>
      VStr action :: (if beq action s_set then [] else [VStr format]) ++ v_jcfg config
  | VJCompareConfiguration rollback format => [VStr format; VStr rollback]
  | VJExecuteRpc rpc => v_doc rpc
  | VJReboot | VJHalt | VXSaveConfig => []
  | VJCommit confirmed timeout comment _ at_time _ =>
      (if confirmed then match timeout with TInt z => [VStr (z_to_dec (ceil_minutes z))] | _ => [] end else v_ostr at_time)
      ++ v_ostr comment
  | VJRollback rollback => [VStr rollback]
  | VSMdCliRawCommand command => v_ostr command
  | VSCommit confirmed timeout persist pid comment nonblank =>
      (if nonempty comment && nonblank then v_ostr comment else [])
      ++ (if confirmed then v_ostr timeout ++ v_ostr persist else [])
      ++ (if nonempty pid then v_ostr pid else [])
  | VAShowCli command => v_ostr command
  | VAGetConfiguration content filter _ =>
      match filter with
      | None => []
      | Some fl =>
          if beq content s_xml then match fl with AFDoc x => v_doc x | AFItems _ => [] end
          else if beq content s_cli then match fl with AFItems l => [VStrs l] | AFDoc _ => [] end
          else []
      end
  | VALoadConfiguration format dop target config =>
      match config with
      | None => v_ostr dop
      | Some x => if mem_bytes format ALU_SELECTORS then v_ds target ++ v_ostr dop ++ v_elarg x else v_ostr dop
      end
  | VHGetBulk f => v_filt f
  | VHGetBulkConfig src f => v_ds src ++ v_filt f
  | VHCli x | VHAction x | VPAction x | VWCli x | VWAction x => v_doc x
  | VHSave f | VHLoad f | VHRollback f | VPSave f | VPRollback f => v_ostr f
  | VPDisplayCommand cmds | VPConfigCommand cmds => [VStr (cmds_text cmds)]
  | VNExecCommand cmds => [VStrs cmds]
  end.

(* ---------------- erase ---------------- *)
Definition e_enum (allowed : list bytes) (s : bytes) : bytes := if mem_bytes s allowed then s else [].
Definition e_elarg (x : elarg) : elarg := match x with EElem _ => EElem (Text []) | EStr _ => EStr [] end.
Definition e_oelarg (o : option elarg) : option elarg := match o with Some x => Some (e_elarg x) | None => None end.
Definition e_doc (x : docarg) : docarg := match x with DocTree _ => DocTree (Text []) | DocBad e => DocBad e end.
Definition e_jcfg (c : jcfg) : jcfg := match c with JNone => JNone | JOne x => JOne (e_elarg x) | JList _ => JList [] end.
Definition e_timeout (t : jtimeout) : jtimeout := match t with TInt _ => TInt 0 | TNone => TNone | TBad => TBad end.
Definition e_af (f : afilter) : afilter := match f with AFDoc x => AFDoc (e_doc x) | AFItems _ => AFItems [] end.

Definition verase (c : vcall) : vcall :=
  match c with
  | VJCommand command _ => VJCommand (e_ostr command) []
  | VJGetConfiguration _ filter => VJGetConfiguration [] (e_oelarg filter)
  | VJLoadConfiguration format action config =>
      VJLoadConfiguration (e_enum JUNOS_LOAD_FORMATS format) (e_enum [s_set] action) (e_jcfg config)
  | VJCompareConfiguration _ _ => VJCompareConfiguration [] []
  | VJExecuteRpc rpc => VJExecuteRpc (e_doc rpc)
  | VJReboot => VJReboot
  | VJHalt => VJHalt
  | VJCommit confirmed timeout comment sync at_time check =>
      VJCommit confirmed (e_timeout timeout) (e_ostr comment) sync (e_ostr at_time) check
  | VJRollback _ => VJRollback []
  | VSMdCliRawCommand command => VSMdCliRawCommand (e_ostr command)
  | VSCommit confirmed timeout persist pid comment nonblank =>
      VSCommit confirmed (e_ostr timeout) (e_ostr persist) (e_ne pid) (e_ne comment) nonblank
  | VAShowCli command => VAShowCli (e_ostr command)
  | VAGetConfiguration content filter detail =>
      VAGetConfiguration (e_enum ALU_SELECTORS content) (match filter with Some f => Some (e_af f) | None => None end) detail
  | VALoadConfiguration format dop target config =>
      VALoadConfiguration (e_enum ALU_SELECTORS format) (e_ostr dop) (e_ds target) (e_oelarg config)
  | VHGetBulk f => VHGetBulk (e_ofilt f)
  | VHGetBulkConfig src f => VHGetBulkConfig (e_ds src) (e_ofilt f)
  | VHCli x => VHCli (e_doc x)
  | VHAction x => VHAction (e_doc x)
  | VHSave f => VHSave (e_ostr f)
  | VHLoad f => VHLoad (e_ostr f)
  | VHRollback f => VHRollback (e_ostr f)
  | VPDisplayCommand _ => VPDisplayCommand (CmStr [])
  | VPConfigCommand _ => VPConfigCommand (CmStr [])
  | VPAction x => VPAction (e_doc x)
  | VPSave f => VPSave (e_ostr f)
  | VPRollback f => VPRollback (e_ostr f)
  | VWCli x => VWCli (e_doc x)
  | VWAction x => VWAction (e_doc x)
  | VXSaveConfig => VXSaveConfig
  | VNExecCommand _ => VNExecCommand []
  end.

(* ---------------- templates ---------------- *)
Definition otextT (o : option bytes) : T := whenT (is_some o) textT.              (* `.text = o`, None leaves it empty *)
Definition tleafT (q : qname) (o : option bytes) : T := elT q [] (otextT o).
Definition docT (x : docarg) : T := match x with DocTree _ => fragT XId | DocBad _ => noneT end.

Definition vtemplateT (c : vcall) : T :=
  match c with
  | VJCommand command _ => elT (b_ s_command) [(a_ s_format, None)] (otextT command)
  | VJGetConfiguration _ filter =>
      elT (b_ s_get_configuration) [(a_ s_format, None)] (match filter with Some (EElem _) => fragT XId | _ => noneT end)
  | VJLoadConfiguration format action _ =>
      let is_set := beq action s_set in
      let f := if is_set then s_text else format in
      elT (b_ s_load_configuration) [(a_ s_action, None); (a_ s_format, if is_set then Some s_text else None)]
          (if beq f s_xml then elT (b_ s_configuration) [] (fragT XId)
           else if beq f s_json then elT (b_ s_configuration_json) [] textT
           else if is_set then elT (b_ s_configuration_set) [] textT
           else elT (b_ s_configuration_text) [] textT)
  | VJCompareConfiguration _ _ =>
      elT (b_ s_get_configuration) [(a_ s_compare, Some s_rollback); (a_ s_format, None); (a_ s_rollback, None)] noneT
  | VJExecuteRpc rpc => docT rpc                                            (* the caller's element is the operation *)
  | VJReboot => flagT (b_ s_request_reboot)
  | VJHalt => flagT (b_ s_request_halt)
  | VJCommit confirmed timeout comment sync at_time check =>
      elT (a_ s_commit_configuration) []
          ((if confirmed
            then flagT (a_ s_confirmed) +++ match timeout with TInt _ => leafT (a_ s_confirm_timeout) | _ => noneT end
            else oleafT (a_ s_at_time) at_time)
           +++ oleafT (a_ s_log) comment +++ whenT sync (flagT (a_ s_synchronize)) +++ whenT check (flagT (a_ s_check)))
  | VJRollback _ => elT (b_ s_load_configuration) [(a_ s_rollback, None)] noneT
  | VSMdCliRawCommand command =>
      elT (b_ s_action) [(a_ s_xmlns, Some NS_YANG)]
          (elT (b_ s_global_operations) [(a_ s_xmlns, Some NS_SROS_OPS)]
               (elT (b_ s_md_cli_raw_command) [] (tleafT (b_ s_md_cli_input_line) command)))
  | VSCommit confirmed timeout persist pid comment nonblank =>
      elT (b_ s_commit) []
          (whenT (nonempty comment && nonblank) (elT (b_ s_comment) [(a_ s_xmlns, Some NS_SROS_AUG)] textT)
           +++ whenT confirmed (flagT (b_ s_confirmed) +++ oleafT (b_ s_confirm_timeout) timeout +++ oleafT (b_ s_persist) persist)
           +++ whenT (nonempty pid) (leafT (b_ s_persist_id)))
  | VAShowCli command =>
      elT (b_ s_get) [] (elT (b_ s_filter) [] (elT (b_ s_oper_cli_block) [] (tleafT (b_ s_cli_show) command)))
  | VAGetConfiguration content filter detail =>
      elT (b_ s_get_config) []
          (elT (b_ s_source) [] (flagT (b_ s_running))
           +++ match filter with
               | None => noneT
               | Some fl =>
                   if beq content s_xml then
                     match fl with AFDoc x => elT (b_ s_filter) [(a_ s_type, Some s_subtree)] (docT x) | AFItems _ => noneT end
                   else if beq content s_cli then
                     elT (b_ s_filter) []
                         (elT (b_ s_config_cli_block) []
                              (match fl with
                               | AFItems _ => leavesT (b_ (if detail then s_cli_info_detail else s_cli_info))
                               | AFDoc _ => noneT
                               end))
                   else noneT
               end)
  | VALoadConfiguration format dop target config =>
      elT (b_ s_edit_config) []
          (match config with
           | None => oleafT (b_ s_default_operation) dop
           | Some x =>
               if beq format s_xml then
                 dsT s_target target +++ oleafT (b_ s_default_operation) dop +++ elT (b_ s_config) [] (fragT XId)
               else if beq format s_cli then
                 dsT s_target target +++ oleafT (b_ s_default_operation) dop
                 +++ elT (b_ s_config) [] (elT (b_ s_config_cli_block) [] textT)
               else oleafT (b_ s_default_operation) dop +++ flagT (b_ s_config)
           end)
  | VHGetBulk f => elT (b_ s_get_bulk) [] (filtT (b_ s_filter) XId f)
  | VHGetBulkConfig src f => elT (b_ s_get_bulk_config) [] (dsT s_source src +++ filtT (b_ s_filter) XId f)
  | VHCli x => elT (b_ s_CLI) [] (docT x)
  | VHAction x | VPAction x => elT (b_ s_action) [] (docT x)
  | VHSave f | VPSave f => elT (b_ s_save) [] (tleafT (b_ s_file) f)
  | VHLoad f => elT (b_ s_load) [] (tleafT (b_ s_file) f)
  | VHRollback f | VPRollback f => elT (b_ s_rollback) [] (tleafT (b_ s_file) f)
  | VPDisplayCommand _ => elT (b_ s_CLI) [] (leafT (b_ s_Execution))
  | VPConfigCommand _ => elT (b_ s_CLI) [] (leafT (b_ s_Configuration))
  | VWCli x => elT (b_ s_execute_cli) [(a_ s_xmlns, Some NS_HW)] (docT x)
  | VWAction x => elT (b_ s_execute_action) [(a_ s_xmlns, Some NS_HW)] (docT x)
  | VXSaveConfig => flagT (qn NS_CISCO_IA s_save_config)
  | VNExecCommand _ => elT (qn NS_NXOS s_exec_command) [] (leavesT (qn NS_NXOS s_cmd))
  end.

Definition vtemplate (c : vcall) : tpl := the_tpl (vtemplateT c).

Definition vcarried (c : vcall) (op : tree) : Prop :=
  fill (vvalues c) (vtemplate (verase c)) = [op]
  /\ holes (vtemplate (verase c)) = seq 0 (length (vvalues c)).
