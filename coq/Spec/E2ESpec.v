(* E2ESpec.v — vocabulary of the end-to-end statements (Props/E2E.v): what a STREAM of octets means
   for a session, independently of how it is cut into reads.
   [stream_events b11 bs] = the events of the byte-at-a-time reference automaton of the session's base
   (Spec/RefFraming.v: ref10 / ref11) on the whole stream: one [Deliver m] per well-framed message, in
   order, then possibly one [Raise] (framing broken / frame not UTF-8) after which nothing follows. *)
From NC Require Import Model.Base Model.Utf8 Model.Framing10 Model.Framing11 Model.SessionLTS Spec.RefFraming.

Definition stream_events (b11 : bool) (bs : bytes) : list pevent :=
  if b11 then snd (ref11 rinit11 bs) else snd (ref10 rinit10 bs).

(* the notifications among a label sequence, in order *)
Definition notif_of (l : label) : list N :=
  match l with LRecv k n => if k =? 2 then [n] else [] | _ => [] end.
Definition notif_args (ls : list label) : list N := flat_map notif_of ls.

(* the worker has left its loop for good: an exception is propagating, or it is on the error path, closed, exited *)
Definition left_loop (p : wpc) : bool :=
  match p with
  | WRaise _ | WErrSnap _ | WErrClear _ _ | WErrDeliver _ _ | WClosed | WExited => true
  | _ => false
  end.
