(* RefFraming.v — the specification of inbound framing: two automata that consume the stream
   ONE OCTET AT A TIME ([run_bytes step] is a left fold), hence independent of how the stream
   was cut into reads by construction, and the encoders whose output they decode.

   ref10 (RFC 4742): accumulate; as soon as the accumulator contains "]]>]]>" (it then ends
     with it) emit  strip (decode_strict (what precedes it))  and restart.
   ref11 (RFC 6242, with the leniency of the code: any digit string is a chunk size):
     header states \n, \n#, \n#<digits>, \n## / body with k octets left / dead;
     the octets of the chunks are accumulated and  decode_strict  of them is emitted at \n##\n;
     any octet that cannot continue a header is a framing error.
   An undecodable frame or a framing error is [Raise] and the automaton is dead afterwards. *)
From NC Require Import Model.Base Model.Utf8 Model.Framing10 Model.Framing11.

Fixpoint run_bytes {S} (step : S -> byte -> S * list pevent) (s : S) (l : bytes) : S * list pevent :=
  match l with
  | [] => (s, [])
  | x :: l' => let '(s1, e1) := step s x in
               let '(s2, e2) := run_bytes step s1 l' in (s2, e1 ++ e2)
  end.

(* ---------------- 1.0 ---------------- *)
Record r10 := { acc10 : bytes; rdead10 : bool }.
Definition rinit10 : r10 := {| acc10 := []; rdead10 := false |}.

Definition ref10_step (s : r10) (x : N) : r10 * list pevent :=
  if rdead10 s then (s, [])
  else let a := acc10 s ++ [x] in
       match find_sub delim10 a with
       | Some (m, _) =>
           match decode_strict m with
           | Some t => ({| acc10 := []; rdead10 := false |}, [Deliver (strip t)])
           | None => ({| acc10 := a; rdead10 := true |}, [Raise K_UNICODE])
           end
       | None => ({| acc10 := a; rdead10 := false |}, [])
       end.
Definition ref10 : r10 -> bytes -> r10 * list pevent := run_bytes ref10_step.

(* ---------------- 1.1 ---------------- *)
Inductive h11 : Type :=
| H0                   (* expecting \n *)
| H1                   (* \n      seen *)
| H2                   (* \n#     seen *)
| HD (n : N)           (* \n#<digits> seen, value n *)
| HE                   (* \n##    seen *)
| Body (k : N)         (* inside a chunk, k >= 1 octets to go *)
| Dead.

Record r11 := { hs : h11; msg11 : bytes }.
Definition rinit11 : r11 := {| hs := H0; msg11 := [] |}.
Definition dead_r11 (s : r11) : bool := match hs s with Dead => true | _ => false end.

Definition ref11_step (s : r11) (x : N) : r11 * list pevent :=
  let m := msg11 s in
  let err := ({| hs := Dead; msg11 := m |}, [Raise K_FRAMING]) in
  match hs s with
  | Dead => (s, [])
  | H0 => if x =? LF then ({| hs := H1; msg11 := m |}, []) else err
  | H1 => if x =? HASH then ({| hs := H2; msg11 := m |}, []) else err
  | H2 => if x =? HASH then ({| hs := HE; msg11 := m |}, [])
          else if is_digit x then ({| hs := HD (digit_step 0 x); msg11 := m |}, [])
          else err
  | HD n => if is_digit x then ({| hs := HD (digit_step n x); msg11 := m |}, [])
            else if x =? LF then ({| hs := if n =? 0 then H0 else Body n; msg11 := m |}, [])
            else err
  | HE => if x =? LF then
            match decode_strict m with
            | Some t => ({| hs := H0; msg11 := [] |}, [Deliver t])
            | None => ({| hs := Dead; msg11 := m |}, [Raise K_UNICODE])
            end
          else err
  | Body k => ({| hs := if k <=? 1 then H0 else Body (k - 1); msg11 := m ++ [x] |}, [])
  end.
Definition ref11 : r11 -> bytes -> r11 * list pevent := run_bytes ref11_step.

(* the messages among the events *)
Fixpoint deliveries (evs : list pevent) : list bytes :=
  match evs with
  | [] => []
  | Deliver m :: r => m :: deliveries r
  | Raise _ :: r => deliveries r
  end.
Definition raised (evs : list pevent) : bool :=
  existsb (fun e => match e with Raise _ => true | _ => false end) evs.

(* ---------------- encoders ---------------- *)
(* 1.0: each message followed by the end-of-message delimiter *)
Definition enc10 (msgs : list bytes) : bytes := concat (map (fun m => m ++ delim10) msgs).

(* decimal numeral of n (the %i of start_delim) *)
Fixpoint to_dec_f (fuel : nat) (n : N) (acc : bytes) : bytes :=
  match fuel with
  | O => acc
  | S f => let d := 48 + n mod 10 in
           let q := n / 10 in
           if q =? 0 then d :: acc else to_dec_f f q (d :: acc)
  end.
Definition to_dec (n : N) : bytes := to_dec_f (S (N.to_nat (N.size n))) n [].

(* 1.1: a message is given WITH its chunking, i.e. as the list of its (non-empty) chunks;
   "every chunking of m" = every [cs] with [concat cs = m] and no empty chunk. *)
Definition enc_chunk (c : bytes) : bytes := [LF; HASH] ++ to_dec (N.of_nat (length c)) ++ [LF] ++ c.
Definition end11 : bytes := [LF; HASH; HASH; LF].
Definition enc_msg11 (cs : list bytes) : bytes := concat (map enc_chunk cs) ++ end11.
Definition enc11 (css : list (list bytes)) : bytes := concat (map enc_msg11 css).
