(* XmlHelpersSpec.v — the short specifications the C17 theorems are stated against. *)
From NC Require Import Model.Base Model.XTree Model.XmlHelpers.

(* ---------- to_xml: exactly one declaration ---------- *)
(* an element (or comment) start: '<' followed by anything but '?' *)
Definition starts_elem (body : bytes) : Prop := exists c r, body = 60 :: c :: r /\ c <> 63.

(* one XML declaration: "<?xml" SP ... "?>" white-space*, with no "?>" inside *)
Definition decl_shape (d : bytes) : Prop :=
  exists mid ws, d = XML_PFX ++ 32 :: mid ++ Q_GT ++ ws /\ contains mid Q_GT = false /\ forallb is_ws ws = true.

(* stated shape of the serialiser's answer: the element text, possibly preceded by its own
   declaration and a line feed *)
Definition ser_shape (ser body : bytes) : Prop :=
  starts_elem body /\
  (ser = body \/ exists mid, ser = XML_PFX ++ 32 :: mid ++ Q_GT ++ [10] ++ body /\ contains mid Q_GT = false).

Definition enc_ok (enc : bytes) : Prop := forallb (fun c => negb (N.eqb c 63)) enc = true.

(* ---------- validated_element ---------- *)
Definition validated_spec (tags : tagsarg) (attrs : list req) (root : name) (ks : list name) : Prop :=
  (tags_list tags = [] \/ In (clark root) (tags_list tags)) /\
  (forall r, In r attrs -> exists a n, In a (alts_of r) /\ parse_clark a = Some n /\ In n ks).

Definition alts_wellformed (attrs : list req) : Prop :=
  forall r a, In r attrs -> In a (alts_of r) -> parse_clark a <> None.

(* ---------- parse_root ---------- *)
Fixpoint prolog_ok (evs : list event) : bool :=
  match evs with
  | [] => true
  | EvComment _ :: r | EvPI _ _ :: r => prolog_ok r
  | EvText s :: r => blank s && prolog_ok r
  | _ => false
  end.

(* ---------- replace_namespace: the exact renaming ---------- *)
Definition in_ns (o : ns) (x : attr) : bool := ns_eqb (fst (fst x)) o.
Definition ren_attr (n : ns) (x : attr) : attr := ((n, snd (fst x)), snd x).

(* attributes outside the old namespace keep name, value and relative order; those of the
   old namespace follow, renamed, in their relative order *)
Definition xrename_attrs (o n : ns) (a : list attr) : list attr :=
  filter (fun x => negb (in_ns o x)) a ++ map (ren_attr n) (filter (in_ns o) a).

Fixpoint xrename (o n : ns) (t : xnode) : xnode :=
  match t with
  | Elem x a k => Elem (rn o n x) (xrename_attrs o n a) (map (xrename o n) k)
  | other => other
  end.

(* no attribute of the old namespace is renamed onto an attribute that stays *)
Definition no_collision (o n : ns) (a : list attr) : Prop :=
  forall l, In (o, l) (keys a) -> ~ In (n, l) (keys (filter (fun x => negb (in_ns o x)) a)).

Fixpoint attrs_ok (o n : ns) (t : xnode) : Prop :=
  match t with
  | Elem _ a k =>
      NoDup (keys a) /\ no_collision o n a /\
      (fix all (l : list xnode) : Prop := match l with [] => True | c :: l' => attrs_ok o n c /\ all l' end) k
  | _ => True
  end.

(* ---------- constructors on the resolved view ---------- *)
(* sub_ele: the new last child is in the parent's (resolved) namespace *)
Definition x_sub_ele (tag : bytes) (a : list attr) (p : xnode) : option xnode :=
  match p with
  | Elem n atts k => Some (Elem n atts (k ++ [Elem (fst n, tag) (attrs_of_dict a []) []]))
  | _ => None
  end.

(* sub_ele_ns with an explicit namespace *)
Definition x_sub_ele_ns (tag : bytes) (u : bytes) (a : list attr) (p : xnode) : option xnode :=
  match p with
  | Elem n atts k => Some (Elem n atts (k ++ [Elem (Some u, tag) (attrs_of_dict a []) []]))
  | _ => None
  end.
