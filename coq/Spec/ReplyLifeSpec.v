(* ReplyLifeSpec.v — vocabulary for the C10 theorems over histories (Model/ReplyLife.v). *)
From NC Require Import Model.Base Model.XTree Model.XmlHelpers Model.NsStrip Model.ReplyView Model.ReplyLife.

Definition calls (id : N) (e : event) : bool := match e with ECall i _ _ => N.eqb i id | _ => false end.
Definition delivers (id : N) (e : event) : bool := match e with EDeliver i _ => N.eqb i id | _ => false end.
Definition sets (id : N) (e : event) : bool := match e with ESetRpcHuge i _ => N.eqb i id | _ => false end.

Definition none_of (p : event -> bool) (h : list event) : Prop := forall e, In e h -> p e = false.

(* the Manager's huge_tree setting after a history that started with b *)
Fixpoint mgr_huge_after (b : bool) (h : list event) : bool :=
  match h with
  | [] => b
  | ESetMgrHuge x :: t => mgr_huge_after x t
  | _ :: t => mgr_huge_after b t
  end.

(* the caller's own writes to rpc.huge_tree of the object with this id: the last one wins *)
Fixpoint rpc_huge_after (id : N) (b : bool) (h : list event) : bool :=
  match h with
  | [] => b
  | ESetRpcHuge i x :: t => if N.eqb i id then rpc_huge_after id x t else rpc_huge_after id b t
  | _ :: t => rpc_huge_after id b t
  end.
