(* RpcErrorsSpec.v — the short specification C06 is stated against (read this, not the model).

   Property C06: "For any reply, `ok` is true iff it contains no rpc-error, and its error list
   mirrors each rpc-error's type, tag, severity, app-tag, path, message and info, in order.  A
   synchronous call raises RPCError iff the raise mode is ALL and there is an error, or the mode is
   ERRORS and some error has severity 'error' - unless the error message matches an exempt pattern
   of the device profile or the user (case-insensitive, '*' wildcard at either end) - and never
   under NONE; an exception aggregating several errors carries all of them and has severity 'error'
   iff at least one constituent does."

   What the sentence leaves open and how it is read here (as the code does):
   * "the error message" of a reply with several errors is the FIRST error's message;
   * an rpc-error without error-message is matched as the text "no error given";
   * the message is compared after lower-casing and stripping white space; a pattern is lower-cased;
   * "case-insensitive" is ASCII case folding (Model.RpcErrors.lower; octets >= 0x80 are outside
     the modelled domain of str.lower()/str.strip()). *)
From NC Require Import Model.Base Model.Lit Model.RpcErrors.

(* ---- the rpc-errors a reply contains: elements named {base}rpc-error below the root, document order ---- *)
Fixpoint errs_in (n : node) : list node :=
  match n with
  | Elem t _ _ _ ks => (if beq t q_rpc_error then [n] else []) ++ flat_map errs_in ks
  end.
Definition reply_rpc_errors (root : node) : list node := flat_map errs_in (kids_of root).

Definition has_ok_child (root : node) : bool := existsb (named q_ok) (kids_of root).

(* ---- what "mirrors" means: each field is the content of the LAST child of that name ---- *)
Definition last_child (t : bytes) (raw : node) : option node :=
  match rev (filter (named t) (kids_of raw)) with c :: _ => Some c | [] => None end.
Definition field_text (t : bytes) (raw : node) : option bytes :=
  match last_child t raw with Some c => text_of c | None => None end.
Definition mirror (raw : node) : rpc_error :=
  mkErr (field_text q_error_type raw) (field_text q_error_tag raw) (field_text q_error_app_tag raw)
        (field_text q_error_severity raw)
        (match last_child q_error_info raw with Some c => Some (ser_of c) | None => None end)   (* info = the element, serialised *)
        (field_text q_error_path raw) (field_text q_error_message raw).

(* ---- exempt patterns: '*' wildcard at either end ---- *)
Definition strip_lead (p : bytes) : bool * bytes :=
  match p with c :: r => if N.eqb c STAR then (true, r) else (false, p) | [] => (false, p) end.
Definition strip_trail (p : bytes) : bool * bytes :=
  match rev p with c :: r => if N.eqb c STAR then (true, rev r) else (false, p) | [] => (false, p) end.

(* [matches p t]: the (normalised) message text t matches pattern p: a leading '*' of the pattern
   stands for any prefix, a trailing '*' of what remains for any suffix, the rest is literal
   (compared after lower-casing the pattern).  So "*" and "**" match everything, "" only the empty
   message, and a '*' anywhere else is a literal character. *)
Definition matches (p t : bytes) : Prop :=
  let (lead, r) := strip_lead (lower p) in
  let (trail, core) := strip_trail r in
  exists a b, t = a ++ core ++ b /\ (lead = false -> a = []) /\ (trail = false -> b = []).

(* the same, executable *)
Definition matchesb (p t : bytes) : bool :=
  let (lead, r) := strip_lead (lower p) in
  let (trail, core) := strip_trail r in
  match lead, trail with
  | true, true => contains t core
  | true, false => endswith t core
  | false, true => startswith t core
  | false, false => beq t core
  end.

(* the message text patterns are matched against: lower-cased, stripped; "no error given" if absent *)
Definition normalised (m : option bytes) : bytes := error_text m.

Definition is_exempt (pats : list bytes) (m : option bytes) : Prop :=
  exists p, In p pats /\ matches p (normalised m).

(* ---- the property sentence: does a synchronous call raise? ---- *)
Definition has_severity_error (e : rpc_error) : bool :=
  match e_severity e with Some s => beq s s_error | None => false end.

Definition should_raise (mode : N) (errors : list rpc_error) (pats : list bytes) : bool :=
  match errors with
  | [] => false                                                        (* there is an error ... *)
  | first :: _ =>
      (N.eqb mode MODE_ALL                                             (* mode ALL, or *)
       || (N.eqb mode MODE_ERRORS && existsb has_severity_error errors))   (* ERRORS and some error has severity 'error' *)
      && negb (existsb (fun p => matchesb p (normalised (e_message first))) pats)   (* unless exempt *)
  end.

Definition raises (o : outcome) : bool := match o with Return => false | _ => true end.
