(* WireSpec.v — what a strict receiver makes of a COMPLETE client byte stream.
   Written from the RFCs, independently of Model/Writer.v (it only shares the two delimiter
   constants' values, restated here).

   RFC 6242 section 4.2 (chunked framing):
        Chunked-Message = 1*chunk end-of-chunks
        chunk           = LF HASH chunk-size LF chunk-data
        chunk-size      = [1-9] *DIGIT          ; no leading zero, value 1 .. 4294967295
        chunk-data      = 1*OCTET               ; exactly chunk-size octets
        end-of-chunks   = LF HASH HASH LF
   RFC 4742 section 3.1 (end-of-message framing): every message is followed by "]]>]]>";
   the receiver cuts the stream at each first occurrence of that sequence.

   Both decoders return None for a stream that is not a sequence of complete frames. *)
From NC Require Import Model.Base.

Definition cLF : N := 10%N.
Definition cHASH : N := 35%N.
Definition EOM : bytes := [93; 93; 62; 93; 93; 62]%N.            (* ]]>]]> *)
Definition END_OF_CHUNKS : bytes := [cLF; cHASH; cHASH; cLF].
Definition CHUNK_START : bytes := [cLF; cHASH].
Definition CHUNK_MAX : N := 4294967295%N.

Definition is_digit (c : N) : bool := (48 <=? c) && (c <=? 57).

(* longest prefix of digits *)
Fixpoint span_digits (s : bytes) : bytes * bytes :=
  match s with
  | c :: s' => if is_digit c then let '(d, r) := span_digits s' in (c :: d, r) else ([], s)
  | [] => ([], [])
  end.

Definition digits_value (ds : bytes) : N := fold_left (fun a c => 10 * a + (c - 48)) ds 0.

(* chunk-size LF *)
Definition read_size (s : bytes) : option (N * bytes) :=
  let '(ds, r) := span_digits s in
  match ds, r with
  | d :: _, c :: r' =>
      if (d =? 48) || negb (c =? cLF) then None
      else let n := digits_value ds in
           if n <=? CHUNK_MAX then Some (n, r') else None
  | _, _ => None
  end.

(* exactly n octets *)
Definition take (n : N) (s : bytes) : option (bytes * bytes) :=
  if n <=? N.of_nat (length s) then Some (firstn (N.to_nat n) s, skipn (N.to_nat n) s) else None.

(* one Chunked-Message; [got] = at least one chunk seen; fuel bounds the number of chunks *)
Fixpoint chunked_message (fuel : nat) (s acc : bytes) (got : bool) : option (bytes * bytes) :=
  match fuel with
  | O => None
  | S f =>
      if startswith s END_OF_CHUNKS then (if got then Some (acc, skipn 4 s) else None)
      else if startswith s CHUNK_START then
        match read_size (skipn 2 s) with
        | Some (n, r1) =>
            match take n r1 with
            | Some (d, r2) => chunked_message f r2 (acc ++ d) true
            | None => None
            end
        | None => None
        end
      else None
  end.

Fixpoint decode11_fuel (fuel : nat) (s : bytes) : option (list bytes) :=
  match s with
  | [] => Some []
  | _ :: _ =>
      match fuel with
      | O => None
      | S f =>
          match chunked_message (length s) s [] false with
          | Some (m, r) => match decode11_fuel f r with Some l => Some (m :: l) | None => None end
          | None => None
          end
      end
  end.
(* every message consumes at least 8 octets and every chunk at least 5, so |s| is enough fuel *)
Definition decode11 (s : bytes) : option (list bytes) := decode11_fuel (length s) s.

Fixpoint decode10_fuel (fuel : nat) (s : bytes) : option (list bytes) :=
  match s with
  | [] => Some []
  | _ :: _ =>
      match fuel with
      | O => None
      | S f =>
          match find_sub EOM s with
          | Some (m, r) => match decode10_fuel f r with Some l => Some (m :: l) | None => None end
          | None => None                       (* trailing octets without a delimiter *)
          end
      end
  end.
Definition decode10 (s : bytes) : option (list bytes) := decode10_fuel (length s) s.

(* The guard of the 1.0 round trip, stated on the message alone: the first place where the
   delimiter occurs in  m ++ "]]>]]>"  is the appended one (m neither contains "]]>]]>"
   nor ends in a proper prefix of it that the delimiter completes, i.e. in "]]>"). *)
Definition eom_safe (m : bytes) : Prop := find_sub EOM (m ++ EOM) = Some (m, []).

(* prefix relations used by the wire theorems *)
Definition prefix_of (p l : bytes) : Prop := exists r, l = p ++ r.
Definition strict_prefix_of (p l : bytes) : Prop := exists r, r <> [] /\ l = p ++ r.
