(* ProjectionW.v — the one-level wrapper replies of C18:
     <rpc-reply message-id=..> <w ..> <root>..</root> <root>..</root> <other/> </w> .. </rpc-reply>
   with filter root [ftag f] and a first child element w of the reply that is NOT the filter root
   (e.g. <data><configuration>..</configuration></data> with filter root configuration).
   The handler (Model/SaxFilter.start, branch "validate and tag <> root tag") writes the wrapper's start
   tag without its attributes, makes the wrapper a new top node FN w [f] of the filter, and puts w on the
   default tags, so that inside and after the wrapper the default tags are [top; w] (the filter root is
   not a default tag on this path) and the handler state after </w> is the state inside the wrapper.

   [project_w f doc]: the reply keeps its attributes and its (blank) text before the wrapper; the wrapper
   is kept without attributes and stands for the filter node FN w [f]; its children named like the filter
   root are projected along f ([Projection.proj]), its other child elements are dropped; the siblings
   after the wrapper are projected as the reply's children are by [Projection.project] (those named like
   the filter root are kept and projected along f, the others are dropped). *)
From NC Require Import Model.Base Model.SaxFilter Spec.Projection.

Definition xkids (t : xt) : list xt := match t with T _ => [] | E _ _ ks => ks end.

(* children of the reply: text before the wrapper, the wrapper (first child element), what follows it *)
Fixpoint pw_kids (top : bytes) (f : ftree) (ks : list xt) : list xt :=
  match ks with
  | [] => []
  | T c :: l => T c :: pw_kids top f l
  | E w _ wks :: l => proj (E w [] wks) (FN w [f]) :: xkids (proj (E top [] l) (FN top [f]))
  end.

Definition project_w (f : ftree) (doc : xt) : xt :=
  match doc with
  | T c => T c
  | E top a ks => E top a (pw_kids top f ks)
  end.

(* ---- the class ---- *)
(* the children of the wrapper w, and likewise the siblings that follow the wrapper (the handler is in the
   same state in both places): blank text; elements named like the filter root, whose content is in the class
   of kept elements (Projection.WFks) for the default tags [top; w]; other elements, which are skipped:
   unprefixed, not named like the wrapper, the reply or a reply tag, and nothing in them is named like
   themselves, the wrapper, the reply or a reply tag. *)
Inductive WFwk (top w : bytes) (f : ftree) : list xt -> Prop :=
| WFwk_nil : WFwk top w f []
| WFwk_T : forall c l, is_blank c = true -> WFwk top w f l -> WFwk top w f (T c :: l)
| WFwk_root : forall a ks l,
    has_colon (ftag f) = false ->
    WFks [top; w] f false ks ->
    WFwk top w f l -> WFwk top w f (E (ftag f) a ks :: l)
| WFwk_other : forall m a ks l,
    kid_ok [top; w] (FN w [f]) m -> beq (ftag f) m = false ->
    Forall (fun k => names_avoid (clash m w [top; w]) k = true) ks ->
    WFwk top w f l -> WFwk top w f (E m a ks :: l).

(* children of the reply element: blank text, then the wrapper: unprefixed, not the filter root, not a reply tag *)
Inductive WFwtop (top : bytes) (f : ftree) : list xt -> Prop :=
| WFwtop_T : forall c l, is_blank c = true -> WFwtop top f l -> WFwtop top f (T c :: l)
| WFwtop_wrap : forall w wa wks l,
    beq w (ftag f) = false -> has_colon w = false -> is_reply w = false ->
    WFwk top w f wks -> WFwk top w f l -> WFwtop top f (E w wa wks :: l).

Record wf_reply_w (e : env) (f : ftree) (doc : xt) : Prop := {
  wfw_shape : exists top a ks id,
      doc = E top a ks /\ is_reply top = true /\
      dict_get s_msgid a = Some id /\ has_listener e = true /\ dict_get id (table e) = Some (Some f) /\
      WFwtop top f ks;
  wfw_root_not_reply : is_reply (ftag f) = false;
  wfw_no_reply_child : find_f s_reply (fkids f) = None /\ find_f (s_base_clark ++ s_reply) (fkids f) = None
}.
