(* CapsSpec.v — the short specification C08 is stated against (read this, not the model).
   A URI (query string removed) is an IETF capability URI with name N and version V iff
   its ':'-segments begin  urn:ietf:params:netconf:capability:N:V  or
   urn:ietf:params:xml:ns:netconf:capability:N:V ; an IETF base URI with version V iff they
   begin  …:netconf:base:V  in either form. *)
From NC Require Import Model.Base Model.Lit Model.Caps.

Definition ietf_prefix (p : list bytes) : Prop := p = prefix_a \/ p = prefix_b.

(* shorthand forms of the namespace part [ns] (no query string) *)
Inductive shorthand (ns : bytes) : bytes -> Prop :=
| sh_cap_name p name version rest :
    ietf_prefix p -> split_on COLON ns = p ++ s_capability :: name :: version :: rest ->
    shorthand ns (COLON :: name)
| sh_cap_full p name version rest :
    ietf_prefix p -> split_on COLON ns = p ++ s_capability :: name :: version :: rest ->
    shorthand ns (COLON :: name ++ COLON :: version)
| sh_base p v rest :
    ietf_prefix p -> split_on COLON ns = p ++ s_base :: v :: rest ->
    shorthand ns (COLON :: s_base)
| sh_base_full p v rest :
    ietf_prefix p -> split_on COLON ns = p ++ s_base :: v :: rest ->
    shorthand ns (COLON :: s_base ++ COLON :: v).

(* part of a URI before the first '?' *)
Definition ns_part (uri : bytes) : bytes := hd [] (split_on QMARK uri).

(* first advertised URI (in advertisement order, duplicates collapsed to the first
   position) one of whose shorthands is [key] *)
Inductive first_shorthand (key : bytes) : list bytes -> bytes -> Prop :=
| fs_here u us : shorthand (ns_part u) key -> first_shorthand key (u :: us) u
| fs_later u us w : ~ shorthand (ns_part u) key -> first_shorthand key us w ->
                    first_shorthand key (u :: us) w.

(* the last-wins map of the well-formed k=v pairs of a parameter string *)
Fixpoint last_wins (k : bytes) (pairs : list (bytes * bytes)) : option bytes :=
  match pairs with
  | [] => None
  | (k', v) :: ps => match last_wins k ps with
                     | Some v' => Some v'
                     | None => if beq k k' then Some v else None
                     end
  end.

Fixpoint valid_pairs (ps : list bytes) : list (bytes * bytes) :=
  match ps with
  | [] => []
  | p :: ps' => match split_on EQ p with
                | [k; v] => (k, v) :: valid_pairs ps'
                | _ => valid_pairs ps'
                end
  end.
