(* GatingSpec.v — what C09 is stated against (read this, not the model).
   (1) when a capability counts as advertised (C08's lookup specification, both URN forms);
   (2) the table "documented dependency -> capability" per call and argument;
   (3) which calls are well formed (no local failure other than a capability check);
   (4) the with-defaults modes a server advertises (RFC 6243 section 4.3). *)
From Coq Require Import String.
From NC Require Import Model.Base Model.Lit Model.Caps Model.Xml Model.Gating Spec.CapsSpec.

(* (1) [k] is a full URI the server sent, or a shorthand (:name, :name:version, :base, …) of an
   IETF capability URI it sent — urn:ietf:params:netconf:… or urn:ietf:params:xml:ns:netconf:… *)
Definition advertised (uris : list bytes) (k : bytes) : Prop :=
  In k uris \/ exists u, In u uris /\ shorthand (ns_part u) k.

(* (2) documented dependencies *)
Definition url_need (d : dsarg) : list bytes :=          (* a location containing "://" is a URL *)
  match d with
  | DsStr loc _ => if contains loc s_css then [s_k_url] else []
  | DsBad _ => []
  end.
Definition ourl_need (o : option dsarg) : list bytes :=
  match o with None => [] | Some d => url_need d end.
Definition src_need (s : srcarg) : list bytes :=
  match s with SrcDs d => url_need d | SrcInline _ => [] end.
Definition wd_need (wd : option bytes) : list bytes :=
  match wd with None => [] | Some _ => [s_k_wd] end.

Definition needs (c : call) : list bytes :=
  match c with
  | CGet _ wd => wd_need wd
  | CGetConfig src _ wd => url_need src ++ wd_need wd
  | CEditConfig tgt _ top eop fmt _ _ =>
      url_need tgt
      ++ match top with                                   (* test_option needs :validate, *)
         | None => []                                     (* test-only also :validate:1.1 *)
         | Some t => s_k_validate :: (if beq t s_test_only then [s_k_validate11] else [])
         end
      ++ match eop with
         | None => []
         | Some e => if beq e s_rollback_on_error then [s_k_rollback] else []
         end
      ++ (if beq fmt s_f_url then [s_k_url] else [])
  | CDeleteConfig tgt => url_need tgt
  | CCopyConfig tgt src => url_need tgt ++ src_need src
  | CValidate src => s_k_validate :: src_need src
  | CCommit v confirmed _ _ pid _ _ =>                  (* a confirmed commit, and the follow-up of a persistent one *)
      s_k_candidate :: (if confirmed || has_pid v pid then [s_k_confirmed] else [])
  | CCancelCommit _ => [s_k_candidate; s_k_confirmed]
  | CDiscardChanges => [s_k_candidate]
  | CCreateSubscription _ => [s_k_notification]
  | CPoweroff => [s_k_poweroff]
  | CReboot => [s_k_reboot]
  | CDispatch _ src _ => ourl_need src
  | CRpc _ tgt src _ _ => ourl_need tgt ++ ourl_need src
  | CUngated _ => []
  end.

(* (3) no argument is refused locally for a reason other than a capability *)
Definition none {A} (o : option A) : bool := match o with None => true | Some _ => false end.
Definition ds_ok (d : dsarg) : bool := match d with DsStr _ lx => lx | DsBad _ => false end.
Definition ods_ok (o : option dsarg) : bool := match o with None => true | Some d => ds_ok d end.
Definition src_ok (s : srcarg) : bool := match s with SrcDs d => ds_ok d | SrcInline v => none v end.
Definition enum_ok (v : option bytes) (allowed : list bytes) : bool :=
  match v with None => true | Some x => mem_bytes x allowed end.

Definition wellformed (c : call) : bool :=
  match c with
  | CGet flt _ => none flt
  | CGetConfig src flt _ => ds_ok src && none flt
  | CEditConfig tgt dop top eop fmt cfg url_ok =>
      ds_ok tgt && (enum_ok dop DEFAULT_OPS && (enum_ok top TEST_OPTS && (enum_ok eop ERROR_OPTS &&
      (if beq fmt s_f_xml then none cfg
       else if beq fmt s_f_text then none cfg
       else if beq fmt s_f_url then url_ok && none cfg
       else true))))
  | CDeleteConfig tgt => ds_ok tgt
  | CCopyConfig tgt src => ds_ok tgt && src_ok src
  | CValidate src => src_ok src
  | CCommit _ _ _ _ _ pre post => none pre && none post
  | CCancelCommit body => none body
  | CDiscardChanges => true
  | CCreateSubscription body => none body
  | CPoweroff => true
  | CReboot => true
  | CDispatch cmd src flt => none cmd && (ods_ok src && none flt)
  | CRpc cmd tgt src flt cfg => none cmd && (ods_ok tgt && (ods_ok src && (none flt && none cfg)))
  | CUngated body => none body
  end.

(* (4) RFC 6243 4.3: the modes are basic-mode's value and the comma-separated also-supported
   values, read from the last-wins map of the well-formed k=v pairs of the query string *)
Definition spec_modes (pairs : list (bytes * bytes)) : option (list bytes) :=
  match last_wins s_basic_mode pairs with
  | None => None
  | Some b => Some (b :: match last_wins s_also_supported pairs with
                        | None => []
                        | Some a => split_on COMMA a
                        end)
  end.

(* the (normalised) mode is one the looked-up with-defaults capability lists *)
Definition wd_accepts (uris : list bytes) (norm : bytes) : Prop :=
  exists cap ms, getitem (caps_of uris) s_k_wd = Ok cap /\ modes_of cap = Some ms /\ In norm ms.

Fixpoint count_send (tr : list event) : nat :=
  match tr with
  | [] => 0
  | EvSend :: tr' => S (count_send tr')
  | _ :: tr' => count_send tr'
  end.

(* (5) RFC 6241 / 6243 / 5277: the capability a construct of a request depends on —
   8.3 <commit>, <discard-changes> (:candidate); 8.4 <cancel-commit> and the <confirmed>, <confirm-timeout>, <persist>,
   <persist-id> parameters of <commit> (:confirmed-commit, which itself requires :candidate); 8.5 :rollback-on-error;
   8.6 <validate>, <test-option> (:validate; test-only since :validate:1.1); 8.8 <url>; RFC 6243 <with-defaults>;
   RFC 5277 <create-subscription> *)
Definition wire_needs (w : wire) : list bytes :=
  match w with
  | WCommit => [s_k_candidate]
  | WConfirmed | WConfirmTimeout | WPersist | WPersistId => [s_k_confirmed]
  | WCancelCommit => [s_k_candidate; s_k_confirmed]
  | WDiscardChanges => [s_k_candidate]
  | WValidate => [s_k_validate]
  | WTestOption => [s_k_validate]
  | WTestOnly => [s_k_validate11]
  | WRollbackOnError => [s_k_rollback]
  | WUrl => [s_k_url]
  | WWithDefaults => [s_k_wd]
  | WCreateSubscription => [s_k_notification]
  end.
