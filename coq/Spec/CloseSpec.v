(* Spec/CloseSpec.v — what C12 says, in terms of label sequences of Model/Close.v (read this,
   not the model).  A RUN of transport t is any label sequence accepted from [init t]; the
   theorems of Props/C12.v quantify over all runs.

   "close() has returned" is the occurrence of the label [CloseRet Client] in the run
   (close called by a client thread: close_session, Manager.__exit__, the cleanup branch
   of connect_ssh/_tls/_uds, a direct close()).  The close() the worker thread calls on
   itself after an error is [CloseRet Worker] and is not what the property speaks about. *)
From NC Require Import Model.Base Model.Close.

Definition run_of (t : transport) (ls : list label) (s : state) : Prop :=
  accepts (init t) ls = Some s.

Inductive reachable (t : transport) : state -> Prop :=
| reach_init : reachable t (init t)
| reach_step : forall s l s', reachable t s -> step s l = Some s' -> reachable t s'.

Definition closed_returned (ls : list label) : Prop := In (CloseRet Client) ls.

(* the session is released *)
Definition released (s : state) : Prop :=
  connected s = false /\ socket_open s = false /\ not_alive (worker s) = true.

Fixpoint count (p : label -> bool) (ls : list label) : nat :=
  match ls with [] => 0 | l :: ls' => (if p l then 1 else 0) + count p ls' end.

(* worker steps other than dispatching an already-read message *)
Definition is_plain_worker_label (l : label) : bool := is_worker_label l && negb (is_dispatch_label l).

(* every request that was accepted while the worker could still fail it is settled *)
Definition settled (s : state) : Prop :=
  pending s = [] /\ forall r, In r (accepted_early s) -> In r (answered s) \/ In r (failed s).
