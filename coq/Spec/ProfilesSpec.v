(* Spec/ProfilesSpec.v — the short statements C16 is about.
   * a capability list "contains a NETCONF base URI";
   * the subsystem candidates are duplicate-free with the preferred one first;
   * the well-formedness conditions on a profile's literal tables under which the computed
     getters deliver that (checked by computation for every shipped class in
     GenProps/C16_tables.v);
   * isolation: what is observed through one slot (handler + manager + replies) during a
     history equals what is observed when the operations on all other slots are deleted. *)
From NC Require Import Model.Base Model.Lit Model.Profiles.

Definition is_base_uri (u : bytes) : bool := beq u base_1_0 || beq u base_1_1.
Definition has_base (l : list bytes) : bool := existsb is_base_uri l.

Fixpoint nodupb (l : list bytes) : bool :=
  match l with [] => true | x :: l' => negb (mem_bytes x l') && nodupb l' end.

(* Python truthiness of device_params.get("ssh_subsystem_name") *)
Definition preferred_or_default (pref : option bytes) : bytes :=
  match pref with Some (c :: r) => c :: r | _ => s_netconf end.

(* literal side conditions *)
Definition wf_caps (p : profile) : bool :=
  match pr_caps p with
  | CapsLit l => has_base l
  | CapsNexus => has_base (tl (pr_base_caps p))       (* position 0 is overwritten *)
  | CapsBase | CapsHuawei | CapsSros => has_base (pr_base_caps p)
  end.
Definition wf_subsys (p : profile) : bool :=
  match pr_subsys p with
  | SubLit l => nodupb l && match l with x :: _ => beq x s_netconf | [] => false end
  | SubNexus => true
  end.

Definition first_subsystem (p : profile) (dp : dparams) : bytes :=
  match pr_subsys p with SubNexus => preferred_or_default (dp_subsys dp) | SubLit _ => s_netconf end.

(* isolation of slot i in history h, for the world's globals g *)
Definition isolated (leak : bool) (g : globals) (i : N) (h : history) : Prop :=
  observations leak g i h = observations leak g i (restrict i h).
