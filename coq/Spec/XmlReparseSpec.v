(* XmlReparseSpec.v — what ONE parsed tree is, whatever else the process parsed or edited (property C17).
   The life of a tree on its own is a list of [eop]: the text it was parsed from, then the calls that were given
   that tree.  [rown j n ops] reads the life of the j-th tree off a process's calls.  It looks at no other tree. *)
From NC Require Import Model.Base Model.XTree Model.XmlHelpers Model.XmlHistory Model.XmlReparse.

Inductive eop :=
| EParse (huge : bool) (s : bytes)
| EHelper (op : hop)
| ECaller (t' : mnode).

Section WithOracles.
Variable parser : bool -> bytes -> option mnode.
Variable ser : mnode -> bytes -> bytes.

Definition estep (t : option mnode) (op : eop) : option mnode :=
  match op, t with
  | EParse h s, _ => parser h s
  | EHelper o, Some t0 => option_map fst (hstep ser t0 o)
  | ECaller t', Some _ => Some t'
  | _, None => None
  end.

Definition only_when (b : bool) (x : eop) : list eop := if b then [x] else [].

(* the life of tree j; n = number of trees handed out before [ops] *)
Fixpoint rown (j n : nat) (ops : list rop) : list eop :=
  match ops with
  | [] => []
  | op :: r =>
      match op with
      | RParse h s =>
          match parser h s with
          | Some _ => only_when (Nat.eqb n j) (EParse h s) ++ rown j (S n) r
          | None => rown j n r
          end
      | RHelper k o => only_when (Nat.eqb k j) (EHelper o) ++ rown j n r
      | RCaller k t' => only_when (Nat.eqb k j) (ECaller t') ++ rown j n r
      | RRaised _ _ => rown j n r
      end
  end.
End WithOracles.
