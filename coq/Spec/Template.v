(* Template.v — what "the request carries the caller's data, each value exactly once, at its documented
   position, unaltered, and nothing else depends on it" means (property C07).

   A request TEMPLATE is an XML tree with numbered HOLES.  Everything in a template that is not a hole
   is fixed text: element names, namespaces, attribute names, fixed attribute values.  A hole says where
   one caller value goes and in which of the few ways a builder can place a value:
     TText i        string #i is the text of the enclosing element (no text node when it is empty)
     AHole i        string #i is the value of an attribute
     TNamed ns i    string #i is the local name of an (otherwise empty, or builder-filled) element in ns
                    — a datastore is named by an element: <target><running/></target>
     TFrag x i      XML fragment #i stands here as it is (x = XId), with its root renamed (the
                    RFC 5277 subscription filter), or as transform_edit_config of the iosxe profile leaves it
     TFrags i       the fragments of list #i stand here, in order
     TOwn i ks      the caller's own element #i, the builder's children ks appended after its own
     TLeaves q i    every string of list #i is the text of one <q> element, in order
   [fill vs t] instantiates the holes of t with the values vs.  It is parametric in the values: it never
   inspects a string or a fragment (beyond "is this string empty", "is this an element"), copies each
   one verbatim, and — [fill_only_holes] — depends on vs only through the holes of t.
   The carries theorems (Props/C07.v) say: the operation element a builder produces IS
   [fill (values c) (template (erase c))] where [erase c] forgets every caller string and fragment of the
   call c (keeping only which optional arguments are present and the class of a value that decides the
   shape: URL or datastore name, empty or not, member of an enumerated set), and the holes of that template are
   exactly 0, 1, …, n-1 in document order, n the number of values: every value fills exactly one hole,
   every hole is filled by exactly one value, and the rest of the request is the fixed text of a template
   chosen without looking at any value. *)
From Coq Require Import String List Arith.
From NC Require Import Model.Base Model.Lit Model.Xml Model.Gating Model.Builders.
Import ListNotations.

Inductive value : Type :=
| VStr : bytes -> value               (* a string (UTF-8 octets) *)
| VTree : tree -> value               (* an XML document / element *)
| VTrees : list tree -> value         (* a list of documents *)
| VStrs : list bytes -> value.        (* a list of strings *)

Inductive xform : Type := XId | XRename (q : qname) | XIosxe.
Inductive aval : Type := AFix (v : bytes) | AHole (i : nat).

Inductive tpl : Type :=
| TEl (q : qname) (a : list (qname * aval)) (ks : list tpl)
| TText (i : nat)
| TNamed (ns : bytes) (i : nat) (ks : list tpl)
| TFrag (x : xform) (i : nat)
| TFrags (i : nat)
| TOwn (i : nat) (ks : list tpl)
| TLeaves (q : qname) (i : nat).

Definition text_nodes (s : bytes) : list tree := match s with [] => [] | _ => [Text s] end.

Definition apply_x (x : xform) (t : tree) : tree :=
  match x, t with
  | XId, _ => t
  | XRename q, Elem _ a cs => Elem q a cs
  | XIosxe, Elem q a cs => if qname_eqb q (a_ s_config) then Elem (b_ s_config) a cs else t
  | _, Text _ => t
  end.

Definition fill_attr (vs : list value) (kv : qname * aval) : list (qname * bytes) :=
  match snd kv with
  | AFix v => [(fst kv, v)]
  | AHole i => match nth_error vs i with Some (VStr s) => [(fst kv, s)] | _ => [] end
  end.

Fixpoint fill (vs : list value) (t : tpl) : list tree :=
  match t with
  | TEl q a ks => [Elem q (flat_map (fill_attr vs) a) (flat_map (fill vs) ks)]
  | TText i => match nth_error vs i with Some (VStr s) => text_nodes s | _ => [] end
  | TNamed ns i ks =>
      match nth_error vs i with Some (VStr s) => [Elem (qn ns s) [] (flat_map (fill vs) ks)] | _ => [] end
  | TFrag x i => match nth_error vs i with Some (VTree t) => [apply_x x t] | _ => [] end
  | TFrags i => match nth_error vs i with Some (VTrees ts) => ts | _ => [] end
  | TOwn i ks =>
      match nth_error vs i with
      | Some (VTree (Elem q a cs)) => [Elem q a (cs ++ flat_map (fill vs) ks)]
      | _ => []
      end
  | TLeaves q i =>
      match nth_error vs i with Some (VStrs l) => map (fun s => Elem q [] (text_nodes s)) l | _ => [] end
  end.

(* the holes of a template, in document order (attributes before content) *)
Definition attr_holes (a : list (qname * aval)) : list nat :=
  flat_map (fun kv => match snd kv with AHole i => [i] | AFix _ => [] end) a.
Fixpoint holes (t : tpl) : list nat :=
  match t with
  | TEl _ a ks => attr_holes a ++ flat_map holes ks
  | TText i | TFrag _ i | TFrags i | TLeaves _ i => [i]
  | TNamed _ i ks | TOwn i ks => i :: flat_map holes ks
  end.

(* where a hole sits: the names of the elements from the operation element down to the hole; an attribute
   hole ends with the attribute's name in the pseudo-namespace "@", a TNamed hole with "<name>" *)
Definition at_ (l : bytes) : qname := qn [64%N] l.
Definition name_step : qname := qn [] [60%N; 110%N; 97%N; 109%N; 101%N; 62%N].
Fixpoint hole_paths (pre : list qname) (t : tpl) : list (nat * list qname) :=
  match t with
  | TEl q a ks =>
      flat_map (fun kv => match snd kv with AHole i => [(i, pre ++ [q; at_ (q_local (fst kv))])] | AFix _ => [] end) a
      ++ flat_map (hole_paths (pre ++ [q])) ks
  | TText i | TFrag _ i | TFrags i => [(i, pre)]
  | TLeaves q i => [(i, pre ++ [q])]
  | TNamed _ i ks => (i, pre ++ [name_step]) :: flat_map (hole_paths (pre ++ [name_step])) ks
  | TOwn i ks => (i, pre) :: flat_map (hole_paths (pre ++ [name_step])) ks
  end.

(* ---------------- writing templates: holes are numbered as they are written ---------------- *)
Definition T : Type := nat -> list tpl * nat.
Definition noneT : T := fun n => ([], n).
Definition seqT (a b : T) : T :=
  fun n => let (x, n1) := a n in let (y, n2) := b n1 in (x ++ y, n2).
Infix "+++" := seqT (right associativity, at level 60).
Definition textT : T := fun n => ([TText n], S n).
Definition fragT (x : xform) : T := fun n => ([TFrag x n], S n).
Definition fragsT : T := fun n => ([TFrags n], S n).
Definition leavesT (q : qname) : T := fun n => ([TLeaves q n], S n).
Definition namedT (ns : bytes) (k : T) : T := fun n => let (ks, n') := k (S n) in ([TNamed ns n ks], n').
Definition ownT (k : T) : T := fun n => let (ks, n') := k (S n) in ([TOwn n ks], n').
(* attribute list: Some v = fixed value, None = a hole *)
Fixpoint attrsT (a : list (qname * option bytes)) (n : nat) : list (qname * aval) * nat :=
  match a with
  | [] => ([], n)
  | (k, Some v) :: a' => let (r, n') := attrsT a' n in ((k, AFix v) :: r, n')
  | (k, None) :: a' => let (r, n') := attrsT a' (S n) in ((k, AHole n) :: r, n')
  end.
Definition elT (q : qname) (a : list (qname * option bytes)) (k : T) : T :=
  fun n => let (a', n1) := attrsT a n in let (ks, n2) := k n1 in ([TEl q a' ks], n2).
Definition leafT (q : qname) : T := elT q [] textT.
Definition flagT (q : qname) : T := elT q [] noneT.
Definition whenT (b : bool) (k : T) : T := if b then k else noneT.
Definition is_some {A} (o : option A) : bool := match o with Some _ => true | None => false end.
Definition oleafT (q : qname) (o : option bytes) : T := whenT (is_some o) (leafT q).

(* the single template a T denotes (a fixed dummy when it does not denote exactly one) *)
Definition the_tpl (k : T) : tpl :=
  match fst (k O) with [t] => t | _ => TEl (qn [] []) [] [] end.
