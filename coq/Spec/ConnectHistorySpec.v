(* ConnectHistorySpec.v — histories of connects that share the caller's dictionaries (property C06; read with
   Spec/RpcErrorsSpec.v).

   The property sentence speaks of "the raise mode", "the device profile" and "the user['s patterns]" of a call.  A
   call is made on a manager, a manager comes from ONE connect, and that connect was given dictionaries the caller
   owns and may hand to other connects before and afterwards.  The reading fixed here: mode, profile and user
   patterns of a manager are those the caller's objects SAY at the time of its connect - and, since a connect is not
   supposed to write to objects it does not own, that is what they said before the first connect of the history.

   [asked_*]: what the caller asks for with one connect, read from his objects: the exempt list of his handler class
   when device_params carries one, else that of the named shipped profile, else the default profile's; his own
   patterns (none when not given); his raise mode (ALL when not given). *)
From NC Require Import Model.Base Model.Lit Model.RpcErrors Model.ConnectHistory.

Definition asked_profile (profiles : list (bytes * list bytes)) (dp : option pdict) : option (list bytes) :=
  match dp with
  | Some d =>
      match dict_get k_handler d with
      | Some (PHandler _ ex) => Some ex
      | _ => match dict_get k_name d with Some (PStr s) => dict_get s profiles | _ => dict_get k_default profiles end
      end
  | None => dict_get k_default profiles
  end.
Definition asked_user (ep : option pdict) : list bytes :=
  match ep with Some d => match ep_ignore d with Some l => l | None => [] end | None => [] end.
Definition asked_mode (ep : option pdict) : N :=
  match ep with Some d => match ep_mode d with Some m => m | None => MODE_ALL end | None => MODE_ALL end.

(* a by-hand step (route 0) is well-formed when the caller's manager_params does not itself carry a raise_mode *)
Definition by_hand_ok (p : pool) (st : step) : Prop :=
  s_route st = 0 -> dict_get k_raise_mode (or_empty (arg p (s_mp st))) = None.
