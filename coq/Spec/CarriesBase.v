(* CarriesBase.v — the carries tables of the 19 standard operations (property C07; read with Spec/Template.v):
     [values c]    the caller's values of the call c that the request must carry, in document order;
     [erase c]     the call with every caller string and fragment forgotten — what remains is the operation, which
                   optional arguments are present, and the class of a value that decides the shape
                   (URL or datastore name; empty or not);
     [template p c] the request template of the operation under profile p — written for erased calls, so it cannot
                   depend on a value.  Sources: RFC 6241 7.1-7.9, 8.3-8.4 (confirmed commit), RFC 5277 2.1.1, RFC 6022 3.1,
                   RFC 6243 4.5, and the docstrings of ncclient/operations/{retrieve,edit,lock,session,subscribe,flowmon}.py,
                   rpc.py GenericRPC.
   Not carried, by documentation: confirm-timeout / persist of commit(confirmed=False); an empty persist_id (Python
   falsiness); the config of edit_config with a format outside {xml, text, url} (nothing is appended). *)
From Coq Require Import String List.
From NC Require Import Model.Base Model.Lit Model.Xml Model.Gating Model.Builders Spec.Template.
Import ListNotations.

(* ---------------- values ---------------- *)
Definition v_ostr (o : option bytes) : list value := match o with Some s => [VStr s] | None => [] end.
Definition v_ds (d : dsarg) : list value := match d with DsStr loc _ => [VStr loc] | DsBad _ => [] end.
Definition v_ods (o : option dsarg) : list value := match o with Some d => v_ds d | None => [] end.
Definition v_filt (f : option filt) : list value :=
  match f with
  | Some (FSubtree t) => [VTree t]
  | Some (FXpath sel) => [VStr sel]
  | Some (FList ts) => [VTrees ts]
  | Some (FRaw t) => [VTree t]
  | Some (FBad _) | None => []
  end.
Definition v_cfg (c : cfgarg) : list value :=
  match c with CfgXml t => [VTree t] | CfgText s => [VStr s] | CfgUrl s _ => [VStr s] | CfgOther | CfgBad _ => [] end.
Definition v_isrc (s : isrc) : list value :=
  match s with ISds d => v_ds d | ISinline t => [VTree t] | ISbad _ => [] end.
Definition v_cmd (c : cmdarg) : list value := match c with CmdName n _ => [VStr n] | CmdTree t => [VTree t] end.

Definition values (c : opcall) : list value :=
  match c with
  | OGet f wd => v_filt f ++ v_ostr wd
  | OGetConfig src f wd => v_ds src ++ v_filt f ++ v_ostr wd
  | OEditConfig tgt dop top eop cfg => v_ds tgt ++ v_ostr dop ++ v_ostr top ++ v_ostr eop ++ v_cfg cfg
  | OCopyConfig tgt src => v_ds tgt ++ v_isrc src
  | ODeleteConfig tgt => v_ds tgt
  | OLock t _ | OUnlock t _ => [VStr t]
  | OValidate src => v_isrc src
  | OCommit confirmed timeout persist pid =>
      (if confirmed then v_ostr timeout ++ v_ostr persist else []) ++ (if nonempty pid then v_ostr pid else [])
  | OCancelCommit pid => v_ostr pid
  | OKillSession sid => [VStr sid]
  | OCreateSubscription f st b e => v_ostr st ++ v_filt f ++ v_ostr b ++ v_ostr e
  | OGetSchema i v f => VStr i :: v_ostr v ++ v_ostr f
  | ODispatch cmd src f => v_cmd cmd ++ v_ods src ++ v_filt f
  | ORpc cmd tgt src f cfg =>
      v_cmd cmd ++ v_ods tgt ++ v_ods src ++ v_filt f ++ match cfg with Some x => v_cfg x | None => [] end
  | ODiscardChanges | OCloseSession | OPoweroff | OReboot => []
  end.

(* ---------------- erase ---------------- *)
Definition e_ostr (o : option bytes) : option bytes := match o with Some _ => Some [] | None => None end.
(* … keeping Python truthiness, for `if persist_id:` *)
Definition e_ne (o : option bytes) : option bytes :=
  match o with Some (_ :: _) => Some [0%N] | Some [] => Some [] | None => None end.
(* … keeping the class "contains ://" *)
Definition e_ds (d : dsarg) : dsarg :=
  match d with DsStr loc _ => DsStr (if contains loc s_css then s_css else []) true | DsBad e => DsBad e end.
Definition e_ods (o : option dsarg) : option dsarg := match o with Some d => Some (e_ds d) | None => None end.
Definition e_tree (t : tree) : tree := Text [].
Definition e_filt (f : filt) : filt :=
  match f with
  | FSubtree _ => FSubtree (Text []) | FXpath _ => FXpath [] | FList _ => FList [] | FRaw _ => FRaw (Text [])
  | FBad e => FBad e
  end.
Definition e_ofilt (o : option filt) : option filt := match o with Some f => Some (e_filt f) | None => None end.
Definition e_cfg (c : cfgarg) : cfgarg :=
  match c with
  | CfgXml _ => CfgXml (Text []) | CfgText _ => CfgText [] | CfgUrl _ _ => CfgUrl [] true
  | CfgOther => CfgOther | CfgBad e => CfgBad e
  end.
Definition e_isrc (s : isrc) : isrc :=
  match s with ISds d => ISds (e_ds d) | ISinline _ => ISinline (Text []) | ISbad e => ISbad e end.
Definition e_cmd (c : cmdarg) : cmdarg := match c with CmdName _ _ => CmdName [] true | CmdTree _ => CmdTree (Text []) end.

Definition erase (c : opcall) : opcall :=
  match c with
  | OGet f wd => OGet (e_ofilt f) (e_ostr wd)
  | OGetConfig src f wd => OGetConfig (e_ds src) (e_ofilt f) (e_ostr wd)
  | OEditConfig tgt dop top eop cfg => OEditConfig (e_ds tgt) (e_ostr dop) (e_ostr top) (e_ostr eop) (e_cfg cfg)
  | OCopyConfig tgt src => OCopyConfig (e_ds tgt) (e_isrc src)
  | ODeleteConfig tgt => ODeleteConfig (e_ds tgt)
  | OLock _ _ => OLock [] true
  | OUnlock _ _ => OUnlock [] true
  | OValidate src => OValidate (e_isrc src)
  | OCommit confirmed timeout persist pid => OCommit confirmed (e_ostr timeout) (e_ostr persist) (e_ne pid)
  | OCancelCommit pid => OCancelCommit (e_ostr pid)
  | ODiscardChanges => ODiscardChanges
  | OCloseSession => OCloseSession
  | OKillSession _ => OKillSession []
  | OCreateSubscription f st b e => OCreateSubscription (e_ofilt f) (e_ostr st) (e_ostr b) (e_ostr e)
  | OGetSchema _ v f => OGetSchema [] (e_ostr v) (e_ostr f)
  | ODispatch cmd src f => ODispatch (e_cmd cmd) (e_ods src) (e_ofilt f)
  | ORpc cmd tgt src f cfg =>
      ORpc (e_cmd cmd) (e_ods tgt) (e_ods src) (e_ofilt f) (match cfg with Some x => Some (e_cfg x) | None => None end)
  | OPoweroff => OPoweroff
  | OReboot => OReboot
  end.

(* ---------------- templates ---------------- *)
Definition ds_is_url (d : dsarg) : bool := match d with DsStr loc _ => contains loc s_css | DsBad _ => false end.
(* util.datastore_or_url: <wha><url>LOC</url></wha>  or  <wha><LOC/></wha> *)
Definition dsT (wha : bytes) (d : dsarg) : T :=
  elT (b_ wha) [] (if ds_is_url d then leafT (b_ s_url) else namedT NS_BASE noneT).
Definition odsT (wha : bytes) (o : option dsarg) : T := match o with Some d => dsT wha d | None => noneT end.
(* util.build_filter: <filter type="subtree">FRAGMENT(S)</filter>, <filter type="xpath" select="EXPR"/>, or the caller's own
   <filter> element ([fq] = the name it goes out under: its own, or {notification}filter for a subscription) *)
Definition filtT (fq : qname) (raw : xform) (o : option filt) : T :=
  match o with
  | Some (FSubtree _) => elT fq [(a_ s_type, Some s_subtree)] (fragT XId)
  | Some (FXpath _) => elT fq [(a_ s_type, Some s_xpath); (a_ s_select, None)] noneT
  | Some (FList _) => elT fq [(a_ s_type, Some s_subtree)] fragsT
  | Some (FRaw _) => fragT raw
  | Some (FBad _) | None => noneT
  end.
Definition wdT (o : option bytes) : T := oleafT (qn NS_WD s_with_defaults) o.
Definition cfgT (p : profile) (c : cfgarg) : T :=
  match c with
  | CfgXml _ => fragT (if p_iosxe p then XIosxe else XId)                              (* the caller's <config> element *)
  | CfgText _ => elT (b_ s_config_text) [] (leafT (b_ s_configuration_text))
  | CfgUrl _ _ => leafT (b_ s_url)
  | CfgOther | CfgBad _ => noneT
  end.
Definition cmdT (c : cmdarg) (k : T) : T :=
  match c with CmdName _ _ => namedT NS_BASE k | CmdTree _ => ownT k end.

Definition templateT (p : profile) (c : opcall) : T :=
  match c with
  | OGet f wd => elT (b_ s_get) [] (filtT (b_ s_filter) XId f +++ wdT wd)
  | OGetConfig src f wd => elT (b_ s_get_config) [] (dsT s_source src +++ filtT (b_ s_filter) XId f +++ wdT wd)
  | OEditConfig tgt dop top eop cfg =>
      elT (b_ s_edit_config) []
          (dsT s_target tgt +++ oleafT (b_ s_default_operation) dop +++ oleafT (b_ s_test_option) top
           +++ oleafT (b_ s_error_option) eop +++ cfgT p cfg)
  | OCopyConfig tgt src =>
      elT (b_ s_copy_config) []
          (dsT s_target tgt +++ match src with ISds d => dsT s_source d | ISinline _ => fragT XId | ISbad _ => noneT end)
  | ODeleteConfig tgt => elT (b_ s_delete_config) [] (dsT s_target tgt)
  | OLock _ _ => elT (b_ s_lock) [] (elT (b_ s_target) [] (namedT NS_BASE noneT))
  | OUnlock _ _ => elT (b_ s_unlock) [] (elT (b_ s_target) [] (namedT NS_BASE noneT))
  | OValidate src =>
      elT (b_ s_validate) []
          (match src with ISds d => dsT s_source d | ISinline _ => elT (b_ s_source) [] (fragT XId) | ISbad _ => noneT end)
  | OCommit confirmed timeout persist pid =>
      elT (b_ s_commit) []
          (whenT confirmed (flagT (b_ s_confirmed) +++ oleafT (b_ s_confirm_timeout) timeout +++ oleafT (b_ s_persist) persist)
           +++ whenT (nonempty pid) (leafT (b_ s_persist_id)))
  | OCancelCommit pid => elT (b_ s_cancel_commit) [] (oleafT (b_ s_persist_id) pid)
  | ODiscardChanges => flagT (b_ s_discard_changes)
  | OCloseSession => flagT (b_ s_close_session)
  | OKillSession _ => elT (b_ s_kill_session) [] (leafT (b_ s_session_id))
  | OCreateSubscription f st b e =>
      elT (n_ s_create_subscription) []
          (oleafT (n_ s_stream) st +++ filtT (n_ s_filter) (XRename (n_ s_filter)) f
           +++ oleafT (n_ s_startTime) b +++ oleafT (n_ s_stopTime) e)
  | OGetSchema _ v f =>
      elT (m_ s_get_schema) [] (leafT (m_ s_identifier) +++ oleafT (m_ s_version) v +++ oleafT (m_ s_format) f)
  | ODispatch cmd src f => cmdT cmd (odsT s_source src +++ filtT (b_ s_filter) XId f)
  | ORpc cmd tgt src f cfg =>
      cmdT cmd (odsT s_target tgt +++ odsT s_source src +++ filtT (b_ s_filter) XId f
                +++ match cfg with Some (CfgXml _) => fragT XId | _ => noneT end)
  | OPoweroff => flagT (qn NS_PC s_poweroff)
  | OReboot => flagT (qn NS_PC s_reboot)
  end.

Definition template (p : profile) (c : opcall) : tpl := the_tpl (templateT p c).

(* the request a call must produce, and the statement that it uses each value exactly once *)
Definition carried (p : profile) (c : opcall) (op : tree) : Prop :=
  fill (values c) (template p (erase c)) = [op]
  /\ holes (template p (erase c)) = seq 0 (length (values c)).
