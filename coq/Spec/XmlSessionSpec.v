(* XmlSessionSpec.v — what ONE constructor program specifies, whatever else the process did (property C17).
   A program on its own is a list of constructor calls with literal attribute dictionaries ([lop], run by
   [lstep]: exactly the constructor programs of the C17_ctor theorems).  [own j n dicts ops] reads the program of the j-th
   tree off a process's calls: the calls that create / extend that tree, in order, each with the attributes it
   WRITES DOWN - the keyword attributes and the mapping passed (nothing when attrs is omitted; a caller's
   dictionary as the caller itself last wrote it).  It looks at no state of the implementation. *)
From NC Require Import Model.Base Model.XTree Model.XmlHelpers Model.XmlSession.

Inductive lop :=
| LNew (tag : bytes) (a : list attr)
| LNewNs (tag : bytes) (u : ns) (a : list attr)
| LNewNsmap (tag : bytes) (m : list decl) (a : list attr)
| LSub (p : list nat) (tag : bytes) (a : list attr)
| LSubNs (p : list nat) (tag : bytes) (u : ns) (a : list attr).

Definition lstep (t : option mnode) (op : lop) : option mnode :=
  match op, t with
  | LNew tag a, _ => Some (new_ele tag a)
  | LNewNs tag u a, _ => Some (new_ele_ns tag u a)
  | LNewNsmap tag m a, _ => Some (new_ele_nsmap tag m a)
  | LSub p tag a, Some t0 => sub_ele_at p tag a t0
  | LSubNs p tag u a, Some t0 => sub_ele_ns_at p tag u a t0
  | _, None => None
  end.

(* what the call site says about attrs: nothing, a dictionary of the caller's, a literal *)
Definition spec_value (dicts : list (list attr)) (a : aarg) : list attr :=
  match a with ADefault => [] | ACaller i => nth i dicts [] | ALit l => l end.

Definition spec_attrs (dicts : list (list attr)) (a : aarg) (kw : list attr) : list attr :=
  merge_kw (spec_value dicts a) kw.

(* the caller's dictionaries as the caller's own assignments leave them *)
Definition caller_set (dicts : list (list attr)) (op : sop) : list (list attr) :=
  match op with
  | SDictSet i k v => match dict_set i k v dicts with Some ds => ds | None => dicts end
  | _ => dicts
  end.

Definition caller_dicts (dicts : list (list attr)) (ops : list sop) : list (list attr) :=
  fold_left caller_set ops dicts.

Definition only_if (b : bool) (x : lop) : list lop := if b then [x] else [].

(* the program of tree j; n = number of trees that exist before [ops] *)
Fixpoint own (j n : nat) (dicts : list (list attr)) (ops : list sop) : list lop :=
  match ops with
  | [] => []
  | op :: r =>
      match op with
      | SNew tag a kw => only_if (Nat.eqb n j) (LNew tag (spec_attrs dicts a kw)) ++ own j (S n) dicts r
      | SNewNs tag u a kw => only_if (Nat.eqb n j) (LNewNs tag u (spec_attrs dicts a kw)) ++ own j (S n) dicts r
      | SNewNsmap tag m a kw => only_if (Nat.eqb n j) (LNewNsmap tag m (spec_attrs dicts a kw)) ++ own j (S n) dicts r
      | SSub t p tag a kw => only_if (Nat.eqb t j) (LSub p tag (spec_attrs dicts a kw)) ++ own j n dicts r
      | SSubNs t p tag u a kw => only_if (Nat.eqb t j) (LSubNs p tag u (spec_attrs dicts a kw)) ++ own j n dicts r
      | SDictSet _ _ _ => own j n (caller_set dicts op) r
      end
  end.

(* a process in which nothing was left behind in the constructors' default objects *)
Definition pristine (st : sstate) : Prop := forall c, nth (ctor_idx c) (s_dflt st) [] = [].

(* the tree a call addresses (None: it makes a new one, or is the caller's own assignment) *)
Definition sop_tree (op : sop) : option nat :=
  match op with SSub t _ _ _ _ | SSubNs t _ _ _ _ _ => Some t | _ => None end.
