(* AuthSpec.v — the short specification C15 is stated against: what may justify going on
   after the host-key block, which events are "sensitive" (credentials / NETCONF traffic),
   and the ordering predicate. *)
From NC Require Import Model.Base Model.Auth.

(* credentials offered, or anything of the NETCONF session *)
Definition sensitive (e : event) : Prop :=
  match e with
  | AuthAttempt _ _ | OpenSession | InvokeSubsystem _ | ExecFallback | SendHello => True
  | _ => False
  end.

(* the NETCONF session proper (after authentication) *)
Definition session_event (e : event) : Prop :=
  match e with
  | OpenSession | InvokeSubsystem _ | ExecFallback | SendHello => True
  | _ => False
  end.

Definition is_accept (e : event) : Prop := match e with HostKeyAccepted _ => True | _ => False end.
Definition is_auth_ok (e : event) : Prop := match e with AuthAttempt _ true => True | _ => False end.
Definition is_attempt (e : event) : Prop := match e with AuthAttempt _ _ => True | _ => False end.

(* every occurrence of a P-event has a Q-event strictly before it *)
Definition preceded_by (P Q : event -> Prop) (tr : trace) : Prop :=
  forall pre e post, tr = pre ++ e :: post -> P e -> exists e', In e' pre /\ Q e'.

Definition none_of (P : event -> Prop) (tr : trace) : Prop := forall e, In e tr -> ~ P e.

(* The unknown-host callback in force, as a function of its arguments: a device profile that
   overrides it (iosxe, iosxr, csr) answers True to everything, else the caller's, else the
   default, which answers False to everything. *)
Definition callback_in_force (c : ssh_cfg) (o : ssh_oracle) : hsel -> key -> bool :=
  if c_profile_cb c then (fun _ _ => true)
  else if c_user_cb c then o_cb o
  else (fun _ _ => false).

(* "the callback accepts it": the verdict that counts is the one on (the host name that was
   dialled, the fingerprint of the key the server presented) — not the verdict the callback
   would give on a stored key, on the "[host]:port" name, or on anything else. *)
Definition callback_accepts (c : ssh_cfg) (o : ssh_oracle) : bool :=
  callback_in_force c o HHost (o_server_key o).

(* What the property sentence allows as a reason to trust the key [k] the server presented:
   it is in the known_hosts FILE under "host" or "[host]:port" (and no key is pinned: a pin
   replaces known_hosts), it is the pinned key, or the callback in force said yes to
   (dialled host, fingerprint of k). *)
Definition justified (c : ssh_cfg) (o : ssh_oracle) (h : how) : Prop :=
  let k := o_server_key o in
  match h with
  | ByKnownHosts s =>
      c_pin c = PinAbsent /\ (s = HHost \/ s = HHostPort) /\
      (In (HHost, k) (c_known_hosts c) \/ In (HHostPort, k) (c_known_hosts c))
  | ByPinned => c_pin c = PinKey k
  | ByCallback => callback_accepts c o = true
  end.

(* no reason exists *)
Definition unjustified (c : ssh_cfg) (o : ssh_oracle) : Prop :=
  let k := o_server_key o in
  callback_accepts c o = false /\
  match c_pin c with
  | PinKey p => p <> k
  | PinBad => True
  | PinAbsent => ~ In (HHost, k) (c_known_hosts c) /\ ~ In (HHostPort, k) (c_known_hosts c)
  end.

(* every authentication request was refused *)
Definition all_refused (auths : list bool) : Prop := forall b, In b auths -> b = false.
