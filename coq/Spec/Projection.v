(* Projection.v — the specification C18 is stated against: documents as trees, their SAX event
   stream, and [project filter doc]: the sub-document consisting of exactly those elements of the
   reply that lie on the filter's paths (an element is kept iff its parent is kept and the filter
   node matched with the parent has a child of that name; the reply element is always kept and
   stands for a filter node whose only child is the filter's root; kept elements keep their
   attributes and their text). *)
From NC Require Import Model.Base Model.SaxFilter.

Inductive xt : Type :=
| T : bytes -> xt                          (* character data *)
| E : bytes -> attrs -> list xt -> xt.     (* element: name, attributes, children *)

Fixpoint ev (t : xt) : list event :=
  match t with
  | T c => [Chars c]
  | E n a ks => Start n a :: (fix go (l : list xt) : list event :=
                                match l with [] => [] | k :: l' => ev k ++ go l' end) ks ++ [End n]
  end.

Fixpoint proj (t : xt) (f : ftree) {struct t} : xt :=
  match t with
  | T c => T c
  | E n a ks =>
      E n a ((fix go (l : list xt) : list xt :=
                match l with
                | [] => []
                | k :: l' =>
                    match k with
                    | T c => [T c]
                    | E m _ _ => match find_f m (fkids f) with
                                 | Some f' => [proj k f']
                                 | None => []
                                 end
                    end ++ go l'
                end) ks)
  end.

Definition xname (t : xt) : bytes := match t with T _ => [] | E n _ _ => n end.

Definition project (filter : ftree) (doc : xt) : xt := proj doc (FN (xname doc) [filter]).

(* ---- "modulo blank text" ---- *)
Definition is_ws (x : N) : bool := N.eqb x 32 || N.eqb x 9 || N.eqb x 10 || N.eqb x 13.
Definition is_blank (c : bytes) : bool := forallb is_ws c.

Definition keep (e : event) : bool := match e with Chars c => negb (is_blank c) | _ => true end.
Definition drop_blank (l : list event) : list event := filter keep l.

(* the handler's writes read as SAX events (the text they render to, see SaxFilter.render1) *)
Definition oe (o : oev) : list event :=
  match o with
  | OStart n a => [Start n a]
  | OBare n => [Start n []; Chars [10]]
  | OEnd n => [End n; Chars [10]]
  | OText c => [Chars c]
  end.
Definition oes (l : list oev) : list event := flat_map oe l.

(* ---- the class of replies for which the handler is shown to compute the projection ---- *)
(* every element name in t (t included) avoids the list *)
Fixpoint names_avoid (bad : list bytes) (t : xt) : bool :=
  match t with
  | T _ => true
  | E n _ ks => negb (mem_bytes n bad) &&
                (fix go (l : list xt) : bool := match l with [] => true | k :: l' => names_avoid bad k && go l' end) ks
  end.

(* names that must not occur inside an element that is being skipped: its own name, the name of the
   enclosing kept element, the two reply tags and the default tags (reply tag, filter root) *)
Definition clash (m c : bytes) (D : list bytes) : list bytes := m :: c :: s_reply :: s_ncreply :: D.

(* side conditions on a child element named m of a kept element matched with filter node f *)
Definition kid_ok (D : list bytes) (f : ftree) (m : bytes) : Prop :=
  beq (ftag f) m = false /\ has_colon m = false /\ mem_bytes m D = false /\ is_reply m = false.

Inductive WFm (D : list bytes) : ftree -> xt -> Prop :=
| WFm_E : forall f n a ks, WFks D f false ks -> WFm D f (E n a ks)
with WFks (D : list bytes) : ftree -> bool -> list xt -> Prop :=
| WFks_nil : forall f seen, WFks D f seen []
| WFks_T : forall f seen c l,
    (seen = true -> is_blank c = true) ->            (* no text after a child element (mixed content) *)
    WFks D f seen l -> WFks D f seen (T c :: l)
| WFks_kept : forall f seen m a ks f' l,
    kid_ok D f m -> find_f m (fkids f) = Some f' ->
    WFm D f' (E m a ks) -> WFks D f true l -> WFks D f seen (E m a ks :: l)
| WFks_skipped : forall f seen m a ks l,
    kid_ok D f m -> find_f m (fkids f) = None ->
    Forall (fun k => names_avoid (clash m (ftag f) D) k = true) ks ->
    WFks D f true l -> WFks D f seen (E m a ks :: l).

(* children of the reply element; [first]: no child element seen yet *)
Inductive WFtop (top : bytes) (f : ftree) : bool -> list xt -> Prop :=
| WFtop_nil : forall first, WFtop top f first []
| WFtop_T : forall first c l, is_blank c = true -> WFtop top f first l -> WFtop top f first (T c :: l)
| WFtop_root : forall first a ks l,
    WFks [top; ftag f] f false ks ->
    WFtop top f false l -> WFtop top f first (E (ftag f) a ks :: l)
| WFtop_other : forall m a ks l,
    kid_ok [top; ftag f] f m -> find_f m (fkids f) = None ->
    Forall (fun k => names_avoid (clash m (ftag f) [top; ftag f]) k = true) ks ->
    WFtop top f false l -> WFtop top f false (E m a ks :: l).

(* a reply the theorem covers: <rpc-reply message-id=id ...> whose request carries filter f *)
Record wf_reply (e : env) (f : ftree) (doc : xt) : Prop := {
  wf_shape : exists top a ks id,
      doc = E top a ks /\ is_reply top = true /\
      dict_get s_msgid a = Some id /\ has_listener e = true /\ dict_get id (table e) = Some (Some f) /\
      WFtop top f true ks;
  wf_root_not_reply : is_reply (ftag f) = false;
  wf_no_reply_child : find_f s_reply (fkids f) = None /\ find_f (s_base_clark ++ s_reply) (fkids f) = None
}.

(* ---- re-segmentation of character data ----
   Two event lists are re-segmentations of each other iff they have the same canonical form: adjacent
   character events merged, empty ones removed. *)
Definition cons_chars (a : bytes) (l : list event) : list event :=
  match l with
  | Chars b :: r => Chars (a ++ b) :: r
  | _ => match a with [] => l | _ => Chars a :: l end
  end.

Fixpoint canon (evs : list event) : list event :=
  match evs with
  | [] => []
  | Chars a :: r => cons_chars a (canon r)
  | e :: r => e :: canon r
  end.
