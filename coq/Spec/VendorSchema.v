(* VendorSchema.v — what C07 demands of a VENDOR request, per operation class "as shipped":
   [vschema]: the operation element as an independent reader must see it under the profile that
   ships the class — name, namespace, the exact attribute list, whether it holds text, and its
   children (recursively) in order, each at most once unless marked repeatable.  Sources: the
   docstrings of ncclient/operations/third_party/*/rpc.py, the elements the shipped unit tests
   (test/unit/operations/third_party/*/test_rpc.py) build, the vendor documents those files cite
   (Junos XML protocol <command>/<get-configuration>/<load-configuration>/<commit-configuration>;
   SR OS YANG action global-operations/md-cli-raw-command in urn:ietf:params:xml:ns:yang:1 (RFC 7950
   7.15.2) and the nokia <comment> augment of <commit>; Comware <CLI>/<action>/<save>/<load>/
   <rollback>/<get-bulk> in the base namespace; Huawei execute-cli/execute-action in
   http://www.huawei.com/netconf/capability/base/1.0; NX-OS exec-command; IOS-XE cisco-ia save-config);
   alu's three classes emit RFC 6241 <get>/<get-config>/<edit-config>.
   [carried_strings]/[carried_fragments]: which caller string is the text / attribute at which
   path, which caller fragment is the child of which element. *)
From Coq Require Import String ZArith.
From NC Require Import Model.Base Model.Lit Model.Xml Model.Gating Model.Builders Model.VendorBuilders Spec.Rfc6241Schema.

Inductive shape : Type :=
| SAny : shape                                   (* an element the caller supplies: any name and content *)
| SNamed : qname -> shape                        (* the caller's element, but its name is fixed *)
| SEl : qname -> list bytes -> bool -> list (bool * list shape) -> shape.
  (* name; exact list of (un-namespaced) attribute names; may hold text; child positions in order:
     (repeatable, alternatives) *)

Definition is_elem (t : tree) : bool := match t with Elem _ _ _ => true | Text _ => false end.
Definition holds_text (cs : list tree) : bool := existsb (fun t => negb (is_elem t)) cs.
Definition attrs_are (an : list bytes) (a : list (qname * bytes)) : bool :=
  list_beq qname_eqb (map fst a) (map a_ an).

Section Kids.
  Variable mt : tree -> shape -> bool.
  (* the element children, in document order, fit the positions: positions are visited in increasing
     order; a position that is not repeatable is used at most once *)
  Fixpoint match_kids (cs : list tree) (slots : list (bool * list shape)) {struct cs} : bool :=
    match cs with
    | [] => true
    | Text _ :: cs' => match_kids cs' slots
    | (Elem _ _ _ as c) :: cs' =>
        (fix skip (sl : list (bool * list shape)) : bool :=
           match sl with
           | [] => false
           | (rep, alts) :: sl' =>
               if existsb (mt c) alts then match_kids cs' (if rep then sl else sl') else skip sl'
           end) slots
    end.
End Kids.

Fixpoint matches (t : tree) (sh : shape) {struct t} : bool :=
  match t with
  | Text _ => false
  | Elem q a cs =>
      match sh with
      | SAny => true
      | SNamed sq => qname_eqb sq q
      | SEl sq an tx slots =>
          qname_eqb sq q && attrs_are an a && (tx || negb (holds_text cs))
          && match_kids (fun c s => matches c s) cs slots
      end
  end.

Definition sleaf (q : qname) : shape := SEl q [] true [].          (* a text leaf *)
Definition sflag (q : qname) : shape := SEl q [] false [].         (* an empty element *)
Definition one (alts : list shape) : bool * list shape := (false, alts).
Definition many (alts : list shape) : bool * list shape := (true, alts).

(* util.build_filter / util.datastore_or_url, as the reader sees them under a default-namespace envelope *)
Definition filter_shapes : list shape :=
  [SEl (b_ s_filter) [s_type] false [many [SAny]]; SEl (b_ s_filter) [s_type; s_select] false []; SNamed (b_ s_filter)].
Definition ds_shape (wha : bytes) : shape := SEl (b_ wha) [] false [one [SAny]].

Definition o_ (l : bytes) : qname := qn NS_SROS_OPS l.
Definition h_ (l : bytes) : qname := qn NS_HW l.
Definition x_ (l : bytes) : qname := qn NS_NXOS l.

Definition vschema (c : vcall) : shape :=
  match c with
  | VJCommand _ _ => SEl (b_ s_command) [s_format] true []
  | VJGetConfiguration _ _ => SEl (b_ s_get_configuration) [s_format] false [one [SAny]]
  | VJLoadConfiguration _ _ _ =>
      SEl (b_ s_load_configuration) [s_action; s_format] false
          [one [SEl (b_ s_configuration) [] false [one [SAny]]; sleaf (b_ s_configuration_json);
                sleaf (b_ s_configuration_text); sleaf (b_ s_configuration_set)]]
  | VJCompareConfiguration _ _ => SEl (b_ s_get_configuration) [s_compare; s_format; s_rollback] false []
  | VJExecuteRpc _ => SAny                                          (* the caller names the operation *)
  | VJReboot => sflag (b_ s_request_reboot)
  | VJHalt => sflag (b_ s_request_halt)
  | VJCommit _ _ _ _ _ _ =>
      SEl (a_ s_commit_configuration) [] false
          [one [sflag (a_ s_confirmed)]; one [sleaf (a_ s_confirm_timeout)]; one [sleaf (a_ s_at_time)];
           one [sleaf (a_ s_log)]; one [sflag (a_ s_synchronize)]; one [sflag (a_ s_check)]]
  | VJRollback _ => SEl (b_ s_load_configuration) [s_rollback] false []
  | VSMdCliRawCommand _ =>
      SEl (qn NS_YANG s_action) [] false
          [one [SEl (o_ s_global_operations) [] false
                  [one [SEl (o_ s_md_cli_raw_command) [] false [one [sleaf (o_ s_md_cli_input_line)]]]]]]
  | VSCommit _ _ _ _ _ _ =>
      SEl (b_ s_commit) [] false
          [one [sleaf (qn NS_SROS_AUG s_comment)]; one [sflag (b_ s_confirmed)]; one [sleaf (b_ s_confirm_timeout)];
           one [sleaf (b_ s_persist)]; one [sleaf (b_ s_persist_id)]]
  | VAShowCli _ =>
      SEl (b_ s_get) [] false
          [one [SEl (b_ s_filter) [] false [one [SEl (b_ s_oper_cli_block) [] false [one [sleaf (b_ s_cli_show)]]]]]]
  | VAGetConfiguration _ _ _ =>
      SEl (b_ s_get_config) [] false
          [one [SEl (b_ s_source) [] false [one [sflag (b_ s_running)]]];
           one [SEl (b_ s_filter) [s_type] false [one [SAny]];
                SEl (b_ s_filter) [] false
                    [one [SEl (b_ s_config_cli_block) [] false [many [sleaf (b_ s_cli_info); sleaf (b_ s_cli_info_detail)]]]]]]
  | VALoadConfiguration _ _ _ _ =>
      SEl (b_ s_edit_config) [] false
          [one [ds_shape s_target]; one [sleaf (b_ s_default_operation)];
           one [SEl (b_ s_config) [] false [one [SAny; sleaf (b_ s_config_cli_block)]]]]
  | VHGetBulk _ => SEl (b_ s_get_bulk) [] false [one filter_shapes]
  | VHGetBulkConfig _ _ => SEl (b_ s_get_bulk_config) [] false [one [ds_shape s_source]; one filter_shapes]
  | VHCli _ => SEl (b_ s_CLI) [] false [one [SAny]]
  | VHAction _ | VPAction _ => SEl (b_ s_action) [] false [one [SAny]]
  | VHSave _ | VPSave _ => SEl (b_ s_save) [] false [one [sleaf (b_ s_file)]]
  | VHLoad _ => SEl (b_ s_load) [] false [one [sleaf (b_ s_file)]]
  | VHRollback _ | VPRollback _ => SEl (b_ s_rollback) [] false [one [sleaf (b_ s_file)]]
  | VPDisplayCommand _ => SEl (b_ s_CLI) [] false [one [sleaf (b_ s_Execution)]]
  | VPConfigCommand _ => SEl (b_ s_CLI) [] false [one [sleaf (b_ s_Configuration)]]
  | VWCli _ => SEl (h_ s_execute_cli) [] false [one [SAny]]
  | VWAction _ => SEl (h_ s_execute_action) [] false [one [SAny]]
  | VXSaveConfig => sflag (qn NS_CISCO_IA s_save_config)
  | VNExecCommand _ => SEl (x_ s_exec_command) [] false [many [sleaf (x_ s_cmd)]]
  end.

Definition vconforms (c : vcall) (op : tree) : Prop := matches op (vschema c) = true.

(* Caller documents come out of a parser: they are elements, and no attribute of theirs is literally
   named xmlns (a parser reads that as a declaration).  A raw filter must be rooted at a bare or
   base-namespace <filter> (ncclient also lets the notification namespace through). *)
Definition parsed_root (t : tree) : bool :=
  match t with Elem _ a _ => match find_xmlns a with None => true | Some _ => false end | Text _ => false end.
Definition filt_ok (o : option filt) : bool :=
  match o with
  | Some (FSubtree t) => is_elem t
  | Some (FList ts) => forallb is_elem ts
  | Some (FRaw t) => root_in t [a_ s_filter; b_ s_filter] && parsed_root t
  | _ => true
  end.
Definition vcallers_ok (c : vcall) : bool :=
  match c with
  | VHGetBulk f => filt_ok f
  | VHGetBulkConfig _ f => filt_ok f
  | _ => true
  end.

(* ---------------- what is carried where ---------------- *)
Fixpoint at_path (path : list qname) (t : tree) : list tree :=
  match path with
  | [] => [t]
  | q :: path' =>
      match t with
      | Elem _ _ cs =>
          flat_map (fun c => match c with
                             | Elem q' _ _ => if qname_eqb q q' then at_path path' c else []
                             | Text _ => []
                             end) cs
      | Text _ => []
      end
  end.
(* the concatenation of the text children *)
Fixpoint cat_texts (cs : list tree) : bytes :=
  match cs with
  | [] => []
  | Text s :: [] => s
  | Text s :: cs' => s ++ cat_texts cs'
  | Elem _ _ _ :: cs' => cat_texts cs'
  end.
Definition text_of (t : tree) : bytes :=
  match t with Elem _ _ cs => cat_texts cs | Text s => s end.
Definition kids_of (t : tree) : list tree :=
  match t with Elem _ _ cs => filter is_elem cs | Text _ => [] end.
Fixpoint assoc (k : qname) (a : list (qname * bytes)) : option bytes :=
  match a with [] => None | (k', v) :: a' => if qname_eqb k k' then Some v else assoc k a' end.
Definition attr_of (name : bytes) (t : tree) : option bytes :=
  match t with Elem _ a _ => assoc (a_ name) a | Text _ => None end.

Definition name_of (t : tree) : qname := match t with Elem q _ _ => q | Text _ => a_ [] end.

Inductive obs : Type :=
| OText (path : list qname) (vals : list bytes)          (* the texts of the elements at path below the operation element, in document order *)
| OAttr (path : list qname) (name : bytes) (vals : list bytes)    (* … their attribute [name] *)
| ONames (path : list qname) (names : list qname).       (* exactly one element at path; the names of its element children (a datastore is named by an element) *)
Inductive fobs : Type :=
| OKids (path : list qname) (d : bytes) (frags : list tree)  (* exactly one element at path; its element children are the caller's fragments, read where the default namespace is d *)
| OSelf (d : bytes) (frag : tree).                       (* the operation element is the caller's own element *)

Definition holds (op : tree) (o : obs) : Prop :=
  match o with
  | OText p vals => map text_of (at_path p op) = vals
  | OAttr p n vals => map (attr_of n) (at_path p op) = map Some vals
  | ONames p names => map (fun t => map name_of (kids_of t)) (at_path p op) = [names]
  end.
Definition fholds (m : nsmode) (op : tree) (o : fobs) : Prop :=
  match o with
  | OKids p d frags => map kids_of (at_path p op) = [map (resolve m d) frags]
  | OSelf d frag => op = resolve m d frag
  end.

Definition otxt (o : option bytes) : bytes := match o with Some s => s | None => [] end.
Definition present (b : bool) : list bytes := if b then [[]] else [].     (* an empty element is there / is not *)
Definition ds_obs (wha : bytes) (d : dsarg) : list obs :=
  match d with
  | DsStr loc _ => if contains loc s_css then [OText [b_ wha; b_ s_url] [loc]] else [ONames [b_ wha] [b_ loc]]
  | DsBad _ => []
  end.
Definition filt_obs (o : option filt) : list obs :=
  match o with
  | Some (FXpath sel) => [OAttr [b_ s_filter] s_type [s_xpath]; OAttr [b_ s_filter] s_select [sel]]
  | Some (FSubtree _) | Some (FList _) => [OAttr [b_ s_filter] s_type [s_subtree]]
  | _ => []
  end.
Definition filt_fobs (o : option filt) : list fobs :=
  match o with
  | Some (FSubtree t) => [OKids [b_ s_filter] NS_BASE [t]]
  | Some (FList ts) => [OKids [b_ s_filter] NS_BASE ts]
  | _ => []
  end.
Definition jcfg_text (c : jcfg) : bytes :=
  match c with JList l => join_with 10 l | JOne (EStr s) => s | _ => [] end.
Definition junos_load_format (format action : bytes) : bytes := if beq action s_set then s_text else format.

Definition carried_strings (c : vcall) : list obs :=
  match c with
  | VJCommand command format => [OText [] [otxt command]; OAttr [] s_format [format]]
  | VJGetConfiguration format _ => [OAttr [] s_format [format]]
  | VJLoadConfiguration format action config =>
      let f := junos_load_format format action in
      [OAttr [] s_action [action]; OAttr [] s_format [f];
       OText [b_ s_configuration_json] (if beq f s_json then [jcfg_text config] else []);
       OText [b_ s_configuration_text] (if beq f s_text && negb (beq action s_set) then [jcfg_text config] else []);
       OText [b_ s_configuration_set] (if beq f s_text && beq action s_set then [jcfg_text config] else [])]
  | VJCompareConfiguration rollback format =>
      [OAttr [] s_compare [s_rollback]; OAttr [] s_format [format]; OAttr [] s_rollback [rollback]]
  | VJCommit confirmed timeout comment synchronize at_time check =>
      [OText [a_ s_confirmed] (present confirmed);
       OText [a_ s_confirm_timeout]
             (if confirmed then match timeout with TInt z => [z_to_dec (ceil_minutes z)] | _ => [] end else []);   (* seconds -> minutes, rounded up *)
       OText [a_ s_at_time] (if confirmed then [] else ostr at_time);
       OText [a_ s_log] (ostr comment);
       OText [a_ s_synchronize] (present synchronize); OText [a_ s_check] (present check)]
  | VJRollback rollback => [OAttr [] s_rollback [rollback]]
  | VSMdCliRawCommand command =>
      [OText [o_ s_global_operations; o_ s_md_cli_raw_command; o_ s_md_cli_input_line] [otxt command]]
  | VSCommit confirmed timeout persist persist_id comment nonblank =>
      [OText [qn NS_SROS_AUG s_comment] (if nonempty comment && nonblank then ostr comment else []);
       OText [b_ s_confirmed] (present confirmed);
       OText [b_ s_confirm_timeout] (if confirmed then ostr timeout else []);
       OText [b_ s_persist] (if confirmed then ostr persist else []);
       OText [b_ s_persist_id] (if nonempty persist_id then ostr persist_id else [])]
  | VAShowCli command => [OText [b_ s_filter; b_ s_oper_cli_block; b_ s_cli_show] [otxt command]]
  | VAGetConfiguration content filter detail =>
      OText [b_ s_source; b_ s_running] [[]] ::
      match filter with
      | Some (AFItems l) =>
          if beq content s_cli then
            [OText [b_ s_filter; b_ s_config_cli_block; b_ (if detail then s_cli_info_detail else s_cli_info)] l;
             OText [b_ s_filter; b_ s_config_cli_block; b_ (if detail then s_cli_info else s_cli_info_detail)] []]
          else []
      | Some (AFDoc _) => if beq content s_xml then [OAttr [b_ s_filter] s_type [s_subtree]] else []
      | None => [OText [b_ s_filter] []]
      end
  | VALoadConfiguration format default_operation target config =>
      OText [b_ s_default_operation] (ostr default_operation) ::
      match config with
      | Some x =>
          if beq format s_xml then ds_obs s_target target
          else if beq format s_cli then
            ds_obs s_target target ++ [OText [b_ s_config; b_ s_config_cli_block] [match x with EStr s => s | EElem _ => [] end]]
          else []
      | None => []
      end
  | VHGetBulk f => filt_obs f
  | VHGetBulkConfig src f => ds_obs s_source src ++ filt_obs f
  | VHSave file | VHLoad file | VHRollback file | VPSave file | VPRollback file => [OText [b_ s_file] [otxt file]]
  | VPDisplayCommand cmds => [OText [b_ s_Execution] [cmds_text cmds]]
  | VPConfigCommand cmds => [OText [b_ s_Configuration] [cmds_text cmds]]
  | VNExecCommand cmds => [OText [x_ s_cmd] cmds]
  | _ => []
  end.

Definition el_frags (o : option elarg) : list tree :=
  match o with Some (EElem t) => [t] | _ => [] end.
Definition doc_fobs (d : bytes) (x : docarg) : list fobs :=
  match x with DocTree t => [OKids [] d [t]] | DocBad _ => [] end.

Definition carried_fragments (c : vcall) : list fobs :=
  match c with
  | VJGetConfiguration _ filter => [OKids [] [] (el_frags filter)]
  | VJLoadConfiguration format action (JOne (EElem t)) =>
      if beq (junos_load_format format action) s_xml then [OKids [b_ s_configuration] [] [t]] else []
  | VJExecuteRpc (DocTree t) => [OSelf [] t]
  | VAGetConfiguration content (Some (AFDoc (DocTree t))) _ =>
      if beq content s_xml then [OKids [b_ s_filter] NS_BASE [t]] else []
  | VALoadConfiguration format _ _ (Some (EElem t)) =>
      if beq format s_xml then [OKids [b_ s_config] NS_BASE [t]] else []
  | VHGetBulk f => filt_fobs f
  | VHGetBulkConfig _ f => filt_fobs f
  | VHCli x | VHAction x | VPAction x => doc_fobs NS_BASE x
  | VWCli x | VWAction x => doc_fobs NS_HW x                   (* R2: the xmlns attribute of execute-cli / execute-action *)
  | _ => []
  end.

(* when is a fragment read back literally?  no attribute named xmlns anywhere (parser output) and,
   under a default-namespace scope, every element in a namespace of its own other than the base one *)
Fixpoint no_xmlns (t : tree) : bool :=
  match t with
  | Text _ => true
  | Elem _ a cs => match find_xmlns a with None => forallb no_xmlns cs | Some _ => false end
  end.
Fixpoint qualified (t : tree) : bool :=
  match t with
  | Text _ => true
  | Elem q _ cs => negb (beq (q_ns q) []) && negb (beq (q_ns q) NS_BASE) && forallb qualified cs
  end.

(* arguments restricted to an enumerated set / mutually exclusive arguments *)
Definition venum_violation (c : vcall) : bool :=
  match c with
  | VJLoadConfiguration format action config =>
      match config with JNone => false | _ => negb (mem_bytes (junos_load_format format action) JUNOS_LOAD_FORMATS) end
  | _ => false
  end.
Definition vexcl_violation (c : vcall) : bool :=
  match c with
  | VJCommit true _ _ _ (Some _) _ => true
  | VSCommit _ _ persist persist_id _ _ => nonempty persist && nonempty persist_id
  | _ => false
  end.
