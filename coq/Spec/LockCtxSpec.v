(* LockCtxSpec.v — the short specification C13 is stated against.

   Property C13: "`with m.locked(target)` sends <lock> for that datastore before the body runs and
   <unlock> for the same datastore exactly once after the body ends, whether it returns or raises,
   and lets the body's exception propagate. If the lock request is answered with an error the body
   does not run and no unlock is sent."

   "Answered with an error" is read through C06: the Lock request raises under RaiseMode.ERRORS
   (some rpc-error of severity 'error', first message not exempt for the device handler).        *)
From NC Require Import Model.Base Model.RpcErrors Model.LockCtx.

(* The lock/unlock requests sent by lock contexts obey a stack discipline: an accepted context lock
   pushes its datastore, a refused one pushes nothing, a context unlock must name the datastore on
   top of the stack and pops it.  [ctx_run tr st] = the stack after the trace, None on a violation. *)
Fixpoint ctx_run (tr : list event) (stack : list bytes) : option (list bytes) :=
  match tr with
  | [] => Some stack
  | e :: tr' =>
      if ev_ctx e then
        if N.eqb (ev_kind e) K_LOCK then ctx_run tr' (if ev_raised e then stack else ev_target e :: stack)
        else match stack with
             | s :: st => if beq s (ev_target e) then ctx_run tr' st else None
             | [] => None
             end
      else ctx_run tr' stack
  end.

Definition accepted_ctx_locks (tr : list event) : nat :=
  length (filter (fun e => ev_ctx e && N.eqb (ev_kind e) K_LOCK && negb (ev_raised e)) tr).
Definition ctx_unlocks (tr : list event) : nat :=
  length (filter (fun e => ev_ctx e && negb (N.eqb (ev_kind e) K_LOCK)) tr).

(* the lock request of a context on t is refused in history hist *)
Definition lock_refused (orc : oracle) (c : pclass) (t : bytes) (hist : list event) : Prop :=
  decide MODE_ERRORS (orc hist K_LOCK t) c <> Return.
