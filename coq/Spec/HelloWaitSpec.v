(* HelloWaitSpec.v — what the caller asked for (property C05, the timeout clause), stated without the plumbing. *)
From NC Require Import Model.Base Model.HelloWait.

(* the connect timeout the caller gave: positionally or as the keyword `timeout`; None and absence both mean "none".
   manager_params['timeout'] is the Manager's RPC timeout, not a connect timeout, and does not count. *)
Definition requested (a : cargs) : option N :=
  match a_pos a with
  | Some (PNum t) => Some t
  | Some PNone => None
  | None => match a_kw a with Some (PNum t) => Some t | _ => None end
  end.

(* what applies when the caller gave none: ssh_config's ConnectTimeout (SSH), else the documented default of the
   transport (TLS / Unix: the default of connect's `timeout`; SSH: the default of _post_connect) *)
Definition default_wait (e : entry) (a : cargs) : N :=
  match transport_of e with
  | TSsh => match a_cfg a with Some c => c | None => default_hello_ms end
  | TTls => match a_pos a, a_kw a with
            | None, None => default_tls_ms
            | _, _ => default_hello_ms            (* timeout=None given explicitly *)
            end
  | TUds => match a_pos a, a_kw a with
            | None, None => default_uds_ms
            | _, _ => default_hello_ms
            end
  end.

Definition with_mp (a : cargs) (m : option pyval) : cargs :=
  {| a_pos := a_pos a; a_kw := a_kw a; a_mp := m; a_cfg := a_cfg a |}.
