(* VendorGatingSpec.v — what C09 demands of the vendor classes (read this, not the model):
   the table "documented dependency -> capability" and well-formedness, per vendor call.
   The only dependency a vendor class other than the two Commit classes has is :url, when the
   datastore argument it hands to datastore_or_url is a URL (contains "://"):
     alu load_configuration(target=URL) — when a config is given in format 'xml' or 'cli' (only then
         is a <target> built at all; see the open finding C07-alu-unknown-selector for the other formats);
     h3c get_bulk_config(source=URL).
   alu get_configuration always reads <running/>; every other class depends on nothing. *)
From Coq Require Import String.
From NC Require Import Model.Base Model.Lit Model.Caps Model.Xml Model.Gating Model.VendorGating Spec.CapsSpec Spec.GatingSpec.

Definition alu_builds_target (fmt : bytes) : bool := beq fmt s_f_xml || beq fmt s_vg_cli.

Definition vneeds (c : vgcall) : list bytes :=
  match c with
  | GALoadConfiguration fmt tgt (Some _) _ => if alu_builds_target fmt then url_need tgt else []
  | GALoadConfiguration _ _ None _ => []
  | GAGetConfiguration _ => []
  | GHGetBulkConfig src _ => url_need src
  | GPlain _ _ => []
  end.

(* no argument is refused locally for a reason other than a capability *)
Definition vwellformed (c : vgcall) : bool :=
  match c with
  | GALoadConfiguration fmt tgt (Some v) dop =>
      (if alu_builds_target fmt then ds_ok tgt && none v else true) && none dop
  | GALoadConfiguration _ _ None dop => none dop
  | GAGetConfiguration body => none body
  | GHGetBulkConfig src flt => ds_ok src && none flt
  | GPlain _ body => none body
  end.
