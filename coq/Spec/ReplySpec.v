(* ReplySpec.v — short specifications for C10. *)
From NC Require Import Model.Base Model.XTree Model.XmlHelpers Model.NsStrip Model.ReplyView.

(* d is the first child of that name *)
Definition first_named (n : name) (kids : list xnode) (d : xnode) : Prop :=
  exists pre post, kids = pre ++ d :: post /\ is_named n d = true /\
                   forall x, In x pre -> is_named n x = false.

Definition no_child (n : name) (kids : list xnode) : Prop := forall x, In x kids -> is_named n x = false.

(* a remove_blank_text parser: whatever it drops is white-space-only text *)
Definition blank_only_removed (rb : xnode -> xnode) : Prop := forall t, drop_blank (rb t) = drop_blank t.
