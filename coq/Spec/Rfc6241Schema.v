(* Rfc6241Schema.v — the request schemas C07 is stated against (DESIGN Appendix F):
   the envelope, the operation element of each standard operation and the order of its
   children (RFC 6241 section 7, RFC 5277 2.1.1, RFC 6022 3.1, RFC 6243 4.5), and what it
   means for a request to carry the caller's strings. *)
From Coq Require Import String.
From NC Require Import Model.Base Model.Lit Model.Xml Model.Gating Model.Builders.

(* one <rpc> in the base namespace, whose only attribute is message-id = the request's id and
   whose only child is the operation element *)
Definition envelope (mid : bytes) (t op : tree) : Prop :=
  t = Elem (b_ s_rpc) [(a_ s_message_id, mid)] [op] /\ exists q a cs, op = Elem q a cs.

(* children of the operation element, as groups of alternatives, in the order the RFC fixes *)
Definition schema_of (c : opcall) : option (qname * list (list qname)) :=
  match c with
  | OGet _ _ => Some (b_ s_get, [[b_ s_filter]; [qn NS_WD s_with_defaults]])
  | OGetConfig _ _ _ => Some (b_ s_get_config, [[b_ s_source]; [b_ s_filter]; [qn NS_WD s_with_defaults]])
  | OEditConfig _ _ _ _ _ =>
      Some (b_ s_edit_config, [[b_ s_target]; [b_ s_default_operation]; [b_ s_test_option]; [b_ s_error_option];
                               [b_ s_config; b_ s_url; b_ s_config_text]])
  | OCopyConfig _ _ => Some (b_ s_copy_config, [[b_ s_target]; [b_ s_source]])
  | ODeleteConfig _ => Some (b_ s_delete_config, [[b_ s_target]])
  | OLock _ _ => Some (b_ s_lock, [[b_ s_target]])
  | OUnlock _ _ => Some (b_ s_unlock, [[b_ s_target]])
  | OValidate _ => Some (b_ s_validate, [[b_ s_source]])
  | OCommit _ _ _ _ => Some (b_ s_commit, [[b_ s_confirmed]; [b_ s_confirm_timeout]; [b_ s_persist]; [b_ s_persist_id]])
  | OCancelCommit _ => Some (b_ s_cancel_commit, [[b_ s_persist_id]])
  | ODiscardChanges => Some (b_ s_discard_changes, [])
  | OCloseSession => Some (b_ s_close_session, [])
  | OKillSession _ => Some (b_ s_kill_session, [[b_ s_session_id]])
  | OCreateSubscription _ _ _ _ =>
      Some (n_ s_create_subscription, [[n_ s_stream]; [n_ s_filter]; [n_ s_startTime]; [n_ s_stopTime]])
  | OGetSchema _ _ _ => Some (m_ s_get_schema, [[m_ s_identifier]; [m_ s_version]; [m_ s_format]])
  | OPoweroff => Some (qn NS_PC s_poweroff, [])
  | OReboot => Some (qn NS_PC s_reboot, [])
  | ODispatch _ _ _ | ORpc _ _ _ _ _ => None          (* the caller names the operation *)
  end.

(* [names] fits [groups]: every name belongs to a group, groups are visited in strictly
   increasing order (so: schema order, each position at most once) *)
Fixpoint fits (groups : list (list qname)) (names : list qname) : bool :=
  match names with
  | [] => true
  | n :: names' =>
      (fix skip (gs : list (list qname)) : bool :=
         match gs with
         | [] => false
         | g :: gs' => if existsb (qname_eqb n) g then fits gs' names' else skip gs'
         end) groups
  end.

Definition child_names (cs : list tree) : list qname :=
  flat_map (fun t => match t with Elem q _ _ => [q] | Text _ => [] end) cs.
Definition has_text (cs : list tree) : bool :=
  existsb (fun t => match t with Text _ => true | _ => false end) cs.

Definition conforms (c : opcall) (op : tree) : Prop :=
  match schema_of c with
  | None => True
  | Some (q, groups) =>
      exists cs, op = Elem q [] cs /\ fits groups (child_names cs) = true /\ has_text cs = false
  end.

(* caller documents are rooted in the base namespace (or the notification namespace for a
   subscription filter).  ncclient also accepts the bare names; what then goes out under a
   prefixed envelope is the open finding C07-unqualified-caller-root. *)
Definition raw_root_ok (o : option filt) : bool :=
  match o with
  | Some (FRaw t) => root_in t [b_ s_filter]
  | _ => true
  end.
Definition roots_qualified (c : opcall) : bool :=
  match c with
  | OGet f _ => raw_root_ok f
  | OGetConfig _ f _ => raw_root_ok f
  | OEditConfig _ _ _ _ (CfgXml t) => root_in t [b_ s_config]
  | OCopyConfig _ (ISinline t) => root_in t [b_ s_source]
  | OValidate (ISinline t) => root_in t [b_ s_config]
  | _ => true
  end.

(* all text nodes and attribute values / all element local names of a tree *)
Fixpoint texts (t : tree) : list bytes :=
  match t with
  | Text s => [s]
  | Elem _ a cs => map snd a ++ flat_map texts cs
  end.
Fixpoint locals (t : tree) : list bytes :=
  match t with
  | Text _ => []
  | Elem q _ cs => q_local q :: flat_map locals cs
  end.

(* the caller strings a request must carry as whole text nodes … *)
Definition ds_text (d : dsarg) : list bytes :=
  match d with DsStr loc _ => if contains loc s_css then [loc] else [] | DsBad _ => [] end.
Definition ds_name (d : dsarg) : list bytes :=
  match d with DsStr loc _ => if contains loc s_css then [] else [loc] | DsBad _ => [] end.
Definition ostr (o : option bytes) : list bytes := match o with Some s => [s] | None => [] end.
Definition carried_texts (c : opcall) : list bytes :=
  match c with
  | OGetConfig src _ wd => ds_text src ++ ostr wd
  | OGet _ wd => ostr wd
  | OEditConfig tgt dop top eop cfg =>
      ds_text tgt ++ ostr dop ++ ostr top ++ ostr eop
      ++ match cfg with CfgText s => [s] | CfgUrl s _ => [s] | _ => [] end
  | OCopyConfig tgt (ISds s) => ds_text tgt ++ ds_text s
  | OCopyConfig tgt _ => ds_text tgt
  | ODeleteConfig tgt => ds_text tgt
  | OValidate (ISds s) => ds_text s
  | OCommit true timeout persist pid => ostr timeout ++ ostr persist ++ ostr pid
  | OCommit false _ _ pid => ostr pid
  | OCancelCommit pid => ostr pid
  | OKillSession sid => [sid]
  | OCreateSubscription _ st b e => ostr st ++ ostr b ++ ostr e
  | OGetSchema i v f => i :: ostr v ++ ostr f
  | _ => []
  end.
(* … and as element names (datastore names) *)
Definition carried_names (c : opcall) : list bytes :=
  match c with
  | OGetConfig src _ _ => ds_name src
  | OEditConfig tgt _ _ _ _ => ds_name tgt
  | OCopyConfig tgt (ISds s) => ds_name tgt ++ ds_name s
  | OCopyConfig tgt _ => ds_name tgt
  | ODeleteConfig tgt => ds_name tgt
  | OLock t _ => [t]
  | OUnlock t _ => [t]
  | OValidate (ISds s) => ds_name s
  | _ => []
  end.

(* enumerated arguments (RFC 6241 7.2; RFC 6243 4.5 against the advertised modes) *)
Definition out_of (o : option bytes) (allowed : list bytes) : bool :=
  match o with Some v => negb (mem_bytes v allowed) | None => false end.
Definition enum_violation (c : opcall) : bool :=
  match c with
  | OEditConfig _ dop top eop _ => out_of dop DEFAULT_OPS || out_of top TEST_OPTS || out_of eop ERROR_OPTS
  | OGet _ wd => out_of wd WD_MODES
  | OGetConfig _ _ wd => out_of wd WD_MODES
  | _ => false
  end.

(* what a device profile's hook on the finished <edit-config> element (transform_edit_config) may do to ONE direct child of
   that element: leave it as it is, or move an un-namespaced <config> - the parameter element the hook is documented to patch -
   into the base namespace, keeping its attributes and ALL of its content (the caller's data) as they are *)
Definition hook_child (c c' : tree) : Prop :=
  c' = c \/ exists a k, c = Elem (a_ s_config) a k /\ c' = Elem (b_ s_config) a k.
