(* Classify.v — a small executable classifier of inbound message texts, the concrete instance of the
   [classify] parameter of Model/SessionE2E.v used by the byte-level replay (Glue/E2E_glue.v) and by the
   examples of Props/E2E.v.  The END-TO-END THEOREMS DO NOT DEPEND ON IT (they hold for every classifier).

   Mirrors, for the messages the session harness exchanges:
     Session._dispatch_message: parse_root(raw) = qualified name and attributes of the ROOT START TAG only
        (xml_.parse_root returns at the first 'start' event); when that fails the device profile may
        repair the text (handle_raw_dispatch: Huawei strips NUL padding) else the message is dropped [kind 5];
     NotificationHandler.callback: tag == {notification:1.0}notification  [kind 2];
     RPCReplyListener.callback: tag == {base:1.0}rpc-reply, "message-id" in attrs  [kinds 0,1 / 3,4].
   Approximations (stated, harmless for the replay which compares with the real dispatch): a scanner, not an XML
   parser — optional XML declaration, root start tag with quoted attributes, xmlns / xmlns:prefix resolution on
   the root only; no entity references in attribute values, no comments / DOCTYPE before the root.
   Message-ids are mapped to the numbers of the LTS through the table [ids] (message-id octets -> number; an id
   that is not in the table is the harness's "unknown id" 7); a notification's argument is the number in its
   <ev>nK</ev> element (harness convention). *)
From Coq Require Import String.
From NC Require Import Model.Base Model.Lit Model.Framing11.

Definition s_xmldecl := Eval compute in lit "<?xml"%string.
Definition s_xmlns := Eval compute in lit "xmlns"%string.
Definition s_msgid := Eval compute in lit "message-id"%string.
Definition s_base10 := Eval compute in lit "urn:ietf:params:xml:ns:netconf:base:1.0"%string.
Definition s_notif10 := Eval compute in lit "urn:ietf:params:xml:ns:netconf:notification:1.0"%string.
Definition s_rpc_reply := Eval compute in lit "rpc-reply"%string.
Definition s_notification := Eval compute in lit "notification"%string.
Definition s_ev := Eval compute in lit "<ev>n"%string.

Definition is_xws (c : N) : bool := (c =? 32) || (c =? 9) || (c =? 10) || (c =? 13).
Fixpoint skip_xws (l : bytes) : bytes :=
  match l with c :: r => if is_xws c then skip_xws r else l | [] => [] end.
Fixpoint after_pi (l : bytes) : option bytes :=
  match l with
  | a :: r => match r with
              | b :: r' => if (a =? 63) && (b =? 62) then Some r' else after_pi r
              | [] => None
              end
  | [] => None
  end.
Definition name_end (c : N) : bool := is_xws c || (c =? 47) || (c =? 62) || (c =? 61) || (c =? 60).
Fixpoint span_name (l : bytes) : bytes * bytes :=
  match l with
  | c :: r => if name_end c then ([], l) else let '(n, r') := span_name r in (c :: n, r')
  | [] => ([], [])
  end.
Fixpoint until_q (q : N) (l : bytes) : option (bytes * bytes) :=
  match l with
  | c :: r => if c =? q then Some ([], r)
              else if c =? 60 then None                     (* '<' is not allowed in an attribute value *)
              else match until_q q r with Some (v, r') => Some (c :: v, r') | None => None end
  | [] => None
  end.

(* attributes of a start tag, up to '>' or '/>' *)
Fixpoint attrs (fuel : nat) (l : bytes) : option (list (bytes * bytes)) :=
  match fuel with
  | O => None
  | S f =>
      match skip_xws l with
      | [] => None
      | c :: r =>
          if c =? 62 then Some []
          else if c =? 47 then (match r with d :: _ => if d =? 62 then Some [] else None | [] => None end)
          else let '(n, r1) := span_name (c :: r) in
               match n, skip_xws r1 with
               | _ :: _, e :: r2 =>
                   if e =? 61 then
                     match skip_xws r2 with
                     | q :: r3 =>
                         if (q =? 34) || (q =? 39) then
                           match until_q q r3 with
                           | Some (v, r4) => match attrs f r4 with Some a => Some ((n, v) :: a) | None => None end
                           | None => None
                           end
                         else None
                     | [] => None
                     end
                   else None
               | _, _ => None
               end
      end
  end.

Fixpoint split_colon (l : bytes) : option (bytes * bytes) :=
  match l with
  | c :: r => if c =? 58 then Some ([], r)
              else match split_colon r with Some (p, x) => Some (c :: p, x) | None => None end
  | [] => None
  end.

(* parse_root: (namespace, local name, attributes) of the root start tag *)
Definition root_of (m : bytes) : option (bytes * bytes * list (bytes * bytes)) :=
  let body := if startswith m s_xmldecl then after_pi m else Some m in
  match body with
  | None => None
  | Some b =>
      match skip_xws b with
      | c :: r =>
          if c =? 60 then
            let '(qn, r1) := span_name r in
            match qn with
            | [] => None
            | f :: _ =>
                if (f =? 63) || (f =? 33) then None
                else match attrs (S (length r1)) r1 with
                     | None => None
                     | Some a =>
                         match split_colon qn with
                         | Some (p, loc) =>
                             match dict_get (s_xmlns ++ [58] ++ p) a with
                             | Some ns => Some (ns, loc, a)
                             | None => None                       (* unbound prefix *)
                             end
                         | None => Some (match dict_get s_xmlns a with Some ns => ns | None => [] end, qn, a)
                         end
                     end
            end
          else None
      | [] => None
      end
  end.

(* bytes.strip(b'\0') *)
Fixpoint lstrip0 (l : bytes) : bytes := match l with c :: r => if c =? 0 then lstrip0 r else l | [] => [] end.
Definition strip0 (l : bytes) : bytes := rev (lstrip0 (rev (lstrip0 l))).

Definition id_num (ids : list (bytes * N)) (v : bytes) : N :=
  match dict_get v ids with Some n => n | None => 7 end.
Definition notif_num (m : bytes) : N :=
  match find_sub s_ev m with
  | Some (_, r) => digits_val (fst (span_digits r))
  | None => 0
  end.

(* repair = true: the profile strips NUL padding from a message that does not parse (Huawei) *)
Definition classify_xml (repair : bool) (ids : list (bytes * N)) (m : bytes) : N * N :=
  let m' := match root_of m with
            | Some _ => m
            | None => if repair then strip0 m else m
            end in
  match root_of m' with
  | None => (5, 0)
  | Some (ns, loc, a) =>
      if beq ns s_notif10 && beq loc s_notification then (2, notif_num m')
      else let isreply := beq ns s_base10 && beq loc s_rpc_reply in
           match dict_get s_msgid a with
           | Some v => (if isreply then 0 else 3, id_num ids v)
           | None => (if isreply then 1 else 4, 0)
           end
  end.
