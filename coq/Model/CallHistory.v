(* CallHistory.v — several Manager calls, one after the other, on ONE session (C07: "every operation call ... for that
   operation and those arguments"; the argument validation of C07/C09 reads the session's parsed server capabilities).

   What the code does with the session while it builds a request:  RPC.__init__/_assert test `key in server_capabilities`,
   retrieve._get_valid_with_defaults_modes looks the capability up and READS parameters["basic-mode"] and
   parameters["also-supported"] (subscript reads; the list of valid modes is a NEW list, `.extend` is applied to it, not to
   anything stored in the session); util.datastore_or_url tests ":url".  Nothing pops, deletes, clears or assigns an entry of
   Capabilities._dict or of a Capability.parameters dict.  So the session a call leaves behind is the session it found:
   [session_after].  The harness (tools/harness/histories.py) compares this with a snapshot of m.server_capabilities (URIs,
   namespace URI and parameters of every capability) taken after every call of every history, and [history] (runner fn 13)
   with what every call of a history did on the real Manager. *)
From Coq Require Import List NArith.
Import ListNotations.
From NC Require Import Model.Base Model.Gating.

Definition session_after (s : sess) (c : call) : sess := s.

(* the calls of a history in order: what each did (events, outcome), and the session at the end *)
Fixpoint history (s : sess) (cs : list call) : list (list event * outcome) * sess :=
  match cs with
  | [] => ([], s)
  | c :: cs' =>
      let r := perform s c in
      let (rs, s') := history (session_after s c) cs' in
      (r :: rs, s')
  end.
