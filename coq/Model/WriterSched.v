(* WriterSched.v — Session.send callers and the send branch of Session.run as a labelled transition
   system, ONE LABEL PER ACCESS TO SHARED STATE, at the granularity at which tools/harness/wr_sched.py
   schedules the real code (ncclient/transport/session.py):

     T0, T1, ...  application threads, each executing  for m in prog: session.send(m)
                      if not self.connected: raise TransportError      LChk t b
                      self._q.put(message)                             LPut t m
     W            the session thread in Session.run
                      if not q.empty()                                 LEmpty b
                         and self._send_ready():                       LReady b
                          data = q.get().encode()                      LGet m
                          if self._hello_pending:                      LPendRd b
                              self._hello_pending = False              LPendClr       (frame: end-of-message)
                          elif self._base == BASE_11: ... else: ...    LBaseRd b      (frame built with b)
                          while data:
                              n = self._transport_write(data)          LWrite data a  (a: the count returned / raised)
                              if n <= 0: raise SessionCloseError(.., data)
                              data = data[n:]
                      events = s.select(timeout=TICK) ...              LSelect        (rest of the pass; no inbound octets)
                  except Exception as e:
                      self._dispatch_error(e)                          LDispErr e
                      self.close()                                     LClose         (_connected = False)
     C            the thread that assigns self._base (Session._post_connect, after the hello exchange)
                      self._base = NetconfBase.BASE_11                 LSetBase b
                  ENVIRONMENT ASSUMPTION, stated as the enabling condition of the label: _base is assigned only
                  while no request is queued and the worker holds none between its dequeue and its read of _base
                  (_post_connect returns the session to the application after the assignment).

   The interleaving is arbitrary: `wstep` returns None when a label is not the next statement of its thread or
   the value it carries is not the one the shared state holds; the theorems of Props/C02.v (names C02_sched_...)
   quantify over ALL label sequences `wrun` accepts, over any number of submitters and any write answers.
   Ghost components (never read by `wstep` to decide a transition of the code): the tag of an entry (the value
   of _base at its put), `ws_puts` (every entry ever put, in put order), `ws_ndone` (frames completely written),
   the entry carried by the failure program counters.   Definitions only. *)
From NC Require Import Model.Base Model.Writer.

(* a queue entry: submitting thread, message (UTF-8 octets), _base at the moment of the put (ghost) *)
Definition entry : Type := (nat * bytes * base)%type.
Definition e_thr (e : entry) : nat := fst (fst e).
Definition e_msg (e : entry) : bytes := snd (fst e).
Definition e_tag (e : entry) : base := snd e.
Definition e_frame (e : entry) : bytes := frame (e_tag e) (e_msg e).
Definition frames (l : list entry) : bytes := concat (map e_frame l).

(* program counter of a submitter inside Session.send *)
Inductive spc :=
| SIdle                 (* before `self.connected` of its next send (or finished) *)
| SChecked              (* connected read as True; before self._q.put(message) *)
| SRefused.             (* connected read as False: TransportError propagates, the thread ends *)
Record sub := mksub { sb_prog : list bytes; sb_pc : spc }.

(* program counter of the worker *)
Inductive wpc :=
| PTop                              (* before q.empty() *)
| PRdy                              (* queue seen non-empty; before self._send_ready() *)
| PGet                              (* ready; before q.get() *)
| PPend (e : entry)                 (* data = q.get().encode(); before the read of self._hello_pending *)
| PClr (e : entry)                  (* _hello_pending was True; before self._hello_pending = False *)
| PBase (e : entry)                 (* _hello_pending was False; before the read of self._base *)
| PWr (e : entry) (data : bytes)    (* in `while data:`; before self._transport_write(data) *)
| PSel                              (* send branch left; select / read part of the pass *)
| PRaised (e : entry) (x : werr)    (* exception on its way to run's handler; before _dispatch_error *)
| PClosing (e : entry)              (* before self.close() *)
| PDone (e : entry).                (* thread ended *)

Inductive label :=
| LChk (t : nat) (b : bool)         (* thread t read self.connected as b *)
| LPut (t : nat) (m : bytes)        (* thread t: self._q.put(m) *)
| LSetBase (b : base)               (* self._base = b  (connecting thread) *)
| LEmpty (b : bool)                 (* q.empty() answered b *)
| LReady (b : bool)                 (* self._send_ready() answered b  (transport oracle) *)
| LGet (m : bytes)                  (* q.get() returned m *)
| LPendRd (b : bool)                (* self._hello_pending read as b *)
| LPendClr                          (* self._hello_pending = False *)
| LBaseRd (b : base)                (* self._base read as b *)
| LWrite (offered : bytes) (a : answer)   (* self._transport_write(offered) answered a  (transport oracle) *)
| LSelect                           (* the rest of the pass: nothing to read *)
| LDispErr (x : werr)               (* self._dispatch_error(x) *)
| LClose.                           (* self.close() *)

Record wstate := mkw {
  ws_base : base;                   (* Session._base *)
  ws_pending : bool;                (* Session._hello_pending *)
  ws_conn : bool;                   (* Session._connected *)
  ws_subs : list sub;               (* the submitters: remaining program, program counter *)
  ws_q : list entry;                (* Session._q *)
  ws_w : wpc;
  ws_wire : bytes;                  (* the octets the transport has accepted *)
  ws_err : option werr;             (* the exception that ended the worker *)
  ws_puts : list entry;             (* ghost: every entry put, in put order *)
  ws_ndone : nat }.                 (* ghost: number of frames written completely *)

Definition winit (b : base) (pending : bool) (progs : list (list bytes)) : wstate :=
  mkw b pending true (map (fun p => mksub p SIdle) progs) [] PTop [] None [] 0.

Definition set_base (s : wstate) (x : base) : wstate :=
  mkw x (ws_pending s) (ws_conn s) (ws_subs s) (ws_q s) (ws_w s) (ws_wire s) (ws_err s) (ws_puts s) (ws_ndone s).
Definition set_pending (s : wstate) (x : bool) : wstate :=
  mkw (ws_base s) x (ws_conn s) (ws_subs s) (ws_q s) (ws_w s) (ws_wire s) (ws_err s) (ws_puts s) (ws_ndone s).
Definition set_conn (s : wstate) (x : bool) : wstate :=
  mkw (ws_base s) (ws_pending s) x (ws_subs s) (ws_q s) (ws_w s) (ws_wire s) (ws_err s) (ws_puts s) (ws_ndone s).
Definition set_subs (s : wstate) (x : list sub) : wstate :=
  mkw (ws_base s) (ws_pending s) (ws_conn s) x (ws_q s) (ws_w s) (ws_wire s) (ws_err s) (ws_puts s) (ws_ndone s).
Definition set_q (s : wstate) (x : list entry) : wstate :=
  mkw (ws_base s) (ws_pending s) (ws_conn s) (ws_subs s) x (ws_w s) (ws_wire s) (ws_err s) (ws_puts s) (ws_ndone s).
Definition set_w (s : wstate) (x : wpc) : wstate :=
  mkw (ws_base s) (ws_pending s) (ws_conn s) (ws_subs s) (ws_q s) x (ws_wire s) (ws_err s) (ws_puts s) (ws_ndone s).
Definition set_wire (s : wstate) (x : bytes) : wstate :=
  mkw (ws_base s) (ws_pending s) (ws_conn s) (ws_subs s) (ws_q s) (ws_w s) x (ws_err s) (ws_puts s) (ws_ndone s).
Definition set_err (s : wstate) (x : option werr) : wstate :=
  mkw (ws_base s) (ws_pending s) (ws_conn s) (ws_subs s) (ws_q s) (ws_w s) (ws_wire s) x (ws_puts s) (ws_ndone s).
Definition set_puts (s : wstate) (x : list entry) : wstate :=
  mkw (ws_base s) (ws_pending s) (ws_conn s) (ws_subs s) (ws_q s) (ws_w s) (ws_wire s) (ws_err s) x (ws_ndone s).
Definition set_ndone (s : wstate) (x : nat) : wstate :=
  mkw (ws_base s) (ws_pending s) (ws_conn s) (ws_subs s) (ws_q s) (ws_w s) (ws_wire s) (ws_err s) (ws_puts s) x.

Definition base_eqb (a b : base) : bool :=
  match a, b with B10, B10 => true | B11, B11 => true | _, _ => false end.
Definition werr_eqb (a b : werr) : bool :=
  match a, b with
  | SessionClose u, SessionClose v => beq u v
  | TransportExc u, TransportExc v => beq u v
  | CompareExc u, CompareExc v => beq u v
  | _, _ => false
  end.
Definition is_nil {A} (l : list A) : bool := match l with [] => true | _ => false end.

Fixpoint upd_nth {A} (n : nat) (x : A) (l : list A) : list A :=
  match l, n with
  | [], _ => []
  | _ :: r, O => x :: r
  | y :: r, S n' => y :: upd_nth n' x r
  end.

(* the worker has dequeued a message and not yet decided its framing *)
Definition holding (w : wpc) : bool :=
  match w with PPend _ | PClr _ | PBase _ => true | _ => false end.

(* the write loop left through `raise` *)
Definition wfail (s : wstate) (e : entry) (x : werr) : wstate := set_w (set_err s (Some x)) (PRaised e x).

Definition wstep (s : wstate) (l : label) : option wstate :=
  match l with
  | LChk t b =>
      match nth_error (ws_subs s) t with
      | Some (mksub (m :: r) SIdle) =>
          if Bool.eqb b (ws_conn s)
          then Some (set_subs s (upd_nth t (mksub (m :: r) (if b then SChecked else SRefused)) (ws_subs s)))
          else None
      | _ => None
      end
  | LPut t m =>
      match nth_error (ws_subs s) t with
      | Some (mksub (m' :: r) SChecked) =>
          if beq m m'
          then let e : entry := (t, m', ws_base s) in
               Some (set_puts (set_q (set_subs s (upd_nth t (mksub r SIdle) (ws_subs s))) (ws_q s ++ [e])) (ws_puts s ++ [e]))
          else None
      | _ => None
      end
  | LSetBase b =>
      match ws_q s, holding (ws_w s) with
      | [], false => Some (set_base s b)
      | _, _ => None
      end
  | LEmpty b =>
      match ws_w s with
      | PTop => if Bool.eqb b (is_nil (ws_q s)) then Some (set_w s (if b then PSel else PRdy)) else None
      | _ => None
      end
  | LReady b => match ws_w s with PRdy => Some (set_w s (if b then PGet else PSel)) | _ => None end
  | LGet m =>
      match ws_w s, ws_q s with
      | PGet, e :: q' => if beq m (e_msg e) then Some (set_w (set_q s q') (PPend e)) else None
      | _, _ => None
      end
  | LPendRd b =>
      match ws_w s with
      | PPend e => if Bool.eqb b (ws_pending s) then Some (set_w s (if b then PClr e else PBase e)) else None
      | _ => None
      end
  | LPendClr =>
      match ws_w s with
      | PClr e => Some (set_w (set_pending s false) (PWr e (frame B10 (e_msg e))))
      | _ => None
      end
  | LBaseRd b =>
      match ws_w s with
      | PBase e => if base_eqb b (ws_base s) then Some (set_w s (PWr e (frame b (e_msg e)))) else None
      | _ => None
      end
  | LWrite offered a =>
      match ws_w s with
      | PWr e data =>
          if beq offered data then
            match a with
            | Accept n =>
                if n =? 0 then Some (wfail s e (SessionClose data))
                else let k := N.to_nat n in
                     let s1 := set_wire s (ws_wire s ++ firstn k data) in
                     match skipn k data with
                     | [] => Some (set_w (set_ndone s1 (S (ws_ndone s))) PSel)
                     | d' => Some (set_w s1 (PWr e d'))
                     end
            | Neg => Some (wfail s e (SessionClose data))
            | Raise => Some (wfail s e (TransportExc data))
            | NoCount => Some (wfail s e (CompareExc data))
            end
          else None
      | _ => None
      end
  | LSelect => match ws_w s with PSel => Some (set_w s PTop) | _ => None end
  | LDispErr x =>
      match ws_w s with
      | PRaised e x' => if werr_eqb x x' then Some (set_w s (PClosing e)) else None
      | _ => None
      end
  | LClose => match ws_w s with PClosing e => Some (set_w (set_conn s false) (PDone e)) | _ => None end
  end.

Fixpoint wrun (s : wstate) (ls : list label) : option wstate :=
  match ls with
  | [] => Some s
  | l :: r => match wstep s l with Some s' => wrun s' r | None => None end
  end.

(* index of the first label that is not accepted (for the harness's diagnostics) *)
Fixpoint wrun_idx (s : wstate) (ls : list label) (i : N) : wstate + N :=
  match ls with
  | [] => inl s
  | l :: r => match wstep s l with Some s' => wrun_idx s' r (i + 1) | None => inr i end
  end.

(* ---- vocabulary of the theorems ---- *)
Definition is_wlabel (l : label) : bool :=
  match l with LChk _ _ | LPut _ _ | LSetBase _ => false | _ => true end.
Definition wsteps (ls : list label) : nat := length (filter is_wlabel ls).
Definition notready (ls : list label) : nat :=
  length (filter (fun l => match l with LReady false => true | _ => false end) ls).
(* every write call of the trace was answered with a positive count *)
Definition accepted_write (l : label) : bool :=
  match l with LWrite _ (Accept n) => negb (n =? 0) | LWrite _ _ => false | _ => true end.
(* the puts of a trace: (thread, message) in trace order *)
Fixpoint lputs (ls : list label) : list (nat * bytes) :=
  match ls with
  | [] => []
  | LPut t m :: r => (t, m) :: lputs r
  | _ :: r => lputs r
  end.
Definition put_of (e : entry) : nat * bytes := (e_thr e, e_msg e).
(* worker steps that certainly suffice to write the frames of l completely, given a ready transport *)
Definition cost (l : list entry) : nat := fold_right (fun e a => 6 + length (e_frame e) + a)%nat 2%nat l.
(* the entries a trace puts: (thread, message, _base in force at the put), in trace order; b = _base before the trace *)
Fixpoint lentries (b : base) (ls : list label) : list entry :=
  match ls with
  | [] => []
  | LPut t m :: r => (t, m, b) :: lentries b r
  | LSetBase b' :: r => lentries b' r
  | _ :: r => lentries b r
  end.
