(* Utf8.v — Python text as UTF-8 octets (DESIGN 3.1).
   A Python [str] is represented by its UTF-8 octets; [utf8_valid] is the validity
   automaton of CPython's strict decoder (RFC 3629: no overlong forms, no surrogates,
   nothing above U+10FFFF), [decode_strict] is [bytes.decode('UTF-8')] with
   UnicodeDecodeError as [None].  [strip] is [str.strip()] acting on the octets of a
   valid string: removal of leading/trailing encodings of the 29 code points for which
   [str.isspace()] holds in CPython 3.12.  Definitions only. *)
From NC Require Import Model.Base.

Definition in_rng (lo hi b : N) : bool := (lo <=? b) && (b <=? hi).
Definition is_cont (b : N) : bool := in_rng 128 191 b.

Fixpoint utf8_valid (l : bytes) : bool :=
  match l with
  | [] => true
  | b0 :: r =>
      if b0 <? 128 then utf8_valid r
      else if in_rng 194 223 b0 then
        match r with
        | b1 :: r1 => is_cont b1 && utf8_valid r1
        | _ => false
        end
      else if in_rng 224 239 b0 then
        match r with
        | b1 :: b2 :: r2 =>
            (if b0 =? 224 then in_rng 160 191 b1
             else if b0 =? 237 then in_rng 128 159 b1
             else is_cont b1)
            && is_cont b2 && utf8_valid r2
        | _ => false
        end
      else if in_rng 240 244 b0 then
        match r with
        | b1 :: b2 :: b3 :: r3 =>
            (if b0 =? 240 then in_rng 144 191 b1
             else if b0 =? 244 then in_rng 128 143 b1
             else is_cont b1)
            && is_cont b2 && is_cont b3 && utf8_valid r3
        | _ => false
        end
      else false
  end.

(* bytes.decode('UTF-8'): the text (as its octets) or UnicodeDecodeError *)
Definition decode_strict (b : bytes) : option bytes := if utf8_valid b then Some b else None.
(* str.encode('UTF-8') *)
Definition encode (s : bytes) : bytes := s.

(* ---- str.strip() on the octets of a valid string ----
   The 29 white-space code points of CPython 3.12 (str.isspace):
   U+0009-000D, U+001C-001F, U+0020, U+0085, U+00A0, U+1680, U+2000-200A, U+2028, U+2029,
   U+202F, U+205F, U+3000; their encodings, by length: *)
Definition ws1 : list N := [9; 10; 11; 12; 13; 28; 29; 30; 31; 32].
Definition ws2 : list bytes := [[194; 133]; [194; 160]].
Definition ws3 : list bytes :=
  [[225; 154; 128];
   [226; 128; 128]; [226; 128; 129]; [226; 128; 130]; [226; 128; 131]; [226; 128; 132]; [226; 128; 133];
   [226; 128; 134]; [226; 128; 135]; [226; 128; 136]; [226; 128; 137]; [226; 128; 138];
   [226; 128; 168]; [226; 128; 169]; [226; 128; 175]; [226; 129; 159]; [227; 128; 128]].
Definition ws_encodings : list bytes := map (fun b => [b]) ws1 ++ ws2 ++ ws3.

Definition is_ws1 (b : N) : bool := existsb (N.eqb b) ws1.

(* [lstrip_gen rv]: drop white-space encodings from the head; with [rv = true] the list is a
   reversed string and the encodings are looked up reversed (used for rstrip). *)
Fixpoint lstrip_gen (rv : bool) (l : bytes) : bytes :=
  match l with
  | [] => []
  | b :: r =>
      if is_ws1 b then lstrip_gen rv r
      else match r with
           | b1 :: r1 =>
               if mem_bytes (if rv then [b1; b] else [b; b1]) ws2 then lstrip_gen rv r1
               else match r1 with
                    | b2 :: r2 =>
                        if mem_bytes (if rv then [b2; b1; b] else [b; b1; b2]) ws3 then lstrip_gen rv r2
                        else l
                    | [] => l
                    end
           | [] => l
           end
  end.

Definition lstrip (l : bytes) : bytes := lstrip_gen false l.
Definition rstrip (l : bytes) : bytes := rev (lstrip_gen true (rev l)).
Definition strip (l : bytes) : bytes := rstrip (lstrip l).

(* bytes.strip() (no argument): ASCII white space b' \t\n\r\x0b\x0c' only *)
Definition is_bws (b : N) : bool := existsb (N.eqb b) [9; 10; 11; 12; 13; 32].
Definition bblank (l : bytes) : bool := forallb is_bws l.     (* len(l.strip()) == 0 *)
