(* SessionEnd.v — the END of a session beyond what Model/SessionLTS.v spells out (property C04).

   Part 1, the error broadcast over the WHOLE listener set.  SessionLTS models the worker's part of the broadcast that
   concerns requests: after `LErrBcast e` the reply listener's errback runs (`LTValues`, `LTClear`, `LEvSetErr` ...).  The
   session holds more listeners than that one: the notification handler and whatever the application registered with
   `Session.add_listener`; they live in a `set`, so the order of the visit is the environment's choice, and an application
   errback may do anything: return, raise, unregister itself or others, register new listeners.
   Modelled code  transport/session.py  Session._dispatch_error:
        with self._lock: listeners = list(self._listeners)      -- a snapshot, in the set's iteration order (oracle)
        for l in listeners:
            try: l.errback(err)                                   -- each visit in a try of its own
            except Exception as e: log
   Part 2, a request made on the session OBJECT after its session ended.
   Modelled code  operations/rpc.py  RPC.__init__ :  for cap in DEPENDS: if cap not in session.server_capabilities: raise Missing..
                                     <Op>.request :  further `_assert(cap)` calls that depend on the arguments
                                     RPC._request  :  session.send(...)   -> TransportError unless session.connected
                  transport/{ssh,tls,unixSocket}.py  close():  _connected = False; what was negotiated (_server_capabilities, _id)
                                     is left as it is.
   Part 3, the CLOSING operations on that object: a further session.close(), close_session(), leaving `with manager:`.
   Modelled code  operations/session.py  CloseSession.request:  try: ret = self._request(<close-session/>)
                                                                 finally: self.session.close()      -- also when the request failed
                  manager.py  Manager.__exit__:  self.close_session(); return False                 -- whatever the body raised
                  transport/{tls,unixSocket}.py close():  self._socket.shutdown() [OSError, ValueError caught]; self._socket.close();
                                     _connected = False          -- the reference to the socket is KEPT: a second close() finds it
                  transport/ssh.py close():  if self._channel: self._channel.close()
                                     self._channel = None        -- the reference is dropped, its use is GUARDED
   The session thread itself called close() when it processed the loss, so each of them is (at least) the second close().
   Definitions only; proofs in Proofs/SessionEndProofs.v. *)
From NC Require Import Model.Base Model.SessionLTS.

(* ---------------------------------------------------------------------------------------------------------------------
   Part 1: the broadcast
   --------------------------------------------------------------------------------------------------------------------- *)
Inductive lrole := RReply | RNotif | RApp.

(* one listener as the broadcast sees it: what its errback does to the listener set, and whether it raises (after that) *)
Record lsn := { l_id : N; l_role : lrole; l_removes : list N; l_adds : list N; l_raises : bool }.

Record bst := { live : list N;          (* Session._listeners while the broadcast runs *)
                visited : list N;       (* errbacks called, in order *)
                caught : list N }.      (* listeners whose errback raised (logged, swallowed) *)

Definition bst0 (live0 : list N) : bst := {| live := live0; visited := []; caught := [] |}.

Definition visit (b : bst) (l : lsn) : bst :=
  {| live := filter (fun x => negb (memN x (l_removes l))) (live b) ++ l_adds l;
     visited := visited b ++ [l_id l];
     caught := if l_raises l then caught b ++ [l_id l] else caught b |}.

(* Session._dispatch_error: every listener of the snapshot, each in its own try *)
Definition dispatch_error (snapshot : list lsn) (live0 : list N) : bst := fold_left visit snapshot (bst0 live0).

(* the same with ONE try around the loop: the first errback that raises ends the broadcast *)
Fixpoint dispatch_outer (snapshot : list lsn) (b : bst) : bst :=
  match snapshot with
  | [] => b
  | l :: rest => let b' := visit b l in if l_raises l then b' else dispatch_outer rest b'
  end.
Definition dispatch_error_outer (snapshot : list lsn) (live0 : list N) : bst := dispatch_outer snapshot (bst0 live0).

Definition is_reply (l : lsn) : bool := match l_role l with RReply => true | _ => false end.
Definition n_reply (snapshot : list lsn) : nat := length (filter is_reply snapshot).

(* what the reply listener's errback does, in the labels of the LTS, from a state in which the broadcast has started *)
Definition errback_labels (s : st) : list label := LTValues (map fst (table s)) :: LTClear :: map LEvSetErr (map snd (table s)).
(* the worker's LTS effects of the whole broadcast: those of the reply listener where it stands in the snapshot, nothing for
   the others (their errbacks do not touch requests) *)
Definition bcast_labels (snapshot : list lsn) (s : st) : list label :=
  flat_map (fun l => if is_reply l then errback_labels s else []) snapshot.

(* ---------------------------------------------------------------------------------------------------------------------
   Part 2: a request on the object of a session that ended
   --------------------------------------------------------------------------------------------------------------------- *)
Record eobj := { e_connected : bool; e_caps : option (list N); e_sid : option N }.

Definition never_connected : eobj := {| e_connected := false; e_caps := None; e_sid := None |}.
(* after connect(): _post_connect stored what the server's <hello> carried *)
Definition connected_to (caps : list N) (sid : N) : eobj := {| e_connected := true; e_caps := Some caps; e_sid := Some sid |}.
(* close() - called by the session thread after the error broadcast, or by the application *)
Definition closed (o : eobj) : eobj := {| e_connected := false; e_caps := e_caps o; e_sid := e_sid o |}.
(* close() n times *)
Fixpoint closes (n : nat) (o : eobj) : eobj := match n with O => o | S n' => closed (closes n' o) end.
(* a close() that puts the object back to "as before connect()" *)
Definition closed_reset (o : eobj) : eobj := {| e_connected := false; e_caps := None; e_sid := None |}.

Inductive rout :=
| RSent            (* handed to Session.send, queued *)
| RRefused         (* TransportError: not connected *)
| RMissing         (* MissingCapabilityError: the server never advertised what the operation needs *)
| RCrash.          (* any other exception (`cap in None`: TypeError) *)

(* the capability checks in the order the code makes them (DEPENDS, then those of request()) *)
Fixpoint check_caps (needs : list N) (caps : option (list N)) : option rout :=
  match needs with
  | [] => None
  | c :: rest => match caps with
                 | None => Some RCrash
                 | Some cs => if memN c cs then check_caps rest caps else Some RMissing
                 end
  end.

Definition request (needs : list N) (o : eobj) : rout :=
  match check_caps needs (e_caps o) with
  | Some r => r
  | None => if e_connected o then RSent else RRefused
  end.

Definition rout_code (r : rout) : N := match r with RSent => 0 | RRefused => 1 | RMissing => 2 | RCrash => 3 end.

(* ---------------------------------------------------------------------------------------------------------------------
   Part 3: the closing operations on the object of a session that ended
   --------------------------------------------------------------------------------------------------------------------- *)
(* how close() treats the transport handle (socket / SSL object / channel) *)
Inductive cstyle :=
| CKeep          (* tls, unix: uses the handle, keeps the reference *)
| CGuardDrop     (* ssh: uses the handle only if it is there, then drops the reference *)
| CDrop.         (* uses the handle unguarded AND drops the reference *)

Record tobj := { t_obj : eobj; t_handle : bool }.
Definition live_t (caps : list N) (sid : N) : tobj := {| t_obj := connected_to caps sid; t_handle := true |}.

Inductive cout := CQuiet | CCrash.      (* close() returned | raised (AttributeError on the missing handle) *)

Definition close_done (t : tobj) (h : bool) : cout * tobj := (CQuiet, {| t_obj := closed (t_obj t); t_handle := h |}).
Definition close_op (sty : cstyle) (t : tobj) : cout * tobj :=
  match sty with
  | CKeep => if t_handle t then close_done t true else (CCrash, t)
  | CGuardDrop => close_done t false
  | CDrop => if t_handle t then close_done t false else (CCrash, t)
  end.

(* CloseSession.request: the request, then close() in a `finally` (an exception of close() replaces the one of the request) *)
Definition close_session (sty : cstyle) (t : tobj) : rout * tobj :=
  let r := request [] (t_obj t) in
  let '(c, t') := close_op sty t in
  (match c with CCrash => RCrash | CQuiet => r end, t').

(* the body of a with-block *)
Inductive wbody := BPass | BRaise | BReq (needs : list N).
Inductive cop := OClose | OCloseSession | OWith (b : wbody) | OReq (needs : list N).

(* outcome codes: 0 returned (request sent, close() done) | 1 TransportError | 2 MissingCapabilityError | 3 another exception
   | 5 the exception the body raised itself *)
Definition body_code (b : wbody) (t : tobj) : N :=
  match b with BPass => 0 | BRaise => 5 | BReq needs => match request needs (t_obj t) with RSent => 0 | r => rout_code r end end.

(* Manager.__exit__: close_session() whatever the body did; an exception of close_session() replaces the one of the body *)
Definition with_exit (sty : cstyle) (b : wbody) (t : tobj) : N * tobj :=
  let bc := body_code b t in
  let '(r, t') := close_session sty t in
  (match r with RSent => bc | r => rout_code r end, t').

Definition do_cop (sty : cstyle) (op : cop) (t : tobj) : N * tobj :=
  match op with
  | OClose => let '(c, t') := close_op sty t in (match c with CQuiet => 0 | CCrash => 3 end, t')
  | OCloseSession => let '(r, t') := close_session sty t in (rout_code r, t')
  | OWith b => with_exit sty b t
  | OReq needs => (rout_code (request needs (t_obj t)), t)
  end.

Fixpoint run_cops (sty : cstyle) (ops : list cop) (t : tobj) : list N * tobj :=
  match ops with
  | [] => ([], t)
  | op :: rest => let '(c, t1) := do_cop sty op t in let '(cs, t2) := run_cops sty rest t1 in (c :: cs, t2)
  end.

(* the object after the session thread processed the loss: its close() *)
Definition lost_t (sty : cstyle) (caps : list N) (sid : N) : tobj := snd (close_op sty (live_t caps sid)).

(* what the PROPERTY asks of each operation on the lost session: close() returns; close_session() and the end of a with-block
   (whatever its body) are refused with the transport error, as every request that the live session would have sent *)
Definition expect (caps : list N) (sid : N) (op : cop) : N :=
  match op with
  | OClose => 0
  | OCloseSession => 1
  | OWith _ => 1
  | OReq needs => match request needs (connected_to caps sid) with RSent => 1 | r => rout_code r end
  end.
