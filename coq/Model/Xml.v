(* Xml.v — the XML tree the request builders produce (as an independent reader sees it:
   names resolved to namespace + local part) and lxml's local character check.
   Strings are UTF-8 octet lists. *)
From NC Require Import Model.Base.

(* qualified name: namespace URI ([] = no namespace) and local part *)
Record qname := { q_ns : bytes; q_local : bytes }.
Definition qn (ns l : bytes) : qname := {| q_ns := ns; q_local := l |}.
Definition qname_eqb (a b : qname) : bool := beq (q_ns a) (q_ns b) && beq (q_local a) (q_local b).

(* element content in document order; an element's text is a Text child *)
Inductive tree : Type :=
| Elem : qname -> list (qname * bytes) -> list tree -> tree
| Text : bytes -> tree.

(* lxml (apihelpers._utf8 / _is_valid_xml_utf8) refuses, with ValueError, a string that
   contains a C0 control other than TAB/LF/CR, U+FFFE or U+FFFF; a lone surrogate cannot be
   encoded at all (UnicodeEncodeError).  On UTF-8 octets (surrogates as CPython's
   'surrogatepass' would write them: ED A0..BF xx): *)
Fixpoint xml_chars_ok (s : bytes) : bool :=
  match s with
  | [] => true
  | c :: s' =>
      if (c <? 32) && negb ((c =? 9) || (c =? 10) || (c =? 13)) then false
      else if c =? 239 then
        match s' with
        | 191 :: x :: _ => if (x =? 190) || (x =? 191) then false else xml_chars_ok s'
        | _ => xml_chars_ok s'
        end
      else if c =? 237 then
        match s' with
        | x :: _ => if 160 <=? x then false else xml_chars_ok s'
        | [] => true
        end
      else xml_chars_ok s'
  end.
