(* SessionSoft.v — the session LTS (Model/SessionLTS.v) extended with the two things Session._dispatch_message does
   with a correctly framed payload that is NOT XML beyond "log and drop" (C14, histories "hostile message, then later
   requests"):

   1. the NON-FATAL error broadcast.  transport/session.py Session._dispatch_message: parse_root(raw) fails and the
      device profile's handle_raw_dispatch(raw) returns an Exception (junos: text that contains
      <rpc-reply>..<rpc-error>..</rpc-error>..</rpc-reply>..</hello) -> self._dispatch_error(exc); return.  The
      worker runs RPCReplyListener.errback (values() + clear() under the table lock, then deliver_error to each
      snapshot entry) and GOES BACK INTO ITS LOOP: nothing is closed, nothing is marked disconnected.
   2. a <notification> whose root start tag can be read but whose body is not well-formed: NotificationHandler.callback
      builds Notification(raw), whose constructor parses the whole text and raises; nothing is queued, the exception
      propagates out of the loop body (class 3) exactly like an exception of parser.parse (LRaise 3).

   The base system is left untouched: a state of the extended system is a base state plus the position inside a
   non-fatal broadcast (spc); outside such a broadcast every base label is the base step (xstep_base).  Inside it
   the worker labels LErrBcast / LTValues / LTClear / LEvSetErr are the steps of the errback, client labels are base
   steps (a registration waits while the errback holds the table lock), every other worker label is disabled.
   Definitions only; proofs in Proofs/SessionSoftProofs.v. *)
From NC Require Import Model.Base Model.SessionLTS.

Inductive spc :=
| SNone                                   (* not inside a non-fatal broadcast *)
| SPre (e : exc)                          (* the profile returned exception e; _dispatch_error(e) comes next *)
| SSnap (e : exc)                         (* _dispatch_error(e) started; the reply listener's errback next *)
| SClear (e : exc) (rids : list nat)      (* values() taken under the lock; clear() next *)
| SDeliver (e : exc) (rids : list nat).   (* deliver_error to each snapshot entry; rids is never empty here *)

Record xst := { base : st; sp : spc; softs : list exc (* ghost: the errors broadcast non-fatally so far *) }.

Inductive xlabel :=
| XB (l : label)              (* a label of the base system *)
| XRecvErr (e : exc)          (* inbound payload that is not XML and that the profile answers with exception e *)
| XRecvBadNotif (n : N).      (* inbound <notification> n: readable start tag, body not well-formed *)

Definition xinit (q : bool) : xst := {| base := init q; sp := SNone; softs := [] |}.

(* labels performed by client threads (everything else is the session thread) *)
Definition is_client (l : label) : bool :=
  match l with
  | LReg _ _ | LChk _ _ | LPut _ | LWaitRes _ _ | LTake _ _ => true
  | LClose w => negb (N.eqb w 0)
  | _ => false
  end.
Definition is_reg (l : label) : bool := match l with LReg _ _ => true | _ => false end.
Definition sp_tlock (p : spc) : bool := match p with SClear _ _ => true | _ => false end.
Definition sp_rids (p : spc) : list nat := match p with SClear _ r | SDeliver _ r => r | _ => [] end.
Definition after_rids (e : exc) (rids : list nat) : spc := match rids with [] => SNone | _ => SDeliver e rids end.

Definition with_base (x : xst) (s : st) : xst := {| base := s; sp := sp x; softs := softs x |}.
Definition with_sp (x : xst) (p : spc) : xst := {| base := base x; sp := p; softs := softs x |}.
Definition lift (x : xst) (o : option st) : option xst :=
  match o with Some s => Some (with_base x s) | None => None end.

Definition xstep (x : xst) (l : xlabel) : option xst :=
  let s := base x in
  match sp x with
  | SNone =>
      match l with
      | XB l0 => lift x (step s l0)
      | XRecvErr e => if is_idle (pc s) then Some (with_sp x (SPre e)) else None
      | XRecvBadNotif n => lift x (step s (LRaise 3))
      end
  | p =>
      match l with
      | XB l0 =>
          if is_client l0 then
            (if is_reg l0 && sp_tlock p then None else lift x (step s l0))
          else
            match p, l0 with
            | SPre e, LErrBcast e' =>
                if N.eqb e e'
                then Some {| base := s; sp := (if lst s then SSnap e else SNone); softs := softs x ++ [e] |}
                else None
            | SSnap e, LTValues ids =>
                if listN_eqb ids (map fst (table s)) then Some (with_sp x (SClear e (map snd (table s)))) else None
            | SClear e rids, LTClear =>
                Some {| base := with_table s []; sp := after_rids e rids; softs := softs x |}
            | SDeliver e (r :: rest), LEvSetErr rid =>
                if Nat.eqb rid r
                then Some {| base := with_reqs s (upd (reqs s) rid (set_error e)); sp := after_rids e rest; softs := softs x |}
                else None
            | _, _ => None
            end
      | _ => None
      end
  end.

Fixpoint xrun (x : xst) (ls : list xlabel) : option xst :=
  match ls with
  | [] => Some x
  | l :: ls' => match xstep x l with Some x' => xrun x' ls' | None => None end
  end.

Fixpoint xrun_count (x : xst) (ls : list xlabel) (k : N) : N * xst :=
  match ls with
  | [] => (k, x)
  | l :: ls' => match xstep x l with Some x' => xrun_count x' ls' (k + 1) | None => (k, x) end
  end.
