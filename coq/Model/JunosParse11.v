(* JunosParse11.v — the base:1.1 branch of the Junos streaming-filter driver (Model/JunosParse.v is the base:1.0
   branch), as repaired by `fix: Junos SAX filter is applied to chunked (base:1.1) replies too`:

     JunosXMLParser.parse(data):
       if session._base == BASE_11: return DefaultXMLParser.parse(self, data)        [feed11, Model/Framing11.v (C01):
                                                                  buffer += data; _parse11 de-chunks; every complete
                                                                  message: self._dispatch11(message); framing errors raise]
     JunosXMLParser._dispatch11(message):                                            [dispatch11]
       sax_parser = make_parser(); handler = SAXParser(session)                      [xnew w: a fresh machine per message]
       pending, session._buffer = session._buffer, BytesIO()                         [the handler's output is kept apart]
       try:    sax_parser.feed(message.encode()); message = handler output, stripped [feed ... = FOk _ o: o is dispatched]
       except SAXFilterXMLNotFoundError: pass                                        [FSwitch: the message as received]
       except SAXParseException: pass                                                [FErr:    the message as received]
       finally: session._buffer = pending                                            [any other exception leaves parse(): Dead]
       session._dispatch_message(message)

   The de-chunking is C01's model unchanged ([feed11]: the events of one read are [Deliver t] per complete message and
   [Raise k] for a framing / decoding error); this file adds what happens to a delivered message.  expat + handler and
   the session side are the abstractions of JunosParse.v (Section variables; quantified over in the theorems).
   Unlike the base:1.0 branch there is no excluded region: a switch signal or an expat error, wherever it comes and
   whatever was written before, discards the handler's output and dispatches the message as it was received.
   As in JunosParse.v the strip of the handler's output before it is dispatched is left to [dispatch].
   Definitions only. *)
From NC Require Import Model.Base Model.Utf8 Model.Framing10 Model.Framing11 Model.JunosParse.

Section Driver11.
  Variables W X : Type.
  Variable xnew : W -> X.
  Variable xstep : W -> X -> N -> xres X.
  Variable xrooted : X -> bool.      (* only labels the switch signal; what follows does not depend on it *)
  Variable dispatch : W -> bool -> bytes -> dres W.

  (* the session side of a base:1.1 run *)
  Record dst : Type := mkd {
    dw : W;
    douts : list (bool * bytes);    (* messages dispatched so far: (written by the SAX handler?, octets) *)
    dfed : list bytes;              (* octets consumed by the XML parser of each message, latest first *)
    ddead : option N }.             (* an exception left parse(): Session.run ends the session *)

  Definition E_FRAMING (k : N) : N := 200 + k.     (* NetconfFramingError / UnicodeDecodeError from _parse11 *)

  Definition fin11 (d : dst) (via_sax : bool) (msg used : bytes) : dst :=
    match dispatch (dw d) via_sax msg with
    | DExc => mkd (dw d) (douts d) (used :: dfed d) (Some E_LISTENER)
    | DOk w' _ => mkd w' (douts d ++ [(via_sax, msg)]) (used :: dfed d) None
    end.

  (* JunosXMLParser._dispatch11(message) *)
  Definition dispatch11 (d : dst) (t : bytes) : dst :=
    match feed W X xstep xrooted (dw d) (xnew (dw d)) t with
    | FOk _ o => fin11 d true o t
    | FSwitch _ _ u => fin11 d false t u
    | FErr u => fin11 d false t u
    | FExc e u => mkd (dw d) (douts d) (u :: dfed d) (Some e)
    end.

  Definition event11 (d : dst) (e : pevent) : dst :=
    match ddead d with
    | Some _ => d
    | None => match e with
              | Deliver t => dispatch11 d t
              | Raise k => mkd (dw d) (douts d) (dfed d) (Some (E_FRAMING k))
              end
    end.

  Definition deliver11 (d : dst) (evs : list pevent) : dst := fold_left event11 evs d.

  (* one call of session.parser.parse(data) from Session.run on a base:1.1 session: session side, framing side *)
  Definition parse11 (s : dst * pst11) (data : bytes) : dst * pst11 :=
    match ddead (fst s) with
    | Some _ => s
    | None => let (p', evs) := feed11 (snd s) data in (deliver11 (fst s) evs, p')
    end.

  Definition run11 (s : dst * pst11) (reads : list bytes) : dst * pst11 := fold_left parse11 reads s.

  Definition start11 (w : W) : dst := mkd w [] [] None.
  Definition init11s (w : W) : dst * pst11 := (start11 w, init11).
End Driver11.

Arguments mkd {W}. Arguments dw {W}. Arguments douts {W}. Arguments dfed {W}. Arguments ddead {W}.
