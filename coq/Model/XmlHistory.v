(* XmlHistory.v — histories of xml_.py helper calls on ONE caller-owned tree (property C17).
   A caller keeps an lxml tree and hands sub-elements of it (addressed by lxml child indices) to the
   helpers, in any order: to_xml / to_ele / validated_element only LOOK at the element they are given
   (observers); replace_namespace / sub_ele / sub_ele_ns are documented to work in place (mutators)
   and touch nothing outside the element they are given.  The element handed to the serialiser is the
   element WITHOUT the text that follows it in its parent (its tail is a sibling MT node here).
   The serialiser (libxml2) is an oracle: a function of the element it is handed and the encoding.
   Definitions only. *)
From NC Require Import Model.Base Model.XTree Model.XmlHelpers.

(* lxml child indices: ele[i] counts elements, comments and PIs; text and tails are not children *)
Definition is_text (t : mnode) : bool := match t with MT _ => true | _ => false end.

Fixpoint lx_nth (i : nat) (l : list mnode) : option mnode :=
  match l with
  | [] => None
  | x :: l' =>
      if is_text x then lx_nth i l'
      else match i with O => Some x | S j => lx_nth j l' end
  end.

Fixpoint lx_update_nth (i : nat) (f : mnode -> option mnode) (l : list mnode) : option (list mnode) :=
  match l with
  | [] => None
  | x :: l' =>
      if is_text x then option_map (cons x) (lx_update_nth i f l')
      else match i with
           | O => option_map (fun y => y :: l') (f x)
           | S j => option_map (cons x) (lx_update_nth j f l')
           end
  end.

(* the node at a path of lxml child indices *)
Fixpoint lx_get_at (p : list nat) (t : mnode) : option mnode :=
  match p with
  | [] => Some t
  | i :: p' =>
      match t with
      | ME _ _ _ _ k => match lx_nth i k with Some c => lx_get_at p' c | None => None end
      | _ => None
      end
  end.

(* apply f (which receives the scope at the node) to the node at a path of lxml child indices *)
Fixpoint lx_update_at (p : list nat) (f : list decl -> mnode -> option mnode) (sc : list decl) (t : mnode) : option mnode :=
  match p with
  | [] => f sc t
  | i :: p' =>
      match t with
      | ME n pf ds a k =>
          match lx_update_nth i (lx_update_at p' f (ds ++ sc)) k with
          | Some k' => Some (ME n pf ds a k')
          | None => None
          end
      | _ => None
      end
  end.

(* two paths part ways: neither element is the other, an ancestor or a descendant of it *)
Fixpoint diverge (p q : list nat) : bool :=
  match p, q with
  | i :: p', j :: q' => if Nat.eqb i j then diverge p' q' else true
  | _, _ => false
  end.

(* ---------- helper calls ---------- *)
Inductive hop :=
| HToXml (p : list nat) (enc : bytes)                                  (* to_xml(node, encoding) *)
| HToEle (p : list nat)                                                (* to_ele(node): the node itself *)
| HValidated (p : list nat) (tags : tagsarg) (attrs : list req)        (* validated_element(node, tags, attrs) *)
| HReplace (p : list nat) (o n : ns)                                   (* replace_namespace(node, o, n): in place *)
| HSubEle (p : list nat) (tag : bytes) (a : list attr)                 (* sub_ele(node, tag, a): appends a child *)
| HSubEleNs (p : list nat) (tag : bytes) (u : ns) (a : list attr).     (* sub_ele_ns(node, tag, u, a) *)

(* what the caller gets back *)
Inductive hobs :=
| OXml (sub : mnode) (out : bytes)      (* the element the serialiser was handed, and the document text *)
| OEle (sub : mnode)
| OVal (r : vres)
| ODone.

Definition is_observer (op : hop) : bool :=
  match op with HToXml _ _ | HToEle _ | HValidated _ _ _ => true | _ => false end.

Definition hop_path (op : hop) : list nat :=
  match op with
  | HToXml p _ | HToEle p | HValidated p _ _ | HReplace p _ _ | HSubEle p _ _ | HSubEleNs p _ _ _ => p
  end.

(* the in-place edits *)
Definition f_replace (o n : ns) : list decl -> mnode -> option mnode := fun _ s => Some (replace_ns o n s).
Definition f_sub_ele (tag : bytes) (a : list attr) : list decl -> mnode -> option mnode :=
  fun sc => sub_ele_node sc tag a.
Definition f_sub_ele_ns (tag : bytes) (u : ns) (a : list attr) : list decl -> mnode -> option mnode :=
  fun sc => sub_ele_ns_node sc tag u a.

Definition mutation (op : hop) : option (list decl -> mnode -> option mnode) :=
  match op with
  | HReplace _ o n => Some (f_replace o n)
  | HSubEle _ tag a => Some (f_sub_ele tag a)
  | HSubEleNs _ tag u a => Some (f_sub_ele_ns tag u a)
  | _ => None
  end.

Section WithSerialiser.
Variable ser : mnode -> bytes -> bytes.            (* etree.tostring(node, encoding=enc, with_tail=False) *)

(* what an observer reports about the element it is given *)
Definition observe (op : hop) (s : mnode) : hobs :=
  match op with
  | HToXml _ enc => OXml s (to_xml (ser s enc) enc)
  | HToEle _ => OEle s
  | HValidated _ tags attrs => OVal (validated_m tags attrs s)
  | _ => ODone
  end.

(* one call on the caller's tree: (tree afterwards, result); None = no such element *)
Definition hstep (t : mnode) (op : hop) : option (mnode * hobs) :=
  match mutation op with
  | None =>
      match lx_get_at (hop_path op) t with
      | Some s => Some (t, observe op s)
      | None => None
      end
  | Some f =>
      match lx_update_at (hop_path op) f [] t with
      | Some t' => Some (t', ODone)
      | None => None
      end
  end.

Fixpoint hrun (t : mnode) (ops : list hop) : option (mnode * list hobs) :=
  match ops with
  | [] => Some (t, [])
  | op :: r =>
      match hstep t op with
      | Some (t1, o) =>
          match hrun t1 r with
          | Some (t2, os) => Some (t2, o :: os)
          | None => None
          end
      | None => None
      end
  end.

(* the tree and the result after every call, up to the first call that names no element *)
Fixpoint htrace (t : mnode) (ops : list hop) : list (mnode * hobs) :=
  match ops with
  | [] => []
  | op :: r =>
      match hstep t op with
      | Some (t1, o) => (t1, o) :: htrace t1 r
      | None => []
      end
  end.
End WithSerialiser.

(* a history without its observers *)
Definition mutators (ops : list hop) : list hop := filter (fun op => negb (is_observer op)) ops.
