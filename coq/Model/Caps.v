(* Caps.v — model of ncclient/capabilities.py (after fix 03021e9):
   _abbreviate, Capability.from_uri, _parse_parameter_string, _Parameter.from_string,
   Capabilities.__init__/add/__getitem__/__contains__.
   Strings are octet lists (UTF-8); every separator involved is ASCII. *)
From Coq Require Import String.
From NC Require Import Model.Base Model.Lit.

Definition COLON : N := 58%N.  Definition QMARK : N := 63%N.
Definition AMP : N := 38%N.    Definition EQ : N := 61%N.

Definition s_urn := Eval compute in lit "urn"%string.
Definition s_ietf := Eval compute in lit "ietf"%string.
Definition s_params := Eval compute in lit "params"%string.
Definition s_netconf := Eval compute in lit "netconf"%string.
Definition s_xml := Eval compute in lit "xml"%string.
Definition s_ns := Eval compute in lit "ns"%string.
Definition s_capability := Eval compute in lit "capability"%string.
Definition s_base := Eval compute in lit "base"%string.

Definition prefix_a : list bytes := [s_urn; s_ietf; s_params; s_netconf].
Definition prefix_b : list bytes := [s_urn; s_ietf; s_params; s_xml; s_ns; s_netconf].

(* outcome of an evaluation that may hit a Python exception *)
Inductive res (A : Type) : Type :=
| Ok : A -> res A
| KeyError : res A
| Crash : N -> res A.          (* any other exception; 1 = IndexError *)
Arguments Ok {A}. Arguments KeyError {A}. Arguments Crash {A}.

(* rest[i] — Python list indexing, IndexError when out of range *)
Definition index {A} (l : list A) (i : nat) : res A :=
  match nth_error l i with Some x => Ok x | None => Crash 1 end.

(* body of the for-loop of _abbreviate for one prefix: None = `continue`/fall through *)
Definition abbrev_with (prefix splitted : list bytes) : res (option (list bytes)) :=
  let n := length prefix in
  let rest := skipn n splitted in
  if negb (list_beq beq (firstn n splitted) prefix) then Ok None
  else if (3 <=? length rest)%nat && beq (nth 0 rest []) s_capability then
    match index rest 1, index rest 2 with
    | Ok name, Ok version =>
        Ok (Some [COLON :: name; COLON :: name ++ COLON :: version])
    | Crash e, _ | _, Crash e => Crash e
    | _, _ => Crash 0
    end
  else if (2 <=? length rest)%nat && beq (nth 0 rest []) s_base then
    match index rest 1 with
    | Ok v => Ok (Some [COLON :: s_base; COLON :: s_base ++ COLON :: v])
    | Crash e => Crash e
    | KeyError => Crash 0
    end
  else Ok None.

Definition abbreviate (uri : bytes) : res (list bytes) :=
  let splitted := split_on COLON uri in
  match abbrev_with prefix_a splitted with
  | Crash e => Crash e | KeyError => Crash 0
  | Ok (Some l) => Ok l
  | Ok None =>
      match abbrev_with prefix_b splitted with
      | Crash e => Crash e | KeyError => Crash 0
      | Ok (Some l) => Ok l
      | Ok None => Ok []
      end
  end.

(* _Parameter.from_string: `key, value = string.split("=")` — exactly two pieces *)
Definition param_of (s : bytes) : option (bytes * bytes) :=
  match split_on EQ s with
  | [k; v] => Some (k, v)
  | _ => None
  end.

(* dict comprehension over the valid parameters, in order: later duplicates overwrite *)
Fixpoint params_fold (ps : list bytes) (d : list (bytes * bytes)) : list (bytes * bytes) :=
  match ps with
  | [] => d
  | p :: ps' => match param_of p with
                | Some (k, v) => params_fold ps' (dict_set k v d)
                | None => params_fold ps' d
                end
  end.

Record capability := { ns_uri : bytes; parameters : list (bytes * bytes) }.

(* Capability.from_uri *)
Definition from_uri (uri : bytes) : capability :=
  match split_on QMARK uri with
  | ns :: pstr :: _ => {| ns_uri := ns; parameters := params_fold (split_on AMP pstr) [] |}
  | ns :: [] => {| ns_uri := ns; parameters := [] |}
  | [] => {| ns_uri := []; parameters := [] |}   (* unreachable *)
  end.

(* Capabilities: insertion-ordered dict uri -> capability *)
Definition caps := list (bytes * capability).

Definition caps_add (d : caps) (uri : bytes) : caps := dict_set uri (from_uri uri) d.
Definition caps_of (uris : list bytes) : caps := fold_left caps_add uris [].

(* the for-loop of __getitem__ over self._dict.values() *)
Fixpoint scan_abbrev (key : bytes) (d : caps) : res capability :=
  match d with
  | [] => KeyError
  | (_, c) :: d' =>
      match abbreviate (ns_uri c) with
      | Crash e => Crash e
      | KeyError => Crash 0
      | Ok l => if mem_bytes key l then Ok c else scan_abbrev key d'
      end
  end.

Definition getitem (d : caps) (key : bytes) : res capability :=
  match dict_get key d with
  | Some c => Ok c
  | None => scan_abbrev key d
  end.

(* __contains__: only KeyError is caught *)
Definition contains_key (d : caps) (key : bytes) : res bool :=
  match getitem d key with
  | Ok _ => Ok true
  | KeyError => Ok false
  | Crash e => Crash e
  end.

(* Capabilities.remove(uri): `if uri in self._dict: del self._dict[uri]`; histories of add/remove *)
Definition caps_remove (d : caps) (uri : bytes) : caps := filter (fun kv => negb (beq uri (fst kv))) d.
Inductive cop := OAdd (u : bytes) | ORemove (u : bytes).
Definition apply_op (d : caps) (o : cop) : caps :=
  match o with OAdd u => caps_add d u | ORemove u => caps_remove d u end.
Definition caps_after (uris : list bytes) (ops : list cop) : caps := fold_left apply_op ops (caps_of uris).
