(* Model/Close.v — C12: life-cycle of ONE session at the granularity of its flags and of the
   worker loop (ncclient/transport/{ssh,tls,unixSocket}.py close, session.py Session.run,
   operations/session.py CloseSession.request, manager.py connect_* cleanup, Manager.__exit__).
   Definitions only.  The model follows the repaired code (F11a-h, F12).

   A labelled transition system [step : state -> label -> option state]; the environment
   (what select/recv answer, whether paramiko's transport is still active, how many messages
   a read completes, thread interleaving) is the label sequence itself, over which the
   theorems quantify.  The only OS facts built into [step] (oracle hypotheses, validated on
   real sockets by tools/props/c12.py):
     (O1) TLS/Unix: a read BEGUN after the local close of the socket returns no data (EOF or
          an error).  NOT assumed for SSH: a paramiko channel still hands out the (finite) data
          it had buffered before the transport was closed.  For SSH the channel buffer is
          explicit instead (field [chan], label [Arrive]):
     (O4) SSH: a chunk enters the channel buffer only while the transport is open: once
          Transport.close() has returned (or is_active() was found false) paramiko's transport
          thread feeds nothing more into the channel;
     (O5) SSH: channel.recv(BUF_SIZE) returns data only out of that buffer, oldest chunk first,
          one chunk per call, and returns b'' only when the buffer is empty;
     (O2) closing the socket / paramiko transport (or finding the transport already
          inactive) closes the connection towards the peer;
     (O3) join returns "not alive" only after the worker's run() has ended;
     (O6) a read that SLEEPS inside the transport (state [WBlocked]: select reported the handle
          readable but recv has nothing to return - on TLS an incomplete record or a record
          without application data, elsewhere spurious readiness - and the peer stays silent)
          is woken by the local shutdown/close of the handle and then returns without data
          (b'' or an error); while the handle is open it returns only if the environment acts
          (label [Unblock]: the peer sends the rest, the socket time-out expires).  The closing
          flag alone does not wake it: in [WBlocked] with the handle open no worker label is
          enabled.  This is what TLS/Unix close() call shutdown(SHUT_RDWR) for before close(),
          and what paramiko's Transport.close() does to a channel recv. *)
From NC Require Import Model.Base.

Inductive transport := Ssh | Tls | Unix.
Inductive actor := Client | Worker.

(* the statements of a close() body *)
Inductive cstep := SetClosing | ClearConn | CloseHandle | JoinW | ChanDrop.

(* the order in which each transport's close() performs them *)
Definition close_prog (t : transport) : list cstep :=
  match t with
  | Ssh => [SetClosing; ClearConn; CloseHandle; JoinW; ChanDrop; ClearConn]
  | Tls => [SetClosing; CloseHandle; ClearConn; JoinW]
  | Unix => [SetClosing; CloseHandle; ClearConn; JoinW]
  end.

(* where a close() called on the worker thread returns to *)
Inductive ret := RExit | RDispatch (n : nat).

(* program counter of Session.run *)
Inductive wpc :=
| WNotStarted
| WTop                          (* loop head (register / dequeue / write happen here) *)
| WSelecting                    (* inside s.select(TICK) *)
| WReady                        (* select reported the handle: about to read *)
| WReading (open_at_begin : bool)
| WBlocked                      (* asleep inside _transport_read: begun on an open handle, nothing to return (O6) *)
| WDispatching (n : nat)        (* n complete messages of this read still to dispatch, n > 0 *)
| WAfterTimeout                 (* select reported nothing: about to test the closing flag *)
| WAfterEof                     (* read returned b'': about to test the closing flag *)
| WBreak                        (* left the loop cleanly: about to broadcast SessionCloseError *)
| WRaised                       (* an exception is propagating to run()'s handler *)
| WErrDone (clean : bool)       (* broadcast done; clean: about to return; else about to call close() *)
| WClosing (rest : list cstep) (k : ret)   (* inside close() called on the worker thread *)
| WExited.

Inductive phase := PFresh | PHandle | PHello | PUp | PFailing | PFailed.
Inductive csphase := CsIdle | CsRequested | CsClosed | CsReturned.

Inductive rres := RData (n : nat) | REof | RErr.

Inductive label :=
(* connect: socket/transport created; connect()'s own cleanup (tls/unix); connect raises;
   _connected := True (ssh: and _closing.clear()); thread start; hello received *)
| OpenHandle | SockCleanup | ConnectFail | SetConn | Start | HelloOk
(* client threads *)
| Submit (rid : N) (accepted : bool)          (* Session.send of a registered request *)
| CloseCall
| CStep (a : actor) (c : cstep) (did : bool)  (* one statement of close(); did=false: guarded statement skipped *)
| CloseRet (a : actor)
| CsBegin | CsRet                             (* CloseSession.request: enter / leave (finally: close) *)
| MgrExit (exc : bool)                        (* Manager.__exit__ (marker; it calls close_session) *)
(* worker thread *)
| Raise                                       (* register/write/send_ready raised at the loop head *)
| SelectBegin | Select (ready : bool)
| ReadBegin | Read (r : rres)
| ChkClosing (b : bool)
| Dispatch (rid : option N)                   (* _dispatch_message; Some rid: the reply of request rid *)
| CbRaise                                     (* parser or a listener callback raised *)
| CbClose (rid : option N)                    (* like Dispatch, and one of the callbacks calls session.close() *)
| ErrBroadcast | WorkerCloseCall | Exit
(* environment, SSH only: paramiko's transport thread appends one chunk to the channel buffer
   (n = number of NETCONF messages that chunk will complete when the worker parses it) *)
| Arrive (n : nat)
(* environment, every transport: the read in progress finds nothing to return and sleeps /
   something makes it go on while the handle is still open (O6) *)
| Block | Unblock.

Record state := mk {
  tr : transport;
  ph : phase;
  connected : bool;
  closing : bool;
  socket_open : bool;
  peer_saw_eof : bool;
  worker : wpc;
  cprog : option (list cstep);    (* Some rest: a client thread is inside close() *)
  pending : list N;               (* accepted, neither answered nor failed *)
  failed : list N;
  answered : list N;
  late : list N;                  (* accepted after the worker's last error broadcast *)
  accepted_early : list N;        (* ghost: every rid that ever entered [pending] *)
  cs : csphase;
  client_closed : bool;           (* ghost: a close() called by a client thread has returned *)
  callbacks_after_close : N;      (* ghost: listener invocations after that *)
  sel_after_close : N;            (* ghost: select calls begun with closing set and the handle closed *)
  chan : list nat                 (* SSH: chunks buffered in paramiko's channel, oldest first; a chunk is what one
                                     recv(BUF_SIZE) returns, represented by the number of messages it completes *)
}.

Definition init (t : transport) : state :=
  mk t PFresh false false false false WNotStarted None [] [] [] [] [] CsIdle false 0 0 [].

(* ---- field updates ---- *)
Definition w_ph s x := mk (tr s) x (connected s) (closing s) (socket_open s) (peer_saw_eof s) (worker s) (cprog s) (pending s) (failed s) (answered s) (late s) (accepted_early s) (cs s) (client_closed s) (callbacks_after_close s) (sel_after_close s) (chan s).
Definition w_connected s x := mk (tr s) (ph s) x (closing s) (socket_open s) (peer_saw_eof s) (worker s) (cprog s) (pending s) (failed s) (answered s) (late s) (accepted_early s) (cs s) (client_closed s) (callbacks_after_close s) (sel_after_close s) (chan s).
Definition w_closing s x := mk (tr s) (ph s) (connected s) x (socket_open s) (peer_saw_eof s) (worker s) (cprog s) (pending s) (failed s) (answered s) (late s) (accepted_early s) (cs s) (client_closed s) (callbacks_after_close s) (sel_after_close s) (chan s).
Definition w_handle s (o e : bool) := mk (tr s) (ph s) (connected s) (closing s) o e (worker s) (cprog s) (pending s) (failed s) (answered s) (late s) (accepted_early s) (cs s) (client_closed s) (callbacks_after_close s) (sel_after_close s) (chan s).
Definition w_worker s x := mk (tr s) (ph s) (connected s) (closing s) (socket_open s) (peer_saw_eof s) x (cprog s) (pending s) (failed s) (answered s) (late s) (accepted_early s) (cs s) (client_closed s) (callbacks_after_close s) (sel_after_close s) (chan s).
Definition w_cprog s x := mk (tr s) (ph s) (connected s) (closing s) (socket_open s) (peer_saw_eof s) (worker s) x (pending s) (failed s) (answered s) (late s) (accepted_early s) (cs s) (client_closed s) (callbacks_after_close s) (sel_after_close s) (chan s).
Definition w_reqs s (p f a l e : list N) := mk (tr s) (ph s) (connected s) (closing s) (socket_open s) (peer_saw_eof s) (worker s) (cprog s) p f a l e (cs s) (client_closed s) (callbacks_after_close s) (sel_after_close s) (chan s).
Definition w_cs s x := mk (tr s) (ph s) (connected s) (closing s) (socket_open s) (peer_saw_eof s) (worker s) (cprog s) (pending s) (failed s) (answered s) (late s) (accepted_early s) x (client_closed s) (callbacks_after_close s) (sel_after_close s) (chan s).
Definition w_client_closed s x := mk (tr s) (ph s) (connected s) (closing s) (socket_open s) (peer_saw_eof s) (worker s) (cprog s) (pending s) (failed s) (answered s) (late s) (accepted_early s) (cs s) x (callbacks_after_close s) (sel_after_close s) (chan s).
Definition w_cb s x := mk (tr s) (ph s) (connected s) (closing s) (socket_open s) (peer_saw_eof s) (worker s) (cprog s) (pending s) (failed s) (answered s) (late s) (accepted_early s) (cs s) (client_closed s) x (sel_after_close s) (chan s).
Definition w_sel s x := mk (tr s) (ph s) (connected s) (closing s) (socket_open s) (peer_saw_eof s) (worker s) (cprog s) (pending s) (failed s) (answered s) (late s) (accepted_early s) (cs s) (client_closed s) (callbacks_after_close s) x (chan s).
Definition w_chan s x := mk (tr s) (ph s) (connected s) (closing s) (socket_open s) (peer_saw_eof s) (worker s) (cprog s) (pending s) (failed s) (answered s) (late s) (accepted_early s) (cs s) (client_closed s) (callbacks_after_close s) (sel_after_close s) x.

(* ---- small decidable helpers ---- *)
Definition cstep_eqb (a b : cstep) : bool :=
  match a, b with
  | SetClosing, SetClosing | ClearConn, ClearConn | CloseHandle, CloseHandle
  | JoinW, JoinW | ChanDrop, ChanDrop => true
  | _, _ => false
  end.

Definition is_ssh (t : transport) : bool := match t with Ssh => true | _ => false end.

Definition not_alive (w : wpc) : bool := match w with WNotStarted | WExited => true | _ => false end.

(* the worker has performed its last error broadcast *)
Definition past_broadcast (w : wpc) : bool :=
  match w with WErrDone _ | WClosing _ RExit | WExited => true | _ => false end.

Fixpoint mem_N (x : N) (l : list N) : bool :=
  match l with [] => false | y :: l' => N.eqb x y || mem_N x l' end.
Fixpoint remove_N (x : N) (l : list N) : list N :=
  match l with [] => [] | y :: l' => if N.eqb x y then l' else y :: remove_N x l' end.

Definition closed_locally (s : state) : bool := closing s && negb (socket_open s).

(* a listener is invoked: counted once a client close() has returned *)
Definition note_cb (s : state) : state :=
  if client_closed s then w_cb s (callbacks_after_close s + 1) else s.

Definition after_dispatch (n : nat) : wpc := match n with O => WTop | S _ => WDispatching n end.

(* effect of one statement of close() executed by actor a *)
Definition do_cstep (s : state) (a : actor) (c : cstep) (did : bool) : option state :=
  match c with
  | SetClosing => if did then Some (w_closing s true) else None
  | ClearConn => if did then Some (w_connected s false) else None
  | CloseHandle =>
      (* did = false: SSH only, `if self._transport.is_active()` was false; by (O2) the
         inactive transport has closed its socket *)
      if did || is_ssh (tr s) then Some (w_handle s false true) else None
  | JoinW =>
      match a with
      | Worker => if did then None else Some s           (* never joins itself *)
      | Client =>
          if did then (match worker s with WExited => Some s | _ => None end)   (* (O3) *)
          else if not_alive (worker s) then Some s else None
      end
  | ChanDrop => if did then Some s else None      (* only SSH's program contains it *)
  end.

Definition step (s : state) (l : label) : option state :=
  match l with
  (* ---------------- connect ---------------- *)
  | OpenHandle =>
      match ph s with PFresh => Some (w_ph (w_handle s true false) PHandle) | _ => None end
  | SockCleanup =>
      match ph s with
      | PHandle => if is_ssh (tr s) then None else Some (w_ph (w_handle s false true) PFailed)
      | _ => None end
  | ConnectFail =>
      match ph s with
      | PFresh => Some (w_ph s PFailed)
      | PHandle => if is_ssh (tr s) then Some (w_ph s PFailing) else None
      | PHello => Some (w_ph s PFailing)
      | _ => None end
  | SetConn =>
      match ph s with PHandle => Some (w_ph (w_closing (w_connected s true) false) PHello) | _ => None end
  | Start =>
      match ph s, worker s with
      | PHello, WNotStarted => Some (w_worker s WTop)
      | _, _ => None end
  | HelloOk =>
      match ph s, worker s with
      | PHello, WNotStarted => None
      | PHello, _ => Some (w_ph s PUp)
      | _, _ => None end
  (* ---------------- client ---------------- *)
  | Submit rid acc =>
      match ph s with
      | PUp =>
          if negb (Bool.eqb acc (connected s)) then None
          else if negb acc then Some s
          else if past_broadcast (worker s)
               then Some (w_reqs s (pending s) (failed s) (answered s) (rid :: late s) (accepted_early s))
               else Some (w_reqs s (rid :: pending s) (failed s) (answered s) (late s) (rid :: accepted_early s))
      | _ => None end
  | CloseCall =>
      match cprog s, ph s with
      | None, PUp | None, PFailing => Some (w_cprog s (Some (close_prog (tr s))))
      | _, _ => None end
  | CStep Client c did =>
      match cprog s with
      | Some (c' :: rest) =>
          if cstep_eqb c c' then
            match do_cstep s Client c did with
            | Some s' => Some (w_cprog s' (Some rest))
            | None => None end
          else None
      | _ => None end
  | CloseRet Client =>
      match cprog s with
      | Some [] =>
          let s1 := w_client_closed (w_cprog s None) true in
          let s2 := match ph s1 with PFailing => w_ph s1 PFailed | _ => s1 end in
          Some (match cs s2 with CsRequested => w_cs s2 CsClosed | _ => s2 end)
      | _ => None end
  | CsBegin =>
      match ph s, cs s with PUp, CsIdle => Some (w_cs s CsRequested) | _, _ => None end
  | CsRet =>
      match cs s with CsClosed => Some (w_cs s CsReturned) | _ => None end
  | MgrExit _ =>
      match ph s with PUp => Some s | _ => None end
  (* ---------------- worker ---------------- *)
  | Raise =>
      match worker s with WTop => Some (w_worker s WRaised) | _ => None end
  | SelectBegin =>
      match worker s with
      | WTop => let s1 := w_worker s WSelecting in
                Some (if closed_locally s then w_sel s1 (sel_after_close s + 1) else s1)
      | _ => None end
  | Select ready =>
      match worker s with
      | WSelecting => Some (w_worker s (if ready then WReady else WAfterTimeout))
      | _ => None end
  | ReadBegin =>
      match worker s with WReady => Some (w_worker s (WReading (socket_open s))) | _ => None end
  | Read r =>
      match worker s with
      | WBlocked =>
          (* (O6) woken by the local shutdown/close of the handle, and only by that; no data *)
          if socket_open s then None else
          match r with
          | RData _ => None
          | REof => if is_ssh (tr s) then
                      match chan s with [] => Some (w_worker s WAfterEof) | _ :: _ => None end   (* (O5) *)
                    else Some (w_worker s WAfterEof)
          | RErr => Some (w_worker s WRaised)
          end
      | WReading o =>
          match r with
          | RData n =>
              if is_ssh (tr s) then
                match chan s with                                                                (* (O5) *)
                | c :: rest => if Nat.eqb c n then Some (w_chan (w_worker s (after_dispatch n)) rest) else None
                | [] => None
                end
              else if o then Some (w_worker s (after_dispatch n)) else None                      (* (O1) *)
          | REof =>
              if is_ssh (tr s) then
                match chan s with [] => Some (w_worker s WAfterEof) | _ :: _ => None end         (* (O5) *)
              else Some (w_worker s WAfterEof)
          | RErr => Some (w_worker s WRaised)
          end
      | _ => None end
  | ChkClosing b =>
      if negb (Bool.eqb b (closing s)) then None else
      match worker s with
      | WAfterTimeout => Some (w_worker s (if b then WBreak else WTop))
      | WAfterEof => Some (w_worker s (if b then WBreak else WRaised))
      | _ => None end
  | Dispatch rid =>
      match worker s with
      | WDispatching (S n) =>
          let s1 := note_cb (w_worker s (after_dispatch n)) in
          match rid with
          | None => Some s1
          | Some r => if mem_N r (pending s)
                      then Some (w_reqs s1 (remove_N r (pending s)) (failed s) (r :: answered s) (late s) (accepted_early s))
                      else None
          end
      | _ => None end
  | CbRaise =>
      match worker s with WDispatching _ => Some (w_worker s WRaised) | _ => None end
  | CbClose rid =>
      match worker s with
      | WDispatching (S n) =>
          let s1 := note_cb (w_worker s (WClosing (close_prog (tr s)) (RDispatch n))) in
          match rid with
          | None => Some s1
          | Some r => if mem_N r (pending s)
                      then Some (w_reqs s1 (remove_N r (pending s)) (failed s) (r :: answered s) (late s) (accepted_early s))
                      else None
          end
      | _ => None end
  | ErrBroadcast =>
      let fail_all s1 := w_reqs s1 [] (pending s ++ failed s) (answered s) (late s) (accepted_early s) in
      match worker s with
      | WBreak => Some (note_cb (fail_all (w_worker s (WErrDone true))))
      | WRaised => Some (note_cb (fail_all (w_worker s (WErrDone false))))
      | _ => None end
  | WorkerCloseCall =>
      match worker s with
      | WErrDone false => Some (w_worker s (WClosing (close_prog (tr s)) RExit))
      | _ => None end
  | CStep Worker c did =>
      match worker s with
      | WClosing (c' :: rest) k =>
          if cstep_eqb c c' then
            match do_cstep s Worker c did with
            | Some s' => Some (w_worker s' (WClosing rest k))
            | None => None end
          else None
      | _ => None end
  | CloseRet Worker =>
      match worker s with
      | WClosing [] RExit => Some (w_worker s (WErrDone true))
      | WClosing [] (RDispatch n) => Some (w_worker s (after_dispatch n))
      | _ => None end
  | Exit =>
      match worker s with WErrDone true => Some (w_worker s WExited) | _ => None end
  (* ---------------- environment (SSH channel) ---------------- *)
  | Arrive n =>
      if is_ssh (tr s) && socket_open s then Some (w_chan s (chan s ++ [n])) else None       (* (O4) *)
  (* ---------------- environment (a read that sleeps, O6) ---------------- *)
  | Block =>
      match worker s with
      | WReading true => if socket_open s then Some (w_worker s WBlocked) else None
      | _ => None end
  | Unblock =>
      match worker s with
      | WBlocked => if socket_open s then Some (w_worker s (WReading true)) else None
      | _ => None end
  end.

(* run a label sequence: Some final state iff every label is accepted *)
Fixpoint accepts (s : state) (ls : list label) : option state :=
  match ls with
  | [] => Some s
  | l :: ls' => match step s l with Some s' => accepts s' ls' | None => None end
  end.

(* for the runner: number of labels accepted and the state reached *)
Fixpoint accepts_prefix (s : state) (ls : list label) (k : N) : N * state :=
  match ls with
  | [] => (k, s)
  | l :: ls' => match step s l with Some s' => accepts_prefix s' ls' (k + 1) | None => (k, s) end
  end.

(* labels performed by the worker thread *)
Definition is_worker_label (l : label) : bool :=
  match l with
  | Raise | SelectBegin | Select _ | ReadBegin | Read _ | ChkClosing _ | Dispatch _ | CbRaise | CbClose _
  | ErrBroadcast | WorkerCloseCall | Exit | CStep Worker _ _ | CloseRet Worker => true
  | _ => false
  end.

(* worker labels that consume one already-read message *)
Definition is_dispatch_label (l : label) : bool :=
  match l with Dispatch _ | CbClose _ => true | _ => false end.

(* worker labels that invoke listeners *)
Definition is_callback_label (l : label) : bool :=
  match l with Dispatch _ | CbClose _ | ErrBroadcast => true | _ => false end.

Definition is_select_begin (l : label) : bool := match l with SelectBegin => true | _ => false end.
Definition is_arrive (l : label) : bool := match l with Arrive _ => true | _ => false end.

(* upper bound on the number of non-dispatch worker steps left once the session is closed locally *)
Definition wfuel (w : wpc) : nat :=
  match w with
  | WNotStarted => 0
  | WExited => 0
  | WErrDone true => 1
  | WBreak => 2
  | WClosing rest RExit => length rest + 2
  | WErrDone false => 9
  | WRaised => 10
  | WAfterTimeout | WAfterEof => 11
  | WReading false => 12
  | WBlocked => 12
  | WReady => 13
  | WSelecting => 14
  | WTop => 15
  | WDispatching _ => 16
  | WReading true => 17
  | WClosing rest (RDispatch _) => length rest + 17
  end.

(* ---- SSH: the worker drains the channel buffer ---- *)
(* loop iterations (select calls) the worker may still BEGIN without consuming a chunk first *)
Definition sel_credit (w : wpc) : nat :=
  match w with
  | WNotStarted | WTop | WDispatching _ | WClosing _ (RDispatch _) => 1
  | _ => 0
  end.

(* worker steps left, all of them (dispatches included), the buffered chunks apart *)
Definition sfuel (w : wpc) : nat :=
  match w with
  | WExited => 0
  | WErrDone true => 1
  | WBreak => 2
  | WClosing rest RExit => length rest + 2
  | WErrDone false => 9
  | WRaised => 10
  | WAfterTimeout | WAfterEof => 11
  | WReading _ => 13
  | WBlocked => 13
  | WReady => 14
  | WSelecting => 15
  | WTop => 16
  | WNotStarted => 16
  | WDispatching n => 16 + 8 * n
  | WClosing rest (RDispatch n) => length rest + 17 + 8 * n
  end.

(* worker steps one buffered chunk costs: the rest of the iteration that reads it, its
   dispatches (8 each: a callback may run a whole close()), and the next iteration up to the read *)
Fixpoint chan_cost (l : list nat) : nat :=
  match l with [] => 0 | c :: l' => 4 + 8 * c + chan_cost l' end.

Definition smeasure (s : state) : nat := sfuel (worker s) + chan_cost (chan s).
