(* RpcErrors.v — model of rpc-error surfacing (property C06), after fixes F4, F5, F7:
     ncclient/operations/rpc.py    RPCError.__init__ (single and aggregate), RPCReply.parse/ok/error/errors,
                                   RPC._request (raise decision, l.364-374)
     ncclient/devices/default.py   DefaultDeviceHandler.__init__ (pattern classification), is_rpc_error_exempt
     ncclient/manager.py           _extract_errors_params (defaults)
   Replies are abstract trees as lxml presents them to the code: Clark-notation tag, the text
   before the first child ([None] when there is none), children in document order (comments and
   processing instructions are children whose tag is no string: modelled by a tag that equals no
   qualified name, e.g. the empty one), and [ser], an oracle string standing for [to_xml(element)].
   Strings are UTF-8 octet lists.  [lower]/[strip] are Python's str.lower()/str.strip() on the
   modelled domain: every octet < 0x80 (ASCII).  Definitions only; proofs in Proofs/RpcErrorsProofs.v. *)
From Coq Require Import String.
From NC Require Import Model.Base Model.Lit.

(* ---------- reply trees ---------- *)
Inductive node : Type :=
| Elem (tag : bytes) (attrs : list (bytes * bytes)) (text : option bytes) (ser : bytes) (kids : list node).

Definition tag_of (n : node) : bytes := match n with Elem t _ _ _ _ => t end.
Definition text_of (n : node) : option bytes := match n with Elem _ _ x _ _ => x end.
Definition ser_of (n : node) : bytes := match n with Elem _ _ _ s _ => s end.
Definition kids_of (n : node) : list node := match n with Elem _ _ _ _ k => k end.

(* element.iter(): the element itself, then its descendants, in document order *)
Fixpoint subtree (n : node) : list node :=
  match n with Elem _ _ _ _ ks => n :: flat_map subtree ks end.
(* the nodes './/' ranges over: proper descendants in document order *)
Definition descendants (n : node) : list node := flat_map subtree (kids_of n).

Definition q_ok := Eval compute in lit "{urn:ietf:params:xml:ns:netconf:base:1.0}ok"%string.
Definition q_rpc_error := Eval compute in lit "{urn:ietf:params:xml:ns:netconf:base:1.0}rpc-error"%string.
Definition q_error_type := Eval compute in lit "{urn:ietf:params:xml:ns:netconf:base:1.0}error-type"%string.
Definition q_error_tag := Eval compute in lit "{urn:ietf:params:xml:ns:netconf:base:1.0}error-tag"%string.
Definition q_error_app_tag := Eval compute in lit "{urn:ietf:params:xml:ns:netconf:base:1.0}error-app-tag"%string.
Definition q_error_severity := Eval compute in lit "{urn:ietf:params:xml:ns:netconf:base:1.0}error-severity"%string.
Definition q_error_info := Eval compute in lit "{urn:ietf:params:xml:ns:netconf:base:1.0}error-info"%string.
Definition q_error_path := Eval compute in lit "{urn:ietf:params:xml:ns:netconf:base:1.0}error-path"%string.
Definition q_error_message := Eval compute in lit "{urn:ietf:params:xml:ns:netconf:base:1.0}error-message"%string.

Definition named (t : bytes) (n : node) : bool := beq (tag_of n) t.

(* ---------- RPCError(raw): one rpc-error element ---------- *)
Record rpc_error : Type := mkErr {
  e_type : option bytes; e_tag : option bytes; e_app_tag : option bytes; e_severity : option bytes;
  e_info : option bytes; e_path : option bytes; e_message : option bytes }.

Definition err_empty : rpc_error := mkErr None None None None None None None.

(* body of `for subele in raw`: tag_to_attr.get(subele.tag), then setattr *)
Definition set_field (e : rpc_error) (c : node) : rpc_error :=
  let t := tag_of c in
  if beq t q_error_type then mkErr (text_of c) (e_tag e) (e_app_tag e) (e_severity e) (e_info e) (e_path e) (e_message e)
  else if beq t q_error_tag then mkErr (e_type e) (text_of c) (e_app_tag e) (e_severity e) (e_info e) (e_path e) (e_message e)
  else if beq t q_error_app_tag then mkErr (e_type e) (e_tag e) (text_of c) (e_severity e) (e_info e) (e_path e) (e_message e)
  else if beq t q_error_severity then mkErr (e_type e) (e_tag e) (e_app_tag e) (text_of c) (e_info e) (e_path e) (e_message e)
  else if beq t q_error_info then mkErr (e_type e) (e_tag e) (e_app_tag e) (e_severity e) (Some (ser_of c)) (e_path e) (e_message e)
  else if beq t q_error_path then mkErr (e_type e) (e_tag e) (e_app_tag e) (e_severity e) (e_info e) (text_of c) (e_message e)
  else if beq t q_error_message then mkErr (e_type e) (e_tag e) (e_app_tag e) (e_severity e) (e_info e) (e_path e) (text_of c)
  else e.

Definition mk_error (raw : node) : rpc_error := fold_left set_field (kids_of raw) err_empty.

(* ---------- RPCReply.parse / errors / ok / error ---------- *)
(* root.find(qualify("ok")): first direct child with that tag *)
Definition find_child (t : bytes) (root : node) : option node := find (named t) (kids_of root).

Definition parse_errors (root : node) : list rpc_error :=
  match find_child q_ok root with
  | Some _ => []                                              (* <ok/> present: rpc-errors are not looked at *)
  | None =>
      match find (named q_rpc_error) (descendants root) with  (* root.find('.//'+qualify('rpc-error')) *)
      | None => []
      | Some error => map mk_error (filter (named (tag_of error)) (subtree root))   (* root.getiterator(error.tag) *)
      end
  end.

Definition reply_ok (root : node) : bool := match parse_errors root with [] => true | _ => false end.
Definition reply_error (root : node) : option rpc_error := hd_error (parse_errors root).

(* ---------- Python str built-ins on the modelled domain ---------- *)
Definition lower_byte (c : N) : N := if (65 <=? c) && (c <=? 90) then c + 32 else c.
Definition lower (s : bytes) : bytes := map lower_byte s.
(* str.isspace() below 0x80: TAB LF VT FF CR, FS GS RS US, SPACE *)
Definition is_space (c : N) : bool := ((9 <=? c) && (c <=? 13)) || ((28 <=? c) && (c <=? 32)).
Fixpoint lstrip (s : bytes) : bytes :=
  match s with
  | c :: s' => if is_space c then lstrip s' else s
  | [] => []
  end.
Definition strip (s : bytes) : bytes := rev (lstrip (rev (lstrip s))).
Definition endswith (s p : bytes) : bool := prefixb (rev p) (rev s).
Definition modelled_text (s : bytes) : Prop := Forall (fun c => c < 128) s.

(* ---------- RPCError(raw, errs=errors): the aggregate ---------- *)
Definition s_error := Eval compute in lit "error"%string.
Definition s_warning := Eval compute in lit "warning"%string.
Definition s_undefined := Eval compute in lit "undefined"%string.
Definition s_no_message := Eval compute in lit "not an error message in the reply. Enable debug"%string.
Definition s_colon_space := Eval compute in lit ": "%string.
Definition NL : N := 10.

(* `if err.severity:` — None and '' are falsy *)
Definition truthy (o : option bytes) : option bytes :=
  match o with Some (c :: s) => Some (c :: s) | _ => None end.
Definition agg_sev (e : rpc_error) : bytes := match truthy (e_severity e) with Some s => s | None => s_undefined end.
Definition agg_msg (e : rpc_error) : bytes := match truthy (e_message e) with Some s => s | None => s_no_message end.
Definition agg_line (e : rpc_error) : bytes := strip (agg_sev e) ++ s_colon_space ++ strip (agg_msg e).
Definition agg_message (es : list rpc_error) : bytes := join_with NL (map agg_line es).
Definition agg_severity (es : list rpc_error) : bytes :=
  if existsb (fun e => beq (agg_sev e) s_error) es then s_error else s_warning.

(* ---------- DefaultDeviceHandler.__init__: exempt patterns ---------- *)
Definition STAR : N := 42.
Record pclass : Type := mkP { p_exact : list bytes; p_sfx : list bytes; p_pfx : list bytes; p_infix : list bytes }.
   (* p_sfx = _exempt_errors_startwith_wildcard_match ("*x": message ends with x)
      p_pfx = _exempt_errors_endwith_wildcard_match   ("x*": message starts with x) *)
Definition pclass_empty : pclass := mkP [] [] [] [].

(* one iteration of the classification loop; e[1:-1] = removelast (tl e), e[1:] = tl e, e[:-1] = removelast e *)
Definition classify1 (c : pclass) (p : bytes) : pclass :=
  let e := lower p in
  if startswith e [STAR] then
    if endswith e [STAR] then mkP (p_exact c) (p_sfx c) (p_pfx c) (p_infix c ++ [removelast (tl e)])
    else mkP (p_exact c) (p_sfx c ++ [tl e]) (p_pfx c) (p_infix c)
  else if endswith e [STAR] then mkP (p_exact c) (p_sfx c) (p_pfx c ++ [removelast e]) (p_infix c)
  else mkP (p_exact c ++ [e]) (p_sfx c) (p_pfx c) (p_infix c).
Definition classify (pats : list bytes) : pclass := fold_left classify1 pats pclass_empty.

(* self._EXEMPT_ERRORS = list(self._EXEMPT_ERRORS) + list(ignore_errors or [])   (after fix F7) *)
Definition handler_patterns (profile : list bytes) (user : option (list bytes)) : list bytes :=
  profile ++ match user with Some u => u | None => [] end.

(* is_rpc_error_exempt(error_text) *)
Definition s_no_error_given := Eval compute in lit "no error given"%string.
Definition error_text (m : option bytes) : bytes :=
  match m with Some t => strip (lower t) | None => s_no_error_given end.
Definition exempt (c : pclass) (m : option bytes) : bool :=
  let t := error_text m in
  existsb (fun ex => beq t ex) (p_exact c)
  || existsb (fun ex => endswith t ex) (p_sfx c)
  || existsb (fun ex => startswith t ex) (p_pfx c)
  || existsb (fun ex => contains t ex) (p_infix c).

(* ---------- RPC._request: the raise decision ---------- *)
Definition MODE_NONE : N := 0. Definition MODE_ERRORS : N := 1. Definition MODE_ALL : N := 2.
Definition sev_is_error (e : rpc_error) : bool :=
  match e_severity e with Some s => beq s s_error | None => false end.

Inductive outcome : Type :=
| Return                                   (* the reply object is returned *)
| RaiseSingle (e : rpc_error)              (* raise self._reply.error *)
| RaiseAggregate (es : list rpc_error).    (* raise RPCError(to_ele(raw), errs=errors) *)

Definition decide (mode : N) (errors : list rpc_error) (c : pclass) : outcome :=
  match errors with
  | [] => Return
  | first :: rest =>
      if exempt c (e_message first) then Return
      else if N.eqb mode MODE_ALL || (N.eqb mode MODE_ERRORS && existsb sev_is_error errors) then
        match rest with
        | [] => RaiseSingle first
        | _ :: _ => RaiseAggregate errors
        end
      else Return
  end.

(* manager._extract_errors_params: (ignore_errors default [], raise_mode default ALL) *)
Definition extract_errors_params (ignore : option (list bytes)) (mode : option N) : list bytes * N :=
  (match ignore with Some l => l | None => [] end, match mode with Some m => m | None => MODE_ALL end).

(* a synchronous call on a manager built connect-style for a profile with exempt list [profile] *)
Definition call_outcome (profile : list bytes) (ignore : option (list bytes)) (mode : option N) (root : node) : outcome :=
  let (ig, m) := extract_errors_params ignore mode in
  decide m (parse_errors root) (classify (handler_patterns profile (Some ig))).
