(* JunosProcess.v — several Junos sessions in ONE process (an application polling several devices): every session has
   its own worker calling session.parser.parse(data) (Session.run); the reads of the sessions interleave in any order.
   A process state is the list of the sessions' driver states (Model/JunosParse.v for a base:1.0 session,
   Model/JunosParse11.v for a base:1.1 session); a schedule is the list of reads in the order the workers take
   them, (session index, octets).  Modelling decision (THE point of this file, tied to the code by the correspondence
   family (g) of tools/props/c18.py, read by read): a read changes the state of the session that takes it and nothing
   else -- the parser module has no state outside the session's objects: the filter a request was issued with is
   read, per reply, into a tree of the reply's handler (a copy when the caller handed over an lxml element; see the fix
   recorded in findings.d/C18.json, C18-shared-filter-element), module-level names are constants.
   Definitions only. *)
From Coq Require Import List Arith.
Import ListNotations.
From NC Require Import Model.Base Model.Utf8 Model.Framing10 Model.Framing11 Model.SaxFilter Model.JunosParse Model.JunosParse11 Model.JunosSax.

Fixpoint upd {A : Type} (k : nat) (f : A -> A) (l : list A) : list A :=
  match l, k with
  | [], _ => []
  | x :: t, O => f x :: t
  | x :: t, S k' => x :: upd k' f t
  end.

Section Process.
  Variable St : Type.
  Variable parse : St -> bytes -> St.

  (* the worker of session (fst r) takes the read (snd r) *)
  Definition pstep (ss : list St) (r : nat * bytes) : list St := upd (fst r) (fun s => parse s (snd r)) ss.
  Definition prun (ss : list St) (sched : list (nat * bytes)) : list St := fold_left pstep sched ss.

  (* what session k reads under the schedule, in order *)
  Definition reads_of (k : nat) (sched : list (nat * bytes)) : list bytes :=
    map snd (filter (fun r => Nat.eqb (fst r) k) sched).

  (* the sessions one after the other: all reads of session 0, then all reads of session 1, ... *)
  Definition one_by_one (n : nat) (sched : list (nat * bytes)) : list (nat * bytes) :=
    flat_map (fun k => map (pair k) (reads_of k sched)) (seq 0 n).
End Process.

(* the schedule the harness produces: `order` says whose turn it is, the session takes the next of its pending
   reads (a turn of a session that has none left is skipped) *)
Fixpoint deal (order : list nat) (pending : list (list bytes)) : list (nat * bytes) :=
  match order with
  | [] => []
  | k :: o => match nth k pending [] with
              | [] => deal o pending
              | r :: rs => (k, r) :: deal o (upd k (fun _ => rs) pending)
              end
  end.

(* a session of the process the correspondence runs: end-of-message or chunked framing *)
Inductive sess : Type :=
| S10 (s : JunosParse.st world xstate)
| S11 (s : dst world * pst11).

Definition sparse (s : sess) (d : bytes) : sess :=
  match s with
  | S10 s => S10 (sx_parse s d)
  | S11 s => S11 (sx_parse11 s d)
  end.

Definition sx_prun : list sess -> list (nat * bytes) -> list sess := prun sess sparse.
