(* ReplyView.v — what a reply object exposes (property C10): RPCReply.xml, GetReply.data_ele,
   GetSchemaReply.data, and the path of one synchronous call from deliver_reply to the object
   handed to the caller, with every parse site and the huge_tree flag it uses.
   Parsers are oracles: P flag raw (xml_.to_ele), Q flag raw (the remove_blank_text parser of
   NCElement on the raw reply), Q2 flag tree (the same parser on the serialised XSLT result).
   Definitions only. *)
From Coq Require Import String.
From NC Require Import Model.Base Model.Lit Model.XTree Model.XmlHelpers Model.NsStrip.

Definition NCM_NS : bytes := Eval compute in lit "urn:ietf:params:xml:ns:yang:ietf-netconf-monitoring"%string.
Definition s_ok : bytes := Eval compute in lit "ok"%string.
Definition s_err : bytes := Eval compute in lit "rpc-error"%string.
Definition s_data : bytes := Eval compute in lit "data"%string.
Definition n_ok : name := (Some BASE_NS, s_ok).
Definition n_err : name := (Some BASE_NS, s_err).
Definition n_data : name := (Some BASE_NS, s_data).
Definition n_sdata : name := (Some NCM_NS, s_data).

Inductive reply_cls := ClsPlain | ClsGet | ClsSchema.

Record reply := mkReply { r_cls : reply_cls; r_raw : bytes; r_huge : bool }.

(* RPC.deliver_reply: REPLY_CLS(raw, huge_tree=self._huge_tree) *)
Definition deliver_reply (cls : reply_cls) (raw : bytes) (huge : bool) : reply := mkReply cls raw huge.
(* RPCReply.xml *)
Definition reply_xml (r : reply) : bytes := r_raw r.

Definition is_named (n : name) (t : xnode) : bool :=
  match t with Elem m _ _ => name_eqb m n | _ => false end.
(* root.find(qualified name): the first child element of that name *)
Definition find_child (n : name) (t : xnode) : option xnode := find (is_named n) (children t).
(* root.find('.//' + name) is not None *)
Fixpoint has_desc (n : name) (t : xnode) : bool :=
  match t with
  | Elem _ _ k => existsb (fun c => is_named n c || has_desc n c) k
  | _ => false
  end.

(* RPCReply.parse: errors are collected only when there is no <ok/> child *)
Definition has_errors (root : xnode) : bool :=
  match find_child n_ok root with Some _ => false | None => has_desc n_err root end.

Definition lead_text (d : xnode) : option bytes :=
  match children d with Text s :: _ => Some s | _ => None end.

Inductive data_view :=
| DNone                       (* _data is None / the class has no data *)
| DEle (d : xnode)            (* GetReply.data_ele *)
| DText (s : option bytes)    (* GetSchemaReply.data *)
| DAttrErr.                   (* GetSchemaReply: no {monitoring}data child -> AttributeError in the hook *)

Definition data_of (cls : reply_cls) (root : xnode) : data_view :=
  match cls with
  | ClsPlain => DNone
  | ClsGet =>
      if has_errors root then DNone
      else match find_child n_data root with Some d => DEle d | None => DNone end
  | ClsSchema =>
      if has_errors root then DNone
      else match find_child n_sdata root with Some d => DText (lead_text d) | None => DAttrErr end
  end.

(* ---------- Junos reply_parsing_error_transform for GetSchemaReply (devices/junos.py
   fix_get_schema_reply): when the hook failed, the single child of {base}rpc-reply whose local
   name is "data" is moved, with its subtree, from the base namespace or from no namespace into
   the monitoring namespace; then the hook runs again ---------- *)
Definition s_reply : bytes := Eval compute in lit "rpc-reply"%string.
Definition n_reply : name := (Some BASE_NS, s_reply).

Fixpoint x_replace_ns (o n : ns) (t : xnode) : xnode :=
  match t with
  | Elem x a k => Elem (rn o n x) (rename_attrs o n a) (map (x_replace_ns o n) k)
  | other => other
  end.

Definition local_is (l : bytes) (t : xnode) : bool :=
  match t with Elem m _ _ => beq (snd m) l | _ => false end.

Definition fix_schema (root : xnode) : xnode :=
  match root with
  | Elem r a k =>
      if name_eqb r n_reply then
        match filter (local_is s_data) k with
        | [Elem (o, _) _ _] =>
            if ns_eqb o (Some BASE_NS) || ns_eqb o None
            then Elem r a (map (fun c => if local_is s_data c then x_replace_ns o (Some NCM_NS) c else c) k)
            else root
        | _ => root
        end
      else root
  | _ => root
  end.

Inductive profile := PDefault | PJunos | PAlu | PSros.

(* RPCReply.parse: the hook, retried once after the profile's transform if it raised *)
Definition hook (p : profile) (cls : reply_cls) (root : xnode) : data_view :=
  match data_of cls root with
  | DAttrErr => match p, cls with PJunos, ClsSchema => data_of cls (fix_schema root) | _, _ => DAttrErr end
  | d => d
  end.

(* ---------- one synchronous call ---------- *)
Inductive site := SReplyParse | SErrorReparse | SXsltSheet | SXsltInput | SXsltOutput.
(* what the error logic (C06) decides for this reply: nothing raised, a single RPCError raised,
   or the aggregate RPCError built from a second parse of the raw reply *)
Inductive raise_kind := RNone | RSingle | RMulti.

Inductive outcome :=
| OParseError                                  (* XMLSyntaxError out of some parse site *)
| OHookError                                   (* exception out of the parsing hook *)
| ORaised                                      (* RPCError raised to the caller *)
| OReply (r : reply) (root : xnode) (d : data_view)   (* RPCReply object (no transform) *)
| OElem (r : reply) (doc : xnode).             (* NCElement around the transformed tree *)

(* RPC._huge_tree at delivery time: the Manager's setting unless the operation forced it on *)
Definition call_flag (mgr forced : bool) : bool := mgr || forced.

Definition request (P Q : bool -> bytes -> option xnode) (Q2 : bool -> xnode -> option xnode)
           (p : profile) (cls : reply_cls) (mgr forced : bool) (rk : raise_kind) (raw : bytes)
  : outcome * list (site * bool) :=
  let f := call_flag mgr forced in
  let r := deliver_reply cls raw f in
  let log1 := [(SReplyParse, r_huge r)] in
  match P (r_huge r) raw with
  | None => (OParseError, log1)
  | Some root =>
      match hook p cls root with
      | DAttrErr => (OHookError, log1)
      | d =>
          match rk with
          | RSingle => (ORaised, log1)
          | RMulti =>
              let log2 := log1 ++ [(SErrorReparse, f)] in
              match P f raw with None => (OParseError, log2) | Some _ => (ORaised, log2) end
          | RNone =>
              match p with
              | PDefault => (OReply r root d, log1)
              | PAlu => (OElem r (alu root), log1)
              | PSros => (OElem r (sros root), log1)
              | PJunos =>
                  let log3 := log1 ++ [(SXsltSheet, f); (SXsltInput, f); (SXsltOutput, f)] in
                  match Q f raw with
                  | None => (OParseError, log3)
                  | Some t1 =>
                      match Q2 f (junos_xslt t1) with
                      | None => (OParseError, log3)
                      | Some t2 => (OElem r t2, log3)
                      end
                  end
              end
          end
      end
  end.
