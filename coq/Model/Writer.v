(* Writer.v — model of the send branch of Session.run (ncclient/transport/session.py l.208-233)
   and of Session.send (l.255-260):

       if not q.empty() and self._send_ready():
           data = q.get().encode()
           if self._base == NetconfBase.BASE_11:
               data = b"%s%s%s" % (b'\n#%i\n' % len(data), data, END_DELIM)
           else:
               data = b"%s%s" % (data, MSG_DELIM)
           while data:
               n = self._transport_write(data)
               if n <= 0: raise SessionCloseError(self._buffer.getvalue(), data)
               data = data[n:]

   A message is its UTF-8 octet list ([q.get().encode()] is the identity on this representation,
   so [length msg] IS the octet count; a character count does not exist in the model).
   The transport and the readiness test are oracles (lists of answers).  Definitions only. *)
From Coq Require Import String.
From NC Require Import Model.Base Model.Lit.

Inductive base := B10 | B11.

Definition LF : N := 10%N.
Definition HASH : N := 35%N.
Definition MSG_DELIM : bytes := Eval compute in lit "]]>]]>"%string.       (* RFC 4742 *)
Definition END_DELIM : bytes := [LF; HASH; HASH; LF].                      (* RFC 6242 *)

(* ---- b'%i' % n : decimal digits, most significant first, no sign, no padding ---- *)
Fixpoint dec_aux (fuel : nat) (n : N) (acc : bytes) : bytes :=
  match fuel with
  | O => acc                                   (* unreachable with the fuel of [decimal] *)
  | S f => if n <? 10 then (48 + n) :: acc
           else dec_aux f (n / 10) ((48 + n mod 10) :: acc)
  end.
Definition decimal (n : N) : bytes := dec_aux (S (N.to_nat (N.size n))) n [].

Definition start_delim (len : N) : bytes := LF :: HASH :: decimal len ++ [LF].

(* the octets handed to the transport for one queued message *)
Definition frame (b : base) (msg : bytes) : bytes :=
  match b with
  | B11 => start_delim (N.of_nat (length msg)) ++ msg ++ END_DELIM
  | B10 => msg ++ MSG_DELIM
  end.

(* ---- the transport oracle: what one _transport_write(data) call answers ---- *)
Inductive answer :=
| Accept (n : N)      (* returns n: n >= 1 accepted (ANY n, also n > len data); n = 0 is "closed" *)
| Neg                 (* returns a negative number *)
| Raise               (* raises (socket.error, socket.timeout of a send that waited in vain, ...) *)
| NoCount.            (* returns None (no number at all: e.g. a transport that swallowed its exception and fell off the end):
                         `n <= 0` raises TypeError before anything is sliced off - NEVER progress *)

Inductive werr :=
| SessionClose (unsent : bytes)     (* SessionCloseError(in_buf, data) *)
| TransportExc (unsent : bytes)     (* the exception of the transport, propagated *)
| CompareExc (unsent : bytes).      (* TypeError of `n <= 0` on an answer that is no number, propagated *)

Inductive wres :=
| WDone                             (* while-loop left normally: data became empty *)
| WErr (e : werr)
| WStarved (unsent : bytes).        (* oracle exhausted: the loop is still inside a frame (an observation point) *)

(* the inner while-loop.  Returns (octets the transport took, result, unused answers).
   [firstn n data] is what a transport that returns n has taken ([data[:n]]); [skipn n data] is [data[n:]]. *)
Fixpoint write_loop (data : bytes) (answers : list answer) {struct answers} : bytes * wres * list answer :=
  match data with
  | [] => ([], WDone, answers)                      (* `while data:` is false *)
  | _ :: _ =>
      match answers with
      | [] => ([], WStarved data, [])
      | Accept n :: rest =>
          if n =? 0 then ([], WErr (SessionClose data), rest)
          else let k := N.to_nat n in
               let '(w, r, rest') := write_loop (skipn k data) rest in
               (firstn k data ++ w, r, rest')
      | Neg :: rest => ([], WErr (SessionClose data), rest)
      | Raise :: rest => ([], WErr (TransportExc data), rest)
      | NoCount :: rest => ([], WErr (CompareExc data), rest)
      end
  end.

(* ---- the worker: one pass of `while True:` per readiness answer ----
   [q] is the queue content in put order (Session.send = q.put; queue.Queue is FIFO).
   _send_ready() is only evaluated when the queue is not empty (short-circuit `and`). *)
Inductive wstat :=
| Drained                                   (* queue empty, every frame complete *)
| Waiting (q : list bytes)                  (* readiness oracle exhausted between frames *)
| InFlight (unsent : bytes) (q : list bytes)  (* transport oracle exhausted inside the frame of the message before q *)
| Failed (e : werr) (q : list bytes).       (* left through `except Exception` -> _dispatch_error(e); close() *)

Fixpoint worker (b : base) (q : list bytes) (readys : list bool) (answers : list answer)
  : bytes * wstat :=
  match q with
  | [] => ([], Drained)
  | m :: q' =>
      match readys with
      | [] => ([], Waiting q)
      | false :: readys' => worker b q readys' answers
      | true :: readys' =>
          let '(w, r, answers') := write_loop (frame b m) answers in
          match r with
          | WDone => let '(w', st) := worker b q' readys' answers' in (w ++ w', st)
          | WErr e => (w, Failed e q')
          | WStarved u => (w, InFlight u q')
          end
      end
  end.

(* ---- concurrent submitters: thread t executes q.put(m) for the messages of its program
   [progs t] in program order; the queue content (put order) is any interleaving of the
   programs.  An element (t, m) of the interleaving is "thread t put m". ---- *)
Definition upd (progs : nat -> list bytes) (t : nat) (s : list bytes) : nat -> list bytes :=
  fun t' => if Nat.eqb t' t then s else progs t'.

Inductive interleaving : (nat -> list bytes) -> list (nat * bytes) -> Prop :=
| il_done : forall progs, (forall t, progs t = []) -> interleaving progs []
| il_put : forall progs t m rest out,
    progs t = m :: rest -> interleaving (upd progs t rest) out ->
    interleaving progs ((t, m) :: out).

Definition of_thread (t : nat) (q : list (nat * bytes)) : list bytes :=
  map snd (filter (fun x => Nat.eqb (fst x) t) q).
Definition queue_of (q : list (nat * bytes)) : list bytes := map snd q.
