(* HelloWait.v — which deadline the wait for the server <hello> gets, as a function of the arguments of
   manager.connect_ssh / connect / connect_tls / connect_uds  (property C05: "if no hello arrives within the
   timeout ... connect fails instead of hanging").  Definitions only.

   Source modelled (after the repairs C05-hello-timeout-not-forwarded (T) and C05-hello-wait-unbounded (U) of notes/C05.md; the flags select the code before them):
     manager.py  _extract_manager_params (l.102-108)  manager_params = kwds.pop("manager_params", {}); the top-level
                 'timeout' is COPIED into it when it has none — kwds keeps its 'timeout'
     manager.py  connect_ssh / connect_tls / connect_uds: session.connect( *args, **kwds );  connect -> connect_ssh
     ssh.py      SSHSession.connect(host, port, timeout=None, ...): `if timeout is None: timeout = config.get("connecttimeout")`
                 (only inside `if ssh_config`), ... self._post_connect(timeout)
     tls.py      TLSSession.connect(..., timeout=DEFAULT_TLS_TIMEOUT): ... self._post_connect(timeout)       (T)
     unixSocket.py UnixSocketSession.connect(path, timeout=DEFAULT_TIMEOUT): ... self._post_connect(timeout) (T)
     session.py  _post_connect(self, timeout=60): `if timeout is None: timeout = 60` (U); init_event.wait(timeout)
   Times are milliseconds (the harness multiplies seconds by 1000). *)
From NC Require Import Model.Base.

Inductive pyval := PNone | PNum (t : N).                 (* what a name `timeout` is bound to: None or a number *)
Inductive entry := EConnectSsh | EConnect | EConnectTls | EConnectUds.
Inductive transport := TSsh | TTls | TUds.
Inductive wait := Bounded (t : N) | Unbounded.           (* Event.wait(t) / Event.wait(None) *)

Definition transport_of (e : entry) : transport :=
  match e with EConnectSsh => TSsh | EConnect => TSsh | EConnectTls => TTls | EConnectUds => TUds end.

(* the caller's arguments that can carry a timeout *)
Record cargs := {
  a_pos : option pyval;     (* timeout passed positionally ( *args of session.connect) *)
  a_kw  : option pyval;     (* kwds['timeout'] — absent, None or a number *)
  a_mp  : option pyval;     (* kwds['manager_params']['timeout'] — absent (no dict, or a dict without the key) or a value *)
  a_cfg : option N          (* SSH only: ssh_config was given and has ConnectTimeout c for the host *)
}.

(* Python rejects a call that binds `timeout` twice; the theorems assume a well-formed call *)
Definition wf (a : cargs) : Prop := a_pos a = None \/ a_kw a = None.

Definition default_hello_ms : N := 60000.        (* _post_connect(self, timeout=60) *)
Definition default_tls_ms : N := 120000.         (* DEFAULT_TLS_TIMEOUT *)
Definition default_uds_ms : N := 120000.         (* unixSocket.DEFAULT_TIMEOUT *)
Definition default_manager_ms : N := 30000.      (* Manager.__init__(..., timeout=30) *)

(* _extract_manager_params: (manager_params.get('timeout'), kwds.get('timeout') afterwards).
   `pops` = the helper removes the key from kwds (it must not: the same key is the transport's timeout). *)
Definition extract_manager_params (pops : bool) (kw mp : option pyval) : option pyval * option pyval :=
  match mp with
  | Some m => (Some m, kw)
  | None => match kw with
            | Some v => (Some v, if pops then None else Some v)
            | None => (None, None)
            end
  end.

(* binding of the parameter `timeout` of <Session>.connect *)
Definition bind_timeout (dflt : pyval) (pos kw : option pyval) : pyval :=
  match pos with Some v => v | None => match kw with Some v => v | None => dflt end end.

(* the argument list of the call of _post_connect: None = called without argument *)
Definition session_connect (fwd : bool) (t : transport) (pos kw : option pyval) (cfg : option N) : option pyval :=
  match t with
  | TSsh => let v := bind_timeout PNone pos kw in
            Some (match v with PNone => match cfg with Some c => PNum c | None => PNone end | PNum _ => v end)
  | TTls => if fwd then Some (bind_timeout (PNum default_tls_ms) pos kw) else None
  | TUds => if fwd then Some (bind_timeout (PNum default_uds_ms) pos kw) else None
  end.

(* _post_connect(self, timeout=60): the argument of init_event.wait *)
Definition post_connect_wait (none_is_default : bool) (arg : option pyval) : wait :=
  match arg with
  | None => Bounded default_hello_ms
  | Some (PNum t) => Bounded t
  | Some PNone => if none_is_default then Bounded default_hello_ms else Unbounded
  end.

(* the whole plumbing; flags: pops (a broken helper), fwd (T repaired), nd (U repaired) *)
Definition hello_wait_gen (pops fwd nd : bool) (e : entry) (a : cargs) : wait :=
  let kw' := snd (extract_manager_params pops (a_kw a) (a_mp a)) in
  post_connect_wait nd (session_connect fwd (transport_of e) (a_pos a) kw' (a_cfg a)).

Definition hello_wait : entry -> cargs -> wait := hello_wait_gen false true true.
Definition hello_wait_unfixed : entry -> cargs -> wait := hello_wait_gen false false false.

(* Manager(session, device_handler, **manager_params)._timeout *)
Definition manager_timeout (a : cargs) : pyval :=
  match fst (extract_manager_params false (a_kw a) (a_mp a)) with Some v => v | None => PNum default_manager_ms end.
