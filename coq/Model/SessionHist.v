(* SessionHist.v — what happens to ONE session object (SSHSession / TLSSession / UnixSocketSession) BEFORE the
   connection on which Model/SessionLTS.v starts: failed connect() attempts, close(), the clean-up of
   manager.connect_* after a failed attempt, in any order, and then the connect() that succeeds.

   Modelled code (flags only; the anchors "connected flag" / "closing flag" of property C04):
     transport/ssh.py        SSHSession.close   : _closing.set(); _connected = False; then the transport is used
                                                  (AttributeError on an object that never had one: the flags are already written)
                             SSHSession.connect : _transport := Transport(sock) before negotiation; a failure in negotiation,
                                                  host key verification or authentication leaves the flags as they were;
                                                  after authentication  _connected = True; _closing.clear();  a refused
                                                  subsystem raises AFTER that; success = the same writes + _post_connect
     transport/tls.py, unixSocket.py
                             close              : _closing.set(); then the socket is used (AttributeError while _socket is None,
                                                  _connected not written); with a socket _connected = False
                             connect            : every failure happens before _socket is assigned: nothing is written;
                                                  success: _socket := s; _closing.clear(); _connected = True; _post_connect
     manager.py              connect_ssh / connect_tls / connect_uds : after a failed connect, close() if
                                                  session.transport / session._socket
   The session thread exists only after the successful connect (a Thread object is started once): the LTS state
   at that point is SessionLTS.init except for the two flags, which are whatever the history left.
   Definitions only; proofs in Proofs/SessionHistProofs.v. *)
From NC Require Import Model.Base Model.SessionLTS.

Inductive tkind := KSsh | KTls | KUnix.

Inductive hstep :=
| HFailEarly          (* connect() fails before authentication succeeded (ssh: a transport object exists afterwards) *)
| HFailAuthd          (* ssh only: connect() fails after authentication (subsystem refused); elsewhere = HFailEarly *)
| HClose              (* session.close() *)
| HMgrClose.          (* manager's clean-up: close() if a transport / socket object exists *)

Record obj := { o_closing : bool; o_connected : bool; o_handle : bool }.
Definition obj0 : obj := {| o_closing := false; o_connected := false; o_handle := false |}.

Definition do_close (k : tkind) (o : obj) : obj :=
  match k with
  | KSsh => {| o_closing := true; o_connected := false; o_handle := o_handle o |}
  | _ => {| o_closing := true; o_connected := if o_handle o then false else o_connected o; o_handle := o_handle o |}
  end.

Definition hstep_run (k : tkind) (o : obj) (h : hstep) : obj :=
  match h, k with
  | HFailEarly, KSsh => {| o_closing := o_closing o; o_connected := o_connected o; o_handle := true |}
  | HFailAuthd, KSsh => {| o_closing := false; o_connected := true; o_handle := true |}
  | HFailEarly, _ | HFailAuthd, _ => o
  | HClose, _ => do_close k o
  | HMgrClose, _ => if o_handle o then do_close k o else o
  end.

Definition hist_run (k : tkind) (h : list hstep) : obj := fold_left (hstep_run k) h obj0.

(* the successful connect: clears the closing flag, sets connected *)
Definition connect_ok (o : obj) : obj := {| o_closing := false; o_connected := true; o_handle := true |}.
(* the same without the clear (what a connect() that forgets `_closing.clear()` does) *)
Definition connect_ok_stale (o : obj) : obj := {| o_closing := o_closing o; o_connected := true; o_handle := true |}.

(* the LTS state in which the session thread starts, given the flags of the object *)
Definition start_of (q : bool) (o : obj) : st :=
  {| reqs := []; table := []; outq := []; nq := []; connected := o_connected o; closing := o_closing o; pc := WIdle;
     qualify := q; wrote := []; deliver_log := []; recv_notifs := []; taken := []; bcast := None; eof_seen := false;
     lst := false; skipok := false; rlog := [] |}.

Definition session_start (k : tkind) (q : bool) (h : list hstep) : st := start_of q (connect_ok (hist_run k h)).
Definition session_start_stale (k : tkind) (q : bool) (h : list hstep) : st := start_of q (connect_ok_stale (hist_run k h)).

(* flags after every step of a history (for the correspondence check) *)
Fixpoint hist_trace (k : tkind) (o : obj) (h : list hstep) : list obj :=
  match h with
  | [] => []
  | x :: h' => let o' := hstep_run k o x in o' :: hist_trace k o' h'
  end.

(* the worker alone after the peer closed an idle session: end-of-file, broadcast, close, exit *)
Definition eof_alone : list label := [LReadEof; LErrBcast 1; LClose 0; LExit].
