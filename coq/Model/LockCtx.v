(* LockCtx.v — model of `with m.locked(target): body` (property C13), after fix F14:
     ncclient/operations/lock.py   Lock.request, Unlock.request, LockContext.__enter__/__exit__
     ncclient/manager.py           Manager.locked, Manager.execute
   A client program is a term of [prog]; the server is an oracle giving, for every request, the
   rpc-errors of its reply (as parsed by Model.RpcErrors) from the history of requests received so
   far; the raise decision is C06's [decide].  Both __enter__ and __exit__ build their RPC with
   raise_mode=RaiseMode.ERRORS and the manager's device handler (its exempt patterns [c]); requests
   made by the body through the manager use the manager's raise mode [mode].
   A body may also fire requests asynchronously and leave them IN FLIGHT ([AReq]): the server receives them (an event,
   which consumes the server's answer for that position of the history) but the caller neither waits for nor reads the
   reply, whenever it arrives (while the body runs, during the unlock's wait, later): LockContext's own Lock / Unlock
   are always synchronous (async_mode is not forwarded by Manager.locked).
   [exec] returns the events (requests) the program adds to the history and how it ends.
   Definitions only; proofs in Proofs/LockCtxProofs.v. *)
From NC Require Import Model.Base Model.RpcErrors.

Definition K_LOCK : N := 0.
Definition K_UNLOCK : N := 1.          (* other kinds: 2 = get-config, ... *)

(* one request as the server receives it (kind, target) plus two caller-side facts that are not
   on the wire: whether a LockContext sent it, and whether the call raised *)
Record event : Type := mkEv { ev_kind : N; ev_target : bytes; ev_ctx : bool; ev_raised : bool }.

Definition oracle : Type := list event -> N -> bytes -> list rpc_error.

Inductive exn : Type :=
| BodyExn (e : N)                                   (* an exception raised by user code *)
| RpcExn (kind : N) (target : bytes) (o : outcome). (* RPCError raised by a request (o <> Return) *)

Inductive result : Type := Normal | Exc (x : exn).

Inductive prog : Type :=
| Ret                                   (* pass *)
| Raise (e : N)                         (* raise BodyErr(e) *)
| Req (kind : N) (target : bytes)       (* a request through the manager (lock/unlock/get-config ...) *)
| Seq (p q : prog)                      (* p; q *)
| Locked (target : bytes) (body : prog) (* with m.locked(target): body *)
| Try (p : prog)                        (* try: p  except Exception: pass *)
| AReq (kind : N) (target : bytes).     (* an ASYNCHRONOUS request whose RPC object the caller drops (manager in
                                           async_mode, or RPC(..., async_mode=True).request()): RPC._request sends and
                                           returns at once; the reply is never looked at by the caller *)

Definition is_raise (o : outcome) : bool := match o with Return => false | _ => true end.

(* RPC._request: send, take the reply, decide *)
Definition request (orc : oracle) (c : pclass) (mode : N) (ctx : bool) (kind : N) (t : bytes)
                   (hist : list event) : list event * result :=
  let o := decide mode (orc hist kind t) c in
  ([mkEv kind t ctx (is_raise o)], if is_raise o then Exc (RpcExn kind t o) else Normal).

Fixpoint exec (orc : oracle) (c : pclass) (mode : N) (p : prog) (hist : list event) : list event * result :=
  match p with
  | Ret => ([], Normal)
  | Raise e => ([], Exc (BodyExn e))
  | Req k t => request orc c mode false k t hist
  | Seq p q =>
      let (t1, r1) := exec orc c mode p hist in
      match r1 with
      | Normal => let (t2, r2) := exec orc c mode q (hist ++ t1) in (t1 ++ t2, r2)
      | Exc x => (t1, Exc x)
      end
  | Try p => let (t1, _) := exec orc c mode p hist in (t1, Normal)
  | AReq k t => ([mkEv k t false false], Normal)   (* sent, left in flight: nothing of its reply reaches the caller *)
  | Locked t body =>
      (* __enter__: Lock(..., raise_mode=ERRORS).request(target) *)
      let (t1, r1) := request orc c MODE_ERRORS true K_LOCK t hist in
      match r1 with
      | Exc x => (t1, Exc x)                        (* __enter__ raised: no body, no __exit__ *)
      | Normal =>
          let (t2, r2) := exec orc c mode body (hist ++ t1) in
          (* __exit__: Unlock(..., raise_mode=ERRORS).request(target), in a try (fix F14) *)
          let (t3, r3) := request orc c MODE_ERRORS true K_UNLOCK t (hist ++ t1 ++ t2) in
          (t1 ++ t2 ++ t3,
           match r2 with
           | Exc x => Exc x                          (* body's exception in flight: unlock failure swallowed *)
           | Normal => r3                            (* otherwise an unlock failure is raised *)
           end)
      end
  end.

Definition wire (e : event) : N * bytes := (ev_kind e, ev_target e).

(* a scripted server: the n-th request of the session is answered with the n-th entry (ok when exhausted) *)
Definition scripted (answers : list (list rpc_error)) : oracle :=
  fun hist _ _ => nth (length hist) answers [].

(* ---- LockContext objects are VALUES.  `ctx = m.locked(t)` (Manager.locked) builds an object that holds
   (session, device handler, target), all three fixed by __init__; neither __enter__ nor __exit__ writes a field: every
   __enter__ builds a NEW Lock RPC, every __exit__ a NEW Unlock RPC (an RPC object makes one request, a LockContext any
   number).  Entering a kept object again - a retry loop `ctx = m.locked(t); for ...: try: with ctx: body ...` - is
   therefore entering a fresh context on the same datastore: nothing of an earlier entry (refused or granted) survives
   in the object.  [Reuse t entries] = one object, entered once per entry, one after the other; an entry is
   (caught, body): caught = the with-statement stands in `try: ... except Exception: pass` (what a retry loop does). *)
Record lockctx : Type := mkCtx { lc_target : bytes }.
Definition locked (t : bytes) : lockctx := mkCtx t.                                  (* Manager.locked(t) *)
Definition With (cx : lockctx) (body : prog) : prog := Locked (lc_target cx) body.    (* with cx: body *)
Definition enter_once (cx : lockctx) (e : bool * prog) : prog :=
  if fst e then Try (With cx (snd e)) else With cx (snd e).
Fixpoint reuse_entries (cx : lockctx) (es : list (bool * prog)) : prog :=
  match es with
  | [] => Ret
  | e :: rest => Seq (enter_once cx e) (reuse_entries cx rest)
  end.
Definition Reuse (t : bytes) (es : list (bool * prog)) : prog := reuse_entries (locked t) es.
