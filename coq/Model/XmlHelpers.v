(* XmlHelpers.v — tree-level semantics of ncclient/xml_.py helpers (property C17).
   In-memory lxml elements (mnode) carry what the helpers can observe: the tag, whether the
   tag's namespace is bound through a prefix (elem.prefix is truthy), the namespace
   declarations made on the element, the attribute dictionary, the children.
   [resolve] is the namespace-resolved view (what any reader of the serialised form sees).
   libxml2's parser and serialiser are oracles (event streams / octet strings).
   Definitions only. *)
From Coq Require Import String.
From NC Require Import Model.Base Model.Lit Model.XTree.

(* ---------- in-memory trees ---------- *)
(* a declaration made on an element: (bound to a prefix?, uri).  (false, u) is xmlns="u";
   (false, []) is xmlns="" (un-declaration of the default namespace). *)
Definition decl := (bool * bytes)%type.

Inductive mnode : Type :=
| ME : name -> bool -> list decl -> list attr -> list mnode -> mnode
| MT : bytes -> mnode
| MC : bytes -> mnode
| MP : bytes -> bytes -> mnode.

(* default namespace after the declarations of one element *)
Fixpoint own_default (ds : list decl) : option ns :=
  match ds with
  | [] => None
  | (false, u) :: _ => Some (match u with [] => None | _ => Some u end)
  | (true, _) :: ds' => own_default ds'
  end.

Definition eff_default (d : ns) (ds : list decl) : ns :=
  match own_default ds with Some x => x | None => d end.

(* names as stored in memory, no resolution *)
Fixpoint mview (t : mnode) : xnode :=
  match t with
  | ME n _ _ a k => Elem n a (map mview k)
  | MT s => Text s
  | MC s => Comment s
  | MP x y => PI x y
  end.

(* namespace-resolved view under the inherited default namespace d: an element stored
   without namespace inside a default-namespace scope is in that namespace for every reader *)
Fixpoint resolve (d : ns) (t : mnode) : xnode :=
  match t with
  | ME (u, l) _ ds a k =>
      let d' := eff_default d ds in
      Elem (match u with Some _ => u | None => d' end, l) a (map (resolve d') k)
  | MT s => Text s
  | MC s => Comment s
  | MP x y => PI x y
  end.

(* well-formed binding: a namespaced element not bound through a prefix is bound to the
   default namespace in scope; an element without namespace has no prefix *)
Fixpoint wfb (d : ns) (t : mnode) : bool :=
  match t with
  | ME (u, _) pf ds _ k =>
      let d' := eff_default d ds in
      (match u with
       | Some x => negb (beq x []) && (pf || ns_eqb u d')
       | None => negb pf
       end) && forallb (wfb d') k
  | _ => true
  end.

(* clean: stored namespace = resolved namespace everywhere (true of every parsed document) *)
Fixpoint cleanb (d : ns) (t : mnode) : bool :=
  match t with
  | ME (u, _) _ ds _ k =>
      let d' := eff_default d ds in
      (match u with Some _ => true | None => match d' with None => true | Some _ => false end end)
      && forallb (cleanb d') k
  | _ => true
  end.

(* ---------- constructors ---------- *)
Definition BASE_NS : bytes := Eval compute in lit "urn:ietf:params:xml:ns:netconf:base:1.0"%string.

(* scope: declarations visible at a node, innermost first *)
Definition has_prefix_for (sc : list decl) (u : bytes) : bool :=
  existsb (fun d => fst d && beq (snd d) u) sc.

(* default namespace in scope (first default declaration, innermost first) *)
Definition scope_default (sc : list decl) : ns :=
  match own_default sc with Some x => x | None => None end.

(* how lxml binds an element of namespace u created inside scope sc: the first declaration
   of u met walking outwards (declaration order within one element) - a prefix or the default
   namespace, a default declaration being usable only if no nearer one shadows it; if there
   is none a fresh prefix is declared on the element.  Returns (prefixed?, new declarations) *)
Fixpoint first_binding (sc : list decl) (u : bytes) (dseen : bool) : option bool :=
  match sc with
  | [] => None
  | (true, v) :: sc' => if beq v u then Some true else first_binding sc' u dseen
  | (false, v) :: sc' =>
      if dseen then first_binding sc' u dseen
      else if beq v u then Some false else first_binding sc' u true
  end.

Definition bind_elem (sc : list decl) (u : bytes) : bool * list decl :=
  match first_binding sc u false with
  | Some p => (p, [])
  | None => (true, [(true, u)])
  end.

(* attributes never use the default namespace: a prefix is found or made *)
Fixpoint bind_attrs (sc : list decl) (a : list attr) : list decl :=
  match a with
  | [] => []
  | ((Some u, _), _) :: a' =>
      if has_prefix_for sc u then bind_attrs sc a'
      else (true, u) :: bind_attrs ((true, u) :: sc) a'
  | ((None, _), _) :: a' => bind_attrs sc a'
  end.

(* a Python dict of attributes given as an association list: later duplicates overwrite *)
Fixpoint attrs_of_dict (l : list attr) (acc : list attr) : list attr :=
  match l with [] => acc | (k, v) :: l' => attrs_of_dict l' (attr_set k v acc) end.

Definition mk_elem (sc : list decl) (nsmap : list decl) (u : ns) (tag : bytes) (a : list attr) : mnode :=
  let a' := attrs_of_dict a [] in
  match u with
  | None => ME (None, tag) false (nsmap ++ bind_attrs (nsmap ++ sc) a') a' []
  | Some x =>
      let '(pf, ds) := bind_elem (nsmap ++ sc) x in
      let ds1 := nsmap ++ ds in
      ME (Some x, tag) pf (ds1 ++ bind_attrs (ds1 ++ sc) a') a' []
  end.

Definition new_ele (tag : bytes) (a : list attr) : mnode := mk_elem [] [] (Some BASE_NS) tag a.
Definition new_ele_ns (tag : bytes) (u : ns) (a : list attr) : mnode := mk_elem [] [] u tag a.
Definition new_ele_nsmap (tag : bytes) (m : list decl) (a : list attr) : mnode :=
  mk_elem [] m (Some BASE_NS) tag a.

(* parent_ns(node): the parent's namespace when its tag is prefixed, else None *)
Definition parent_ns (t : mnode) : ns :=
  match t with ME (u, _) true _ _ _ => u | _ => None end.

(* SubElement appends the new child as the last child of the parent *)
Definition append_child (sc : list decl) (u : mnode -> ns) (tag : bytes) (a : list attr) (p : mnode) : option mnode :=
  match p with
  | ME n pf ds atts k => Some (ME n pf ds atts (k ++ [mk_elem (ds ++ sc) [] (u p) tag a]))
  | _ => None
  end.

Definition sub_ele_node sc tag a p := append_child sc parent_ns tag a p.
Definition sub_ele_ns_node sc tag (u : ns) a p := append_child sc (fun _ => u) tag a p.

Fixpoint update_nth {A} (i : nat) (f : A -> option A) (l : list A) : option (list A) :=
  match l, i with
  | [], _ => None
  | x :: l', O => match f x with Some y => Some (y :: l') | None => None end
  | x :: l', S j => match update_nth j f l' with Some r => Some (x :: r) | None => None end
  end.

(* apply f (which receives the scope at the node) to the node at a path of child indices *)
Fixpoint update_at (p : list nat) (f : list decl -> mnode -> option mnode) (sc : list decl) (t : mnode) : option mnode :=
  match p with
  | [] => f sc t
  | i :: p' =>
      match t with
      | ME n pf ds a k =>
          match update_nth i (update_at p' f (ds ++ sc)) k with
          | Some k' => Some (ME n pf ds a k')
          | None => None
          end
      | _ => None
      end
  end.

Definition sub_ele_at (p : list nat) tag a (t : mnode) : option mnode :=
  update_at p (fun sc => sub_ele_node sc tag a) [] t.
Definition sub_ele_ns_at (p : list nat) tag u a (t : mnode) : option mnode :=
  update_at p (fun sc => sub_ele_ns_node sc tag u a) [] t.

(* the same edit on resolved trees: f receives the default namespace in scope at the node *)
Fixpoint xupdate_at (p : list nat) (f : xnode -> option xnode) (t : xnode) : option xnode :=
  match p with
  | [] => f t
  | i :: p' =>
      match t with
      | Elem n a k =>
          match update_nth i (xupdate_at p' f) k with
          | Some k' => Some (Elem n a k')
          | None => None
          end
      | _ => None
      end
  end.

(* ---------- replace_namespace ---------- *)
Definition rn (o n : ns) (x : name) : name := if ns_eqb (fst x) o then (n, snd x) else x.

(* for attr in attrib.keys(): if its namespace is old: attrib[new name] = attrib.pop(attr) *)
Fixpoint rename_loop (o n : ns) (ks : list name) (d : list attr) : list attr :=
  match ks with
  | [] => d
  | k :: ks' =>
      if ns_eqb (fst k) o then
        match attr_get k d with
        | Some v => rename_loop o n ks' (attr_set (n, snd k) v (attr_del k d))
        | None => rename_loop o n ks' d          (* cannot happen: k is a key of d *)
        end
      else rename_loop o n ks' d
  end.

Definition rename_attrs (o n : ns) (a : list attr) : list attr := rename_loop o n (keys a) a.

Fixpoint replace_ns (o n : ns) (t : mnode) : mnode :=
  match t with
  | ME x pf ds a k => ME (rn o n x) pf ds (rename_attrs o n a) (map (replace_ns o n) k)
  | other => other
  end.

(* ---------- validated_element ---------- *)
Definition parse_clark (s : bytes) : option name :=
  match s with
  | [] => None                                            (* ValueError: Empty tag name *)
  | c :: s' =>
      if N.eqb c LBRACE then
        match find_sub [RBRACE] s' with
        | None => None                                    (* ValueError: Invalid tag name *)
        | Some (u, l) =>
            match l with
            | [] => None                                  (* ValueError: Empty tag name *)
            | _ => Some (match u with [] => None | _ => Some u end, l)
            end
        end
      else Some (None, s)
  end.

Inductive tagsarg := TagsNone | TagsStr (s : bytes) | TagsList (l : list bytes).
Inductive req := ReqStr (s : bytes) | ReqList (l : list bytes).
Inductive vres := VAccept | VRejectTag | VRejectAttr | VValueError.

Definition tags_list (t : tagsarg) : list bytes :=
  match t with TagsNone => [] | TagsStr [] => [] | TagsStr s => [s] | TagsList l => l end.
Definition alts_of (r : req) : list bytes := match r with ReqStr s => [s] | ReqList l => l end.

(* `if tags:` is false for None, '' and []; otherwise the root tag must be listed *)
Definition tag_ok (t : tagsarg) (root : name) : bool :=
  match tags_list t with [] => true | l => mem_bytes (clark root) l end.

(* for alt in req: if alt in ele.attrib: break   else: raise *)
Fixpoint alt_loop (alts : list bytes) (ks : list name) : option bool :=
  match alts with
  | [] => Some false
  | a :: r =>
      match parse_clark a with
      | None => None
      | Some n => if mem_name n ks then Some true else alt_loop r ks
      end
  end.

Fixpoint req_loop (reqs : list req) (ks : list name) : vres :=
  match reqs with
  | [] => VAccept
  | r :: rs =>
      match alt_loop (alts_of r) ks with
      | None => VValueError
      | Some false => VRejectAttr
      | Some true => req_loop rs ks
      end
  end.

Definition validated (tags : tagsarg) (attrs : list req) (root : name) (ks : list name) : vres :=
  if tag_ok tags root then req_loop attrs ks else VRejectTag.

Definition validated_m (tags : tagsarg) (attrs : list req) (t : mnode) : vres :=
  match t with
  | ME n _ _ a _ => validated tags attrs n (keys a)
  | _ => VValueError
  end.

(* ---------- parse_root / to_ele over the parser's event stream (the oracle) ---------- *)
Inductive event :=
| EvStart (n : name) (a : list attr)
| EvEnd
| EvText (s : bytes)
| EvComment (s : bytes)
| EvPI (x y : bytes)
| EvError.                                   (* XMLSyntaxError raised at this point *)

(* iterparse(events=('start',)): the first start event, unless the parser fails before it *)
Fixpoint parse_root_ev (evs : list event) : option (name * list attr) :=
  match evs with
  | [] => None
  | EvStart n a :: _ => Some (n, a)
  | EvError :: _ => None
  | _ :: r => parse_root_ev r
  end.

Definition frame := (name * list attr * list xnode)%type.   (* children in reverse *)

Fixpoint epilog_ok (evs : list event) : bool :=
  match evs with
  | [] => true
  | EvComment _ :: r | EvPI _ _ :: r => epilog_ok r
  | EvText s :: r => blank s && epilog_ok r
  | _ => false
  end.

(* the full parse: Some root iff the stream is one balanced element with only comments, PIs
   and white space around it and no error *)
Fixpoint build (evs : list event) (st : list frame) : option xnode :=
  match evs with
  | [] => None
  | e :: r =>
      match e, st with
      | EvError, _ => None
      | EvStart n a, _ => build r ((n, a, []) :: st)
      | EvEnd, [] => None
      | EvEnd, [(n, a, k)] => if epilog_ok r then Some (Elem n a (rev k)) else None
      | EvEnd, (n, a, k) :: (n2, a2, k2) :: st' => build r ((n2, a2, Elem n a (rev k) :: k2) :: st')
      | EvText s, [] => if blank s then build r [] else None
      | EvText s, (n, a, k) :: st' => build r ((n, a, Text s :: k) :: st')
      | EvComment s, [] => build r []
      | EvComment s, (n, a, k) :: st' => build r ((n, a, Comment s :: k) :: st')
      | EvPI x y, [] => build r []
      | EvPI x y, (n, a, k) :: st' => build r ((n, a, PI x y :: k) :: st')
      end
  end.

Definition to_ele_ev (evs : list event) : option xnode := build evs [].

Fixpoint events_of (t : xnode) : list event :=
  match t with
  | Elem n a k => EvStart n a :: flat_map events_of k ++ [EvEnd]
  | Text s => [EvText s]
  | Comment s => [EvComment s]
  | PI x y => [EvPI x y]
  end.

(* ---------- to_xml: the two-branch declaration logic ---------- *)
Definition XML_PFX : bytes := Eval compute in lit "<?xml"%string.
Definition DECL_A : bytes := Eval compute in lit "<?xml version=""1.0"" encoding="""%string.
Definition DECL_B : bytes := Eval compute in lit """?>"%string.
Definition Q_GT : bytes := Eval compute in lit "?>"%string.

(* ser = etree.tostring(ele, encoding=enc, ...) is the serialiser's answer (oracle) *)
Definition to_xml (ser enc : bytes) : bytes :=
  if startswith ser XML_PFX then ser else DECL_A ++ enc ++ DECL_B ++ ser.
