(* XmlReparse.v — a process that PARSES texts and edits the trees it got back (property C17).
   xml_.py  to_ele(x, huge_tree) = etree.fromstring(x.encode('UTF-8'), parser=_get_parser(huge_tree))  for a string x
   (and validated_element(x), RPCReply(x, huge_tree).parse(), GetReply.data_ele, which call it): every call makes a
   NEW tree out of the octets; nothing of the process (trees handed out earlier, what became of them) takes part.
   The caller owns what it got: it hands elements of it to the in-place helpers (replace_namespace, sub_ele,
   sub_ele_ns), edits it through the lxml API (attributes, text, removing / moving children), and may parse the very
   same text again later.  libxml2 is an oracle: a function of the parser's options and the octets.
   Definitions only. *)
From NC Require Import Model.Base Model.XTree Model.XmlHelpers Model.XmlHistory.

(* calls of the process; k = index of a tree in the order in which the trees were handed out *)
Inductive rop :=
| RParse (huge : bool) (s : bytes)      (* to_ele(s, huge_tree=huge): a string *)
| RHelper (k : nat) (op : hop)          (* a helper of xml_ on an element of the k-th tree *)
| RCaller (k : nat) (t' : mnode)        (* the caller's own edit of the k-th tree through the lxml API: it is t' afterwards *)
| RRaised (huge : bool) (s : bytes).    (* a parsing helper that raised although the parser did not refuse the octets: the text
                                           has no UTF-8 encoding (x.encode raises, nothing reaches the parser; s = its code
                                           points, surrogates passed) / validated_element: the root of the tree does not meet
                                           the caller's requirement (XMLError; the tree made is dropped) *)

(* the tree a call is given (None: it is given a text) *)
Definition rop_tree (op : rop) : option nat :=
  match op with RParse _ _ | RRaised _ _ => None | RHelper k _ | RCaller k _ => Some k end.

Section WithOracles.
Variable parser : bool -> bytes -> option mnode.   (* etree.fromstring(octets, parser): None = XMLSyntaxError *)
Variable ser : mnode -> bytes -> bytes.            (* etree.tostring *)

(* one call: the trees handed out so far -> afterwards; None = the call names no tree / no element.
   A text the parser rejects raises: no tree is handed out and nothing else happens - the parser objects of the
   module carry nothing from one call to the next (etree.fromstring on complete octets), whether the call returned or
   raised, before (encode) / inside (syntax, size limit) / after (requirement) the parser. *)
Definition rstep (ts : list mnode) (op : rop) : option (list mnode) :=
  match op with
  | RParse h s => Some (match parser h s with Some t => ts ++ [t] | None => ts end)
  | RHelper k o => update_nth k (fun t => option_map fst (hstep ser t o)) ts
  | RCaller k t' => update_nth k (fun _ => Some t') ts
  | RRaised _ _ => Some ts
  end.

(* does the call raise (no tree is handed out)? *)
Definition rraises (op : rop) : bool :=
  match op with
  | RParse h s => match parser h s with Some _ => false | None => true end
  | RRaised _ _ => true
  | _ => false
  end.

Fixpoint rrun (ts : list mnode) (ops : list rop) : option (list mnode) :=
  match ops with
  | [] => Some ts
  | op :: r => match rstep ts op with Some ts1 => rrun ts1 r | None => None end
  end.

(* every tree after every call, up to the first call that names no tree / element *)
Fixpoint rtrace (ts : list mnode) (ops : list rop) : list (list mnode) :=
  match ops with
  | [] => []
  | op :: r => match rstep ts op with Some ts1 => ts1 :: rtrace ts1 r | None => [] end
  end.
End WithOracles.

(* a parser given as a finite table (the runner: the answers of an independent parser object on the texts of a case) *)
Fixpoint table_parser (tb : list (bool * bytes * option mnode)) (h : bool) (s : bytes) : option mnode :=
  match tb with
  | [] => None
  | (h', s', r) :: tb' => if Bool.eqb h h' && beq s s' then r else table_parser tb' h s
  end.
