(* Lit.v — string literals as octet lists.  [lit "urn:ietf"] computes to a list N at
   type-checking time; only ASCII literals are written this way. *)
From Coq Require Import String Ascii.
From NC Require Import Model.Base.

Fixpoint lit (s : string) : bytes :=
  match s with
  | EmptyString => []
  | String a s' => N_of_ascii a :: lit s'
  end.
