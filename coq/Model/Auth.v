(* Auth.v — executable model of the decision logic of
     ncclient/transport/ssh.py  SSHSession.connect (l.292-392) and SSHSession._auth,
     ncclient/transport/tls.py  TLSSession.connect,
     ncclient/manager.py        connect_ssh (profile hook add_additional_ssh_connect_params).
   Everything the libraries decide (key exchange, the key the server presented, key-file
   parsing, what the agent offers, the verdict of each authentication request, channel and
   subsystem acceptance, the TLS handshake with its certificate and host-name verification,
   the hello exchange) enters through an oracle record of answer streams; the theorems
   quantify over all of them.  Definitions only. *)
From NC Require Import Model.Base.

(* ------------------------------------------------------------------ keys, known_hosts *)
(* a public key as paramiko compares it: get_name() and asbytes() *)
Definition key := (N * N)%type.                 (* (key type, blob) *)
Definition key_eqb (a b : key) : bool := N.eqb (fst a) (fst b) && N.eqb (snd a) (snd b).

(* the host-name column of a known_hosts line, relative to the connection being made *)
Inductive hsel := HHost | HHostPort | HOther.   (* "host", "[host]:port", anything else *)
Definition hsel_eqb (a b : hsel) : bool :=
  match a, b with HHost, HHost | HHostPort, HHostPort | HOther, HOther => true | _, _ => false end.
Definition kh_entry := (hsel * key)%type.

(* HostKeys.lookup(name): the entries whose host name matches, in file order *)
Definition under (s : hsel) (kh : list kh_entry) : list key :=
  map snd (filter (fun e => hsel_eqb (fst e) s) kh).

(* SubDict.__getitem__(keytype): the first entry of that key type *)
Fixpoint first_of_type (t : N) (ks : list key) : option key :=
  match ks with
  | [] => None
  | k :: r => if N.eqb (fst k) t then Some k else first_of_type t r
  end.

(* HostKeys.check(name, key) *)
Definition kh_check (kh : list kh_entry) (s : hsel) (k : key) : bool :=
  match first_of_type (fst k) (under s kh) with
  | Some k' => N.eqb (snd k') (snd k)
  | None => false
  end.

(* SubDict.__setitem__ on the sub-dictionary of "host": the first "host" entry of that key
   type gets the new key, otherwise a new "host" entry is appended *)
Fixpoint kh_set_host (k : key) (kh : list kh_entry) : list kh_entry :=
  match kh with
  | [] => [(HHost, k)]
  | (s, k') :: r =>
      if hsel_eqb s HHost && N.eqb (fst k') (fst k) then (s, k) :: r
      else (s, k') :: kh_set_host k r
  end.

(* ssh.py l.305-312: known = lookup(host) or {}; known.update(lookup("[host]:port") or {}).
   When lookup(host) is a SubDict the update writes through into the HostKeys object. *)
Definition kh_prefer_update (kh : list kh_entry) : list kh_entry :=
  match under HHost kh with
  | [] => kh
  | _ :: _ =>
      fold_left (fun acc t => match first_of_type t (under HHostPort kh) with
                              | Some k => kh_set_host k acc
                              | None => acc
                              end)
                (map fst (under HHostPort kh)) kh
  end.

(* ------------------------------------------------------------------ configuration *)
Inductive pin := PinAbsent | PinBad | PinKey (k : key).
   (* hostkey_b64: not given / no key class of paramiko parses it / parsed *)

Record ssh_cfg := {
  c_verify       : bool;              (* hostkey_verify *)
  c_known_hosts  : list kh_entry;     (* content of the known_hosts file, in file order *)
  c_pin          : pin;               (* hostkey_b64 *)
  c_user_cb      : bool;              (* the caller passed unknown_host_cb (verdict: oracle) *)
  c_profile_cb   : bool;              (* the device profile replaces the callback (iosxe, iosxr, csr) by "always True" *)
  c_key_files    : nat;               (* number of key_filename entries *)
  c_allow_agent  : bool;
  c_look_for_keys: bool;
  c_password     : bool;              (* password is not None *)
  c_subsystems   : list bytes;        (* device_handler.get_ssh_subsystem_names() *)
  c_exec_fallback: bool               (* handle_connection_exceptions opens an exec channel (junos) *)
}.

Record ssh_oracle := {
  o_kex_ok      : bool;               (* start_client() returned / raised SSHException *)
  o_server_key  : key;                (* get_remote_server_key() *)
  o_cb          : hsel -> key -> bool;
     (* the caller's unknown_host_cb as a function of its two arguments: the host name it is
        called with (relative to the connection: the dialled host, "[host]:port", anything
        else) and the key whose fingerprint it is shown.  A fingerprint is modelled by the key
        it is the digest of (digest collisions are outside the model). *)
  o_loads       : list bool;          (* successive PKey.from_path results (true = a key was read) *)
  o_agent_keys  : nat;                (* number of keys paramiko.Agent().get_keys() offers *)
  o_default_keys: nat;                (* number of existing ~/.ssh/id_* , ~/ssh/id_* files *)
  o_auths       : list bool;          (* successive auth_publickey/auth_password verdicts *)
  o_opens       : list bool;          (* successive open_session() results *)
  o_subs        : list bool;          (* successive invoke_subsystem() verdicts *)
  o_hello_ok    : bool                (* _post_connect returned *)
}.

(* Callbacks the correspondence check can describe as data (the theorems quantify over ALL
   functions o_cb; these are the ones the runner is driven with): a constant verdict, "accept
   only this fingerprint", "accept only when called with this host name", both. *)
Inductive cb_policy :=
| CbConst (b : bool)
| CbOnlyKey (k : key)
| CbOnlyHost (s : hsel)
| CbHostKey (s : hsel) (k : key).
Definition cb_of_policy (p : cb_policy) : hsel -> key -> bool :=
  fun s k =>
    match p with
    | CbConst b => b
    | CbOnlyKey k' => key_eqb k' k
    | CbOnlyHost s' => hsel_eqb s' s
    | CbHostKey s' k' => hsel_eqb s' s && key_eqb k' k
    end.

(* ------------------------------------------------------------------ traces, results *)
Inductive method := MKeyFile (i : nat) | MAgent (i : nat) | MDefaultKey (i : nat) | MPassword.
Inductive how := ByKnownHosts (s : hsel) | ByPinned | ByCallback.

Inductive event :=
| StartClient
| CallbackAsked (host : hsel) (fp : key)         (* the caller's callback is invoked with (host, fingerprint of fp) *)
| HostKeyAccepted (h : how)                     (* ghost: the l.320-339 block falls through *)
| AuthAttempt (m : method) (ok : bool)          (* auth_publickey / auth_password and its verdict *)
| OpenSession
| InvokeSubsystem (name : bytes)
| ExecFallback                                  (* junos: open_channel + exec_command *)
| SendHello
(* TLS *)
| TlsLoadCert | TlsLoadCA | TlsConnect
| Handshake (verify_required check_hostname use_server_hostname : bool).

Inductive exn := SSHUnknownHost (host : hsel) (fp : key) | Authentication | SSHError | TLSErr | Other.
   (* SSHUnknownHostError carries .host and .fingerprint (of the key fp);
      Other: an exception connect does not convert (paramiko.SSHException of open_session,
      SessionError of the hello exchange) *)
Inductive result := Ok | Exn (e : exn).
Definition trace := list event.

(* ------------------------------------------------------------------ SSH: host key *)
(* l.343 `unknown_host_cb(host, fingerprint)`: the callback in force is applied to the host
   name that was dialled (not the "[host]:port" lookup name) and to the fingerprint computed
   at l.322 from get_remote_server_key(), i.e. of the key the server PRESENTED.
   Which callback decides: profile override wins over the caller's, else the default (False) *)
Definition cb_host : hsel := HHost.
Definition cb_verdict (c : ssh_cfg) (o : ssh_oracle) : bool :=
  if c_profile_cb c then true else if c_user_cb c then o_cb o cb_host (o_server_key o) else false.
Definition cb_events (c : ssh_cfg) (o : ssh_oracle) : trace :=
  if c_profile_cb c then [] else if c_user_cb c then [CallbackAsked cb_host (o_server_key o)] else [].

(* the HostKeys object at l.336: loaded only when hostkey_verify, updated only without a pin *)
Definition kh_at_check (c : ssh_cfg) : list kh_entry :=
  match c_pin c with
  | PinAbsent => kh_prefer_update (c_known_hosts c)
  | _ => c_known_hosts c
  end.

Definition known_how (c : ssh_cfg) (k : key) : option how :=
  match c_pin c with
  | PinKey p => if key_eqb p k then Some ByPinned else None
  | PinBad => None
  | PinAbsent =>
      if kh_check (kh_at_check c) HHost k then Some (ByKnownHosts HHost)
      else if kh_check (kh_at_check c) HHostPort k then Some (ByKnownHosts HHostPort)
      else None
  end.

Definition hostkey_phase (c : ssh_cfg) (o : ssh_oracle) : trace * bool :=
  if c_verify c then
    match known_how c (o_server_key o) with
    | Some h => ([HostKeyAccepted h], true)
    | None =>
        if cb_verdict c o then (cb_events c o ++ [HostKeyAccepted ByCallback], true)
        else (cb_events c o, false)
    end
  else ([], true).

(* ------------------------------------------------------------------ SSH: _auth cascade *)
Inductive step := SLoadAuth (m : method) | SAuth (m : method).

Definition auth_plan (c : ssh_cfg) (o : ssh_oracle) : list step :=
  map (fun i => SLoadAuth (MKeyFile i)) (seq 0 (c_key_files c))
  ++ (if c_allow_agent c then map (fun i => SAuth (MAgent i)) (seq 0 (o_agent_keys o)) else [])
  ++ (if c_look_for_keys c then map (fun i => SLoadAuth (MDefaultKey i)) (seq 0 (o_default_keys o)) else [])
  ++ (if c_password c then [SAuth MPassword] else []).

Definition hd_or {A} (d : A) (l : list A) : A := match l with [] => d | x :: _ => x end.

(* returns the attempts made and whether one succeeded; an exhausted stream answers false *)
Fixpoint run_auth (plan : list step) (loads auths : list bool) : trace * bool :=
  match plan with
  | [] => ([], false)
  | SLoadAuth m :: rest =>
      if hd_or false loads then
        if hd_or false auths then ([AuthAttempt m true], true)
        else let '(t, r) := run_auth rest (tl loads) (tl auths) in (AuthAttempt m false :: t, r)
      else run_auth rest (tl loads) auths
  | SAuth m :: rest =>
      if hd_or false auths then ([AuthAttempt m true], true)
      else let '(t, r) := run_auth rest loads (tl auths) in (AuthAttempt m false :: t, r)
  end.

(* ------------------------------------------------------------------ SSH: channel, subsystem, hello *)
Definition hello (ok : bool) : trace * result := ([SendHello], if ok then Ok else Exn Other).

Fixpoint run_subsystems (fallback : bool) (names : list bytes) (opens subs : list bool) (hello_ok : bool)
  : trace * result :=
  match names with
  | [] => ([], Exn SSHError)
  | n :: rest =>
      if hd_or false opens then
        if hd_or false subs then
          let '(t, r) := hello hello_ok in (OpenSession :: InvokeSubsystem n :: t, r)
        else if fallback then
          let '(t, r) := hello hello_ok in (OpenSession :: InvokeSubsystem n :: ExecFallback :: t, r)
        else
          let '(t, r) := run_subsystems fallback rest (tl opens) (tl subs) hello_ok in
          (OpenSession :: InvokeSubsystem n :: t, r)
      else ([OpenSession], Exn Other)
  end.

(* ------------------------------------------------------------------ SSH: connect *)
Definition ssh_connect (c : ssh_cfg) (o : ssh_oracle) : trace * result :=
  match c_pin c with
  | PinBad => ([], Exn SSHError)
  | _ =>
      if negb (o_kex_ok o) then ([StartClient], Exn SSHError)
      else
        let '(t1, accepted) := hostkey_phase c o in
        if negb accepted then
          (* l.344 SSHUnknownHostError(known_hosts_lookups[0], fingerprint): the dialled host, the presented key *)
          (StartClient :: t1, Exn (SSHUnknownHost HHost (o_server_key o)))
        else
          let '(t2, authed) := run_auth (auth_plan c o) (o_loads o) (o_auths o) in
          if negb authed then (StartClient :: t1 ++ t2, Exn Authentication)
          else
            let '(t3, r) := run_subsystems (c_exec_fallback c) (c_subsystems c) (o_opens o) (o_subs o) (o_hello_ok o) in
            (StartClient :: t1 ++ t2 ++ t3, r)
  end.

(* ------------------------------------------------------------------ SSH: several sessions of one process
   ssh.py l.88 (a new SSHSession starts from an empty paramiko.HostKeys) and l.113-133 / l.249-254
   (load_known_hosts parses the file when connect() is called): the known_hosts table a connect judges the
   presented key against is the content of the file AT THE TIME OF THAT connect.  In a history of connects
   the i-th configuration therefore carries, in [c_known_hosts], the file content of that moment, and the
   history is the pointwise image of [ssh_connect]: no trust (and no distrust) is carried from an earlier
   session to a later one, however the file was changed in between. *)
Definition ssh_history (l : list (ssh_cfg * ssh_oracle)) : list (trace * result) :=
  map (fun co => ssh_connect (fst co) (snd co)) l.

(* ------------------------------------------------------------------ TLS *)
Inductive load_res := LOk | LSSLError | LIOError.

Record tls_cfg := {
  t_host_given     : bool;
  t_certfile_given : bool;
  t_protocol_given : bool;
  t_check_hostname : bool;            (* the caller's flag, default True *)
  t_ca_given       : bool;            (* ca_certs *)
  t_server_hostname: bool             (* server_hostname given (used instead of host) *)
}.

Record tls_oracle := {
  to_load_cert   : load_res;          (* load_cert_chain *)
  to_load_ca     : load_res;          (* load_verify_locations *)
  to_connect_ok  : bool;              (* TCP connect *)
  to_handshake_ok: bool;              (* do_handshake: chain to a loaded CA, host name if checked *)
  to_hello_ok    : bool
}.

Definition tls_connect (c : tls_cfg) (o : tls_oracle) : trace * result :=
  if negb (t_host_given c && t_certfile_given c && t_protocol_given c) then ([], Exn TLSErr)
  else
    match to_load_cert o with
    | LSSLError | LIOError => ([TlsLoadCert], Exn TLSErr)
    | LOk =>
        let t_ca := if t_ca_given c then [TlsLoadCA] else [] in
        match (if t_ca_given c then to_load_ca o else LOk) with
        | LSSLError | LIOError => (TlsLoadCert :: t_ca, Exn TLSErr)
        | LOk =>
            if negb (to_connect_ok o) then (TlsLoadCert :: t_ca ++ [TlsConnect], Exn TLSErr)
            else
              let hs := Handshake true (t_check_hostname c) (t_server_hostname c) in
              if negb (to_handshake_ok o) then (TlsLoadCert :: t_ca ++ [TlsConnect; hs], Exn TLSErr)
              else
                let '(t, r) := hello (to_hello_ok o) in
                (TlsLoadCert :: t_ca ++ [TlsConnect; hs] ++ t, r)
        end
    end.
