(* XTree.v — abstract XML trees used by C17 (helper round trips) and C10 (reply views).
   A tree is what any XML reader reports after namespace resolution:
     Elem (namespace, local) attributes children | Text octets | Comment octets | PI target data
   lxml's text/tail pair is represented as Text siblings.  Definitions only. *)
From NC Require Import Model.Base.

Definition ns := option bytes.               (* None = no namespace *)
Definition name := (ns * bytes)%type.        (* (namespace, local name) *)
Definition attr := (name * bytes)%type.      (* (name, value) *)

Inductive xnode : Type :=
| Elem : name -> list attr -> list xnode -> xnode
| Text : bytes -> xnode
| Comment : bytes -> xnode
| PI : bytes -> bytes -> xnode.

Definition ns_eqb (a b : ns) : bool :=
  match a, b with
  | None, None => true
  | Some x, Some y => beq x y
  | _, _ => false
  end.

Definition name_eqb (a b : name) : bool := ns_eqb (fst a) (fst b) && beq (snd a) (snd b).

Definition keys (l : list attr) : list name := map fst l.

Fixpoint mem_name (n : name) (l : list name) : bool :=
  match l with [] => false | m :: l' => name_eqb n m || mem_name n l' end.

(* insertion-ordered attribute dictionary (lxml _Attrib): set keeps the position of an existing key *)
Fixpoint attr_set (k : name) (v : bytes) (d : list attr) : list attr :=
  match d with
  | [] => [(k, v)]
  | (k', v') :: d' => if name_eqb k k' then (k', v) :: d' else (k', v') :: attr_set k v d'
  end.

Fixpoint attr_get (k : name) (d : list attr) : option bytes :=
  match d with
  | [] => None
  | (k', v') :: d' => if name_eqb k k' then Some v' else attr_get k d'
  end.

Fixpoint attr_del (k : name) (d : list attr) : list attr :=
  match d with
  | [] => []
  | (k', v') :: d' => if name_eqb k k' then d' else (k', v') :: attr_del k d'
  end.

(* XML white space: SP TAB LF CR (what libxml2's remove_blank_text and the property call blank) *)
Definition is_ws (c : N) : bool := N.eqb c 32 || N.eqb c 9 || N.eqb c 10 || N.eqb c 13.
Definition blank (s : bytes) : bool := forallb is_ws s.

Definition root_name (t : xnode) : option name :=
  match t with Elem n _ _ => Some n | _ => None end.
Definition root_attrs (t : xnode) : list attr :=
  match t with Elem _ a _ => a | _ => [] end.
Definition children (t : xnode) : list xnode :=
  match t with Elem _ _ k => k | _ => [] end.

(* Clark notation "{ns}local" / "local" as lxml's .tag reports it *)
Definition LBRACE : N := 123.
Definition RBRACE : N := 125.
Definition clark (n : name) : bytes :=
  match fst n with
  | None => snd n
  | Some u => LBRACE :: u ++ RBRACE :: snd n
  end.

(* number of nodes: used as fuel / measure by clients *)
Fixpoint xsize (t : xnode) : nat :=
  match t with
  | Elem _ _ k => S (fold_right (fun c acc => xsize c + acc)%nat 0%nat k)
  | _ => 1%nat
  end.
