(* Framing10.v — DefaultXMLParser.parse/_parse10 (ncclient/transport/parser.py, after the
   fix for F1): RFC 4742 end-of-message framing over an accumulating buffer.

     delim = MSG_DELIM.encode(); buf.seek(self._parsing_pos10)
     if delim in buf.read():                                   [contains (skipn pos b) delim]
         msg, _, remaining = whole_buffer.partition(delim)     [find_sub delim b]
         msg = msg.decode('UTF-8').strip()                     [decode_strict / strip; may raise]
         dispatch(msg); buffer = empty; pos = 0
         if len(remaining.strip()) > 0:                        [bytes.strip(): bblank]
             buffer.write(remaining); self._parse10()          [recursion]
     else: pos = max(0, len(buffer) - MSG_DELIM_LEN)

   An exception leaves [Session.run] through its except clause (error broadcast, close):
   the parser is never fed again, which the model records in [dead].  The hand-over of the
   remainder to a SAX parser (Junos profile) is not modelled: the parser stays the default
   one.  Definitions only. *)
From NC Require Import Model.Base Model.Utf8.

Inductive pevent : Type :=
| Deliver (m : bytes)          (* Session._dispatch_message(m), m as UTF-8 octets *)
| Raise (k : N).               (* exception leaving parse(): see kinds *)
Definition K_UNICODE : N := 1.   (* UnicodeDecodeError *)
Definition K_FRAMING : N := 2.   (* NetconfFramingError *)
Definition K_FUEL : N := 99.     (* model ran out of fuel: excluded by the simulation theorems *)

Definition delim10 : bytes := [93; 93; 62; 93; 93; 62].      (* "]]>]]>" *)
Definition DELIM10_LEN : nat := 6.                            (* MSG_DELIM_LEN *)

Record pst10 := { buf10 : bytes; pos10 : nat; dead10 : bool }.
Definition init10 : pst10 := {| buf10 := []; pos10 := 0; dead10 := false |}.

Fixpoint parse10 (fuel : nat) (b : bytes) (p : nat) : pst10 * list pevent :=
  match fuel with
  | O => ({| buf10 := b; pos10 := p; dead10 := true |}, [Raise K_FUEL])
  | S f =>
      if contains (skipn p b) delim10 then
        let '(m, rest) := match find_sub delim10 b with
                          | Some mr => mr
                          | None => (b, [])         (* partition without a hit; unreachable *)
                          end in
        match decode_strict m with
        | None => ({| buf10 := b; pos10 := p; dead10 := true |}, [Raise K_UNICODE])
        | Some t =>
            if bblank rest then ({| buf10 := []; pos10 := 0; dead10 := false |}, [Deliver (strip t)])
            else let '(st, evs) := parse10 f rest 0 in (st, Deliver (strip t) :: evs)
        end
      else ({| buf10 := b; pos10 := length b - DELIM10_LEN; dead10 := false |}, [])
  end.

(* parse(data) under BASE_10 *)
Definition feed10 (st : pst10) (seg : bytes) : pst10 * list pevent :=
  if dead10 st then (st, [])
  else match seg with
       | [] => (st, [])                                   (* `if data:` *)
       | _ => let b := buf10 st ++ seg in parse10 (S (length b)) b (pos10 st)
       end.
