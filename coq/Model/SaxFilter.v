(* SaxFilter.v — model of the Junos streaming-filter SAX handler
   (ncclient/transport/third_party/junos/parser.py, class SAXParser: startElement, endElement,
   characters, _write_buffer, escape, quoteattr) as a state machine over abstract SAX events.

   What is abstracted:
   * expat: the handler is driven by an arbitrary list of events (Start/End/Chars); names are the raw
     qualified names expat reports with namespace processing off, text is UTF-8 octets.
   * the filter: an lxml tree, here [ftree] (Clark tag + element children; comments/PIs of the filter are
     invisible to Element.find and are left out).  [_cur] is the stack of nodes from the current node up to
     the top of its tree ([] = None / attribute not yet set); [_cur.getparent()] pops, [_cur.find(tag)]
     pushes the first child with that tag, [E(tag, _cur)] (the one-level wrapper) makes a new top.
     [_cur == _root] is "the stack is as deep as the root is" (the wrapper has the root as only child).
   * the session: the table message-id -> request (with / without filter) is the environment [env].
   * output: the handler's writes are [oev]s; [render] is the text _write_buffer produces.
   Exceptions are values; the writes made before an exception are kept (they are in the buffer). *)
From Coq Require Import String.
From NC Require Import Model.Base Model.Lit.

Definition attrs := list (bytes * bytes).

Inductive event : Type :=
| Start : bytes -> attrs -> event
| End : bytes -> event
| Chars : bytes -> event.

Inductive ftree : Type := FN : bytes -> list ftree -> ftree.
Definition ftag (f : ftree) : bytes := match f with FN n _ => n end.
Definition fkids (f : ftree) : list ftree := match f with FN _ k => k end.

Inductive exn : Type :=
| ESwitch      (* SAXFilterXMLNotFoundError: the request has no filter -> DOM parsing *)
| EOperation   (* OperationError: unknown message-id *)
| EKey         (* KeyError: no message-id attribute *)
| EIndex       (* IndexError: no RPCReplyListener on the session *)
| EAttr        (* AttributeError: _cur is None / not yet set *)
| EValue.      (* ValueError of lxml.builder.E: invalid tag name (prefixed wrapper) *)

Record env : Type := mkenv { has_listener : bool; table : list (bytes * option ftree) }.

Inductive oev : Type :=
| OStart : bytes -> attrs -> oev     (* '<{}{}>'   *)
| OBare : bytes -> oev               (* '<{}>\n'   *)
| OEnd : bytes -> oev                (* '</{}>\n'  *)
| OText : bytes -> oev.              (* '{}'       *)

Record st : Type := mkst {
  cur : list ftree;          (* _cur and its ancestors *)
  roottag : option bytes;    (* _root.tag *)
  rootdepth : nat;           (* length of the stack when _cur is _root *)
  curtag : bool;             (* _currenttag is not None *)
  ign : option bytes;        (* _ignoretag *)
  dtags : list bytes;        (* _defaulttags *)
  validate : bool;           (* _validate_reply_and_sax_tag *)
  ncns : bool }.             (* nc_namespace is set *)

Definition init : st := mkst [] None 0 false None [] false false.

Inductive res : Type :=
| Done : st -> list oev -> res
| Raise : exn -> list oev -> res.

(* ---- literals ---- *)
Definition s_reply := Eval compute in lit "rpc-reply"%string.
Definition s_ncreply := Eval compute in lit "nc:rpc-reply"%string.
Definition s_nc := Eval compute in lit "nc"%string.
Definition s_msgid := Eval compute in lit "message-id"%string.
Definition s_base_clark := Eval compute in lit "{urn:ietf:params:xml:ns:netconf:base:1.0}"%string.
Definition COLON : N := 58.

Definition is_reply (n : bytes) : bool := beq n s_reply || beq n s_ncreply.

Fixpoint has_colon (n : bytes) : bool :=
  match n with [] => false | x :: r => N.eqb x COLON || has_colon r end.

(* prefix and rest at the first colon *)
Fixpoint split_colon (n : bytes) : option (bytes * bytes) :=
  match n with
  | [] => None
  | x :: r => if N.eqb x COLON then Some ([], r)
              else match split_colon r with Some (p, q) => Some (x :: p, q) | None => None end
  end.

(* Element.find(tag, namespaces={"nc": nc_namespace}) guarded by "except SyntaxError: node = None":
   the Clark name looked for; None = nothing can match (foreign prefix, or nc: while nc_namespace is unset) *)
Definition resolve (ncset : bool) (tag : bytes) : option bytes :=
  match split_colon tag with
  | None => Some tag
  | Some (p, rest) => if beq p s_nc then (if ncset then Some (s_base_clark ++ rest) else None) else None
  end.

Fixpoint find_f (n : bytes) (fs : list ftree) : option ftree :=
  match fs with
  | [] => None
  | f :: r => if beq (ftag f) n then Some f else find_f n r
  end.

Definition start (e : env) (s : st) (tag : bytes) (a : attrs) : res :=
  let r1 : st + exn :=
    if is_reply tag then
      let nc' := ncns s || beq tag s_ncreply in
      match dict_get s_msgid a with
      | None => inr EKey
      | Some id =>
          if negb (has_listener e) then inr EIndex else
          match dict_get id (table e) with
          | None => inr EOperation
          | Some None => inr ESwitch
          | Some (Some f) => inl (mkst [f] (Some (ftag f)) 1 (curtag s) (ign s) (dtags s) (validate s) nc')
          end
      end
    else inl s in
  match r1 with
  | inr x => Raise x []
  | inl s1 =>
    match ign s1 with
    | Some _ => Done s1 []
    | None =>
      match cur s1 with
      | [] =>
          (* `if self._root is None: raise SAXFilterXMLNotFoundError(None)`: no reply element has been seen (the
             document element is a <notification>, ...), nothing to filter, the message is DOM parsed.  _cur and _root
             are None initially, assigned together at the reply's start tag and _root is never reset, so "_root is None"
             implies "_cur is None" (cur = []): Proofs/SaxRootlessProofs.v rootless_inv.  _root set and _cur None
             (popped past the root) is the AttributeError of `self._cur.tag` / `self._cur.find`. *)
          match roottag s1 with None => Raise ESwitch [] | Some _ => Raise EAttr [] end
      | c :: _ =>
        let nd : option (list ftree) :=                  (* None = not found *)
          if Nat.eqb (length (cur s1)) (rootdepth s1) && beq (ftag c) tag then Some (cur s1)
          else match resolve (ncns s1) tag with
               | None => None
               | Some q => match find_f q (fkids c) with
                           | Some f' => Some (f' :: cur s1)
                           | None => None
                           end
               end in
          if validate s1 then
            match roottag s1 with
            | None => Raise EAttr []
            | Some rt =>
              if negb (beq tag rt) then
                if has_colon tag then Raise EValue [OBare tag]
                else Done (mkst [FN tag [c]] (roottag s1) (S (rootdepth s1)) (curtag s1) (ign s1)
                                (dtags s1 ++ [tag]) false (ncns s1)) [OBare tag]
              else Done (mkst (match nd with Some k => k | None => [] end) (roottag s1) (rootdepth s1) true (ign s1)
                              (dtags s1 ++ [tag]) false (ncns s1)) [OStart tag a]
            end
          else
            match nd with
            | Some k => Done (mkst k (roottag s1) (rootdepth s1) true (ign s1) (dtags s1) false (ncns s1))
                             [OStart tag a]
            | None =>
                if is_reply tag then
                  Done (mkst (cur s1) (roottag s1) (rootdepth s1) (curtag s1) (ign s1) (dtags s1 ++ [tag]) true (ncns s1))
                       [OStart tag a]
                else Done (mkst (cur s1) (roottag s1) (rootdepth s1) false (Some tag) (dtags s1) false (ncns s1)) []
            end
      end
    end
  end.

Definition endel (s : st) (tag : bytes) : res :=
  let ign1 := match ign s with Some i => if beq i tag then None else Some i | None => None end in
  if mem_bytes tag (dtags s) then
    Done (mkst (cur s) (roottag s) (rootdepth s) false ign1 (dtags s) (validate s) (ncns s)) [OEnd tag]
  else match cur s with
       | [] => Raise EAttr []
       | c :: rest =>
           if beq (ftag c) tag then
             Done (mkst rest (roottag s) (rootdepth s) false ign1 (dtags s) (validate s) (ncns s)) [OEnd tag]
           else Done (mkst (cur s) (roottag s) (rootdepth s) false ign1 (dtags s) (validate s) (ncns s)) []
       end.

Definition chars (s : st) (c : bytes) : res :=
  if curtag s then Done s [OText c] else Done s [].

Definition step (e : env) (s : st) (ev : event) : res :=
  match ev with
  | Start n a => start e s n a
  | End n => endel s n
  | Chars c => chars s c
  end.

Inductive outcome : Type := Fin : st -> outcome | Raised : exn -> outcome.

Fixpoint exec (e : env) (s : st) (evs : list event) : list oev * outcome :=
  match evs with
  | [] => ([], Fin s)
  | ev :: r =>
      match step e s ev with
      | Done s' o => let (o', oc) := exec e s' r in (o ++ o', oc)
      | Raise x o => (o, Raised x)
      end
  end.

(* ---- what _write_buffer writes ---- *)
Definition s_cr := Eval compute in lit "&#13;"%string.
Definition s_amp := Eval compute in lit "&amp;"%string.
Definition s_gt := Eval compute in lit "&gt;"%string.
Definition s_lt := Eval compute in lit "&lt;"%string.
Definition s_quot := Eval compute in lit "&quot;"%string.
Definition s_lf := Eval compute in lit "&#10;"%string.
Definition s_tab := Eval compute in lit "&#9;"%string.

Definition esc1 (x : N) : bytes :=
  if N.eqb x 38 then s_amp else if N.eqb x 62 then s_gt else if N.eqb x 60 then s_lt
  else if N.eqb x 13 then s_cr else [x].
Definition escape (b : bytes) : bytes := flat_map esc1 b.

(* escape(data, {'\n': '&#10;', '\r': '&#13;', '\t': '&#9;'}) *)
Definition qesc1 (x : N) : bytes :=
  if N.eqb x 10 then s_lf else if N.eqb x 13 then s_cr else if N.eqb x 9 then s_tab else esc1 x.

Definition DQ : N := 34.
Definition SQ : N := 39.
Definition quoteattr (v : bytes) : bytes :=
  let d := flat_map qesc1 v in
  if existsb (N.eqb DQ) d then
    if existsb (N.eqb SQ) d then DQ :: flat_map (fun x => if N.eqb x DQ then s_quot else [x]) d ++ [DQ]
    else SQ :: d ++ [SQ]
  else DQ :: d ++ [DQ].

Definition render_attrs (a : attrs) : bytes :=
  flat_map (fun kv => 32 :: fst kv ++ 61 :: quoteattr (snd kv)) a.

Definition render1 (o : oev) : bytes :=
  match o with
  | OStart n a => 60 :: escape n ++ render_attrs a ++ [62]
  | OBare n => 60 :: escape n ++ [62; 10]
  | OEnd n => 60 :: 47 :: escape n ++ [62; 10]
  | OText c => escape c
  end.
Definition render (o : list oev) : bytes := flat_map render1 o.

(* the observable of one handler run: buffer contents and how the run ended *)
Definition runb (e : env) (s : st) (evs : list event) : bytes * outcome :=
  let (o, oc) := exec e s evs in (render o, oc).
