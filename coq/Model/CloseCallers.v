(* Model/CloseCallers.v — C12: WHO calls close(), and two sessions in one process.
   Definitions only.

   Model/Close.v is the life-cycle of ONE session; the statements of a close() are labelled with
   the [actor] that executes them: [Worker] = the session's own thread (a listener of the
   session, or run()'s error handler, calls close()), [Client] = any other thread.  That is the
   one thing the source asks about its caller: the wait at the end of every transport's close()
   is

       while self.is_alive() and (self is not threading.current_thread()): self.join(10)

   (ssh.py, tls.py, unixSocket.py) - the IDENTITY of this session's thread, not the kind of
   thread.  Part 1 names the kinds of caller the property quantifies over and maps them to the
   actor.  Part 2 puts two sessions A and B side by side: listeners run on the session thread, so
   a listener of A that closes B (a supervisor, a cascade close when A fails) makes A's SESSION
   THREAD the caller of B.close().  For B that thread is a foreign thread: it must be waited for
   like for any client thread - B's worker has ended and none of B's listeners is invoked once
   that close() has returned - although the caller is a session thread itself. *)
From NC Require Import Model.Base Model.Close.

(* ---------------- 1. kinds of caller ---------------- *)
Inductive caller :=
| MainThread            (* the main thread of the process *)
| OwnThread             (* the thread of the session that is being closed *)
| AppThread             (* another application thread *)
| OtherSession.         (* the thread of ANOTHER session (one of its listeners is running) *)

(* `self is threading.current_thread()` *)
Definition is_own (c : caller) : bool := match c with OwnThread => true | _ => false end.

(* the actor of Model/Close.v that executes the statements of a close() called by c *)
Definition actor_of (c : caller) : actor := if is_own c then Worker else Client.

(* the runner's code of a caller (tools/props/c12.py ACODE: measured inside close() by the harness) *)
Definition caller_of_code (n : N) : option caller :=
  match n with 0 => Some MainThread | 1 => Some OwnThread | 2 => Some AppThread | 3 => Some OtherSession
             | _ => None end.

(* ---------------- 2. two sessions, a listener of one closes the other ---------------- *)
Inductive side := SA | SB.
Definition other (x : side) : side := match x with SA => SB | SB => SA end.

Record sys := mk2 {
  sa : state;
  sb : state;
  in_a : bool;      (* A's session thread is inside a listener that is executing close() on B *)
  in_b : bool       (* B's session thread is inside a listener that is executing close() on A *)
}.

Definition sess (y : sys) (x : side) : state := match x with SA => sa y | SB => sb y end.
Definition set_sess (y : sys) (x : side) (s : state) : sys :=
  match x with SA => mk2 s (sb y) (in_a y) (in_b y) | SB => mk2 (sa y) s (in_a y) (in_b y) end.
(* busy y x: the thread of session x is inside a close() of the other session *)
Definition busy (y : sys) (x : side) : bool := match x with SA => in_a y | SB => in_b y end.
Definition set_busy (y : sys) (x : side) (b : bool) : sys :=
  match x with SA => mk2 (sa y) (sb y) b (in_b y) | SB => mk2 (sa y) (sb y) (in_a y) b end.

Definition init2 (ta tb : transport) : sys := mk2 (init ta) (init tb) false false.

(* the worker is about to invoke the listeners: a message to dispatch, or the error broadcast *)
Definition at_listeners (w : wpc) : bool :=
  match w with WDispatching (S _) | WBreak | WRaised => true | _ => false end.

(* the labels of a close() executed by a thread that is not the session's own *)
Definition is_client_close_label (l : label) : bool :=
  match l with CloseCall | CStep Client _ _ | CloseRet Client => true | _ => false end.

Inductive label2 :=
| Own (x : side) (l : label)                   (* a step of session x alone: its worker, an application thread, the environment *)
| FCall (x : side)                             (* a listener of the OTHER session, on that session's thread, calls close() on x *)
| FStmt (x : side) (c : cstep) (did : bool)    (* ... executes one statement of it *)
| FRet (x : side).                             (* ... returns from it (and goes on in its listener) *)

Definition step2 (y : sys) (l : label2) : option sys :=
  match l with
  | Own x l =>
      (* x's thread executes nothing of its own run() while it is inside the other session's close() *)
      if is_worker_label l && busy y x then None
      (* the close() in progress on x belongs to the other session's thread: its statements are FStmt / FRet *)
      else if is_client_close_label l && busy y (other x) then None
      else match step (sess y x) l with Some s => Some (set_sess y x s) | None => None end
  | FCall x =>
      if at_listeners (worker (sess y (other x))) && negb (busy y (other x)) then
        match step (sess y x) CloseCall with
        | Some s => Some (set_busy (set_sess y x s) (other x) true)
        | None => None end
      else None
  | FStmt x c did =>
      (* the SAME statements, executed by a thread that is not x's own: `self is not current_thread()` holds *)
      if busy y (other x) then
        match step (sess y x) (CStep (actor_of OtherSession) c did) with
        | Some s => Some (set_sess y x s)
        | None => None end
      else None
  | FRet x =>
      if busy y (other x) then
        match step (sess y x) (CloseRet (actor_of OtherSession)) with
        | Some s => Some (set_busy (set_sess y x s) (other x) false)
        | None => None end
      else None
  end.

Fixpoint accepts2 (y : sys) (ls : list label2) : option sys :=
  match ls with
  | [] => Some y
  | l :: ls' => match step2 y l with Some y' => accepts2 y' ls' | None => None end
  end.

(* what session x sees of a step of the pair *)
Definition side_eqb (x z : side) : bool :=
  match x, z with SA, SA | SB, SB => true | _, _ => false end.

Definition seen_by (x : side) (l : label2) : list label :=
  match l with
  | Own z l => if side_eqb x z then [l] else []
  | FCall z => if side_eqb x z then [CloseCall] else []
  | FStmt z c d => if side_eqb x z then [CStep Client c d] else []
  | FRet z => if side_eqb x z then [CloseRet Client] else []
  end.

Fixpoint project (x : side) (ls : list label2) : list label :=
  match ls with [] => [] | l :: ls' => seen_by x l ++ project x ls' end.

(* a base label of session x as a label of the pair, when the close() in progress on x is the foreign one *)
Definition lift_foreign (x : side) (l : label) : label2 :=
  match l with
  | CStep Client c d => FStmt x c d
  | CloseRet Client => FRet x
  | _ => Own x l
  end.

(* steps of the threads of session x: its worker, or the other session's thread inside x.close() *)
Definition is_thread_label2 (l : label2) : bool :=
  match l with
  | Own _ l => is_worker_label l
  | FCall _ | FStmt _ _ _ | FRet _ => true
  end.
