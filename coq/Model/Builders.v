(* Builders.v — model of the request builders of the 19 standard operations
   (operations/{retrieve,edit,lock,session,subscribe,flowmon}.py, rpc.py GenericRPC, util.py
   datastore_or_url/build_filter/validate_args, rpc.py RPC._wrap), after fixes a9ba88a, 5c67a43,
   2ce32d4, 83552c2.  A builder maps an argument record to the request *as an independent reader
   sees it* (names resolved to namespace + local part), or to the local exception.
   Caller strings are octet lists; caller XML fragments are trees (what the caller's document is).
   Capability checks are C09's subject (Model/Gating.v): here the server advertises everything,
   with-defaults lists the four RFC 6243 modes.
   Namespace resolution: every element the standard builders create is in the base namespace
   (or the namespace the builder names); elements WITHOUT a namespace (only caller fragments
   have them) are read back in the base namespace under a profile whose <rpc> declares it as the
   default namespace (rule R3) — [adopt]. *)
From Coq Require Import String.
From NC Require Import Model.Base Model.Lit Model.Xml Model.Gating.

Definition NS_BASE := Eval compute in lit "urn:ietf:params:xml:ns:netconf:base:1.0"%string.
Definition NS_NOTIF := Eval compute in lit "urn:ietf:params:xml:ns:netconf:notification:1.0"%string.
Definition NS_MON := Eval compute in lit "urn:ietf:params:xml:ns:yang:ietf-netconf-monitoring"%string.
Definition NS_WD := Eval compute in lit "urn:ietf:params:xml:ns:yang:ietf-netconf-with-defaults"%string.
Definition NS_PC := Eval compute in lit "urn:liberouter:params:xml:ns:netconf:power-control:1.0"%string.

Definition b_ (l : bytes) : qname := qn NS_BASE l.
Definition n_ (l : bytes) : qname := qn NS_NOTIF l.
Definition m_ (l : bytes) : qname := qn NS_MON l.
Definition a_ (l : bytes) : qname := qn [] l.          (* un-namespaced (attributes) *)

Definition s_rpc := Eval compute in lit "rpc"%string.
Definition s_message_id := Eval compute in lit "message-id"%string.
Definition s_get := Eval compute in lit "get"%string.
Definition s_get_config := Eval compute in lit "get-config"%string.
Definition s_edit_config := Eval compute in lit "edit-config"%string.
Definition s_copy_config := Eval compute in lit "copy-config"%string.
Definition s_delete_config := Eval compute in lit "delete-config"%string.
Definition s_lock := Eval compute in lit "lock"%string.
Definition s_unlock := Eval compute in lit "unlock"%string.
Definition s_validate := Eval compute in lit "validate"%string.
Definition s_commit := Eval compute in lit "commit"%string.
Definition s_cancel_commit := Eval compute in lit "cancel-commit"%string.
Definition s_discard_changes := Eval compute in lit "discard-changes"%string.
Definition s_close_session := Eval compute in lit "close-session"%string.
Definition s_kill_session := Eval compute in lit "kill-session"%string.
Definition s_create_subscription := Eval compute in lit "create-subscription"%string.
Definition s_get_schema := Eval compute in lit "get-schema"%string.
Definition s_poweroff := Eval compute in lit "poweroff-machine"%string.
Definition s_reboot := Eval compute in lit "reboot-machine"%string.
Definition s_source := Eval compute in lit "source"%string.
Definition s_target := Eval compute in lit "target"%string.
Definition s_url := Eval compute in lit "url"%string.
Definition s_filter := Eval compute in lit "filter"%string.
Definition s_type := Eval compute in lit "type"%string.
Definition s_select := Eval compute in lit "select"%string.
Definition s_subtree := Eval compute in lit "subtree"%string.
Definition s_xpath := Eval compute in lit "xpath"%string.
Definition s_with_defaults := Eval compute in lit "with-defaults"%string.
Definition s_config := Eval compute in lit "config"%string.
Definition s_config_text := Eval compute in lit "config-text"%string.
Definition s_configuration_text := Eval compute in lit "configuration-text"%string.
Definition s_default_operation := Eval compute in lit "default-operation"%string.
Definition s_test_option := Eval compute in lit "test-option"%string.
Definition s_error_option := Eval compute in lit "error-option"%string.
Definition s_confirmed := Eval compute in lit "confirmed"%string.
Definition s_confirm_timeout := Eval compute in lit "confirm-timeout"%string.
Definition s_persist := Eval compute in lit "persist"%string.
Definition s_persist_id := Eval compute in lit "persist-id"%string.
Definition s_session_id := Eval compute in lit "session-id"%string.
Definition s_stream := Eval compute in lit "stream"%string.
Definition s_startTime := Eval compute in lit "startTime"%string.
Definition s_stopTime := Eval compute in lit "stopTime"%string.
Definition s_identifier := Eval compute in lit "identifier"%string.
Definition s_version := Eval compute in lit "version"%string.
Definition s_format := Eval compute in lit "format"%string.
Definition s_m_explicit := Eval compute in lit "explicit"%string.
Definition s_m_trim := Eval compute in lit "trim"%string.
Definition s_m_report_all := Eval compute in lit "report-all"%string.
Definition s_m_report_all_tagged := Eval compute in lit "report-all-tagged"%string.

Definition WD_MODES : list bytes := [s_m_explicit; s_m_report_all; s_m_report_all_tagged; s_m_trim].

(* ---------------- results ---------------- *)
Inductive bres : Type := Built : tree -> bres | Refused : exn -> bres.

(* partial constructions: children lists under construction *)
Inductive pres (A : Type) : Type := POk : A -> pres A | PErr : exn -> pres A.
Arguments POk {A}. Arguments PErr {A}.
Definition pbind {A B} (x : pres A) (f : A -> pres B) : pres B :=
  match x with POk a => f a | PErr e => PErr e end.
Notation "'let*' x := e 'in' k" := (pbind e (fun x => k)) (at level 200, x pattern, e at level 100, k at level 200).

(* `.text = s`: lxml checks the characters; an empty string leaves no text node behind *)
Definition text_children (s : bytes) : pres (list tree) :=
  if xml_chars_ok s then POk (match s with [] => [] | _ => [Text s] end) else PErr ValueError.
Definition leaf (q : qname) (s : bytes) : pres tree :=
  let* cs := text_children s in POk (Elem q [] cs).
Definition oleaf (q : qname) (o : option bytes) : pres (list tree) :=
  match o with None => POk [] | Some s => let* t := leaf q s in POk [t] end.

(* ---------------- arguments ---------------- *)
(* util.build_filter *)
Inductive filt : Type :=
| FSubtree : tree -> filt              (* ('subtree', document) *)
| FXpath : bytes -> filt               (* ('xpath', expr) or ('xpath', (nsmap, expr)) *)
| FList : list tree -> filt            (* [document, …] *)
| FRaw : tree -> filt                  (* a document/element that must be rooted at filter *)
| FBad : exn -> filt.                  (* unknown type / unparsable document *)

Definition root_of (t : tree) : option qname := match t with Elem q _ _ => Some q | Text _ => None end.
Definition root_in (t : tree) (qs : list qname) : bool :=
  match root_of t with Some q => existsb (qname_eqb q) qs | None => false end.

Definition build_filter (f : filt) : pres tree :=
  match f with
  | FSubtree t => POk (Elem (b_ s_filter) [(a_ s_type, s_subtree)] [t])
  | FXpath sel =>
      if xml_chars_ok sel then POk (Elem (b_ s_filter) [(a_ s_type, s_xpath); (a_ s_select, sel)] [])
      else PErr ValueError
  | FList ts => POk (Elem (b_ s_filter) [(a_ s_type, s_subtree)] ts)
  | FRaw t => if root_in t [a_ s_filter; b_ s_filter; n_ s_filter] then POk t else PErr XMLError
  | FBad e => PErr e
  end.
Definition ofilter (o : option filt) : pres (list tree) :=
  match o with None => POk [] | Some f => let* t := build_filter f in POk [t] end.

(* util.datastore_or_url(wha, loc, self._assert) with :url advertised *)
Definition ds_node (wha : bytes) (d : dsarg) : pres tree :=
  match d with
  | DsBad e => PErr e
  | DsStr loc lx =>
      if contains loc s_css then
        let* u := leaf (b_ s_url) loc in POk (Elem (b_ wha) [] [u])
      else if lx then POk (Elem (b_ wha) [] [Elem (b_ loc) [] []]) else PErr ValueError
  end.
Definition ods_node (wha : bytes) (o : option dsarg) : pres (list tree) :=
  match o with None => POk [] | Some d => let* t := ds_node wha d in POk [t] end.

(* with_defaults (normalised) against the four modes the harness server lists *)
Definition wd_node (o : option bytes) : pres (list tree) :=
  match o with
  | None => POk []
  | Some norm => if mem_bytes norm WD_MODES then let* t := leaf (qn NS_WD s_with_defaults) norm in POk [t]
                 else PErr WithDefaultsError
  end.

(* util.validate_args + `.text = value` *)
Definition enum_node (q : qname) (o : option bytes) (allowed : list bytes) : pres (list tree) :=
  match o with
  | None => POk []
  | Some v => if mem_bytes v allowed then let* t := leaf q v in POk [t] else PErr OperationError
  end.

Inductive cfgarg : Type :=
| CfgXml : tree -> cfgarg                 (* format='xml': document/element rooted at config *)
| CfgText : bytes -> cfgarg               (* format='text' *)
| CfgUrl : bytes -> bool -> cfgarg        (* format='url', verdict of util.url_validator *)
| CfgOther : cfgarg                       (* any other format: nothing is appended *)
| CfgBad : exn -> cfgarg.                 (* unparsable document *)

Inductive isrc : Type :=
| ISds : dsarg -> isrc                    (* datastore name or URL *)
| ISinline : tree -> isrc                 (* inline document *)
| ISbad : exn -> isrc.

Inductive cmdarg : Type :=
| CmdName : bytes -> bool -> cmdarg       (* a name, with lxml's verdict on it *)
| CmdTree : tree -> cmdarg.               (* the caller's own element *)

(* device profile: how the envelope declares the base namespace, and the iosxe config patch *)
Inductive nsmode : Type := Prefixed | DefaultNs.
Record profile := { p_ns : nsmode; p_iosxe : bool }.

Inductive opcall : Type :=
| OGet (f : option filt) (wd : option bytes)
| OGetConfig (src : dsarg) (f : option filt) (wd : option bytes)
| OEditConfig (tgt : dsarg) (dop top eop : option bytes) (cfg : cfgarg)
| OCopyConfig (tgt : dsarg) (src : isrc)
| ODeleteConfig (tgt : dsarg)
| OLock (tgt : bytes) (lx : bool)
| OUnlock (tgt : bytes) (lx : bool)
| OValidate (src : isrc)
| OCommit (confirmed : bool) (timeout persist persist_id : option bytes)
| OCancelCommit (persist_id : option bytes)
| ODiscardChanges
| OCloseSession
| OKillSession (sid : bytes)
| OCreateSubscription (f : option filt) (stream start stop : option bytes)
| OGetSchema (ident : bytes) (version format : option bytes)
| ODispatch (cmd : cmdarg) (src : option dsarg) (f : option filt)
| ORpc (cmd : cmdarg) (tgt src : option dsarg) (f : option filt) (cfg : option cfgarg)
| OPoweroff
| OReboot.

Definition nonempty (o : option bytes) : bool :=
  match o with Some (_ :: _) => true | _ => false end.        (* Python truthiness of str-or-None *)

Definition config_node (t : tree) : pres tree :=
  if root_in t [a_ s_config; b_ s_config] then POk t else PErr XMLError.

(* ---------------- the device profiles' hook on the finished <edit-config> element ----------------
   EditConfig.request ends with  node = self._device_handler.transform_edit_config(node).
   DefaultDeviceHandler.transform_edit_config (13 of the 14 profiles):  return node
   IosxeDeviceHandler.transform_edit_config:
       nodes = node.findall("./config")       the DIRECT element children of node named config in NO namespace
       if len(nodes) == 1: nodes[0].tag = '{base}config'
       return node
   Modelled at that granularity: a function on the whole operation element.  It looks at the names of the direct
   children only; nothing below them, no attribute, no text is read or written; with no such child, or with more than
   one, the tree is returned as it is. *)
Definition is_bare_config (t : tree) : bool :=
  match t with Elem q _ _ => qname_eqb q (a_ s_config) | Text _ => false end.
Definition to_base_config (t : tree) : tree :=
  match t with
  | Elem q a cs => if qname_eqb q (a_ s_config) then Elem (b_ s_config) a cs else t
  | Text _ => t
  end.
Definition iosxe_transform (node : tree) : tree :=
  match node with
  | Elem q a cs =>
      match filter is_bare_config cs with
      | [_] => Elem q a (map to_base_config cs)
      | _ => node
      end
  | Text _ => node
  end.
Definition transform_edit_config (p : profile) (node : tree) : tree :=
  if p_iosxe p then iosxe_transform node else node.

(* what the hook amounts to for the one element of the caller that EditConfig.request appends
   (Proofs/BuildersProofs.v edit_config_node_eq: the hook on the finished node = this patch on that element) *)
Definition iosxe_patch (p : profile) (t : tree) : tree :=
  if p_iosxe p then to_base_config t else t.

(* the config parameter as EditConfig.request appends it *)
Definition cfg_nodes (c : cfgarg) : pres (list tree) :=
  match c with
  | CfgXml t => let* t' := config_node t in POk [t']
  | CfgText s => let* l := leaf (b_ s_configuration_text) s in POk [Elem (b_ s_config_text) [] [l]]
  | CfgUrl s ok => if ok then let* l := leaf (b_ s_url) s in POk [l] else PErr OperationError
  | CfgOther => POk []
  | CfgBad e => PErr e
  end.

(* ... and as it leaves the hook (derived form, used by the specification tables and the proofs) *)
Definition cfg_children (p : profile) (c : cfgarg) : pres (list tree) :=
  match c with
  | CfgXml t => let* t' := config_node t in POk [iosxe_patch p t']
  | CfgText s => let* l := leaf (b_ s_configuration_text) s in POk [Elem (b_ s_config_text) [] [l]]
  | CfgUrl s ok => if ok then let* l := leaf (b_ s_url) s in POk [l] else PErr OperationError
  | CfgOther => POk []
  | CfgBad e => PErr e
  end.

Definition cmd_node (c : cmdarg) (extra : list tree) : pres tree :=
  match c with
  | CmdName n lx => if lx then POk (Elem (b_ n) [] extra) else PErr ValueError
  | CmdTree (Elem q a cs) => POk (Elem q a (cs ++ extra))
  | CmdTree (Text _) => PErr TypeError
  end.

Definition cmd_check (c : cmdarg) : pres unit :=
  match c with
  | CmdName _ false => PErr ValueError
  | CmdTree (Text _) => PErr TypeError
  | _ => POk tt
  end.

(* EditConfig.request: the element is finished, then handed to the profile's hook *)
Definition edit_config_node (p : profile) (tgt : dsarg) (dop top eop : option bytes) (cfg : cfgarg) : pres tree :=
  let* t := ds_node s_target tgt in
  let* d := enum_node (b_ s_default_operation) dop DEFAULT_OPS in
  let* o := enum_node (b_ s_test_option) top TEST_OPTS in
  let* e := enum_node (b_ s_error_option) eop ERROR_OPTS in
  let* c := cfg_nodes cfg in
  POk (transform_edit_config p (Elem (b_ s_edit_config) [] (t :: d ++ o ++ e ++ c))).

Arguments edit_config_node : simpl never.

(* the operation element *)
Definition op_node (p : profile) (c : opcall) : pres tree :=
  match c with
  | OGet f wd =>
      let* fl := ofilter f in let* w := wd_node wd in POk (Elem (b_ s_get) [] (fl ++ w))
  | OGetConfig src f wd =>
      let* s := ds_node s_source src in let* fl := ofilter f in let* w := wd_node wd in
      POk (Elem (b_ s_get_config) [] (s :: fl ++ w))
  | OEditConfig tgt dop top eop cfg => edit_config_node p tgt dop top eop cfg
  | OCopyConfig tgt src =>
      let* t := ds_node s_target tgt in
      let* s := match src with
                | ISds d => ds_node s_source d
                | ISinline x => if root_in x [a_ s_source; b_ s_source] then POk x else PErr XMLError
                | ISbad e => PErr e
                end in
      POk (Elem (b_ s_copy_config) [] [t; s])
  | ODeleteConfig tgt =>
      let* t := ds_node s_target tgt in POk (Elem (b_ s_delete_config) [] [t])
  | OLock tgt lx =>
      if lx then POk (Elem (b_ s_lock) [] [Elem (b_ s_target) [] [Elem (b_ tgt) [] []]]) else PErr ValueError
  | OUnlock tgt lx =>
      if lx then POk (Elem (b_ s_unlock) [] [Elem (b_ s_target) [] [Elem (b_ tgt) [] []]]) else PErr ValueError
  | OValidate src =>
      let* s := match src with
                | ISds d => ds_node s_source d
                | ISinline x => let* x' := config_node x in POk (Elem (b_ s_source) [] [x'])
                | ISbad e => PErr e
                end in
      POk (Elem (b_ s_validate) [] [s])
  | OCommit confirmed timeout persist persist_id =>
      if nonempty persist && nonempty persist_id then PErr OperationError else
      let* c := (if confirmed then
                   let* t := oleaf (b_ s_confirm_timeout) timeout in
                   let* pe := oleaf (b_ s_persist) persist in
                   POk (Elem (b_ s_confirmed) [] [] :: t ++ pe)
                 else POk []) in
      let* pid := (if nonempty persist_id then oleaf (b_ s_persist_id) persist_id else POk []) in
      POk (Elem (b_ s_commit) [] (c ++ pid))
  | OCancelCommit persist_id =>
      let* pid := oleaf (b_ s_persist_id) persist_id in POk (Elem (b_ s_cancel_commit) [] pid)
  | ODiscardChanges => POk (Elem (b_ s_discard_changes) [] [])
  | OCloseSession => POk (Elem (b_ s_close_session) [] [])
  | OKillSession sid =>
      let* s := leaf (b_ s_session_id) sid in POk (Elem (b_ s_kill_session) [] [s])
  | OCreateSubscription f stream start stop =>
      let* st := oleaf (n_ s_stream) stream in
      let* fl := match f with
                 | None => POk []
                 | Some x => let* t := build_filter x in
                             match t with
                             | Elem _ a cs => POk [Elem (n_ s_filter) a cs]
                             | Text _ => PErr TypeError
                             end
                 end in
      let* b := oleaf (n_ s_startTime) start in
      let* e := match stop with
                | None => POk []
                | Some _ => match start with None => PErr ValueError | Some _ => oleaf (n_ s_stopTime) stop end
                end in
      POk (Elem (n_ s_create_subscription) [] (st ++ fl ++ b ++ e))
  | OGetSchema ident version format =>
      let* i := leaf (m_ s_identifier) ident in
      let* v := oleaf (m_ s_version) version in
      let* fo := oleaf (m_ s_format) format in
      POk (Elem (m_ s_get_schema) [] (i :: v ++ fo))
  | ODispatch cmd src f =>
      let* _ := cmd_check cmd in
      let* s := ods_node s_source src in let* fl := ofilter f in
      cmd_node cmd (s ++ fl)
  | ORpc cmd tgt src f cfg =>
      let* _ := cmd_check cmd in
      let* t := ods_node s_target tgt in let* s := ods_node s_source src in let* fl := ofilter f in
      let* c := match cfg with
                | None => POk []
                | Some (CfgXml x) => let* x' := config_node x in POk [x']
                | Some (CfgBad e) => PErr e
                | Some _ => PErr TypeError
                end in
      cmd_node cmd (t ++ s ++ fl ++ c)
  | OPoweroff => POk (Elem (qn NS_PC s_poweroff) [] [])
  | OReboot => POk (Elem (qn NS_PC s_reboot) [] [])
  end.

(* rule R3: un-namespaced elements are read in the envelope's default namespace *)
Fixpoint adopt (t : tree) : tree :=
  match t with
  | Elem q a cs => Elem (match q_ns q with [] => b_ (q_local q) | _ => q end) a (map adopt cs)
  | Text s => Text s
  end.

(* RPC._wrap *)
Definition wrap (p : profile) (mid : bytes) (op : tree) : tree :=
  let t := Elem (b_ s_rpc) [(a_ s_message_id, mid)] [op] in
  match p_ns p with Prefixed => t | DefaultNs => adopt t end.

Definition build (p : profile) (mid : bytes) (c : opcall) : bres :=
  match op_node p c with
  | POk op => Built (wrap p mid op)
  | PErr e => Refused e
  end.
