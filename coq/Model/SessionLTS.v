(* SessionLTS.v — labelled transition system of one NETCONF session at the granularity of
   shared-state effects (DESIGN App. A), shared by C03, C04, C11 (and the session-level clause of C14).

   Modelled code (after the fix commits for F9, F10, F11a/F12):
     operations/rpc.py   RPC.__init__ (register), RPC._request (send / wait / outcome),
                         RPCReplyListener.register / callback / errback, RPC.deliver_reply / deliver_error
     transport/session.py Session.send, Session.run (dequeue+write, read, dispatch, error broadcast,
                         close, exit), NotificationHandler.callback, take_notification
   Each label is ONE effect on shared state, in the global order in which the effects take place;
   the deterministic scheduler of tools/harness records exactly these effects from the real threads.
   Message ids are abstract numbers supplied by the trace (fresh-id oracle = uuid4); requests are
   numbered by registration order (rid). Definitions only; proofs in Proofs/SessionLTSProofs.v. *)
From NC Require Import Model.Base.

(* exception classes that matter: 1 SessionCloseError (a TransportError) 2 OperationError
   3 other exception from the transport 4 TimeoutExpiredError 5 TransportError("Not connected") *)
Definition exc := N.

Inductive outcome := OReply (id : N) | OExc (e : exc).

Inductive cstate :=
| CReg                       (* registered in the pending table, send not yet attempted *)
| CChecked                   (* send(): `connected` was read as True *)
| CSent                      (* message is in the out queue; waiting (sync) / event not yet consulted (async) *)
| CDone (o : outcome).

Record req := { r_id : N; r_st : cstate; r_reply : option N; r_error : option exc; r_ev : bool }.

Inductive wpc :=
| WIdle
| WNotif (n : N)                         (* dispatching a notification: NotificationHandler will enqueue it *)
| WLookup (id : N)                       (* reply listener holds the table lock, about to look id up *)
| WDeliver (rid : nat) (id : N)          (* found: deliver_reply (reply stored, event set) comes next *)
| WDel (id : N)                          (* delivered: del table[id] comes next *)
| WRaise (e : exc)                       (* an exception is propagating out of the loop body *)
| WErrSnap (e : exc)                     (* _dispatch_error(e) started; reply listener's errback next *)
| WErrClear (e : exc) (rids : list nat)  (* values() taken under the lock; clear() next *)
| WErrDeliver (e : exc) (rids : list nat)(* deliver_error to each snapshot entry *)
| WClosed                                (* close() done by the worker *)
| WExited.

Record st := {
  reqs : list req;                  (* index = rid *)
  table : list (N * nat);           (* RPCReplyListener._id2rpc: message-id -> rid, insertion ordered *)
  outq : list nat;                  (* Session._q *)
  nq : list N;                      (* Session._notification_q *)
  connected : bool;
  closing : bool;
  pc : wpc;
  qualify : bool;                   (* device profile: perform_qualify_check() *)
  (* ghost history *)
  wrote : list nat;                 (* requests written to the transport (received by the server) *)
  deliver_log : list nat;           (* rids in order of deliver_reply *)
  recv_notifs : list N;             (* notifications dispatched, in order *)
  taken : list N;                   (* notifications returned by take_notification, in order *)
  bcast : option exc;               (* the error the worker broadcast to the listeners, if it did *)
  eof_seen : bool;                  (* the worker read end-of-file (the peer closed) *)
  lst : bool;                       (* the session's RPCReplyListener exists (created by the first RPC.__init__) *)
  skipok : bool;                    (* no reply listener existed when the error broadcast started *)
  rlog : list N                     (* ghost: message-ids of the inbound messages the reply listener looked up *)
}.

Definition init (q : bool) : st :=
  {| reqs := []; table := []; outq := []; nq := []; connected := true; closing := false; pc := WIdle;
     qualify := q; wrote := []; deliver_log := []; recv_notifs := []; taken := []; bcast := None; eof_seen := false; lst := false; skipok := false; rlog := [] |}.

Inductive label :=
| LReg (rid : nat) (id : N)
| LChk (rid : nat) (b : bool)
| LPut (rid : nat)
| LWaitRes (rid : nat) (flag : bool)
| LDeq (rid : nat)
| LRecv (kind : N) (arg : N)     (* 0 rpc-reply with message-id arg; 1 rpc-reply without; 2 notification arg;
                                    3 other root tag with message-id arg; 4 other root tag without;
                                    5 not XML (parse_root fails and the profile does not repair it) *)
| LNqPut (n : N)
| LTGet (id : N) (found : bool)
| LEvSetReply (rid : nat)
| LTDel (id : N)
| LReadEof
| LReadErr
| LWriteFail                      (* _transport_write returned <= 0: SessionCloseError raised in the loop *)
| LRaise (e : exc)                (* parser.parse raised: 6 NetconfFramingError (chunk framing broken), 3 any other (undecodable octets) *)
| LTValues (ids : list N)
| LTClear
| LEvSetErr (rid : nat)
| LClose (who : N)               (* 0 = the worker (error path), 1 = a client thread *)
| LExit
| LTake (got : bool) (n : N)
| LErrBcast (e : exc).

(* ---------- small helpers ---------- *)
Fixpoint tget (id : N) (t : list (N * nat)) : option nat :=
  match t with [] => None | (k, v) :: t' => if N.eqb id k then Some v else tget id t' end.
Fixpoint tset (id : N) (v : nat) (t : list (N * nat)) : list (N * nat) :=
  match t with
  | [] => [(id, v)]
  | (k, w) :: t' => if N.eqb id k then (k, v) :: t' else (k, w) :: tset id v t'
  end.
Fixpoint tdel (id : N) (t : list (N * nat)) : list (N * nat) :=
  match t with [] => [] | (k, v) :: t' => if N.eqb id k then t' else (k, v) :: tdel id t' end.
Fixpoint memN (x : N) (l : list N) : bool :=
  match l with [] => false | y :: l' => N.eqb x y || memN x l' end.
Fixpoint upd (l : list req) (i : nat) (f : req -> req) : list req :=
  match l, i with
  | [], _ => []
  | r :: l', O => f r :: l'
  | r :: l', S i' => r :: upd l' i' f
  end.
Fixpoint listN_eqb (a b : list N) : bool :=
  match a, b with
  | [], [] => true
  | x :: a', y :: b' => N.eqb x y && listN_eqb a' b'
  | _, _ => false
  end.
Definition st_is (r : req) (c : cstate) : bool :=
  match r_st r, c with
  | CReg, CReg | CChecked, CChecked | CSent, CSent => true
  | _, _ => false
  end.
Definition set_st (c : cstate) (r : req) : req :=
  {| r_id := r_id r; r_st := c; r_reply := r_reply r; r_error := r_error r; r_ev := r_ev r |}.
Definition set_reply (i : N) (r : req) : req :=
  {| r_id := r_id r; r_st := r_st r; r_reply := Some i; r_error := r_error r; r_ev := true |}.
Definition set_error (e : exc) (r : req) : req :=
  {| r_id := r_id r; r_st := r_st r; r_reply := r_reply r; r_error := Some e; r_ev := true |}.

(* what RPC._request returns/raises once the wait is over *)
Definition wait_outcome (r : req) (flag : bool) : outcome :=
  if flag then
    match r_error r with
    | Some e => OExc e
    | None => match r_reply r with Some i => OReply i | None => OExc 99 end
    end
  else OExc 4.

(* record update helpers *)
Definition with_reqs (s : st) (x : list req) : st :=
  {| reqs := x; table := table s; outq := outq s; nq := nq s; connected := connected s; closing := closing s;
     pc := pc s; qualify := qualify s; wrote := wrote s; deliver_log := deliver_log s;
     recv_notifs := recv_notifs s; taken := taken s; bcast := bcast s; eof_seen := eof_seen s; lst := lst s; skipok := skipok s; rlog := rlog s |}.
Definition with_table (s : st) (x : list (N * nat)) : st :=
  {| reqs := reqs s; table := x; outq := outq s; nq := nq s; connected := connected s; closing := closing s;
     pc := pc s; qualify := qualify s; wrote := wrote s; deliver_log := deliver_log s;
     recv_notifs := recv_notifs s; taken := taken s; bcast := bcast s; eof_seen := eof_seen s; lst := lst s; skipok := skipok s; rlog := rlog s |}.
Definition with_pc (s : st) (x : wpc) : st :=
  {| reqs := reqs s; table := table s; outq := outq s; nq := nq s; connected := connected s; closing := closing s;
     pc := x; qualify := qualify s; wrote := wrote s; deliver_log := deliver_log s;
     recv_notifs := recv_notifs s; taken := taken s; bcast := bcast s; eof_seen := eof_seen s; lst := lst s; skipok := skipok s; rlog := rlog s |}.
Definition with_outq (s : st) (x : list nat) : st :=
  {| reqs := reqs s; table := table s; outq := x; nq := nq s; connected := connected s; closing := closing s;
     pc := pc s; qualify := qualify s; wrote := wrote s; deliver_log := deliver_log s;
     recv_notifs := recv_notifs s; taken := taken s; bcast := bcast s; eof_seen := eof_seen s; lst := lst s; skipok := skipok s; rlog := rlog s |}.
Definition with_nq (s : st) (x : list N) : st :=
  {| reqs := reqs s; table := table s; outq := outq s; nq := x; connected := connected s; closing := closing s;
     pc := pc s; qualify := qualify s; wrote := wrote s; deliver_log := deliver_log s;
     recv_notifs := recv_notifs s; taken := taken s; bcast := bcast s; eof_seen := eof_seen s; lst := lst s; skipok := skipok s; rlog := rlog s |}.
Definition with_closed (s : st) : st :=
  {| reqs := reqs s; table := table s; outq := outq s; nq := nq s; connected := false; closing := true;
     pc := pc s; qualify := qualify s; wrote := wrote s; deliver_log := deliver_log s;
     recv_notifs := recv_notifs s; taken := taken s; bcast := bcast s; eof_seen := eof_seen s; lst := lst s; skipok := skipok s; rlog := rlog s |}.
Definition with_wrote (s : st) (x : list nat) : st :=
  {| reqs := reqs s; table := table s; outq := outq s; nq := nq s; connected := connected s; closing := closing s;
     pc := pc s; qualify := qualify s; wrote := x; deliver_log := deliver_log s;
     recv_notifs := recv_notifs s; taken := taken s; bcast := bcast s; eof_seen := eof_seen s; lst := lst s; skipok := skipok s; rlog := rlog s |}.
Definition with_dlog (s : st) (x : list nat) : st :=
  {| reqs := reqs s; table := table s; outq := outq s; nq := nq s; connected := connected s; closing := closing s;
     pc := pc s; qualify := qualify s; wrote := wrote s; deliver_log := x;
     recv_notifs := recv_notifs s; taken := taken s; bcast := bcast s; eof_seen := eof_seen s; lst := lst s; skipok := skipok s; rlog := rlog s |}.
Definition with_rnot (s : st) (x : list N) : st :=
  {| reqs := reqs s; table := table s; outq := outq s; nq := nq s; connected := connected s; closing := closing s;
     pc := pc s; qualify := qualify s; wrote := wrote s; deliver_log := deliver_log s;
     recv_notifs := x; taken := taken s; bcast := bcast s; eof_seen := eof_seen s; lst := lst s; skipok := skipok s; rlog := rlog s |}.
Definition with_taken (s : st) (x : list N) : st :=
  {| reqs := reqs s; table := table s; outq := outq s; nq := nq s; connected := connected s; closing := closing s;
     pc := pc s; qualify := qualify s; wrote := wrote s; deliver_log := deliver_log s;
     recv_notifs := recv_notifs s; taken := x; bcast := bcast s; eof_seen := eof_seen s; lst := lst s; skipok := skipok s; rlog := rlog s |}.

Definition with_bcast (s : st) (x : option exc) : st :=
  {| reqs := reqs s; table := table s; outq := outq s; nq := nq s; connected := connected s; closing := closing s;
     pc := pc s; qualify := qualify s; wrote := wrote s; deliver_log := deliver_log s;
     recv_notifs := recv_notifs s; taken := taken s; bcast := x; eof_seen := eof_seen s; lst := lst s; skipok := skipok s; rlog := rlog s |}.
Definition with_eof (s : st) : st :=
  {| reqs := reqs s; table := table s; outq := outq s; nq := nq s; connected := connected s; closing := closing s;
     pc := pc s; qualify := qualify s; wrote := wrote s; deliver_log := deliver_log s;
     recv_notifs := recv_notifs s; taken := taken s; bcast := bcast s; eof_seen := true; lst := lst s; skipok := skipok s; rlog := rlog s |}.

Definition with_lst (s : st) : st :=
  {| reqs := reqs s; table := table s; outq := outq s; nq := nq s; connected := connected s; closing := closing s;
     pc := pc s; qualify := qualify s; wrote := wrote s; deliver_log := deliver_log s;
     recv_notifs := recv_notifs s; taken := taken s; bcast := bcast s; eof_seen := eof_seen s; lst := true; skipok := skipok s; rlog := rlog s |}.
Definition with_skipok (s : st) (x : bool) : st :=
  {| reqs := reqs s; table := table s; outq := outq s; nq := nq s; connected := connected s; closing := closing s;
     pc := pc s; qualify := qualify s; wrote := wrote s; deliver_log := deliver_log s;
     recv_notifs := recv_notifs s; taken := taken s; bcast := bcast s; eof_seen := eof_seen s; lst := lst s; skipok := x; rlog := rlog s |}.

Definition with_rlog (s : st) (x : list N) : st :=
  {| reqs := reqs s; table := table s; outq := outq s; nq := nq s; connected := connected s; closing := closing s;
     pc := pc s; qualify := qualify s; wrote := wrote s; deliver_log := deliver_log s;
     recv_notifs := recv_notifs s; taken := taken s; bcast := bcast s; eof_seen := eof_seen s; lst := lst s; skipok := skipok s;
     rlog := x |}.

Definition is_idle (p : wpc) : bool := match p with WIdle => true | _ => false end.
(* exception classes that are TransportErrors: SessionCloseError, TransportError, NetconfFramingError *)
Definition is_transport (e : exc) : bool := N.eqb e 1 || N.eqb e 5 || N.eqb e 6.
(* Session.run: with the closing flag set, whatever interrupts the loop is reported as SessionCloseError *)
Definition bcast_code (s_closing : bool) (e : exc) : exc :=
  if s_closing && negb (is_transport e) then 1 else e.
(* the worker holds the pending-table lock (RPCReplyListener._lock): from the lookup that found
   the request until the entry is deleted, and between values() and clear() in errback *)
Definition holds_tlock (p : wpc) : bool :=
  match p with WDeliver _ _ | WDel _ | WErrClear _ _ => true | _ => false end.

(* ---------- the transition function ---------- *)
Definition step (s : st) (l : label) : option st :=
  match l with
  | LReg rid id =>
      if Nat.eqb rid (length (reqs s)) && negb (memN id (map r_id (reqs s))) && negb (holds_tlock (pc s)) then
        Some (with_lst (with_table (with_reqs s (reqs s ++ [{| r_id := id; r_st := CReg; r_reply := None; r_error := None; r_ev := false |}]))
                                   (tset id rid (table s))))
      else None
  | LChk rid b =>
      match nth_error (reqs s) rid with
      | Some r =>
          if st_is r CReg && Bool.eqb b (connected s) then
            Some (with_reqs s (upd (reqs s) rid (set_st (if b then CChecked else CDone (OExc 5)))))
          else None
      | None => None
      end
  | LPut rid =>
      match nth_error (reqs s) rid with
      | Some r => if st_is r CChecked
                  then Some (with_outq (with_reqs s (upd (reqs s) rid (set_st CSent))) (outq s ++ [rid]))
                  else None
      | None => None
      end
  | LWaitRes rid flag =>
      match nth_error (reqs s) rid with
      | Some r => if st_is r CSent && Bool.eqb flag (r_ev r)
                  then Some (with_reqs s (upd (reqs s) rid (set_st (CDone (wait_outcome r flag)))))
                  else None
      | None => None
      end
  | LDeq rid =>
      match pc s, outq s with
      | WIdle, h :: t => if Nat.eqb h rid then Some (with_wrote (with_outq s t) (wrote s ++ [rid])) else None
      | _, _ => None
      end
  | LRecv kind arg =>
      if is_idle (pc s) then
        if N.eqb kind 2 then Some (with_pc (with_rnot s (recv_notifs s ++ [arg])) (WNotif arg))
        else if N.eqb kind 5 then Some s        (* payload whose root cannot be parsed: logged and dropped, no listener called *)
        else if negb (lst s) then (if N.leb kind 4 then Some s else None)    (* no reply listener yet: ignored *)
        else if N.eqb kind 0 then Some (with_pc (with_rlog s (rlog s ++ [arg])) (WLookup arg))
        else if N.eqb kind 1 then Some (with_pc s (WRaise 2))
        else if N.eqb kind 3 then Some (if qualify s then s else with_pc (with_rlog s (rlog s ++ [arg])) (WLookup arg))
        else if N.eqb kind 4 then Some (if qualify s then s else with_pc s (WRaise 2))
        else None
      else None
  | LNqPut n =>
      match pc s with
      | WNotif m => if N.eqb n m then Some (with_pc (with_nq s (nq s ++ [n])) WIdle) else None
      | _ => None
      end
  | LTGet id found =>
      match pc s with
      | WLookup i =>
          if N.eqb id i then
            match tget id (table s), found with
            | Some rid, true => Some (with_pc s (WDeliver rid id))
            | None, false => Some (with_pc s (WRaise 2))
            | _, _ => None
            end
          else None
      | _ => None
      end
  | LEvSetReply rid =>
      match pc s with
      | WDeliver r id =>
          if Nat.eqb rid r then
            Some (with_pc (with_dlog (with_reqs s (upd (reqs s) rid (set_reply id))) (deliver_log s ++ [rid])) (WDel id))
          else None
      | _ => None
      end
  | LTDel id =>
      match pc s with
      | WDel i => if N.eqb id i then Some (with_pc (with_table s (tdel id (table s))) WIdle) else None
      | _ => None
      end
  | LReadEof => if is_idle (pc s) then Some (with_pc (with_eof s) (WRaise 1)) else None
  | LReadErr => if is_idle (pc s) then Some (with_pc s (WRaise 3)) else None
  | LWriteFail => if is_idle (pc s) then Some (with_pc s (WRaise 1)) else None
  | LRaise e => if is_idle (pc s) then Some (with_pc s (WRaise e)) else None
  | LErrBcast e =>
      match pc s with
      | WRaise e' => if N.eqb e (bcast_code (closing s) e')
                     then Some (with_pc (with_skipok (with_bcast s (Some e)) (negb (lst s))) (WErrSnap e)) else None
      | WIdle => if closing s && N.eqb e 1 then Some (with_pc (with_skipok (with_bcast s (Some e)) (negb (lst s))) (WErrSnap e)) else None   (* clean exit *)
      | _ => None
      end
  | LTValues ids =>
      match pc s with
      | WErrSnap e => if listN_eqb ids (map fst (table s)) then Some (with_pc s (WErrClear e (map snd (table s)))) else None
      | _ => None
      end
  | LTClear =>
      match pc s with
      | WErrClear e rids => Some (with_pc (with_table s []) (WErrDeliver e rids))
      | _ => None
      end
  | LEvSetErr rid =>
      match pc s with
      | WErrDeliver e (r :: rest) =>
          if Nat.eqb rid r then Some (with_pc (with_reqs s (upd (reqs s) rid (set_error e))) (WErrDeliver e rest)) else None
      | _ => None
      end
  | LClose who =>
      if N.eqb who 0 then
        match pc s with
        | WErrDeliver e [] => Some (with_pc (with_closed s) WClosed)
        | WErrSnap e => if skipok s then Some (with_pc (with_closed s) WClosed) else None   (* no reply listener to notify *)
        | _ => None
        end
      else Some (with_closed s)
  | LExit =>
      match pc s with
      | WClosed => Some (with_pc s WExited)
      | WErrDeliver e [] => if closing s then Some (with_pc s WExited) else None
      | WErrSnap e => if skipok s && closing s then Some (with_pc s WExited) else None
      | _ => None
      end
  | LTake got n =>
      match nq s, got with
      | h :: t, true => if N.eqb h n then Some (with_taken (with_nq s t) (taken s ++ [n])) else None
      | [], false => Some s
      | _, _ => None
      end
  end.

Fixpoint run (s : st) (ls : list label) : option st :=
  match ls with
  | [] => Some s
  | l :: ls' => match step s l with Some s' => run s' ls' | None => None end
  end.

(* number of labels accepted before the first rejected one (for diagnostics) *)
Fixpoint run_count (s : st) (ls : list label) (k : N) : N * st :=
  match ls with
  | [] => (k, s)
  | l :: ls' => match step s l with Some s' => run_count s' ls' (k + 1) | None => (k, s) end
  end.
