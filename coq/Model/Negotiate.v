(* Negotiate.v — model of the hello exchange (ncclient/transport/session.py, after the F13 and F15
   repairs): Session._post_connect (l.100-137), HelloHandler.build/parse/callback, the framing
   decision of Session.run's send branch, and devices/*.py get_capabilities.
   Definitions only.  Capability sets are Model/Caps.v's (`key in caps` = contains_key). *)
From Coq Require Import String.
From NC Require Import Model.Base Model.Lit Model.Caps Model.Writer.

(* ---------------------------------------------------------------- choose_base *)
Definition k11 : bytes := Eval compute in lit ":base:1.1"%string.
Definition uri_b10 : bytes := Eval compute in lit "urn:ietf:params:netconf:base:1.0"%string.
Definition uri_b11 : bytes := Eval compute in lit "urn:ietf:params:netconf:base:1.1"%string.
Definition uri_b10x : bytes := Eval compute in lit "urn:ietf:params:xml:ns:netconf:base:1.0"%string.
Definition uri_b11x : bytes := Eval compute in lit "urn:ietf:params:xml:ns:netconf:base:1.1"%string.

(* if ':base:1.1' in self._server_capabilities and ':base:1.1' in self._client_capabilities:  (short-circuit `and`) *)
Definition choose_base (server client : list bytes) : res base :=
  match contains_key (caps_of server) k11 with
  | Ok true => match contains_key (caps_of client) k11 with
               | Ok true => Ok B11 | Ok false => Ok B10 | KeyError => KeyError | Crash e => Crash e end
  | Ok false => Ok B10
  | KeyError => KeyError
  | Crash e => Crash e
  end.

(* the code before the F13 repair: 'urn:ietf:params:netconf:base:1.1' in caps, on both sets *)
Definition choose_base_unfixed (server client : list bytes) : res base :=
  match contains_key (caps_of server) uri_b11 with
  | Ok true => match contains_key (caps_of client) uri_b11 with
               | Ok true => Ok B11 | Ok false => Ok B10 | KeyError => KeyError | Crash e => Crash e end
  | Ok false => Ok B10
  | KeyError => KeyError
  | Crash e => Crash e
  end.

(* ---------------------------------------------------------------- hello documents as trees *)
(* an element as lxml shows it: tag in Clark notation, text (None when empty), children *)
Inductive node := Node (tag : bytes) (text : option bytes) (children : list node).
Definition tag_of (n : node) := match n with Node t _ _ => t end.
Definition text_of (n : node) := match n with Node _ t _ => t end.
Definition children_of (n : node) := match n with Node _ _ c => c end.

Definition base_ns_braced : bytes := Eval compute in lit "{urn:ietf:params:xml:ns:netconf:base:1.0}"%string.
Definition qualify (local : bytes) : bytes := base_ns_braced ++ local.
Definition t_hello := Eval compute in lit "hello"%string.
Definition t_capabilities := Eval compute in lit "capabilities"%string.
Definition t_capability := Eval compute in lit "capability"%string.
Definition t_session_id := Eval compute in lit "session-id"%string.

(* child.tag == qualify(x) or child.tag == x *)
Definition is_tag (local : bytes) (n : node) : bool := beq (tag_of n) (qualify local) || beq (tag_of n) local.

Inductive sid := SidDefault (* the int 0 *) | SidText (t : option bytes).

Definition cap_texts (n : node) : list (option bytes) :=
  map text_of (filter (is_tag t_capability) (children_of n)).

(* the for-loop over root.getchildren(): last session-id wins, capabilities accumulate *)
Fixpoint parse_loop (cs : list node) (s : sid) (caps : list (option bytes)) : sid * list (option bytes) :=
  match cs with
  | [] => (s, caps)
  | c :: r =>
      if is_tag t_session_id c then parse_loop r (SidText (text_of c)) caps
      else if is_tag t_capabilities c then parse_loop r s (caps ++ cap_texts c)
      else parse_loop r s caps
  end.

Fixpoint all_some (l : list (option bytes)) : option (list bytes) :=
  match l with
  | [] => Some []
  | Some x :: r => match all_some r with Some r' => Some (x :: r') | None => None end
  | None :: _ => None
  end.

(* HelloHandler.parse: (sid, Capabilities(capabilities)); Capabilities(None-containing list) raises
   AttributeError (Crash 2).  The Capabilities object is reported as its keys in order. *)
Definition parse_hello (root : node) : res (sid * list bytes) :=
  let '(s, texts) := parse_loop (children_of root) SidDefault [] in
  match all_some texts with
  | Some uris => Ok (s, map fst (caps_of uris))
  | None => Crash 2
  end.

(* HelloHandler.build: one <capability> per key of the Capabilities object, in order *)
Definition build (client : list bytes) : node :=
  Node (qualify t_hello) None
    [Node (qualify t_capabilities) None
       (map (fun u => Node (qualify t_capability) (Some u) []) (map fst (caps_of client)))].

(* what a server sends (used by the statement of C05_reports); qual = elements namespace-qualified or not *)
Definition qtag (qual : bool) (local : bytes) : bytes := if qual then qualify local else local.
Definition server_hello (qual : bool) (sid_text : bytes) (uris : list bytes) : node :=
  Node (qtag qual t_hello) None
    [Node (qtag qual t_capabilities) None (map (fun u => Node (qtag qual t_capability) (Some u) []) uris);
     Node (qtag qual t_session_id) (Some sid_text) []].

(* ---------------------------------------------------------------- client capability lists *)
Definition base_caps : list bytes := Eval compute in
  [ lit "urn:ietf:params:netconf:base:1.0"%string;
    lit "urn:ietf:params:netconf:base:1.1"%string;
    lit "urn:ietf:params:netconf:capability:writable-running:1.0"%string;
    lit "urn:ietf:params:netconf:capability:candidate:1.0"%string;
    lit "urn:ietf:params:netconf:capability:confirmed-commit:1.0"%string;
    lit "urn:ietf:params:netconf:capability:rollback-on-error:1.0"%string;
    lit "urn:ietf:params:netconf:capability:startup:1.0"%string;
    lit "urn:ietf:params:netconf:capability:url:1.0?scheme=http,ftp,file,https,sftp"%string;
    lit "urn:ietf:params:netconf:capability:validate:1.0"%string;
    lit "urn:ietf:params:netconf:capability:xpath:1.0"%string;
    lit "urn:ietf:params:netconf:capability:notification:1.0"%string;
    lit "urn:ietf:params:netconf:capability:interleave:1.0"%string;
    lit "urn:ietf:params:netconf:capability:with-defaults:1.0"%string ].

Definition huawei_caps : list bytes := Eval compute in
  [ lit "http://www.huawei.com/netconf/capability/execute-cli/1.0"%string;
    lit "http://www.huawei.com/netconf/capability/action/1.0"%string;
    lit "http://www.huawei.com/netconf/capability/active/1.0"%string;
    lit "http://www.huawei.com/netconf/capability/discard-commit/1.0"%string;
    lit "http://www.huawei.com/netconf/capability/exchange/1.0"%string ].

Definition sros_caps : list bytes := Eval compute in
  [ lit "urn:ietf:params:xml:ns:netconf:base:1.0"%string;
    lit "urn:ietf:params:xml:ns:yang:1"%string;
    lit "urn:ietf:params:netconf:capability:confirmed-commit:1.1"%string;
    lit "urn:ietf:params:netconf:capability:validate:1.1"%string ].
Definition sros_private : bytes := Eval compute in lit "urn:nokia.com:nc:pc"%string.

(* the six get_capabilities bodies; the other profiles (ciena csr default ericsson h3c hpcomware
   iosxe iosxr junos) inherit PDefault.  [extra] = nc_params['capabilities'] *)
Inductive profile := PDefault | PAlu | PHuawei | PHuaweiYang | PNexus | PSros (private_mode : bool).

Definition profile_caps (p : profile) (extra : list bytes) : list bytes :=
  match p with
  | PDefault => base_caps ++ extra
  | PAlu => [uri_b10]
  | PHuawei => (base_caps ++ extra) ++ huawei_caps
  | PHuaweiYang => [uri_b10; uri_b11]
  | PNexus => match base_caps ++ extra with _ :: r => uri_b10x :: r | [] => [] end     (* c[0] = ... *)
  | PSros priv => (base_caps ++ extra) ++ sros_caps ++ (if priv then [sros_private] else [])
  end.

(* ---------------------------------------------------------------- the exchange as a transition system *)
(* Messages are identified by numbers: 0 is the client <hello>, n >= 1 the requests sent after connect. *)
Inductive herr := ETimeout | ESessionClose | EParse | EChoose
  | EOther.   (* an exception of the transport's read (OSError ...) handed to err_cb as it is; only Model/NegotiateSched.v uses it *)
Inductive mainst := MWaiting | MReturned (r : option herr).      (* None = _post_connect returned normally *)
Inductive hello_in :=
| HTree (t : node)        (* a message whose root is <hello> (qualified or not): HelloHandler.callback parses it *)
| HOther.                 (* any other message: ignored by the hello listener *)

Inductive label :=
| LTop (ready : bool)     (* worker: top of the loop, `not q.empty() and _send_ready()` answered [ready] *)
| LRecv (h : hello_in)    (* worker: a complete server message was read and dispatched *)
| LDie                    (* worker: transport EOF / error: _dispatch_error, close(), thread ends *)
| LTimeout                (* main: the deadline of init_event.wait(timeout) is reached *)
| LMain                   (* main: woken by the event before the deadline; runs the rest of _post_connect *)
| LPut (m : N).           (* main: a request is sent after _post_connect returned *)

Record st := mkst {
  s_base : base;                    (* Session._base *)
  s_q : list N;                     (* Session._q *)
  s_pending : bool;                 (* Session._hello_pending (F15 repair) *)
  s_wire : list (base * N);         (* frames written: framing used, message *)
  s_listener : bool;                (* the HelloHandler is registered *)
  s_event : bool;                   (* init_event *)
  s_error : option herr;            (* error[0] *)
  s_sid : sid;                      (* Session._id (SidDefault also stands for "unset") *)
  s_caps : option (list bytes);     (* Session._server_capabilities *)
  s_alive : bool;                   (* worker running (= connected) *)
  s_main : mainst }.

Definition init : st :=
  mkst B10 [0] true [] true false None SidDefault None true MWaiting.

(* the rest of _post_connect once the wait is over with the event set:
   remove_listener; raise error[0] if set; switch the base when both sides have :base:1.1 *)
Definition finish (s : st) (b : base) (r : option herr) : st :=
  mkst b (s_q s) (s_pending s) (s_wire s) false (s_event s) (s_error s) (s_sid s) (s_caps s) (s_alive s) (MReturned r).

Definition main_action (client : list bytes) (s : st) : st :=
  match s_error s with
  | Some e => finish s (s_base s) (Some e)
  | None =>
      match s_caps s with
      | None => finish s (s_base s) (Some EChoose)    (* unreachable: event set without error means ok_cb ran *)
      | Some sv =>
          match choose_base sv client with
          | Ok b => finish s b None
          | _ => finish s (s_base s) (Some EChoose)  (* `in` raised: proved impossible (C05_choose_total) *)
          end
      end
  end.

(* [fixed15] = the F15 repair is in place (the queued <hello> is always written with end-of-message framing) *)
Definition step (fixed15 : bool) (client : list bytes) (s : st) (l : label) : option st :=
  match l with
  | LTop ready =>
      if negb (s_alive s) then None else
      match s_q s with
      | m :: q' =>
          if ready then
            let framing := if fixed15 && s_pending s then B10 else s_base s in
            Some (mkst (s_base s) q' false (s_wire s ++ [(framing, m)]) (s_listener s) (s_event s) (s_error s) (s_sid s) (s_caps s) (s_alive s) (s_main s))
          else Some s
      | [] => Some s
      end
  | LRecv h =>
      if negb (s_alive s) then None else
      if negb (s_listener s) then Some s else
      match h with
      | HOther => Some s
      | HTree t =>
          match parse_hello t with
          | Ok (sd, uris) => Some (mkst (s_base s) (s_q s) (s_pending s) (s_wire s) (s_listener s) true (s_error s) sd (Some uris) (s_alive s) (s_main s))
          | _ => Some (mkst (s_base s) (s_q s) (s_pending s) (s_wire s) (s_listener s) true (Some EParse) (s_sid s) (s_caps s) (s_alive s) (s_main s))
          end
      end
  | LDie =>
      if negb (s_alive s) then None else
      if s_listener s
      then Some (mkst (s_base s) (s_q s) (s_pending s) (s_wire s) (s_listener s) true (Some ESessionClose) (s_sid s) (s_caps s) false (s_main s))
      else Some (mkst (s_base s) (s_q s) (s_pending s) (s_wire s) (s_listener s) (s_event s) (s_error s) (s_sid s) (s_caps s) false (s_main s))
  | LTimeout =>
      match s_main s with
      | MWaiting =>
          if s_event s then Some (main_action client s)
          else Some (mkst (s_base s) (s_q s) (s_pending s) (s_wire s) (s_listener s) (s_event s) (s_error s) (s_sid s) (s_caps s) (s_alive s) (MReturned (Some ETimeout)))
      | MReturned _ => None
      end
  | LMain =>
      match s_main s with
      | MWaiting => if s_event s then Some (main_action client s) else None
      | MReturned _ => None
      end
  | LPut m =>
      match s_main s with
      | MReturned None => if s_alive s then Some (mkst (s_base s) (s_q s ++ [m]) (s_pending s) (s_wire s) (s_listener s) (s_event s) (s_error s) (s_sid s) (s_caps s) (s_alive s) (s_main s)) else None
      | _ => None
      end
  end.

Fixpoint run_labels (fixed15 : bool) (client : list bytes) (s : st) (ls : list label) : option st :=
  match ls with
  | [] => Some s
  | l :: r => match step fixed15 client s l with Some s' => run_labels fixed15 client s' r | None => None end
  end.
