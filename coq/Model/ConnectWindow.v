(* Model/ConnectWindow.v — the notification listener in the connect window.

   ncclient/transport/session.py  Session._post_connect (connecting thread M)
        self.add_listener(NotificationHandler(self._notification_q))     CRegNotif     [_listeners.add under _lock]
        listener = HelloHandler(ok_cb, err_cb); self.add_listener(listener)  CRegHello
        self._hello_pending = True; self.send(<hello>)                   (C05: Model/NegotiateSched.v; no label here)
        self.start()                                                     CStart        the session thread W exists from here on
        init_event.wait(timeout)                                         CWake         (returns once ok_cb set the event)
        self.remove_listener(listener)                                   CUnregHello
        ... return                                                       CRet
   Session.run / parser / _dispatch_message (session thread W), one complete message at a time:
        snapshot of _listeners under _lock, callback of every listener in it
          server <hello>          -> HelloHandler.callback -> ok_cb -> init_event.set()      CWDispHello
          <notification> n        -> NotificationHandler.callback: self._queue.put(...)      CWDispNotif n ; CNqPut n
          anything else           -> no listener of this model reacts                        CWDispOther
   Session.take_notification -> Queue.get                                                    CTake got n   (any thread, any time)

   The server's messages are an explicit environment: W may dispatch any message at any moment after CStart - in particular
   notifications right behind the hello, before M has woken up (CWake) or returned (CRet).  A notification dispatched while no
   NotificationHandler is registered is delivered to nobody: it goes to [lost].
   Executable definitions only; the theorems are in Proofs/ConnectWindowProofs.v (Props/C11_connect.v). *)
From NC Require Import Model.Base.

Inductive cm : Type :=
| CM0      (* before add_listener(NotificationHandler) *)
| CM1      (* before add_listener(HelloHandler) *)
| CM2      (* before start() *)
| CM3      (* in init_event.wait *)
| CM4      (* before remove_listener(hello handler) *)
| CM5      (* before return *)
| CMRet.   (* _post_connect returned *)

Inductive cw : Type :=
| CWOff                (* the session thread does not exist yet *)
| CWIdle               (* between two messages *)
| CWPut (n : N).       (* NotificationHandler.callback is about to put notification n into the queue *)

Record cst : Type := mkcst {
  c_m : cm; c_w : cw;
  c_lisn : bool;                 (* a NotificationHandler is in _listeners *)
  c_lish : bool;                 (* the HelloHandler is in _listeners *)
  c_ev : bool;                   (* init_event *)
  c_nq : list N;                 (* Session._notification_q, head first *)
  c_taken : list N;              (* returned by take_notification, in order *)
  c_disp : list N;               (* notifications the session thread dispatched, in order *)
  c_lost : list N                (* notifications dispatched to a snapshot without NotificationHandler *)
}.

Definition cinit : cst := mkcst CM0 CWOff false false false [] [] [] [].

Inductive clabel : Type :=
| CRegNotif | CRegHello | CStart | CWDispHello | CWDispNotif (n : N) | CNqPut (n : N) | CWake | CUnregHello | CRet
| CTake (got : bool) (n : N) | CWDispOther.

Definition set_m (s : cst) (m : cm) : cst :=
  mkcst m (c_w s) (c_lisn s) (c_lish s) (c_ev s) (c_nq s) (c_taken s) (c_disp s) (c_lost s).

Definition cstep (s : cst) (l : clabel) : option cst :=
  match l with
  | CRegNotif =>
      match c_m s with
      | CM0 => Some (mkcst CM1 (c_w s) true (c_lish s) (c_ev s) (c_nq s) (c_taken s) (c_disp s) (c_lost s))
      | _ => None end
  | CRegHello =>
      match c_m s with
      | CM1 => Some (mkcst CM2 (c_w s) (c_lisn s) true (c_ev s) (c_nq s) (c_taken s) (c_disp s) (c_lost s))
      | _ => None end
  | CStart =>
      match c_m s, c_w s with
      | CM2, CWOff => Some (mkcst CM3 CWIdle (c_lisn s) (c_lish s) (c_ev s) (c_nq s) (c_taken s) (c_disp s) (c_lost s))
      | _, _ => None end
  | CWDispHello =>
      match c_w s with
      | CWIdle => Some (mkcst (c_m s) CWIdle (c_lisn s) (c_lish s) (c_ev s || c_lish s) (c_nq s) (c_taken s) (c_disp s) (c_lost s))
      | _ => None end
  | CWDispOther =>
      match c_w s with
      | CWIdle => Some s
      | _ => None end
  | CWDispNotif n =>
      match c_w s with
      | CWIdle =>
          if c_lisn s
          then Some (mkcst (c_m s) (CWPut n) (c_lisn s) (c_lish s) (c_ev s) (c_nq s) (c_taken s) (c_disp s ++ [n]) (c_lost s))
          else Some (mkcst (c_m s) CWIdle (c_lisn s) (c_lish s) (c_ev s) (c_nq s) (c_taken s) (c_disp s ++ [n]) (c_lost s ++ [n]))
      | _ => None end
  | CNqPut n =>
      match c_w s with
      | CWPut m => if N.eqb n m
                   then Some (mkcst (c_m s) CWIdle (c_lisn s) (c_lish s) (c_ev s) (c_nq s ++ [n]) (c_taken s) (c_disp s) (c_lost s))
                   else None
      | _ => None end
  | CWake =>
      match c_m s with
      | CM3 => if c_ev s then Some (set_m s CM4) else None
      | _ => None end
  | CUnregHello =>
      match c_m s with
      | CM4 => Some (mkcst CM5 (c_w s) (c_lisn s) false (c_ev s) (c_nq s) (c_taken s) (c_disp s) (c_lost s))
      | _ => None end
  | CRet =>
      match c_m s with
      | CM5 => Some (set_m s CMRet)
      | _ => None end
  | CTake true n =>
      match c_nq s with
      | h :: t => if N.eqb n h
                  then Some (mkcst (c_m s) (c_w s) (c_lisn s) (c_lish s) (c_ev s) t (c_taken s ++ [n]) (c_disp s) (c_lost s))
                  else None
      | [] => None end
  | CTake false _ =>
      match c_nq s with
      | [] => Some s
      | _ => None end
  end.

Fixpoint crun (s : cst) (ls : list clabel) : option cst :=
  match ls with
  | [] => Some s
  | l :: r => match cstep s l with Some s' => crun s' r | None => None end
  end.

Inductive creach : cst -> Prop :=
| creach_init : creach cinit
| creach_step : forall s l s', creach s -> cstep s l = Some s' -> creach s'.

(* the notification the worker is in the middle of enqueueing *)
Definition cpend (w : cw) : list N := match w with CWPut n => [n] | _ => [] end.
