(* JunosParse.v — model of the byte-level driver of the Junos streaming-filter mode:
   JunosXMLParser.parse (ncclient/transport/third_party/junos/parser.py, as repaired by the fix: commits of C18),
   together with what it hands over to: DefaultXMLParser.parse/_parse10 (transport/parser.py) after the switch
   to DOM parsing and SAXParserHandler.callback (switch back), as a state machine over READS.

     if session._base == BASE_11: return DefaultXMLParser.parse(self, data)   [chunked streams are de-chunked by
                                                                     _parse11 (model Framing11.v of C01) and each complete
                                                                     message is filtered by _dispatch11: the base:1.1
                                                                     branch is Model/JunosParse11.v; everything below is
                                                                     the base:1.0 branch]
     data = self._held + data; self._held = b''
     msg, delim, remaining = data.partition(MSG_DELIM)              [find_sub delim10]
     if not delim: hold back the longest end of msg that begins a delimiter   [holdback: n = 5 .. 1]
     if nothing of the reply was seen yet: msg = msg.lstrip()       [started / blstrip]
     try: self.sax_parser.feed(msg)                                 [feed: the machine, octet by octet]
          if delim: buffer += delim + remaining; new sax parser     [dispatch (SAX output); rest: cont]
          elif handler._root is None: self._head += msg  else: self._head = b''
     except SAXParseException: _delimiter_check(data)               [Stuck WExpat: recovery heuristics NOT modelled]
     except SAXFilterXMLNotFoundError: session.parser = DefaultXMLParser; buffer += self._head + data   [dom_body]
     finally: self._parse10()                                       [dispatch; remaining -> session.parser.parse]

   What is abstracted (all of it quantified over in the theorems, Section variables):
   * expat + the SAX handler of one reply: a machine [X] stepped octet by octet ([xstep]); a step ends normally with
     the octets the handler wrote to the session buffer, or with the switch signal, an expat error, or another
     exception of the handler.  [xrooted] = "handler._root is not None".  Real expat delivers character data in
     pieces that depend on the feed boundaries; C18_chars_split shows the handler's writes do not depend on that.
   * the session side: [W] (listeners, outstanding requests); [dispatch w via_sax msg] = Session._dispatch_message
     (decode, strip, parse, listeners): new world and whether SAXParserHandler.callback ran and installed a new
     Junos parser (only meaningful for a DOM message; a message that does not parse leaves the DOM parser), or an
     exception of a listener.  [xnew w] = the machine of the next reply.
   Modelling decisions (stated in notes/C18.md):
   * the handler's output is kept apart from the octets searched for the delimiter ([sbuf]): the handler never
     writes "]]>" (">" in text and attribute values is written "&gt;", names contain no "]").
   * _parsing_pos10 (the search resumes 6 octets before the end of what was searched) is modelled as a search of
     the whole buffer (C01 shows the two agree for _parse10).
   * in DOM mode the buffer is represented without its leading white space ([blstrip]): the message is stripped
     before it is dispatched, so leading white space of the buffer is unobservable.
   * excluded regions are explicit terminal states, never silently merged with a normal run: [Stuck WExpat] (expat
     rejected the input: _delimiter_check and its difflib heuristics), [Stuck WSwitchRooted] (switch signal from a
     parser whose reply element was already accepted, i.e. a second reply element inside a reply: only the current
     read would be handed over), [Stuck WSwitchOutput] (switch signal after the handler wrote something),
     [Dead e] (an exception leaves parse(): Session.run ends the session), [Fuel] (never reached: go_fuel).
   Definitions only. *)
From NC Require Import Model.Base Model.Utf8 Model.Framing10.

(* bytes.lstrip() *)
Fixpoint blstrip (b : bytes) : bytes :=
  match b with
  | [] => []
  | c :: r => if is_bws c then blstrip r else b
  end.

(* msg.endswith(p) *)
Definition ends_with (u p : bytes) : bool :=
  (length p <=? length u)%nat && beq (skipn (length u - length p) u) p.

(* for n in range(MSG_DELIM_LEN - 1, 0, -1): if msg.endswith(MSG_DELIM[:n]): held = msg[-n:]; msg = msg[:-n]; break *)
Fixpoint hb_try (n : nat) (msg : bytes) : bytes * bytes :=
  match n with
  | O => (msg, [])
  | S n' => if ends_with msg (firstn n delim10)
            then (firstn (length msg - n) msg, skipn (length msg - n) msg)
            else hb_try n' msg
  end.
Definition holdback (msg : bytes) : bytes * bytes := hb_try 5 msg.

Definition is_nil {A} (l : list A) : bool := match l with [] => true | _ => false end.

(* bytes given to the parser of the current reply: head of the list; a new entry per reply *)
Definition addfed (u : bytes) (fed : list bytes) : list bytes :=
  match fed with f :: r => (f ++ u) :: r | [] => [] end.

Inductive why : Type := WExpat | WSwitchRooted | WSwitchOutput.

Section Driver.
  Variables W X : Type.

  Inductive xres : Type :=
  | XOk (x : X) (out : bytes)
  | XSwitch (out : bytes)
  | XErr
  | XExc (e : N).

  Inductive dres : Type :=
  | DOk (w : W) (reset : bool)
  | DExc.

  Variable xnew : W -> X.
  Variable xstep : W -> X -> N -> xres.
  Variable xrooted : X -> bool.
  Variable dispatch : W -> bool -> bytes -> dres.

  (* sax_parser.feed(msg): result, output written, and (on an exception) the octets consumed up to and including
     the one that raised *)
  Inductive fres : Type :=
  | FOk (x : X) (out : bytes)
  | FSwitch (rooted : bool) (out : bytes) (used : bytes)
  | FErr (used : bytes)
  | FExc (e : N) (used : bytes).

  Fixpoint feed (w : W) (x : X) (msg : bytes) : fres :=
    match msg with
    | [] => FOk x []
    | c :: r =>
        match xstep w x c with
        | XOk x' o =>
            match feed w x' r with
            | FOk x'' o' => FOk x'' (o ++ o')
            | FSwitch rt o' u => FSwitch rt (o ++ o') (c :: u)
            | FErr u => FErr (c :: u)
            | FExc e u => FExc e (c :: u)
            end
        | XSwitch o => FSwitch (xrooted x) o [c]
        | XErr => FErr [c]
        | XExc e => FExc e [c]
        end
    end.

  Inductive mode : Type :=
  | Sax (held head : bytes) (x : X) (sbuf : bytes)   (* _held, _head, sax_parser, handler output in session._buffer *)
  | Dom (dbuf : bytes).                              (* session.parser is a DefaultXMLParser; session._buffer *)

  Inductive status : Type :=
  | Run (m : mode)
  | Dead (e : N)
  | Stuck (r : why)
  | Fuel.

  Record st : Type := mk {
    wd : W;
    outs : list (bool * bytes);     (* messages dispatched so far: (written by the SAX handler?, octets) *)
    fed : list bytes;               (* octets consumed by the parser of each reply, latest first *)
    stat : status }.

  Definition E_LISTENER : N := 255.

  (* "something of the reply has been seen": _head non-empty or the handler has its _root *)
  Definition started (head : bytes) (x : X) : bool := negb (is_nil head) || xrooted x.

  Definition fresh (w : W) (o : list (bool * bytes)) (f : list bytes) : st :=
    mk w o ([] :: f) (Run (Sax [] [] (xnew w) [])).

  (* _parse10 after a message was dispatched: `if len(remaining.strip()) > 0: session.parser.parse(remaining)` *)
  Definition cont (rec : st -> bytes -> st) (s' : st) (rem : bytes) : st :=
    if bblank rem then s' else rec s' rem.

  (* the session buffer holds B and the parser is (now) the DOM one: _parse10 *)
  Definition dom_body (rec : st -> bytes -> st) (w : W) (o : list (bool * bytes)) (f : list bytes) (B : bytes) : st :=
    let B' := blstrip B in
    match find_sub delim10 B' with
    | None => mk w o f (Run (Dom B'))
    | Some (msg, rem) =>
        match dispatch w false msg with
        | DExc => mk w o f (Dead E_LISTENER)
        | DOk w' reset =>
            let o' := o ++ [(false, msg)] in
            if reset then cont rec (fresh w' o' f) rem
            else cont rec (mk w' o' ([] :: f) (Run (Dom []))) rem
        end
    end.

  (* the except clauses of parse(); data = _held + read *)
  Definition on_exc (rec : st -> bytes -> st) (s : st) (head sbuf data : bytes) (r : fres) : st :=
    match r with
    | FOk _ _ => s                                                       (* not used *)
    | FSwitch rt o u =>
        if rt then mk (wd s) (outs s) (addfed u (fed s)) (Stuck WSwitchRooted)
        else if negb (is_nil (sbuf ++ o)) then mk (wd s) (outs s) (addfed u (fed s)) (Stuck WSwitchOutput)
        else dom_body rec (wd s) (outs s) (addfed u (fed s)) (head ++ data)
    | FErr u => mk (wd s) (outs s) (addfed u (fed s)) (Stuck WExpat)
    | FExc e u => mk (wd s) (outs s) (addfed u (fed s)) (Dead e)
    end.

  Fixpoint go (n : nat) (s : st) (data : bytes) {struct n} : st :=
    match n with
    | O => mk (wd s) (outs s) (fed s) Fuel
    | S n' =>
        match stat s with
        | Run (Sax held head x sbuf) =>
            let data' := held ++ data in
            match find_sub delim10 data' with
            | None =>
                let (msg, held') := holdback data' in
                let msg' := if started head x then msg else blstrip msg in
                match feed (wd s) x msg' with
                | FOk x' o =>
                    mk (wd s) (outs s) (addfed msg' (fed s))
                       (Run (Sax held' (if xrooted x' then [] else head ++ msg') x' (sbuf ++ o)))
                | r => on_exc (go n') s head sbuf data' r
                end
            | Some (msg, rem) =>
                let msg' := if started head x then msg else blstrip msg in
                match feed (wd s) x msg' with
                | FOk x' o =>
                    match dispatch (wd s) true (sbuf ++ o) with
                    | DExc => mk (wd s) (outs s) (addfed msg' (fed s)) (Dead E_LISTENER)
                    | DOk w' _ => cont (go n') (fresh w' (outs s ++ [(true, sbuf ++ o)]) (addfed msg' (fed s))) rem
                    end
                | r => on_exc (go n') s head sbuf data' r
                end
            end
        | Run (Dom dbuf) => dom_body (go n') (wd s) (outs s) (fed s) (dbuf ++ data)
        | _ => s
        end
    end.

  (* octets the state keeps that a later read is joined to *)
  Definition size (s : st) : nat :=
    match stat s with
    | Run (Sax held head _ _) => length head + length held
    | Run (Dom dbuf) => length dbuf
    | _ => 0
    end.

  (* one call of session.parser.parse(data) from Session.run *)
  Definition parse (s : st) (data : bytes) : st := go (S (size s + length data)) s data.

  Definition run (s : st) (reads : list bytes) : st := fold_left parse reads s.

  Definition init (w : W) : st := mk w [] [[]] (Run (Sax [] [] (xnew w) [])).
End Driver.

(* the stream cut into reads: successive lengths (a length beyond the end takes what is left; the rest is the
   last read) *)
Fixpoint segments (stream : bytes) (cuts : list nat) : list bytes :=
  match cuts with
  | [] => [stream]
  | k :: ks => firstn k stream :: segments (skipn k stream) ks
  end.

(* the stream split at every end-of-message delimiter (leftmost, non-overlapping): the last element is what
   follows the last delimiter *)
Fixpoint pieces (n : nat) (b : bytes) : list bytes :=
  match n with
  | O => [b]
  | S n' => match find_sub delim10 b with
            | None => [b]
            | Some (m, r) => m :: pieces n' r
            end
  end.
Definition frames (b : bytes) : list bytes := pieces (length b) b.

Arguments XOk {X}. Arguments XSwitch {X}. Arguments XErr {X}. Arguments XExc {X}.
Arguments DOk {W}. Arguments DExc {W}.
Arguments FOk {X}. Arguments FSwitch {X}. Arguments FErr {X}. Arguments FExc {X}.
Arguments Sax {X}. Arguments Dom {X}. Arguments Run {X}. Arguments Dead {X}. Arguments Stuck {X}. Arguments Fuel {X}.
Arguments mk {W X}. Arguments wd {W X}. Arguments outs {W X}. Arguments fed {W X}. Arguments stat {W X}.
Arguments size {W X}.
