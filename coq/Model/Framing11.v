(* Framing11.v — DefaultXMLParser._parse11 (ncclient/transport/parser.py, after the fixes for
   F2/F3/F3b): RFC 6242 chunked framing over an accumulating buffer.

     data = whole buffer; start = 0
     while start < len(data):
         m = RE_NC11_DELIM.match(data[start:])                 [match_hdr, bytes pattern]
         if not m:
             if not RE_NC11_DELIM_PREFIX.fullmatch(data[start:]): raise NetconfFramingError
             break                                             [delim_prefix: wait for more]
         if m.group(2):  start += end; msg = b''.join(frags).decode('UTF-8'); frags = []
                         dispatch(msg); break
         elif m.group(1): n = int(digits)
             if len(data)-start >= end+n: frags.append(data[..n]); start += end+n
             else: break                                        [not enough bytes yet]
     if start > 0: buffer = data[start:]; if start < len(data): self._parse11()

   The `while` loop and the tail call are one recursion here: a step that consumed a
   delimiter (and chunk) continues on the rest; a `break` without a dispatched message keeps
   the unconsumed rest as the buffer (the code's extra call on that rest re-scans it and
   stops at the same place without any effect).  Chunk sizes follow the code: any digit
   string (leading zeros, zero) is accepted.  Definitions only. *)
From NC Require Import Model.Base Model.Utf8 Model.Framing10.

Definition LF : N := 10.
Definition HASH : N := 35.
Definition is_digit (b : N) : bool := in_rng 48 57 b.

Fixpoint span_digits (l : bytes) : bytes * bytes :=
  match l with
  | d :: r => if is_digit d then let '(ds, r') := span_digits r in (d :: ds, r') else ([], l)
  | [] => ([], [])
  end.

Definition digit_step (a d : N) : N := a * 10 + (d - 48).
Definition digits_val (ds : bytes) : N := fold_left digit_step ds 0.    (* int(b'0123') *)

Inductive hdr : Type :=
| HNone                              (* no delimiter at the head *)
| HEnd (after : bytes)               (* \n##\n *)
| HChunk (n : N) (after : bytes).    (* \n#<digits>\n *)

(* re.compile(br'\n(?:#([0-9]+)|(##))\n').match(l) *)
Definition match_hdr (l : bytes) : hdr :=
  match l with
  | a :: b :: r =>
      if (a =? LF) && (b =? HASH) then
        let '(ds, r') := span_digits r in
        match ds with
        | _ :: _ => match r' with
                    | c :: after => if c =? LF then HChunk (digits_val ds) after else HNone
                    | [] => HNone
                    end
        | [] => match r with
                | c :: d :: after => if (c =? HASH) && (d =? LF) then HEnd after else HNone
                | _ => HNone
                end
        end
      else HNone
  | _ => HNone
  end.

(* re.compile(br'\n(?:#(?:[0-9]+|#)?)?').fullmatch(l): the beginning of a delimiter *)
Definition delim_prefix (l : bytes) : bool :=
  match l with
  | [] => false
  | a :: r =>
      (a =? LF) &&
      match r with
      | [] => true
      | b :: r2 =>
          (b =? HASH) &&
          match r2 with
          | [] => true
          | c :: r3 => ((c =? HASH) && match r3 with [] => true | _ => false end) || forallb is_digit r2
          end
      end
  end.

(* frags: the octets of b''.join(_message_list) *)
Record pst11 := { buf11 : bytes; frags11 : bytes; dead11 : bool }.
Definition init11 : pst11 := {| buf11 := []; frags11 := []; dead11 := false |}.

Fixpoint parse11 (fuel : nat) (data : bytes) (frags : bytes) : pst11 * list pevent :=
  match fuel with
  | O => ({| buf11 := data; frags11 := frags; dead11 := true |}, [Raise K_FUEL])
  | S f =>
      match data with
      | [] => ({| buf11 := []; frags11 := frags; dead11 := false |}, [])
      | _ =>
          match match_hdr data with
          | HNone =>
              if delim_prefix data then ({| buf11 := data; frags11 := frags; dead11 := false |}, [])
              else ({| buf11 := data; frags11 := frags; dead11 := true |}, [Raise K_FRAMING])
          | HEnd after =>
              match decode_strict frags with
              | None => ({| buf11 := data; frags11 := frags; dead11 := true |}, [Raise K_UNICODE])
              | Some t => let '(st, evs) := parse11 f after [] in (st, Deliver t :: evs)
              end
          | HChunk n after =>
              if n <=? N.of_nat (length after) then
                parse11 f (skipn (N.to_nat n) after) (frags ++ firstn (N.to_nat n) after)
              else ({| buf11 := data; frags11 := frags; dead11 := false |}, [])
          end
      end
  end.

(* parse(data) under BASE_11 *)
Definition feed11 (st : pst11) (seg : bytes) : pst11 * list pevent :=
  if dead11 st then (st, [])
  else match seg with
       | [] => (st, [])
       | _ => let b := buf11 st ++ seg in parse11 (S (length b)) b (frags11 st)
       end.

(* feeding a list of reads: the events of each read *)
Fixpoint feed_all {S} (feed : S -> bytes -> S * list pevent) (st : S) (segs : list bytes) : S * list (list pevent) :=
  match segs with
  | [] => (st, [])
  | seg :: segs' => let '(st1, e) := feed st seg in
                    let '(st2, es) := feed_all feed st1 segs' in (st2, e :: es)
  end.
