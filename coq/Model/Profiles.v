(* Model/Profiles.v — device profiles (ncclient/devices/*.py), handler construction
   (manager.make_device_handler), the Manager's operation lookup (Manager.__init__ /
   __getattr__) and NCElement.xpath's namespace map (xml_.py), as pure functions.

   A [profile] is the resolved view of one handler class: the literal tables come from the
   source (Gen/Gen_Devices.v, linked in GenProps/C16_tables.v), the COMPUTED getters
   (get_capabilities of default/huawei/nexus/sros, get_ssh_subsystem_names of nexus,
   get_xml_extra_prefix_kwargs) are the hand-written rules below.  Every getter is a function
   of the profile and of the constructor arguments (device_params, ignore_errors, nc_params)
   alone; the only module-level mutable state that the modelled code touches is
   xml_.XPATH_NAMESPACES, threaded explicitly through [world] ([leak = true] is the code
   before the F18 repair, kept to show that the isolation statement discriminates).
   Definitions only. *)
From Coq Require Import String.
From NC Require Import Model.Base Model.Lit.

(* ---------- small Python built-ins ---------- *)
Definition upper_b (c : N) : N := if (97 <=? c) && (c <=? 122) then c - 32 else c.
Definition lower_b (c : N) : N := if (65 <=? c) && (c <=? 90) then c + 32 else c.
Definition lower (s : bytes) : bytes := map lower_b s.
(* str.capitalize() on ASCII *)
Definition capitalize (s : bytes) : bytes :=
  match s with [] => [] | c :: r => upper_b c :: map lower_b r end.
(* "<a>%s<b>" % arg  for a format with exactly one %s *)
Definition format1 (fmt arg : bytes) : bytes :=
  match find_sub [37; 115] fmt with Some (a, b) => a ++ arg ++ b | None => fmt end.

Definition okey_eqb (a b : option bytes) : bool :=
  match a, b with None, None => true | Some x, Some y => beq x y | _, _ => false end.

(* insertion-ordered dict whose keys are None or strings (lxml nsmap) *)
Definition nsdict := list (option bytes * bytes).
Fixpoint ns_set (k : option bytes) (v : bytes) (d : nsdict) : nsdict :=
  match d with
  | [] => [(k, v)]
  | (k', v') :: d' => if okey_eqb k k' then (k', v) :: d' else (k', v') :: ns_set k v d'
  end.
(* d.update(u) *)
Definition ns_update (d u : nsdict) : nsdict := fold_left (fun acc kv => ns_set (fst kv) (snd kv) acc) u d.
Definition dict_update {V} (d u : list (bytes * V)) : list (bytes * V) :=
  fold_left (fun acc kv => dict_set (fst kv) (snd kv) acc) u d.

Inductive res (A : Type) : Type := Ok (a : A) | Raise (e : N).
Arguments Ok {A} a. Arguments Raise {A} e.
Definition E_IndexError := 1.
Definition E_OperationError := 2.
Definition E_ModuleNotFound := 3.
Definition E_AttributeError := 4.

(* ---------- constructor arguments ---------- *)
(* device_params["with_ns"] as EricssonDeviceHandler.check_device_params classifies it:
   absent/None, True, False, an int equal to True/False (0, 1: `value in [True, False]` holds,
   `is False` does not), anything else (OperationError) *)
Inductive with_ns := WnAbsent | WnTrue | WnFalse | WnIntLike | WnInvalid.
Record dparams := mk_dparams {
  dp_subsys : option bytes;        (* device_params.get("ssh_subsystem_name") *)
  dp_config_mode : option bytes;   (* device_params.get("config_mode") *)
  dp_with_ns : with_ns }.

(* ---------- profiles ---------- *)
Inductive caps_rule :=
| CapsBase                      (* return self._BASE_CAPABILITIES + self.capabilities *)
| CapsLit (l : list bytes)      (* return <literal list> *)
| CapsHuawei                    (* super() then five appends *)
| CapsNexus                     (* super() then c[0] = xml:ns form of base:1.0 *)
| CapsSros.                     (* super() + additional (+ pc in private mode) *)
Inductive subsys_rule := SubLit (l : list bytes) | SubNexus.
Inductive prefix_rule :=
| PfxLit (l : list (bytes * nsdict))   (* return <literal> *)
| PfxNsmap (extra : nsdict)            (* d = <extra>; d.update(self.get_xml_base_namespace_dict()); return {"nsmap": d} *)
| PfxEricsson.                         (* update only when check_device_params() is False *)

Definition opcls := (bytes * bytes)%type.     (* (class name, defining module) *)

Record profile := mk_profile {
  pr_module : bytes;                 (* ncclient/devices/<module>.py *)
  pr_class : bytes;
  pr_base_caps : list bytes;         (* _BASE_CAPABILITIES as the class sees it *)
  pr_exempt : list bytes;            (* class-level _EXEMPT_ERRORS *)
  pr_exempt_append : bool;           (* DefaultDeviceHandler.__init__: false = `ignore_errors or self._EXEMPT_ERRORS`
                                        (user patterns replace the class's), true = class patterns ++ user patterns
                                        (the F7 repair of property C06); chosen from the source digest in GenProps *)
  pr_caps : caps_rule;
  pr_nsdict : nsdict;                (* get_xml_base_namespace_dict *)
  pr_prefix : prefix_rule;           (* get_xml_extra_prefix_kwargs *)
  pr_qualify : bool;                 (* perform_qualify_check *)
  pr_subsys : subsys_rule;           (* get_ssh_subsystem_names *)
  pr_vendor : list (bytes * opcls)   (* add_additional_operations *) }.

(* ---------- computed getters ---------- *)
Definition s_netconf := Eval compute in lit "netconf"%string.
Definition s_xmlagent := Eval compute in lit "xmlagent"%string.
Definition s_nsmap := Eval compute in lit "nsmap"%string.
Definition s_private := Eval compute in lit "private"%string.
Definition base_1_0 := Eval compute in lit "urn:ietf:params:netconf:base:1.0"%string.
Definition base_1_1 := Eval compute in lit "urn:ietf:params:netconf:base:1.1"%string.
Definition nexus_base := Eval compute in lit "urn:ietf:params:xml:ns:netconf:base:1.0"%string.
Definition huawei_extra : list bytes := Eval compute in
  [ lit "http://www.huawei.com/netconf/capability/execute-cli/1.0"%string;
    lit "http://www.huawei.com/netconf/capability/action/1.0"%string;
    lit "http://www.huawei.com/netconf/capability/active/1.0"%string;
    lit "http://www.huawei.com/netconf/capability/discard-commit/1.0"%string;
    lit "http://www.huawei.com/netconf/capability/exchange/1.0"%string ].
Definition sros_extra : list bytes := Eval compute in
  [ lit "urn:ietf:params:xml:ns:netconf:base:1.0"%string;
    lit "urn:ietf:params:xml:ns:yang:1"%string;
    lit "urn:ietf:params:netconf:capability:confirmed-commit:1.1"%string;
    lit "urn:ietf:params:netconf:capability:validate:1.1"%string ].
Definition sros_pc := Eval compute in lit "urn:nokia.com:nc:pc"%string.
Definition nexus_extra_ns : nsdict := Eval compute in
  [ (Some (lit "nxos"%string), lit "http://www.cisco.com/nxos:1.0"%string);
    (Some (lit "if"%string), lit "http://www.cisco.com/nxos:1.0:if_manager"%string);
    (Some (lit "nfcli"%string), lit "http://www.cisco.com/nxos:1.0:nfcli"%string);
    (Some (lit "vlan_mgr_cli"%string), lit "http://www.cisco.com/nxos:1.0:vlan_mgr_cli"%string) ].
Definition hpcomware_extra_ns : nsdict := Eval compute in
  [ (Some (lit "data"%string), lit "http://www.hp.com/netconf/data:1.0"%string);
    (Some (lit "config"%string), lit "http://www.hp.com/netconf/config:1.0"%string) ].

(* nexus.get_ssh_subsystem_names; [pref] = device_params.get("ssh_subsystem_name"), falsy when
   None or "" *)
Definition nexus_subsystems (pref : option bytes) : list bytes :=
  match pref with
  | Some (c :: r) => (c :: r) :: filter (fun n => negb (beq n (c :: r))) [s_netconf; s_xmlagent]
  | _ => [s_netconf; s_xmlagent]
  end.

Definition subsystems (p : profile) (dp : dparams) : list bytes :=
  match pr_subsys p with SubLit l => l | SubNexus => nexus_subsystems (dp_subsys dp) end.

Definition default_caps (p : profile) (user : list bytes) : list bytes := pr_base_caps p ++ user.

(* c[0] = x *)
Definition set0 (x : bytes) (l : list bytes) : option (list bytes) :=
  match l with [] => None | _ :: t => Some (x :: t) end.

Definition opt_beq (a : option bytes) (b : bytes) : bool :=
  match a with Some x => beq x b | None => false end.

(* get_capabilities(); [user] = nc_params["capabilities"] *)
Definition capabilities (p : profile) (dp : dparams) (user : list bytes) : res (list bytes) :=
  match pr_caps p with
  | CapsBase => Ok (default_caps p user)
  | CapsLit l => Ok l
  | CapsHuawei => Ok (default_caps p user ++ huawei_extra)
  | CapsNexus => match set0 nexus_base (default_caps p user) with
                 | Some l => Ok l | None => Raise E_IndexError end
  | CapsSros => Ok (default_caps p user ++ sros_extra ++
                    (if opt_beq (dp_config_mode dp) s_private then [sros_pc] else []))
  end.

Definition prefix_kwargs (p : profile) (dp : dparams) : res (list (bytes * nsdict)) :=
  match pr_prefix p with
  | PfxLit l => Ok l
  | PfxNsmap extra => Ok [(s_nsmap, ns_update extra (pr_nsdict p))]
  | PfxEricsson =>
      match dp_with_ns dp with
      | WnInvalid => Raise E_OperationError
      | WnAbsent | WnFalse => Ok [(s_nsmap, ns_update [] (pr_nsdict p))]
      | WnTrue | WnIntLike => Ok [(s_nsmap, [])]
      end
  end.

(* DefaultDeviceHandler.__init__: self._EXEMPT_ERRORS = ignore_errors or self._EXEMPT_ERRORS (or, after
   the F7 repair, list(self._EXEMPT_ERRORS) + list(ignore_errors or [])), then the four pattern lists (exact, leading *, trailing *, both) of the lower-cased patterns *)
Definition exempt_source (p : profile) (ignore : list bytes) : list bytes :=
  if pr_exempt_append p then pr_exempt p ++ ignore
  else match ignore with [] => pr_exempt p | _ => ignore end.

Definition STAR := 42.
Definition starts_star (e : bytes) : bool := match e with c :: _ => N.eqb c STAR | [] => false end.
Definition ends_star (e : bytes) : bool := starts_star (rev e).
Definition drop_last (e : bytes) : bytes := removelast e.

Record exempt4 := mk_exempt4 { ex_exact : list bytes; ex_start_wild : list bytes; ex_end_wild : list bytes; ex_full_wild : list bytes }.

Fixpoint classify_exempt (l : list bytes) (acc : exempt4) : exempt4 :=
  match l with
  | [] => acc
  | e0 :: l' =>
      let e := lower e0 in
      let acc' :=
        if starts_star e then
          if ends_star e then mk_exempt4 (ex_exact acc) (ex_start_wild acc) (ex_end_wild acc) (ex_full_wild acc ++ [drop_last (tl e)])
          else mk_exempt4 (ex_exact acc) (ex_start_wild acc ++ [tl e]) (ex_end_wild acc) (ex_full_wild acc)
        else if ends_star e then mk_exempt4 (ex_exact acc) (ex_start_wild acc) (ex_end_wild acc ++ [drop_last e]) (ex_full_wild acc)
        else mk_exempt4 (ex_exact acc ++ [e]) (ex_start_wild acc) (ex_end_wild acc) (ex_full_wild acc) in
      classify_exempt l' acc'
  end.
Definition exempt_lists (p : profile) (ignore : list bytes) : exempt4 :=
  classify_exempt (exempt_source p ignore) (mk_exempt4 [] [] [] []).

(* ---------- make_device_handler ---------- *)
Record naming := mk_naming { n_class_fmt : bytes; n_capitalize : bool; n_default : bytes }.

Definition class_name_of (nm : naming) (name : bytes) : bytes :=
  format1 (n_class_fmt nm) (if n_capitalize nm then capitalize name else name).

(* device_params.get("name", default) -> module ncclient.devices.<name>, class <Name>DeviceHandler *)
Definition make_handler (nm : naming) (tbl : list profile) (name : option bytes) : res profile :=
  let n := match name with Some n => n | None => n_default nm end in
  if existsb (fun p => beq (pr_module p) n) tbl then
    match find (fun p => beq (pr_module p) n && beq (pr_class p) (class_name_of nm n)) tbl with
    | Some p => Ok p
    | None => Raise E_AttributeError
    end
  else Raise E_ModuleNotFound.

(* ---------- Manager.__getattr__ ---------- *)
Inductive resolved := Vendor (c : opcls) | Standard (c : opcls) | Missing.
Definition resolve (vendor ops : list (bytes * opcls)) (name : bytes) : resolved :=
  match dict_get name vendor with
  | Some c => Vendor c
  | None => match dict_get name ops with Some c => Standard c | None => Missing end
  end.
(* Manager.__init__: self._vendor_operations = {}; .update(device_handler.add_additional_operations()) *)
Definition manager_vendor (p : profile) : list (bytes * opcls) := dict_update [] (pr_vendor p).

(* ---------- histories ---------- *)
Inductive handler_src := ByName (name : option bytes) | UserClass (p : profile).
Inductive getter_id := GCaps | GNsdict | GPrefix | GQualify | GSubsys | GVendor | GExempt.

Inductive op :=
| Construct (src : handler_src) (dp : dparams) (ignore user : list bytes)
        (* make_device_handler(device_params, ignore_errors); add_additional_netconf_params; Manager(session, handler) *)
| Get (g : getter_id)               (* call the getter, observe the value *)
| GetMut (g : getter_id)            (* call the getter, the caller mutates the returned object in place *)
| Lookup (name : bytes)             (* getattr(manager, name) *)
| Xpath (ns : list (bytes * bytes)). (* NCElement(reply of this manager).xpath(expr, namespaces=ns) *)

Inductive obs :=
| ONothing                          (* operation on a slot that holds no handler *)
| OConstructed (cls : bytes)
| OError (e : N)
| OCaps (l : list bytes)
| ONs (d : nsdict)
| OPrefix (l : list (bytes * nsdict))
| OBool (b : bool)
| OVendor (l : list (bytes * opcls))
| OExempt (src : list bytes) (e : exempt4)
| OResolved (r : resolved)
| OXpath (effective : list (bytes * bytes)).

Record instance := mk_instance { i_prof : profile; i_dp : dparams; i_ignore : list bytes; i_user : list bytes }.

Record globals := mk_globals {
  g_naming : naming;
  g_table : list profile;                   (* the handler classes importable from ncclient.devices *)
  g_ops : list (bytes * opcls);             (* manager.OPERATIONS *)
  g_xpath : list (bytes * bytes) }.         (* xml_.XPATH_NAMESPACES *)

Record world := mk_world { w_g : globals; w_slots : list (N * instance) }.

Fixpoint slot_get (i : N) (s : list (N * instance)) : option instance :=
  match s with [] => None | (j, x) :: s' => if N.eqb i j then Some x else slot_get i s' end.
Fixpoint slot_set (i : N) (x : instance) (s : list (N * instance)) : list (N * instance) :=
  match s with
  | [] => [(i, x)]
  | (j, y) :: s' => if N.eqb i j then (j, x) :: s' else (j, y) :: slot_set i x s'
  end.

Definition observe_getter (x : instance) (g : getter_id) : obs :=
  let p := i_prof x in
  match g with
  | GCaps => match capabilities p (i_dp x) (i_user x) with Ok l => OCaps l | Raise e => OError e end
  | GNsdict => ONs (pr_nsdict p)
  | GPrefix => match prefix_kwargs p (i_dp x) with Ok l => OPrefix l | Raise e => OError e end
  | GQualify => OBool (pr_qualify p)
  | GSubsys => OCaps (subsystems p (i_dp x))
  | GVendor => OVendor (pr_vendor p)
  | GExempt => OExempt (exempt_source p (i_ignore x)) (exempt_lists p (i_ignore x))
  end.

(* one operation on slot [i]: new world and what the caller observes.
   [leak = true]: xpath(namespaces=ns) updates the module-level dict in place (code before the
   F18 repair); [leak = false]: it updates a copy. *)
Definition step (leak : bool) (w : world) (i : N) (o : op) : world * obs :=
  let g := w_g w in
  match o with
  | Construct src dp ignore user =>
      let r := match src with
               | ByName name => make_handler (g_naming g) (g_table g) name
               | UserClass p => Ok p end in
      match r with
      | Ok p => (mk_world g (slot_set i (mk_instance p dp ignore user) (w_slots w)), OConstructed (pr_class p))
      | Raise e => (w, OError e)
      end
  | Get gt | GetMut gt =>
      (* every getter returns a freshly built object: mutating it changes nothing *)
      match slot_get i (w_slots w) with
      | Some x => (w, observe_getter x gt)
      | None => (w, ONothing)
      end
  | Lookup name =>
      match slot_get i (w_slots w) with
      | Some x => (w, OResolved (resolve (manager_vendor (i_prof x)) (g_ops g) name))
      | None => (w, ONothing)
      end
  | Xpath ns =>
      let eff := dict_update (g_xpath g) ns in
      match slot_get i (w_slots w) with
      | Some x =>
          ((if leak then mk_world (mk_globals (g_naming g) (g_table g) (g_ops g) eff) (w_slots w) else w), OXpath eff)
      | None => (w, ONothing)
      end
  end.

Definition history := list (N * op).

Fixpoint run_from (leak : bool) (w : world) (h : history) : list (N * obs) :=
  match h with
  | [] => []
  | (i, o) :: h' => let '(w', ob) := step leak w i o in (i, ob) :: run_from leak w' h'
  end.

Definition init_world (g : globals) : world := mk_world g [].

(* what is seen through slot i during the history *)
Definition observations (leak : bool) (g : globals) (i : N) (h : history) : list obs :=
  map snd (filter (fun e => N.eqb (fst e) i) (run_from leak (init_world g) h)).

(* the history with every operation on other slots removed *)
Definition restrict (i : N) (h : history) : history := filter (fun e => N.eqb (fst e) i) h.
