(* XmlSession.v — sequences of INDEPENDENT constructor calls in one process (property C17).
   xml_.py's constructors are lambdas  new_ele = lambda tag, attrs={}, **extra: etree.Element(qualify(tag), attrs, **extra)
   (and new_ele_ns, new_ele_nsmap, sub_ele, sub_ele_ns alike): each has ONE default dictionary object that lives as
   long as the process (func.__defaults__[0]), the caller may pass a dictionary it keeps (and passes again, or updates
   itself between calls), and attributes may also be given as keyword arguments.  A process builds several trees, one
   after the other or interleaved.  What Python does is modelled literally: the attrs argument of a call is LOOKED UP
   in the process state (the default objects, the caller's dictionaries) when the call is made; lxml builds the new
   element's attribute dictionary from the keyword attributes and that mapping and writes to neither.
   Definitions only. *)
From NC Require Import Model.Base Model.XTree Model.XmlHelpers.

(* the attrs argument of a constructor call *)
Inductive aarg :=
| ADefault                      (* omitted: the lambda's default object is used *)
| ACaller (i : nat)             (* the i-th dictionary the caller keeps *)
| ALit (a : list attr).         (* a dictionary written at the call site *)

Inductive ctor := CNew | CNewNs | CNewNsmap | CSub | CSubNs.
Definition ctor_idx (c : ctor) : nat :=
  match c with CNew => 0 | CNewNs => 1 | CNewNsmap => 2 | CSub => 3 | CSubNs => 4 end.

(* calls of a process; t = index of the tree (in order of creation), p = path of child indices in it *)
Inductive sop :=
| SNew (tag : bytes) (a : aarg) (kw : list attr)                              (* new_ele(tag, [attrs], **kw) *)
| SNewNs (tag : bytes) (u : ns) (a : aarg) (kw : list attr)                   (* new_ele_ns(tag, u, [attrs], **kw) *)
| SNewNsmap (tag : bytes) (m : list decl) (a : aarg) (kw : list attr)         (* new_ele_nsmap(tag, m, [attrs], **kw) *)
| SSub (t : nat) (p : list nat) (tag : bytes) (a : aarg) (kw : list attr)     (* sub_ele(node, tag, [attrs], **kw) *)
| SSubNs (t : nat) (p : list nat) (tag : bytes) (u : ns) (a : aarg) (kw : list attr)
| SDictSet (i : nat) (k : name) (v : bytes).                                  (* the caller's own d_i[k] = v *)

(* process state: the five default objects, the caller's dictionaries, the trees built so far *)
Record sstate := mkS { s_dflt : list (list attr); s_dicts : list (list attr); s_trees : list mnode }.

(* lxml _initNodeAttributes(attrib, extra): the keyword attributes first (keyword order), then the entries of the
   mapping whose name was not given as a keyword (a keyword wins) *)
Definition merge_kw (d kw : list attr) : list attr :=
  kw ++ filter (fun e => negb (mem_name (fst e) (keys kw))) d.

(* what the attrs parameter is bound to when the call is made *)
Definition arg_value (st : sstate) (c : ctor) (a : aarg) : list attr :=
  match a with
  | ADefault => nth (ctor_idx c) (s_dflt st) []
  | ACaller i => nth i (s_dicts st) []
  | ALit l => l
  end.

Definition call_attrs (st : sstate) (c : ctor) (a : aarg) (kw : list attr) : list attr :=
  merge_kw (arg_value st c a) kw.

Definition with_trees (st : sstate) (ts : list mnode) : sstate := mkS (s_dflt st) (s_dicts st) ts.

Definition dict_set (i : nat) (k : name) (v : bytes) (ds : list (list attr)) : option (list (list attr)) :=
  update_nth i (fun d => Some (attr_set k v d)) ds.

Definition sstep (st : sstate) (op : sop) : option sstate :=
  match op with
  | SNew tag a kw => Some (with_trees st (s_trees st ++ [new_ele tag (call_attrs st CNew a kw)]))
  | SNewNs tag u a kw => Some (with_trees st (s_trees st ++ [new_ele_ns tag u (call_attrs st CNewNs a kw)]))
  | SNewNsmap tag m a kw => Some (with_trees st (s_trees st ++ [new_ele_nsmap tag m (call_attrs st CNewNsmap a kw)]))
  | SSub t p tag a kw =>
      option_map (with_trees st) (update_nth t (sub_ele_at p tag (call_attrs st CSub a kw)) (s_trees st))
  | SSubNs t p tag u a kw =>
      option_map (with_trees st) (update_nth t (sub_ele_ns_at p tag u (call_attrs st CSubNs a kw)) (s_trees st))
  | SDictSet i k v =>
      option_map (fun ds => mkS (s_dflt st) ds (s_trees st)) (dict_set i k v (s_dicts st))
  end.

Fixpoint srun (st : sstate) (ops : list sop) : option sstate :=
  match ops with
  | [] => Some st
  | op :: r => match sstep st op with Some st1 => srun st1 r | None => None end
  end.

(* the state after every call, up to the first call that names no tree / element / dictionary *)
Fixpoint strace (st : sstate) (ops : list sop) : list sstate :=
  match ops with
  | [] => []
  | op :: r => match sstep st op with Some st1 => st1 :: strace st1 r | None => [] end
  end.
