(* VendorGating.v — the capability checks of the VENDOR operation classes
   (ncclient/operations/third_party/*/rpc.py), on top of Model/Gating.v.
   The Junos and SR OS Commit classes are Gating.CCommit VJunos / VSros.  Of the other 28 classes
   none declares DEPENDS and none calls self._assert itself (GenProps/VendorGating_consts.v); a
   capability check is reached only through util.datastore_or_url(wha, loc, self._assert), which
   three classes call:
     alu  GetConfiguration.request   datastore_or_url('source', 'running', self._assert)   — the literal 'running'
     alu  LoadConfiguration.request  datastore_or_url('target', target, self._assert)      — when config is given and format is 'xml' or 'cli'
     h3c  GetBulkConfig.request      datastore_or_url("source", source, self._assert)
   (h3c GetBulk / GetBulkConfig call util.build_filter WITHOUT capcheck: no :xpath check, as the
   standard Get / GetConfig.)  Everything else that can stop a call locally is a verdict in the
   argument record (an oracle input), as in Gating.v. *)
From Coq Require Import String.
From NC Require Import Model.Base Model.Lit Model.Caps Model.Xml Model.Gating.

Definition s_vg_cli := Eval compute in lit "cli"%string.
Definition s_vg_running := Eval compute in lit "running"%string.

(* the 24 classes whose request() performs no capability check at all *)
Inductive plainclass : Type :=
| KJCommand | KJGetConfiguration | KJLoadConfiguration | KJCompareConfiguration | KJExecuteRpc | KJReboot | KJHalt | KJRollback
| KSMdCliRawCommand
| KAShowCli
| KHGetBulk | KHCli | KHAction | KHSave | KHLoad | KHRollback
| KPDisplayCommand | KPConfigCommand | KPAction | KPSave | KPRollback
| KWCli | KWAction
| KXSaveConfig
| KNExecCommand.

Inductive vgcall : Type :=
(* alu load_configuration(format, default_operation, target, config): cfg = None when config is None, else the
   verdict of `config_node.append(config)` / `.text = config`; dop = verdict of `.text = default_operation` *)
| GALoadConfiguration (fmt : bytes) (tgt : dsarg) (cfg : option (option exn)) (dop : option exn)
(* alu get_configuration(content, filter, detail): body = verdict of the filter construction *)
| GAGetConfiguration (body : option exn)
(* h3c get_bulk_config(source, filter) *)
| GHGetBulkConfig (src : dsarg) (flt : option exn)
(* every other class: body = the local failure its arguments cause, if any.  (h3c get_bulk(filter): the verdict of
   build_filter; junos load_configuration: with a config — without one nothing is sent, finding C07-vendor-config-omitted) *)
| GPlain (k : plainclass) (body : option exn).

(* DEPENDS of the class (Gen_Ops.depends_of: none of the 28 classes declares or inherits one) *)
Definition vg_deps (c : vgcall) : list bytes := [].

(* the checks request() performs, in source order *)
Definition vg_steps (c : vgcall) : list step :=
  match c with
  | GALoadConfiguration fmt tgt cfg dop =>
      match cfg with
      | None => []
      | Some v =>
          if beq fmt s_f_xml then ds_steps tgt ++ fail_opt v
          else if beq fmt s_vg_cli then ds_steps tgt ++ fail_opt v
          else []
      end ++ fail_opt dop
  | GAGetConfiguration body => ds_steps (DsStr s_vg_running true) ++ fail_opt body
  | GHGetBulkConfig src flt => ds_steps src ++ fail_opt flt
  | GPlain _ body => fail_opt body
  end.

(* Manager.execute(cls, …) for an arbitrary DEPENDS list and request() program: construct, request, send.
   [Gating.perform s c] is [perform_prog s (class_deps c) (steps_of c)] (VendorGatingProofs.perform_is_prog). *)
Definition perform_prog (s : sess) (deps : list bytes) (prog : list step) : list event * outcome :=
  match construct s deps with
  | (tr, Some e) => (tr, Exn e)
  | (tr, None) =>
      match run_steps s prog with
      | (tr', Some e) => (tr ++ tr', Exn e)
      | (tr', None) => (tr ++ tr' ++ [EvSend], Sent)
      end
  end.

Definition vperform (s : sess) (c : vgcall) : list event * outcome :=
  perform_prog s (vg_deps c) (vg_steps c).

(* the vendor object built before ([None]) / after ([Some s]) the <hello> exchange, request() on the connected session *)
Definition vperform_at (s0 : option sess) (s : sess) (c : vgcall) : list event * outcome :=
  perform_prog_at s0 s (vg_deps c) (vg_steps c).

(* the capability-dependent constructs a vendor request carries (Gating.wire): the <url> datastore_or_url builds *)
Definition vwire_of (c : vgcall) : list wire :=
  match c with
  | GALoadConfiguration fmt tgt (Some _) _ =>
      if beq fmt s_f_xml then ds_wire tgt else if beq fmt s_vg_cli then ds_wire tgt else []
  | GALoadConfiguration _ _ None _ => []
  | GAGetConfiguration _ => ds_wire (DsStr s_vg_running true)
  | GHGetBulkConfig src _ => ds_wire src
  | GPlain _ _ => []
  end.
