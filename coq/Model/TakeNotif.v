(* Model/TakeNotif.v — Manager.take_notification(block=True, timeout=None) down to queue.Queue.get.

   ncclient/manager.py      Manager.take_notification(block, timeout)  = self._session.take_notification(block, timeout)
   transport/session.py     Session.take_notification(block, timeout)  = try: return self._notification_q.get(block, timeout)
                                                                         except Empty: return None
   Lib/queue.py             Queue.get(block, timeout)                  (the consumer's view, below)

   Executable definitions only.  Time is an integer number of milliseconds counted from the start of the call.  The
   environment of one call is explicit: what is queued when the call starts and what the session thread puts into the
   queue while the call is in progress.  One consumer at a time (the interleaving of several consumers and of the
   producer is the session LTS, Model/SessionLTS.v label LTake). *)
From Coq Require Import ZArith.
From NC Require Import Model.Base.
Open Scope Z_scope.

(* the timeout argument: None or a number *)
Inductive tmo : Type := TNone | TNum (z : Z).

(* queued: FIFO, head first.  arrivals: (offset, notification) in the order of the puts. *)
Record env : Type := mkenv { queued : list N; arrivals : list (Z * N) }.

Inductive qres : Type :=
| QItem (n : N) (at_ : Z)      (* returns item n, [at_] ms after the call started *)
| QEmpty (at_ : Z)             (* raises queue.Empty at that time *)
| QForever                     (* waits on not_empty for ever *)
| QValueError.                 (* "'timeout' must be a non-negative number" *)

(*  def get(self, block=True, timeout=None):
        with self.not_empty:
            if not block:
                if not self._qsize(): raise Empty
            elif timeout is None:
                while not self._qsize(): self.not_empty.wait()
            elif timeout < 0: raise ValueError(...)
            else:
                endtime = time() + timeout
                while not self._qsize():
                    remaining = endtime - time()
                    if remaining <= 0.0: raise Empty
                    self.not_empty.wait(remaining)
            item = self._get() ...                                          *)
Definition queue_get (block : bool) (t : tmo) (e : env) : qres :=
  if negb block then
    match queued e with n :: _ => QItem n 0 | [] => QEmpty 0 end
  else
    match t with
    | TNone =>
        match queued e with
        | n :: _ => QItem n 0
        | [] => match arrivals e with (a, n) :: _ => QItem n (Z.max 0 a) | [] => QForever end
        end
    | TNum z =>
        if z <? 0 then QValueError else
        match queued e with
        | n :: _ => QItem n 0
        | [] => match arrivals e with
                | (a, n) :: _ => if a <? z then QItem n (Z.max 0 a) else QEmpty z
                | [] => QEmpty z
                end
        end
    end.

Inductive outcome : Type :=
| Ret (r : option N) (at_ : Z)      (* the call returns a notification / None at that time *)
| Blocks                            (* the call never returns *)
| RaisesValueError.

Definition session_take (block : bool) (t : tmo) (e : env) : outcome :=
  match queue_get block t e with
  | QItem n a => Ret (Some n) a
  | QEmpty a => Ret None a
  | QForever => Blocks
  | QValueError => RaisesValueError
  end.

Definition manager_take (block : bool) (t : tmo) (e : env) : outcome := session_take block t e.

(* call forms: an omitted argument takes its default, take_notification(block=True, timeout=None) *)
Definition manager_call (ob : option bool) (ot : option tmo) (e : env) : outcome :=
  manager_take (match ob with Some b => b | None => true end) (match ot with Some t => t | None => TNone end) e.

(* what is left in the queue for the next call, given when this one returned *)
Definition queue_after (o : outcome) (e : env) : list N :=
  match o with
  | Ret (Some _) _ => match queued e with _ :: q => q | [] => map snd (tl (arrivals e)) end
  | _ => queued e
  end.
