(* Base.v — shared vocabulary of every model: octet strings, the generic value type
   spoken by the extracted runner, and the Python built-ins the modelled code uses.
   Definitions only (plus tiny structural facts); proofs live in Proofs/. *)
From Coq Require Export List NArith Bool Arith Lia.
Export ListNotations.
Open Scope N_scope.

Definition byte := N.
Definition bytes := list N.

(* Generic value exchanged with the harness (text protocol of ocaml/driver.ml). *)
Inductive val : Type :=
| VN : N -> val
| VB : bytes -> val
| VL : list val -> val.

Definition vbool (b : bool) : val := VN (if b then 1 else 0).
Definition vopt (o : option val) : val := match o with None => VL [] | Some v => VL [v] end.
Definition verr (code : N) : val := VL [VN 999; VN code].   (* malformed call *)

(* -------- equality on octet strings -------- *)
Fixpoint beq (a b : bytes) : bool :=
  match a, b with
  | [], [] => true
  | x :: a', y :: b' => N.eqb x y && beq a' b'
  | _, _ => false
  end.

Fixpoint prefixb (p l : bytes) : bool :=
  match p, l with
  | [], _ => true
  | x :: p', y :: l' => N.eqb x y && prefixb p' l'
  | _ :: _, [] => false
  end.

(* Python: s.startswith(p) *)
Definition startswith (s p : bytes) : bool := prefixb p s.

(* Python: p in s  (substring) *)
Fixpoint contains (s p : bytes) : bool :=
  prefixb p s || match s with [] => false | _ :: s' => contains s' p end.

(* first occurrence of a non-empty delimiter: Some (before, after) *)
Fixpoint find_sub (d s : bytes) : option (bytes * bytes) :=
  if prefixb d s then Some ([], skipn (length d) s)
  else match s with
       | [] => None
       | x :: s' => match find_sub d s' with
                    | Some (a, b) => Some (x :: a, b)
                    | None => None
                    end
       end.

(* Python: s.split(c) for a one-character separator: always a non-empty list *)
Fixpoint split_on (c : N) (s : bytes) : list bytes :=
  match s with
  | [] => [[]]
  | x :: s' =>
      if N.eqb x c then [] :: split_on c s'
      else match split_on c s' with
           | [] => [[x]]            (* unreachable: split_on never returns [] *)
           | h :: t => (x :: h) :: t
           end
  end.

(* Python: c.join(parts) *)
Fixpoint join_with (c : N) (parts : list bytes) : bytes :=
  match parts with
  | [] => []
  | [p] => p
  | p :: ps => p ++ c :: join_with c ps
  end.

Fixpoint list_beq {A} (eq : A -> A -> bool) (a b : list A) : bool :=
  match a, b with
  | [], [] => true
  | x :: a', y :: b' => eq x y && list_beq eq a' b'
  | _, _ => false
  end.

(* Python: x in list_of_strings *)
Fixpoint mem_bytes (x : bytes) (l : list bytes) : bool :=
  match l with [] => false | y :: l' => beq x y || mem_bytes x l' end.

(* insertion-ordered dict with string keys: set keeps the position of an existing key *)
Fixpoint dict_set {V} (k : bytes) (v : V) (d : list (bytes * V)) : list (bytes * V) :=
  match d with
  | [] => [(k, v)]
  | (k', v') :: d' => if beq k k' then (k', v) :: d' else (k', v') :: dict_set k v d'
  end.

Fixpoint dict_get {V} (k : bytes) (d : list (bytes * V)) : option V :=
  match d with
  | [] => None
  | (k', v') :: d' => if beq k k' then Some v' else dict_get k d'
  end.

(* ASCII literal helper: keeps models readable.  "abc"%string is avoided on purpose
   (no String import in extracted code); literals are written with [s_ "..."] in Lit.v *)
