(* VendorBuilders.v — model of the request builders of the VENDOR operation classes
   (ncclient/operations/third_party/{juniper,sros,alu,h3c,hpcomware,huawei,iosxe,nexus}/rpc.py)
   as reached through a real Manager with the device profile that ships them
   (devices/*.py add_additional_operations), after fixes 4913cf2 (junos load_configuration validates
   format), 8394e1b (alu load_configuration cli honours target), 2b5317e (alu edit-config child order).

   A builder maps an argument record to the element the code builds IN MEMORY (lxml tags: new_ele /
   sub_ele put every element in the base namespace, new_ele_ns(tag, "") in none, etree.Element(qualify
   (tag, ns)) in ns; `attrs={'xmlns': …}` is an ordinary attribute there).  [resolve] then computes the
   tree an INDEPENDENT READER sees once RPC._wrap put it under the profile's <rpc> and serialised it —
   DESIGN 5 C07 rules R1-R3:
     R1  a base-namespace element is written nc:-prefixed under a prefixed envelope (junos, iosxe) and
         UNPREFIXED under a default-namespace envelope (alu, h3c, hpcomware, huawei, nexus, sros);
     R2  an attribute literally named xmlns is read as a default-namespace declaration: it renames the
         unprefixed elements at and below it and is not an attribute of the tree that is read;
     R3  an element without namespace is written unprefixed and is read in the default namespace in
         scope (none under a prefixed envelope unless R2 put one there).
   Caller strings are octet lists; caller XML fragments are trees (what the caller's document is when
   read stand-alone).  Python-level verdicts that are not re-implemented here are oracle inputs over
   which the theorems quantify: int(timeout) (junos commit), bool(comment.strip()) (sros commit), lxml's
   verdict on a datastore name (dsarg, as in Builders.v), well-formedness of a caller document. *)
From Coq Require Import String ZArith.
From NC Require Import Model.Base Model.Lit Model.Xml Model.Gating Model.Builders.

Definition NS_YANG := Eval compute in lit "urn:ietf:params:xml:ns:yang:1"%string.
Definition NS_SROS_OPS := Eval compute in lit "urn:nokia.com:sros:ns:yang:sr:oper-global"%string.
Definition NS_SROS_AUG := Eval compute in lit "urn:nokia.com:sros:ns:yang:sr:ietf-netconf-augments"%string.
Definition NS_HW := Eval compute in lit "http://www.huawei.com/netconf/capability/base/1.0"%string.
Definition NS_NXOS := Eval compute in lit "http://www.cisco.com/nxos:1.0"%string.
Definition NS_CISCO_IA := Eval compute in lit "http://cisco.com/yang/cisco-ia"%string.

Definition s_xmlns := Eval compute in lit "xmlns"%string.
Definition s_command := Eval compute in lit "command"%string.
Definition s_get_configuration := Eval compute in lit "get-configuration"%string.
Definition s_load_configuration := Eval compute in lit "load-configuration"%string.
Definition s_action := Eval compute in lit "action"%string.
Definition s_configuration := Eval compute in lit "configuration"%string.
Definition s_configuration_json := Eval compute in lit "configuration-json"%string.
Definition s_configuration_set := Eval compute in lit "configuration-set"%string.
Definition s_compare := Eval compute in lit "compare"%string.
Definition s_rollback := Eval compute in lit "rollback"%string.
Definition s_request_reboot := Eval compute in lit "request-reboot"%string.
Definition s_request_halt := Eval compute in lit "request-halt"%string.
Definition s_commit_configuration := Eval compute in lit "commit-configuration"%string.
Definition s_at_time := Eval compute in lit "at-time"%string.
Definition s_log := Eval compute in lit "log"%string.
Definition s_synchronize := Eval compute in lit "synchronize"%string.
Definition s_check := Eval compute in lit "check"%string.
Definition s_xml := Eval compute in lit "xml"%string.
Definition s_text := Eval compute in lit "text"%string.
Definition s_json := Eval compute in lit "json"%string.
Definition s_set := Eval compute in lit "set"%string.
Definition s_cli := Eval compute in lit "cli"%string.
Definition s_global_operations := Eval compute in lit "global-operations"%string.
Definition s_md_cli_raw_command := Eval compute in lit "md-cli-raw-command"%string.
Definition s_md_cli_input_line := Eval compute in lit "md-cli-input-line"%string.
Definition s_comment := Eval compute in lit "comment"%string.
Definition s_oper_cli_block := Eval compute in lit "oper-data-format-cli-block"%string.
Definition s_cli_show := Eval compute in lit "cli-show"%string.
Definition s_config_cli_block := Eval compute in lit "config-format-cli-block"%string.
Definition s_cli_info := Eval compute in lit "cli-info"%string.
Definition s_cli_info_detail := Eval compute in lit "cli-info-detail"%string.
Definition s_running := Eval compute in lit "running"%string.
Definition s_get_bulk := Eval compute in lit "get-bulk"%string.
Definition s_get_bulk_config := Eval compute in lit "get-bulk-config"%string.
Definition s_CLI := Eval compute in lit "CLI"%string.
Definition s_Execution := Eval compute in lit "Execution"%string.
Definition s_Configuration := Eval compute in lit "Configuration"%string.
Definition s_save := Eval compute in lit "save"%string.
Definition s_load := Eval compute in lit "load"%string.
Definition s_file := Eval compute in lit "file"%string.
Definition s_execute_cli := Eval compute in lit "execute-cli"%string.
Definition s_execute_action := Eval compute in lit "execute-action"%string.
Definition s_save_config := Eval compute in lit "save-config"%string.
Definition s_exec_command := Eval compute in lit "exec-command"%string.
Definition s_cmd := Eval compute in lit "cmd"%string.

Definition JUNOS_LOAD_FORMATS : list bytes := [s_xml; s_text; s_json].

(* ---------------- what an independent reader sees (R1-R3) ---------------- *)
Fixpoint find_xmlns (a : list (qname * bytes)) : option bytes :=
  match a with
  | [] => None
  | (k, v) :: a' => if qname_eqb k (a_ s_xmlns) then Some v else find_xmlns a'
  end.
Definition drop_xmlns (a : list (qname * bytes)) : list (qname * bytes) :=
  filter (fun kv => negb (qname_eqb (fst kv) (a_ s_xmlns))) a.

(* is an element with in-memory namespace [ns] written without prefix under envelope style [m]? *)
Definition unprefixed (m : nsmode) (ns : bytes) : bool :=
  match ns with
  | [] => true
  | _ => match m with DefaultNs => beq ns NS_BASE | Prefixed => false end
  end.

(* [d]: the default namespace in scope ([] = none) *)
Fixpoint resolve (m : nsmode) (d : bytes) (t : tree) : tree :=
  match t with
  | Text s => Text s
  | Elem q a cs =>
      let d' := match find_xmlns a with Some u => u | None => d end in
      Elem (if unprefixed m (q_ns q) then qn d' (q_local q) else q) (drop_xmlns a) (map (resolve m d') cs)
  end.

Definition d0 (m : nsmode) : bytes := match m with Prefixed => [] | DefaultNs => NS_BASE end.

(* RPC._wrap + to_xml + the reader *)
Definition vwrap (m : nsmode) (mid : bytes) (op : tree) : tree :=
  resolve m (d0 m) (Elem (b_ s_rpc) [(a_ s_message_id, mid)] [op]).

(* ---------------- decimal rendering of Python's str(int) ---------------- *)
Fixpoint dec_digits (fuel : nat) (n : N) (acc : bytes) : bytes :=
  match fuel with
  | O => acc
  | S k => let acc' := (48 + n mod 10)%N :: acc in
           if (n <? 10)%N then acc' else dec_digits k (n / 10)%N acc'
  end.
Definition n_to_dec (n : N) : bytes := dec_digits (S (N.size_nat n)) n [].
Definition z_to_dec (z : Z) : bytes :=
  match z with
  | Z0 => [48%N]
  | Zpos p => n_to_dec (Npos p)
  | Zneg p => 45%N :: n_to_dec (Npos p)
  end.
(* str(int(math.ceil(n / 60.0))) in exact integer arithmetic (CPython computes in binary64: equal
   for |n| < 2^52, the range the correspondence draws from) *)
Definition ceil_minutes (z : Z) : Z := ((z + 59) / 60)%Z.

(* ---------------- arguments ---------------- *)
(* a caller document / element given where the code needs an element *)
Inductive docarg : Type :=
| DocTree : tree -> docarg            (* an element, or a well-formed document (to_ele) *)
| DocBad : exn -> docarg.             (* ill-formed (XMLSyntaxError), None (AttributeError), … *)
(* an argument handed to Element.append / .text without conversion *)
Inductive elarg : Type :=
| EElem : tree -> elarg               (* an lxml element *)
| EStr : bytes -> elarg.              (* a str *)
Inductive jcfg : Type :=
| JNone | JOne (c : elarg) | JList (l : list bytes).
Inductive jtimeout : Type :=
| TNone | TInt (z : Z) | TBad.         (* int(timeout) raised ValueError *)
Inductive afilter : Type :=
| AFDoc : docarg -> afilter           (* an element or a str holding a document *)
| AFItems : list bytes -> afilter.    (* a list of str (a str is the list of its characters) *)
Inductive cmdsarg : Type :=
| CmStr (s : bytes) | CmList (l : list bytes).

Inductive vprof : Type := VJunos | VSros | VAlu | VH3c | VHpcomware | VHuawei | VIosxe | VNexus.
Definition vmode (v : vprof) : nsmode :=
  match v with VJunos | VIosxe => Prefixed | _ => DefaultNs end.

Inductive vcall : Type :=
(* juniper/rpc.py — profile junos *)
| VJCommand (command : option bytes) (format : bytes)
| VJGetConfiguration (format : bytes) (filter : option elarg)
| VJLoadConfiguration (format action : bytes) (config : jcfg)        (* `target` is never used by the code *)
| VJCompareConfiguration (rollback format : bytes)                    (* rollback = str(rollback) *)
| VJExecuteRpc (rpc : docarg)                                         (* filter_xml only configures the reply parser (C18) *)
| VJReboot
| VJHalt
| VJCommit (confirmed : bool) (timeout : jtimeout) (comment : option bytes) (synchronize : bool)
           (at_time : option bytes) (check : bool)
| VJRollback (rollback : bytes)
(* sros/rpc.py — profile sros *)
| VSMdCliRawCommand (command : option bytes)
| VSCommit (confirmed : bool) (timeout persist persist_id comment : option bytes) (nonblank : bool)
(* alu/rpc.py — profile alu *)
| VAShowCli (command : option bytes)
| VAGetConfiguration (content : bytes) (filter : option afilter) (detail : bool)
| VALoadConfiguration (format : bytes) (default_operation : option bytes) (target : dsarg) (config : option elarg)
(* h3c/rpc.py — profile h3c *)
| VHGetBulk (filter : option filt)
| VHGetBulkConfig (source : dsarg) (filter : option filt)
| VHCli (command : docarg)
| VHAction (action : docarg)
| VHSave (file : option bytes)
| VHLoad (file : option bytes)
| VHRollback (file : option bytes)
(* hpcomware/rpc.py — profile hpcomware *)
| VPDisplayCommand (cmds : cmdsarg)
| VPConfigCommand (cmds : cmdsarg)
| VPAction (action : docarg)
| VPSave (filename : option bytes)
| VPRollback (filename : option bytes)
(* huawei/rpc.py — profile huawei *)
| VWCli (command : docarg)
| VWAction (action : docarg)
(* iosxe/rpc.py — profile iosxe *)
| VXSaveConfig
(* nexus/rpc.py — profile nexus *)
| VNExecCommand (cmds : list bytes).

(* the profile whose add_additional_operations registers the class *)
Definition vcall_prof (c : vcall) : vprof :=
  match c with
  | VJCommand _ _ | VJGetConfiguration _ _ | VJLoadConfiguration _ _ _ | VJCompareConfiguration _ _
  | VJExecuteRpc _ | VJReboot | VJHalt | VJCommit _ _ _ _ _ _ | VJRollback _ => VJunos
  | VSMdCliRawCommand _ | VSCommit _ _ _ _ _ _ => VSros
  | VAShowCli _ | VAGetConfiguration _ _ _ | VALoadConfiguration _ _ _ _ => VAlu
  | VHGetBulk _ | VHGetBulkConfig _ _ | VHCli _ | VHAction _ | VHSave _ | VHLoad _ | VHRollback _ => VH3c
  | VPDisplayCommand _ | VPConfigCommand _ | VPAction _ | VPSave _ | VPRollback _ => VHpcomware
  | VWCli _ | VWAction _ => VHuawei
  | VXSaveConfig => VIosxe
  | VNExecCommand _ => VNexus
  end.

(* ---------------- pieces ---------------- *)
Inductive vres : Type :=
| VBuilt : tree -> vres
| VRefused : exn -> vres
| VNothing : vres.                     (* the call returns without sending and without raising *)

(* `.text = o` (None leaves the element empty) *)
Definition otext (o : option bytes) : pres (list tree) :=
  match o with None => POk [] | Some s => text_children s end.
Definition tleaf (q : qname) (o : option bytes) : pres tree :=
  let* cs := otext o in POk (Elem q [] cs).
(* Element(tag, attrs): lxml checks every attribute value *)
Fixpoint attrs_ok (a : list (qname * bytes)) : bool :=
  match a with [] => true | (_, v) :: a' => xml_chars_ok v && attrs_ok a' end.
Definition ele (q : qname) (a : list (qname * bytes)) (cs : list tree) : pres tree :=
  if attrs_ok a then POk (Elem q a cs) else PErr ValueError.
(* Element.append(x) *)
Definition as_elem (x : elarg) : pres tree :=
  match x with
  | EElem (Elem q a cs) => POk (Elem q a cs)
  | _ => PErr TypeError
  end.
(* `.text = x` where x may be an element *)
Definition as_text (x : elarg) : pres (list tree) :=
  match x with EStr s => text_children s | EElem _ => PErr TypeError end.
(* validated_element(x) / to_ele(x) *)
Definition as_doc (x : docarg) : pres tree :=
  match x with
  | DocTree (Elem q a cs) => POk (Elem q a cs)
  | DocTree (Text _) => PErr TypeError
  | DocBad e => PErr e
  end.
Definition cmds_text (c : cmdsarg) : bytes :=
  match c with CmStr s => s | CmList l => join_with 10 l end.
Fixpoint leaves (q : qname) (l : list bytes) : pres (list tree) :=
  match l with
  | [] => POk []
  | s :: l' => let* t := leaf q s in let* ts := leaves q l' in POk (t :: ts)
  end.
Definition flag (b : bool) (q : qname) : list tree := if b then [Elem q [] []] else [].
Definition has_elem_child (cs : list tree) : bool :=
  existsb (fun t => match t with Elem _ _ _ => true | Text _ => false end) cs.

(* ---------------- the operation element, in memory ---------------- *)
Inductive pres3 : Type := P3 (p : pres tree) | P3Nothing.

Definition vop_node (c : vcall) : pres3 :=
  match c with
  (* ---- juniper ---- *)
  | VJCommand command format =>
      P3 (let* cs := (if attrs_ok [(a_ s_format, format)] then otext command else PErr ValueError) in
          POk (Elem (b_ s_command) [(a_ s_format, format)] cs))
  | VJGetConfiguration format filter =>
      P3 (let* _ := ele (b_ s_get_configuration) [(a_ s_format, format)] [] in
          let* f := match filter with None => POk [] | Some x => let* t := as_elem x in POk [t] end in
          POk (Elem (b_ s_get_configuration) [(a_ s_format, format)] f))
  | VJLoadConfiguration format action config =>
      match config with
      | JNone => P3Nothing                                   (* `if config is not None:` has no else *)
      | _ =>
        let cfg := match config with JList l => EStr (join_with 10 l) | JOne x => x | JNone => EStr [] end in
        let is_set := beq action s_set in
        let format := if is_set then s_text else format in
        P3 (if negb (mem_bytes format JUNOS_LOAD_FORMATS) then PErr OperationError      (* fix 4913cf2 *)
            else
            let ats := [(a_ s_action, action); (a_ s_format, format)] in
            let* _ := ele (b_ s_load_configuration) ats [] in
            let* k1 := (if beq format s_xml then
                          let* t := as_elem cfg in POk [Elem (b_ s_configuration) [] [t]] else POk []) in
            let* k2 := (if beq format s_json then
                          let* cs := as_text cfg in POk [Elem (b_ s_configuration_json) [] cs] else POk []) in
            let* k3 := (if beq format s_text && negb is_set then
                          let* cs := as_text cfg in POk [Elem (b_ s_configuration_text) [] cs] else POk []) in
            let* k4 := (if is_set && beq format s_text then
                          let* cs := as_text cfg in POk [Elem (b_ s_configuration_set) [] cs] else POk []) in
            POk (Elem (b_ s_load_configuration) ats (k1 ++ k2 ++ k3 ++ k4)))
      end
  | VJCompareConfiguration rollback format =>
      P3 (ele (b_ s_get_configuration) [(a_ s_compare, s_rollback); (a_ s_format, format); (a_ s_rollback, rollback)] [])
  | VJExecuteRpc rpc => P3 (as_doc rpc)
  | VJReboot => P3 (POk (Elem (b_ s_request_reboot) [] []))
  | VJHalt => P3 (POk (Elem (b_ s_request_halt) [] []))
  | VJCommit confirmed timeout comment synchronize at_time check =>
      P3 (if confirmed && (match at_time with Some _ => true | None => false end) then PErr NCClientError else
          let* k1 := (if confirmed then
                        let* t := match timeout with
                                  | TNone => POk []
                                  | TBad => PErr ValueError
                                  | TInt z => POk [Elem (a_ s_confirm_timeout) [] [Text (z_to_dec (ceil_minutes z))]]
                                  end in
                        POk (Elem (a_ s_confirmed) [] [] :: t)
                      else match at_time with
                           | Some s => let* t := leaf (a_ s_at_time) s in POk [t]
                           | None => POk []
                           end) in
          let* k2 := oleaf (a_ s_log) comment in
          POk (Elem (a_ s_commit_configuration) [] (k1 ++ k2 ++ flag synchronize (a_ s_synchronize) ++ flag check (a_ s_check))))
  | VJRollback rollback => P3 (ele (b_ s_load_configuration) [(a_ s_rollback, rollback)] [])
  (* ---- sros ---- *)
  | VSMdCliRawCommand command =>
      P3 (let* l := tleaf (b_ s_md_cli_input_line) command in
          POk (Elem (b_ s_action) [(a_ s_xmlns, NS_YANG)]
                 [Elem (b_ s_global_operations) [(a_ s_xmlns, NS_SROS_OPS)] [Elem (b_ s_md_cli_raw_command) [] [l]]]))
  | VSCommit confirmed timeout persist persist_id comment nonblank =>
      P3 (let* k0 := (if nonempty comment && nonblank then
                        let* cs := otext comment in POk [Elem (b_ s_comment) [(a_ s_xmlns, NS_SROS_AUG)] cs]
                      else POk []) in
          if nonempty persist && nonempty persist_id then PErr OperationError else
          let* k1 := (if confirmed then
                        let* t := oleaf (b_ s_confirm_timeout) timeout in
                        let* pe := oleaf (b_ s_persist) persist in
                        POk (Elem (b_ s_confirmed) [] [] :: t ++ pe)
                      else POk []) in
          let* k2 := (if nonempty persist_id then oleaf (b_ s_persist_id) persist_id else POk []) in
          POk (Elem (b_ s_commit) [] (k0 ++ k1 ++ k2)))
  (* ---- alu ---- *)
  | VAShowCli command =>
      P3 (let* l := tleaf (b_ s_cli_show) command in
          POk (Elem (b_ s_get) [] [Elem (b_ s_filter) [] [Elem (b_ s_oper_cli_block) [] [l]]]))
  | VAGetConfiguration content filter detail =>
      P3 (let src := Elem (b_ s_source) [] [Elem (b_ s_running) [] []] in
          let* f := match filter with
                    | None => POk []
                    | Some fl =>
                        if beq content s_xml then
                          match fl with
                          | AFDoc x => let* t := as_doc x in POk [Elem (b_ s_filter) [(a_ s_type, s_subtree)] [t]]
                          | AFItems _ => PErr AttributeError
                          end
                        else if beq content s_cli then
                          let* items := match fl with
                                        | AFItems l => leaves (b_ (if detail then s_cli_info_detail else s_cli_info)) l
                                        | AFDoc (DocTree (Elem _ _ cs)) => if has_elem_child cs then PErr TypeError else POk []
                                        | AFDoc (DocTree (Text _)) => PErr TypeError
                                        | AFDoc (DocBad e) => PErr e
                                        end in
                          POk [Elem (b_ s_filter) [] [Elem (b_ s_config_cli_block) [] items]]
                        else POk []                          (* open finding: the filter is dropped *)
                    end in
          POk (Elem (b_ s_get_config) [] (src :: f)))
  | VALoadConfiguration format default_operation target config =>
      P3 (let* k := match config with
                    | None => POk None
                    | Some x =>
                        if beq format s_xml then
                          let* t := ds_node s_target target in let* e := as_elem x in POk (Some ([t], [e]))
                        else if beq format s_cli then
                          let* t := ds_node s_target target in let* cs := as_text x in
                          POk (Some ([t], [Elem (b_ s_config_cli_block) [] cs]))
                        else POk (Some ([], []))             (* open finding: config and target are dropped *)
                    end in
          let* d := oleaf (b_ s_default_operation) default_operation in
          POk (Elem (b_ s_edit_config) []
                 (match k with
                  | None => d
                  | Some (t, cc) => t ++ d ++ [Elem (b_ s_config) [] cc]
                  end)))
  (* ---- h3c ---- *)
  | VHGetBulk filter => P3 (let* f := ofilter filter in POk (Elem (b_ s_get_bulk) [] f))
  | VHGetBulkConfig source filter =>
      P3 (let* s := ds_node s_source source in let* f := ofilter filter in POk (Elem (b_ s_get_bulk_config) [] (s :: f)))
  | VHCli command => P3 (let* t := as_doc command in POk (Elem (b_ s_CLI) [] [t]))
  | VHAction action => P3 (let* t := as_doc action in POk (Elem (b_ s_action) [] [t]))
  | VHSave file => P3 (let* l := tleaf (b_ s_file) file in POk (Elem (b_ s_save) [] [l]))
  | VHLoad file => P3 (let* l := tleaf (b_ s_file) file in POk (Elem (b_ s_load) [] [l]))
  | VHRollback file => P3 (let* l := tleaf (b_ s_file) file in POk (Elem (b_ s_rollback) [] [l]))
  (* ---- hpcomware ---- *)
  | VPDisplayCommand cmds => P3 (let* l := leaf (b_ s_Execution) (cmds_text cmds) in POk (Elem (b_ s_CLI) [] [l]))
  | VPConfigCommand cmds => P3 (let* l := leaf (b_ s_Configuration) (cmds_text cmds) in POk (Elem (b_ s_CLI) [] [l]))
  | VPAction action => P3 (let* t := as_doc action in POk (Elem (b_ s_action) [] [t]))
  | VPSave filename => P3 (let* l := tleaf (b_ s_file) filename in POk (Elem (b_ s_save) [] [l]))
  | VPRollback filename => P3 (let* l := tleaf (b_ s_file) filename in POk (Elem (b_ s_rollback) [] [l]))
  (* ---- huawei ---- *)
  | VWCli command => P3 (let* t := as_doc command in POk (Elem (b_ s_execute_cli) [(a_ s_xmlns, NS_HW)] [t]))
  | VWAction action => P3 (let* t := as_doc action in POk (Elem (b_ s_execute_action) [(a_ s_xmlns, NS_HW)] [t]))
  (* ---- iosxe ---- *)
  | VXSaveConfig => P3 (POk (Elem (qn NS_CISCO_IA s_save_config) [] []))
  (* ---- nexus ---- *)
  | VNExecCommand cmds => P3 (let* l := leaves (qn NS_NXOS s_cmd) cmds in POk (Elem (qn NS_NXOS s_exec_command) [] l))
  end.

(* the request under envelope style [m] *)
Definition vbuild_under (m : nsmode) (mid : bytes) (c : vcall) : vres :=
  match vop_node c with
  | P3 (POk op) => VBuilt (vwrap m mid op)
  | P3 (PErr e) => VRefused e
  | P3Nothing => VNothing
  end.

(* … as reached through a Manager made with the profile that ships the class *)
Definition vbuild (mid : bytes) (c : vcall) : vres := vbuild_under (vmode (vcall_prof c)) mid c.
