(* Escape.v — libxml2's escaping of character data and attribute values as lxml 6.1.3 /
   libxml2 2.14.6 performs it when serialising to UTF-8 (measured, DESIGN 3.8, and re-measured
   byte-exactly by tools/props/c07.py on every run), and the reader's inverse.
   Octets >= 0x80 (UTF-8 multi-byte sequences) are copied: the output encoding is UTF-8. *)
From Coq Require Import String.
From NC Require Import Model.Base Model.Lit.

Definition r_lt := Eval compute in lit "&lt;"%string.
Definition r_gt := Eval compute in lit "&gt;"%string.
Definition r_amp := Eval compute in lit "&amp;"%string.
Definition r_quot := Eval compute in lit "&quot;"%string.
Definition r_cr := Eval compute in lit "&#13;"%string.
Definition r_lf := Eval compute in lit "&#10;"%string.
Definition r_tab := Eval compute in lit "&#9;"%string.

(* xmlEscapeContent: < & > CR *)
Definition esc_text_byte (c : N) : bytes :=
  if c =? 60 then r_lt else if c =? 38 then r_amp else if c =? 62 then r_gt
  else if c =? 13 then r_cr else [c].

(* attribute values additionally: QUOT LF TAB *)
Definition esc_attr_byte (c : N) : bytes :=
  if c =? 60 then r_lt else if c =? 38 then r_amp else if c =? 62 then r_gt
  else if c =? 13 then r_cr else if c =? 34 then r_quot else if c =? 10 then r_lf
  else if c =? 9 then r_tab else [c].

Fixpoint escape_text (s : bytes) : bytes :=
  match s with [] => [] | c :: s' => esc_text_byte c ++ escape_text s' end.
Fixpoint escape_attr (s : bytes) : bytes :=
  match s with [] => [] | c :: s' => esc_attr_byte c ++ escape_attr s' end.

(* the references the two functions can produce, with the octet they stand for *)
Definition refs : list (bytes * N) :=
  [(r_lt, 60); (r_gt, 62); (r_amp, 38); (r_quot, 34); (r_cr, 13); (r_lf, 10); (r_tab, 9)].

Fixpoint match_ref (rs : list (bytes * N)) (s : bytes) : option (N * nat) :=
  match rs with
  | [] => None
  | (r, b) :: rs' => if prefixb r s then Some (b, length r) else match_ref rs' s
  end.

(* what an XML reader does with these references: [skip] octets of a recognised reference
   are still to be dropped *)
Fixpoint unesc (skip : nat) (s : bytes) : bytes :=
  match s with
  | [] => []
  | c :: s' =>
      match skip with
      | S k => unesc k s'
      | O => match match_ref refs s with
             | Some (b, n) => b :: unesc (pred n) s'
             | None => c :: unesc 0 s'
             end
      end
  end.
Definition unescape (s : bytes) : bytes := unesc 0 s.

(* no markup can start inside escaped output: no '<', and every '&' begins one of [refs] *)
Fixpoint wf_escaped (s : bytes) : bool :=
  match s with
  | [] => true
  | c :: s' =>
      negb (c =? 60)
      && (if c =? 38 then match match_ref refs s with Some _ => true | None => false end else true)
      && wf_escaped s'
  end.

(* … and an attribute value additionally contains no QUOT (34) *)
Fixpoint no_quote (s : bytes) : bool :=
  match s with [] => true | c :: s' => negb (c =? 34) && no_quote s' end.
