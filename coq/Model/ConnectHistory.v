(* ConnectHistory.v — the caller's parameter dictionaries across SEVERAL connects (property C06, mode and exempt
   pattern plumbing from the connect parameters):
     ncclient/manager.py   _extract_device_params, _extract_manager_params, _extract_nc_params, _extract_errors_params,
                           make_device_handler (handler class / profile name / default), connect_ssh / connect_tls /
                           connect_uds / connect (one body), Manager.__init__ (timeout=30, raise_mode=ALL)
     ncclient/devices/default.py   DefaultDeviceHandler.__init__ (profile list + user list: RpcErrors.handler_patterns)
   An application keeps its settings in dictionaries and hands the SAME objects to one connect after the other.  The
   dictionaries are therefore objects with identity: a [pool] maps object ids to their current content, a [step] names
   the objects it passes (or passes none), and one connect maps a pool to a pool and a result.  Every statement of
   the connect body that touches a dictionary is spelled out below with the dictionary it touches: the caller's object
   (read through [arg]) or a local one.  After fix C06-manager-params-aliased `manager_params` is copied before `timeout` / `raise_mode` are
   stored in it, so no statement writes to a caller's object and the pool is handed on as it was.
   Route 0 is what an application does by hand with the same objects:
     dh = make_device_handler(dp, ep.get('ignore_errors')); Manager(session, dh, **mp [, raise_mode=ep['raise_mode']]).
   Definitions only; proofs in Proofs/ConnectHistoryProofs.v. *)
From Coq Require Import String.
From NC Require Import Model.Base Model.Lit Model.RpcErrors.

(* values found in the caller's dictionaries *)
Inductive pval : Type :=
| PNum (n : N)                                (* raise_mode, timeout, flags *)
| PStr (s : bytes)                            (* name, ssh_subsystem_name, ... *)
| PStrs (l : list bytes)                      (* ignore_errors, capabilities *)
| PHandler (id : N) (exempt : list bytes)     (* a handler class of the caller and its class-level _EXEMPT_ERRORS *)
| PNone
| POther (repr : bytes).
Definition pdict := list (bytes * pval).
Definition pool := list (N * pdict).

Fixpoint pool_get (i : N) (p : pool) : option pdict :=
  match p with
  | [] => None
  | (j, d) :: p' => if N.eqb i j then Some d else pool_get i p'
  end.
(* the object a step passes for one of the four keyword arguments (None: argument not given) *)
Definition arg (p : pool) (o : option N) : option pdict :=
  match o with Some i => pool_get i p | None => None end.

Definition k_handler := Eval compute in lit "handler"%string.
Definition k_name := Eval compute in lit "name"%string.
Definition k_default := Eval compute in lit "default"%string.
Definition k_timeout := Eval compute in lit "timeout"%string.
Definition k_raise_mode := Eval compute in lit "raise_mode"%string.
Definition k_ignore_errors := Eval compute in lit "ignore_errors"%string.
Definition MANAGER_TIMEOUT : N := 30.

Record step : Type := mkStep {
  s_route : N;                 (* 0 by hand, 1 connect_ssh, 2 connect_tls, 3 connect_uds, 4 connect *)
  s_dp : option N; s_mp : option N; s_np : option N; s_ep : option N;
  s_timeout : option N;        (* the timeout= keyword of the connect *)
  s_fail : bool }.             (* session.connect() raises: the attempt is refused *)

Record mgr : Type := mkMgr { m_pats : list bytes; m_mode : N; m_timeout : N }.
Inductive conn : Type :=
| Connected (m : mgr)
| ConnectRaised            (* the exception of session.connect() propagates *)
| NoProfile                (* device_params names no shipped profile: ImportError *)
| BadCall.                 (* by hand: raise_mode given twice: TypeError *)

(* errors_params.get("ignore_errors", ...), errors_params.get("raise_mode", ...) *)
Definition ep_ignore (ep : pdict) : option (list bytes) :=
  match dict_get k_ignore_errors ep with Some (PStrs l) => Some l | _ => None end.
Definition ep_mode (ep : pdict) : option N :=
  match dict_get k_raise_mode ep with Some (PNum n) => Some n | _ => None end.

(* make_device_handler(device_params, ignore_errors): the exempt list of the handler object it returns.
   [profiles]: _EXEMPT_ERRORS of the shipped profiles by name (environment; includes "default"). *)
Definition make_device_handler (profiles : list (bytes * list bytes)) (dp : option pdict) (ig : option (list bytes))
  : option (list bytes) :=
  let d := match dp with Some d => d | None => [] end in          (* if device_params is None: device_params = {} *)
  match dict_get k_handler d with                                   (* device_params.get('handler', None) *)
  | Some (PHandler _ ex) => Some (handler_patterns ex ig)          (* handler(device_params, ignore_errors) *)
  | _ =>
      let name := match dict_get k_name d with Some (PStr s) => s | _ => k_default end in
      match dict_get name profiles with
      | Some ex => Some (handler_patterns ex ig)
      | None => None
      end
  end.

(* Manager(session, device_handler, **manager_params) *)
Definition manager_of (pats : list bytes) (mp : pdict) : mgr :=
  mkMgr pats
        (match dict_get k_raise_mode mp with Some (PNum m) => m | _ => MODE_ALL end)
        (match dict_get k_timeout mp with Some (PNum t) => t | _ => MANAGER_TIMEOUT end).

Definition or_empty (o : option pdict) : pdict := match o with Some d => d | None => [] end.

Definition connect_step (profiles : list (bytes * list bytes)) (p : pool) (st : step) : pool * conn :=
  let dp := arg p (s_dp st) in                                    (* kwds.pop("device_params", None): the caller's *)
  let ep := or_empty (arg p (s_ep st)) in                         (* kwds.pop("errors_params", {}): the caller's, read *)
  if N.eqb (s_route st) 0 then
    let mp := or_empty (arg p (s_mp st)) in                       (* **mp: the caller's, read *)
    match make_device_handler profiles dp (ep_ignore ep) with
    | None => (p, NoProfile)
    | Some pats =>
        match ep_mode ep, dict_get k_raise_mode mp with
        | Some _, Some _ => (p, BadCall)
        | Some m, None => (p, Connected (manager_of pats (dict_set k_raise_mode (PNum m) mp)))
        | None, _ => (p, Connected (manager_of pats mp))
        end
    end
  else
    let mp0 := or_empty (arg p (s_mp st)) in                      (* dict(kwds.pop("manager_params", {})): a COPY *)
    let mp1 := match dict_get k_timeout mp0, s_timeout st with    (* 'timeout' not in manager_params and 'timeout' in kwds *)
               | None, Some t => dict_set k_timeout (PNum t) mp0
               | _, _ => mp0
               end in
    let (ig, mode) := extract_errors_params (ep_ignore ep) (ep_mode ep) in
    let mp2 := dict_set k_raise_mode (PNum mode) mp1 in           (* manager_params["raise_mode"] = raise_mode: the copy *)
    match make_device_handler profiles dp (Some ig) with
    | None => (p, NoProfile)
    | Some pats =>                                                 (* nc_params: read by add_additional_netconf_params *)
        if s_fail st then (p, ConnectRaised) else (p, Connected (manager_of pats mp2))
    end.

Fixpoint run_history (profiles : list (bytes * list bytes)) (p : pool) (steps : list step) : pool * list conn :=
  match steps with
  | [] => (p, [])
  | st :: rest =>
      let (p1, c) := connect_step profiles p st in
      let (p2, cs) := run_history profiles p1 rest in
      (p2, c :: cs)
  end.

(* a synchronous call on a manager *)
Definition mgr_outcome (m : mgr) (root : node) : outcome :=
  decide (m_mode m) (parse_errors root) (classify (m_pats m)).
