(* NegotiateSched.v — the hello exchange as a TWO-THREAD transition system, one label per shared-state
   effect, at the granularity at which tools/harness/neg_sched.py schedules the real code
   (ncclient/transport/session.py after the F13/F15 repairs):

     M  the connecting thread in Session._post_connect (l.100-137) and, afterwards, Session.send
     W  the worker in Session.run (l.218-283), _dispatch_message, HelloHandler.callback/errback and
        the two closures ok_cb / err_cb of _post_connect

   Every label is one access to a field both threads touch (_listeners, _hello_pending, _q, _base,
   init_event, error[0], _id, _server_capabilities, _connected) or one transport event.  The program
   order of each thread is the thread's program counter; `fstep` returns None when a label is not the
   next statement of its thread or its enabling fact does not hold.  The interleaving is arbitrary:
   the theorems of Props/C05.v quantify over ALL label sequences `run_flabels` accepts.
   Definitions only. *)
From Coq Require Import String.
From NC Require Import Model.Base Model.Lit Model.Caps Model.Writer Model.Negotiate.

(* program counter of the connecting thread *)
Inductive mpc :=
| M0                    (* before add_listener(HelloHandler(ok_cb, err_cb)) *)
| M1                    (* before self._hello_pending = True *)
| M2                    (* before self.send(hello) *)
| M3                    (* before self.start() *)
| M4                    (* in init_event.wait(timeout) *)
| M5                    (* before `if not init_event.is_set()` *)
| M6                    (* before self.remove_listener(listener) *)
| M7                    (* before `if error[0]: raise error[0]` / the read of self._server_capabilities *)
| M8                    (* ':base:1.1' in both sets; before self._base = NetconfBase.BASE_11 *)
| M9 (r : option herr)  (* leaving _post_connect: None = normally, Some e = raising e *)
| MDone (r : option herr).

(* program counter of the worker *)
Inductive wpc :=
| WNot                              (* thread not started *)
| WTop                              (* in the loop, between two messages (queue test, select, read, parser) *)
| WGot (m : N)                      (* data = q.get(); before `if self._hello_pending` *)
| WClr (m : N)                      (* _hello_pending was True; before self._hello_pending = False *)
| WRdB (m : N)                      (* _hello_pending was False; before the read of self._base *)
| WFr (f : base) (m : N)            (* frame built with framing f; before _transport_write *)
| WOk0 (sd : sid) (uris : list bytes)   (* in ok_cb, before self._id = id *)
| WOk1 (uris : list bytes)          (* in ok_cb, before self._server_capabilities = capabilities *)
| WErr0 (e : herr) (dying : bool)   (* in err_cb, before error[0] = err; dying: called from _dispatch_error in run's handler *)
| WSet (dying : bool)               (* before init_event.set() *)
| WRaised (e : herr)                (* exception on its way to run's handler; before _dispatch_error's snapshot *)
| WClosing                          (* before self.close() *)
| WExiting                          (* before the thread ends *)
| WDone.

Inductive flabel :=
(* connecting thread *)
| FMReg                 (* _listeners.add(hello handler)          [under _lock] *)
| FMPend                (* _hello_pending = True *)
| FMPutHello            (* _q.put(<hello>)                         message 0 *)
| FMStart               (* self.start() *)
| FMWait (b : bool)     (* init_event.wait(timeout) returns: b = flag (false: the deadline passed) *)
| FMIsSet (b : bool)    (* init_event.is_set() answered b *)
| FMUnreg               (* _listeners.discard(hello handler)      [under _lock] *)
| FMCaps                (* error[0] was None; self._server_capabilities read; base chosen *)
| FMBase                (* self._base = BASE_11 *)
| FMRet                 (* _post_connect returns / raises *)
| FMPut (m : N)         (* a later Session.send: _q.put(m) *)
(* worker *)
| FWGet (m : N)         (* q.get() returned m *)
| FWPendRd (b : bool)   (* self._hello_pending read as b *)
| FWPendClr             (* self._hello_pending = False *)
| FWBaseRd (b : base)   (* self._base read as b (send branch) *)
| FWWrite               (* the frame is on the wire *)
| FWWriteFail           (* _transport_write returned 0: SessionCloseError raised *)
| FWDisp (h : hello_in) (* a complete message: _dispatch_message took its snapshot of the listeners [under _lock] *)
| FWSid                 (* self._id = id *)
| FWCaps                (* self._server_capabilities = capabilities *)
| FWErrCb               (* error[0] = err *)
| FWEvSet               (* init_event.set() *)
| FWDie (e : herr)      (* _transport_read: EOF (ESessionClose) or an exception (EOther) *)
| FWBcast               (* _dispatch_error took its snapshot of the listeners [under _lock] *)
| FWClose               (* self.close(): _connected = False *)
| FWExit.

Record fstate := mkf {
  f_base : base;                    (* Session._base *)
  f_q : list N;                     (* Session._q *)
  f_pending : bool;                 (* Session._hello_pending *)
  f_wire : list (base * N);         (* frames written: framing, message *)
  f_lis : bool;                     (* the HelloHandler is in _listeners *)
  f_ev : bool;                      (* init_event *)
  f_err : option herr;              (* error[0] *)
  f_sid : sid;                      (* Session._id *)
  f_caps : option (list bytes);     (* Session._server_capabilities *)
  f_conn : bool;                    (* Session._connected *)
  f_m : mpc;
  f_w : wpc;
  f_chosen : option (list bytes);   (* ghost: the capability list the base decision read *)
  f_seen : list node }.             (* ghost: the <hello> documents dispatched so far *)

Definition finit : fstate := mkf B10 [] false [] false false None SidDefault None true M0 WNot None [].

Definition set_m (s : fstate) (x : mpc) : fstate :=
  mkf (f_base s) (f_q s) (f_pending s) (f_wire s) (f_lis s) (f_ev s) (f_err s) (f_sid s) (f_caps s) (f_conn s) x (f_w s) (f_chosen s) (f_seen s).
Definition set_w (s : fstate) (x : wpc) : fstate :=
  mkf (f_base s) (f_q s) (f_pending s) (f_wire s) (f_lis s) (f_ev s) (f_err s) (f_sid s) (f_caps s) (f_conn s) (f_m s) x (f_chosen s) (f_seen s).
Definition set_base (s : fstate) (x : base) : fstate :=
  mkf x (f_q s) (f_pending s) (f_wire s) (f_lis s) (f_ev s) (f_err s) (f_sid s) (f_caps s) (f_conn s) (f_m s) (f_w s) (f_chosen s) (f_seen s).
Definition set_q (s : fstate) (x : list N) : fstate :=
  mkf (f_base s) x (f_pending s) (f_wire s) (f_lis s) (f_ev s) (f_err s) (f_sid s) (f_caps s) (f_conn s) (f_m s) (f_w s) (f_chosen s) (f_seen s).
Definition set_pending (s : fstate) (x : bool) : fstate :=
  mkf (f_base s) (f_q s) x (f_wire s) (f_lis s) (f_ev s) (f_err s) (f_sid s) (f_caps s) (f_conn s) (f_m s) (f_w s) (f_chosen s) (f_seen s).
Definition set_wire (s : fstate) (x : list (base * N)) : fstate :=
  mkf (f_base s) (f_q s) (f_pending s) x (f_lis s) (f_ev s) (f_err s) (f_sid s) (f_caps s) (f_conn s) (f_m s) (f_w s) (f_chosen s) (f_seen s).
Definition set_lis (s : fstate) (x : bool) : fstate :=
  mkf (f_base s) (f_q s) (f_pending s) (f_wire s) x (f_ev s) (f_err s) (f_sid s) (f_caps s) (f_conn s) (f_m s) (f_w s) (f_chosen s) (f_seen s).
Definition set_ev (s : fstate) (x : bool) : fstate :=
  mkf (f_base s) (f_q s) (f_pending s) (f_wire s) (f_lis s) x (f_err s) (f_sid s) (f_caps s) (f_conn s) (f_m s) (f_w s) (f_chosen s) (f_seen s).
Definition set_err (s : fstate) (x : option herr) : fstate :=
  mkf (f_base s) (f_q s) (f_pending s) (f_wire s) (f_lis s) (f_ev s) x (f_sid s) (f_caps s) (f_conn s) (f_m s) (f_w s) (f_chosen s) (f_seen s).
Definition set_sid (s : fstate) (x : sid) : fstate :=
  mkf (f_base s) (f_q s) (f_pending s) (f_wire s) (f_lis s) (f_ev s) (f_err s) x (f_caps s) (f_conn s) (f_m s) (f_w s) (f_chosen s) (f_seen s).
Definition set_caps (s : fstate) (x : option (list bytes)) : fstate :=
  mkf (f_base s) (f_q s) (f_pending s) (f_wire s) (f_lis s) (f_ev s) (f_err s) (f_sid s) x (f_conn s) (f_m s) (f_w s) (f_chosen s) (f_seen s).
Definition set_conn (s : fstate) (x : bool) : fstate :=
  mkf (f_base s) (f_q s) (f_pending s) (f_wire s) (f_lis s) (f_ev s) (f_err s) (f_sid s) (f_caps s) x (f_m s) (f_w s) (f_chosen s) (f_seen s).
Definition set_chosen (s : fstate) (x : option (list bytes)) : fstate :=
  mkf (f_base s) (f_q s) (f_pending s) (f_wire s) (f_lis s) (f_ev s) (f_err s) (f_sid s) (f_caps s) (f_conn s) (f_m s) (f_w s) x (f_seen s).
Definition set_seen (s : fstate) (x : list node) : fstate :=
  mkf (f_base s) (f_q s) (f_pending s) (f_wire s) (f_lis s) (f_ev s) (f_err s) (f_sid s) (f_caps s) (f_conn s) (f_m s) (f_w s) (f_chosen s) x.

Definition base_eqb (a b : base) : bool :=
  match a, b with B10, B10 => true | B11, B11 => true | _, _ => false end.

(* the read of error[0] (None) and of _server_capabilities, and the choice of the base *)
Definition decide (client : list bytes) (s : fstate) : fstate :=
  match f_caps s with
  | None => set_m s (M9 (Some EChoose))                  (* ':base:1.1' in None: TypeError *)
  | Some sv =>
      match choose_base sv client with
      | Ok B11 => set_m (set_chosen s (Some sv)) M8
      | Ok B10 => set_m (set_chosen s (Some sv)) (M9 None)
      | _ => set_m s (M9 (Some EChoose))
      end
  end.

(* what HelloHandler.callback does with a message once the snapshot contained the handler *)
Definition on_hello (s : fstate) (h : hello_in) : fstate :=
  match h with
  | HOther => s
  | HTree t =>
      let s := set_seen s (f_seen s ++ [t]) in
      if f_lis s then
        match parse_hello t with
        | Ok (sd, uris) => set_w s (WOk0 sd uris)
        | _ => set_w s (WErr0 EParse false)
        end
      else s
  end.

Definition fstep (client : list bytes) (s : fstate) (l : flabel) : option fstate :=
  match l with
  | FMReg => match f_m s with M0 => Some (set_m (set_lis s true) M1) | _ => None end
  | FMPend => match f_m s with M1 => Some (set_m (set_pending s true) M2) | _ => None end
  | FMPutHello => match f_m s with M2 => Some (set_m (set_q s (f_q s ++ [0])) M3) | _ => None end
  | FMStart => match f_m s, f_w s with M3, WNot => Some (set_m (set_w s WTop) M4) | _, _ => None end
  | FMWait b => match f_m s with M4 => if Bool.eqb b (f_ev s) then Some (set_m s M5) else None | _ => None end
  | FMIsSet b =>
      match f_m s with
      | M5 => if Bool.eqb b (f_ev s) then Some (set_m s (if b then M6 else M9 (Some ETimeout))) else None
      | _ => None
      end
  | FMUnreg => match f_m s with M6 => Some (set_m (set_lis s false) M7) | _ => None end
  | FMCaps => match f_m s, f_err s with M7, None => Some (decide client s) | _, _ => None end
  | FMBase => match f_m s with M8 => Some (set_m (set_base s B11) (M9 None)) | _ => None end
  | FMRet =>
      match f_m s, f_err s with
      | M7, Some e => Some (set_m s (MDone (Some e)))
      | M9 r, _ => Some (set_m s (MDone r))
      | _, _ => None
      end
  | FMPut m => match f_m s with MDone None => Some (set_q s (f_q s ++ [m])) | _ => None end
  | FWGet m =>
      match f_w s, f_q s with
      | WTop, m' :: q' => if N.eqb m m' then Some (set_w (set_q s q') (WGot m)) else None
      | _, _ => None
      end
  | FWPendRd b =>
      match f_w s with
      | WGot m => if Bool.eqb b (f_pending s) then Some (set_w s (if b then WClr m else WRdB m)) else None
      | _ => None
      end
  | FWPendClr => match f_w s with WClr m => Some (set_w (set_pending s false) (WFr B10 m)) | _ => None end
  | FWBaseRd b =>
      match f_w s with
      | WRdB m => if base_eqb b (f_base s) then Some (set_w s (WFr b m)) else None
      | _ => None
      end
  | FWWrite => match f_w s with WFr f m => Some (set_w (set_wire s (f_wire s ++ [(f, m)])) WTop) | _ => None end
  | FWWriteFail => match f_w s with WFr f m => Some (set_w s (WRaised ESessionClose)) | _ => None end
  | FWDisp h => match f_w s with WTop => Some (on_hello s h) | _ => None end
  | FWSid => match f_w s with WOk0 sd uris => Some (set_w (set_sid s sd) (WOk1 uris)) | _ => None end
  | FWCaps => match f_w s with WOk1 uris => Some (set_w (set_caps s (Some uris)) (WSet false)) | _ => None end
  | FWErrCb => match f_w s with WErr0 e d => Some (set_w (set_err s (Some e)) (WSet d)) | _ => None end
  | FWEvSet => match f_w s with WSet d => Some (set_w (set_ev s true) (if d then WClosing else WTop)) | _ => None end
  | FWDie e =>
      match f_w s, e with
      | WTop, ESessionClose | WTop, EOther => Some (set_w s (WRaised e))
      | _, _ => None
      end
  | FWBcast => match f_w s with WRaised e => Some (set_w s (if f_lis s then WErr0 e true else WClosing)) | _ => None end
  | FWClose => match f_w s with WClosing => Some (set_w (set_conn s false) WExiting) | _ => None end
  | FWExit => match f_w s with WExiting => Some (set_w s WDone) | _ => None end
  end.

Fixpoint run_flabels (client : list bytes) (s : fstate) (ls : list flabel) : option fstate :=
  match ls with
  | [] => Some s
  | l :: r => match fstep client s l with Some s' => run_flabels client s' r | None => None end
  end.

(* index of the first label that is not accepted (for the harness's diagnostics) *)
Fixpoint run_flabels_idx (client : list bytes) (s : fstate) (ls : list flabel) (i : N) : fstate + N :=
  match ls with
  | [] => inl s
  | l :: r => match fstep client s l with Some s' => run_flabels_idx client s' r (i + 1) | None => inr i end
  end.

Definition is_mlabel (l : flabel) : bool :=
  match l with
  | FMReg | FMPend | FMPutHello | FMStart | FMWait _ | FMIsSet _ | FMUnreg | FMCaps | FMBase | FMRet => true
  | _ => false
  end.
