(* NsScope.v — namespace DECLARATIONS of a caller document on its way into the request.
   Model/Xml.v's tree has names already resolved (what a reader sees of element and attribute names); it says nothing about
   which prefix bindings are in scope at an element.  Caller data may use a prefix only inside content — the select string of an
   XPath filter given with a prefix map (util.build_filter: new_ele_nsmap("filter", ns, ...)), a YANG identityref or
   instance-identifier value under an element that declares the prefix — so the bindings in scope at the caller's elements are
   part of what must reach the wire (XML Infoset [in-scope namespaces]).

   What the code does with declarations (operations/util.py, operations/*.py request(), rpc.py RPC._wrap, xml_.to_ele/to_xml):
   nothing of its own — a caller document (string parsed by to_ele, or the caller's Element) is appended under the element the
   builder made, that one under <rpc>, and the whole is serialised.  lxml's Element.append (proxy.pxi moveNodeToDocument ->
   _stripRedundantNamespaceDeclarations) visits the moved subtree in document order and REMOVES from each element every
   declaration whose namespace URI is already bound - under ANY prefix that is not itself shadowed - in the scope of the
   element's parent in the new tree (xmlSearchNsByHref from the parent); all other declarations stay where they are.
   [place] is that function on the declaration skeleton of a document. *)
From NC Require Import Model.Base.

(* a binding: prefix ([] = the default namespace) and namespace URI *)
Definition binding := (bytes * bytes)%type.
(* the bindings in force at a point of a document, innermost declaration first *)
Definition scope := list binding.

(* declaration skeleton of an element: its own declarations, its element children (document order) *)
Inductive dtree : Type := DNode : list binding -> list dtree -> dtree.

Fixpoint lookup (p : bytes) (s : scope) : option bytes :=
  match s with
  | [] => None
  | (q, u) :: s' => if beq q p then Some u else lookup p s'
  end.

Definition binds (s : scope) (p u : bytes) : bool :=
  match lookup p s with Some u' => beq u' u | None => false end.

(* xmlSearchNsByHref: some declaration of [u] in [s] whose prefix still means [u] at this point *)
Definition uri_visible (u : bytes) (s : scope) : bool :=
  existsb (fun b => beq (snd b) u && binds s (fst b) u) s.

(* _stripRedundantNamespaceDeclarations on one element whose parent's scope is [s] *)
Definition strip (s : scope) (d : list binding) : list binding :=
  filter (fun b => negb (uri_visible (snd b) s)) d.

(* the moved subtree, parent first: children see the declarations that survived on their parent *)
Fixpoint place (s : scope) (t : dtree) : dtree :=
  match t with
  | DNode d kids => let d' := strip s d in DNode d' (map (place (d' ++ s)) kids)
  end.

(* scope at the element reached by a path of child indices, the root's parent having scope [s] *)
Fixpoint scope_at (s : scope) (t : dtree) (p : list nat) : option scope :=
  match t with
  | DNode d kids =>
      match p with
      | [] => Some (d ++ s)
      | i :: p' => match nth_error kids i with Some k => scope_at (d ++ s) k p' | None => None end
      end
  end.

(* no declaration of the document repeats a namespace URI that is already bound where the declaring element's parent stands *)
Fixpoint fresh (s : scope) (t : dtree) : bool :=
  match t with
  | DNode d kids => forallb (fun b => negb (uri_visible (snd b) s)) d && forallb (fresh (d ++ s)) kids
  end.

(* own declarations of every element, document order (what the correspondence compares with the wire) *)
Fixpoint decls_preorder (t : dtree) : list (list binding) :=
  match t with DNode d kids => d :: flat_map decls_preorder kids end.

(* the element util.build_filter makes for ("xpath", (nsmap, select)): it declares the caller's prefix map and has no children *)
Definition xpath_filter (nsmap : list binding) : dtree := DNode nsmap [].
