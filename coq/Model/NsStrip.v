(* NsStrip.v — reply transforms of the device profiles as tree functions (property C10).
   junos_xslt: the stylesheet in devices/junos.py transform_reply (three templates):
     "/|comment()|processing-instruction()" -> copied;  "*" -> element named local-name() (no
     namespace) with templates applied to attributes then children;  "@*" -> attribute named
     local-name() with the same value (a later attribute of the same name replaces the value
     of the earlier one, libxslt keeps the earlier position);  text: built-in copy.
   alu: devices/alu.py remove_namespaces (element tags only; attributes untouched).
   sros: devices/sros.py passthrough.
   The remove_blank_text parsers around the XSLT are oracles (they drop some, not necessarily
   all, white-space-only text nodes).  Definitions only. *)
From NC Require Import Model.Base Model.XTree.

Definition local_name (n : name) : name := (None, snd n).
Definition local_attr (x : attr) : attr := (local_name (fst x), snd x).

Definition strip_attrs (a : list attr) : list attr :=
  fold_left (fun acc x => attr_set (local_name (fst x)) (snd x) acc) a [].

Fixpoint junos_xslt (t : xnode) : xnode :=
  match t with
  | Elem n a k => Elem (local_name n) (strip_attrs a) (map junos_xslt k)
  | other => other
  end.

Fixpoint alu (t : xnode) : xnode :=
  match t with
  | Elem n a k => Elem (local_name n) a (map alu k)
  | other => other
  end.

Definition sros (t : xnode) : xnode := t.

(* the comparison the property makes: names without namespaces *)
Fixpoint erase_ns (t : xnode) : xnode :=
  match t with
  | Elem n a k => Elem (local_name n) (map local_attr a) (map erase_ns k)
  | other => other
  end.

Definition is_blank_text (t : xnode) : bool := match t with Text s => blank s | _ => false end.

Fixpoint drop_blank (t : xnode) : xnode :=
  match t with
  | Elem n a k =>
      Elem n a ((fix go (l : list xnode) : list xnode :=
                   match l with
                   | [] => []
                   | c :: l' => if is_blank_text c then go l' else drop_blank c :: go l'
                   end) k)
  | other => other
  end.

(* idealised pipeline of NCElement.remove_namespaces: both parsers drop every blank text node *)
Definition strip (t : xnode) : xnode := drop_blank (junos_xslt (drop_blank t)).

(* the pipeline with the two remove_blank_text parsers as oracles *)
Definition strip_with (rb1 rb2 : xnode -> xnode) (t : xnode) : xnode := rb2 (junos_xslt (rb1 t)).

(* no element carries two attributes with one local name *)
Fixpoint locals_distinct (t : xnode) : Prop :=
  match t with
  | Elem _ a k =>
      NoDup (map (fun x => snd (fst x)) a) /\
      (fix all (l : list xnode) : Prop := match l with [] => True | c :: l' => locals_distinct c /\ all l' end) k
  | _ => True
  end.
