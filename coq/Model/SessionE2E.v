(* SessionE2E.v — the session LTS (Model/SessionLTS.v) composed with the inbound framing models
   (Model/Framing10.v, Model/Framing11.v): the worker's read step takes the OCTETS one
   `_transport_read()` returned, runs `parser.parse(data)` on them, and every event of that call
   (a complete message, or the exception that ends the call) takes effect on the shared state as the
   LTS label the message text determines.  Inbound labels ([LRecv], [LRaise]) can no longer be chosen
   by the trace: they come from bytes only.

   Modelled code: Session.run (transport/session.py), the part
       events = s.select(...);  data = self._transport_read()
       if data: self.parser.parse(data)          [ERead seg: feed10/feed11, its events become [pend]]
       elif closing: break   else: raise SessionCloseError      [ERead []  =  LReadEof]
   and DefaultXMLParser.parse -> _parse10/_parse11 -> Session._dispatch_message(msg) for each complete
   message, in order, INSIDE the parse call [EDispatch: the head of [pend] takes effect]; an exception
   raised by the parser (NetconfFramingError, UnicodeDecodeError) after the messages that precede it in
   the buffer [EDispatch of a Raise event = LRaise].  While the parse call is in progress ([pend] not
   empty) the worker can neither dequeue/write, nor read, nor leave the loop cleanly: those labels
   are refused.  A dispatch that raises (reply without message-id, unknown id: WRaise) abandons the rest of
   the parse call: the LTS worker never becomes idle again, so the remaining [pend] is never used.

   [classify] (message text -> kind and argument of [LRecv]: Session._dispatch_message's parse_root /
   handle_raw_dispatch, the listeners' tag and message-id tests) is a Section variable: the theorems
   hold for EVERY classifier, i.e. XML parsing is abstract here.  Glue/E2E_glue.v instantiates it with a
   small concrete scanner for the byte-level replay of the scheduled real runs.
   Definitions only; proofs in Proofs/SessionE2EProofs.v. *)
From NC Require Import Model.Base Model.Utf8 Model.Framing10 Model.Framing11 Model.SessionLTS.

(* the framing state of the session's base *)
Inductive pstate := P10 (p : pst10) | P11 (p : pst11).
Definition pinit (b11 : bool) : pstate := if b11 then P11 init11 else P10 init10.
Definition pfeed (p : pstate) (seg : bytes) : pstate * list pevent :=
  match p with
  | P10 a => let '(a', e) := feed10 a seg in (P10 a', e)
  | P11 a => let '(a', e) := feed11 a seg in (P11 a', e)
  end.

(* exception class of the LTS for an exception leaving parse(): NetconfFramingError is a
   TransportError (6), anything else (UnicodeDecodeError) is not (3) *)
Definition raise_code (k : N) : exc := if k =? K_FRAMING then 6 else 3.

Inductive elabel :=
| ERead (seg : bytes)     (* _transport_read() returned seg; [] is end-of-file *)
| EDispatch               (* the next event of the parse call in progress takes effect *)
| EL (l : label).         (* any effect that does not come from the transport's octets *)

(* labels that only octets can produce *)
Definition is_msg (l : label) : bool :=
  match l with LRecv _ _ | LRaise _ => true | _ => false end.
Definition inbound (l : label) : bool :=
  match l with LRecv _ _ | LRaise _ | LReadEof => true | _ => false end.
(* effects of the worker's loop body outside parser.parse *)
Definition loop_label (p : wpc) (l : label) : bool :=
  match l with
  | LDeq _ | LReadErr | LWriteFail => true
  | LErrBcast _ => is_idle p
  | _ => false
  end.
Definition nil_b {A} (l : list A) : bool := match l with [] => true | _ => false end.

Section E2E.
Variable classify : bytes -> N * N.

Definition ev_label (e : pevent) : label :=
  match e with
  | Deliver m => let '(k, a) := classify m in LRecv k a
  | Raise k => LRaise (raise_code k)
  end.

Record est := { lts : st; par : pstate; pend : list pevent }.
Definition einit (q b11 : bool) : est := {| lts := init q; par := pinit b11; pend := [] |}.

(* one effect; returns the new state and the LTS labels that took place (at most one) *)
Definition estep (s : est) (l : elabel) : option (est * list label) :=
  match l with
  | ERead [] =>
      if nil_b (pend s) then
        match step (lts s) LReadEof with
        | Some x => Some ({| lts := x; par := par s; pend := [] |}, [LReadEof])
        | None => None
        end
      else None
  | ERead seg =>
      if is_idle (pc (lts s)) && nil_b (pend s) then
        let '(p', evs) := pfeed (par s) seg in Some ({| lts := lts s; par := p'; pend := evs |}, [])
      else None
  | EDispatch =>
      match pend s with
      | e :: r => match step (lts s) (ev_label e) with
                  | Some x => Some ({| lts := x; par := par s; pend := r |}, [ev_label e])
                  | None => None
                  end
      | [] => None
      end
  | EL l =>
      if inbound l || (loop_label (pc (lts s)) l && negb (nil_b (pend s))) then None
      else match step (lts s) l with
           | Some x => Some ({| lts := x; par := par s; pend := pend s |}, [l])
           | None => None
           end
  end.

Fixpoint erun (s : est) (t : list elabel) : option (est * list label) :=
  match t with
  | [] => Some (s, [])
  | l :: t' => match estep s l with
               | Some (s1, a) => match erun s1 t' with
                                 | Some (s2, b) => Some (s2, a ++ b)
                                 | None => None
                                 end
               | None => None
               end
  end.

(* diagnostics for the runner: effects accepted before the first refused one, the labels so far *)
Fixpoint erun_count (s : est) (t : list elabel) (k : N) (acc : list label) : N * est * list label :=
  match t with
  | [] => (k, s, acc)
  | l :: t' => match estep s l with
               | Some (s1, a) => erun_count s1 t' (k + 1) (acc ++ a)
               | None => (k, s, acc)
               end
  end.

(* the octets read from the transport, read by read (end-of-file is not a read of octets) *)
Fixpoint reads (t : list elabel) : list bytes :=
  match t with
  | [] => []
  | ERead (x :: seg) :: t' => (x :: seg) :: reads t'
  | _ :: t' => reads t'
  end.
Definition saw_eof (t : list elabel) : bool :=
  existsb (fun l => match l with ERead [] => true | _ => false end) t.

(* the labels a stream of events produces *)
Definition ev_labels (evs : list pevent) : list label := map ev_label evs.

(* ---- the worker alone: its next effect is determined by its program counter ---- *)
Definition wnext (s : st) : option label :=
  match pc s with
  | WIdle => None
  | WNotif n => Some (LNqPut n)
  | WLookup id => Some (LTGet id (match tget id (table s) with Some _ => true | None => false end))
  | WDeliver rid _ => Some (LEvSetReply rid)
  | WDel id => Some (LTDel id)
  | WRaise e => Some (LErrBcast (bcast_code (closing s) e))
  | WErrSnap _ => if skipok s then Some (LClose 0) else Some (LTValues (map fst (table s)))
  | WErrClear _ _ => Some LTClear
  | WErrDeliver _ (r :: _) => Some (LEvSetErr r)
  | WErrDeliver _ [] => Some (LClose 0)
  | WClosed => Some LExit
  | WExited => None
  end.
(* run the worker until it is idle again or has exited *)
Fixpoint settle (fuel : nat) (s : st) : st :=
  match fuel with
  | O => s
  | S f => match wnext s with
           | Some l => match step s l with Some s' => settle f s' | None => s end
           | None => s
           end
  end.
(* fuel that suffices from any state: at most 3 effects to finish a message, at most
   4 + |table| + |snapshot| to finish the error path *)
Definition settle_fuel (s : st) : nat :=
  8 + length (table s) + match pc s with WErrClear _ r | WErrDeliver _ r => length r | _ => 0%nat end.

(* the worker serves a list of reads while the client threads are quiet: every read is parsed, every event
   dispatched and followed to the end of its processing *)
Fixpoint serve_events (s : st) (evs : list pevent) : st :=
  match evs with
  | [] => s
  | e :: r => if is_idle (pc s) then
                match step s (ev_label e) with
                | Some s1 => serve_events (settle (settle_fuel s1) s1) r
                | None => serve_events s r          (* a kind the LTS does not know: skipped *)
                end
              else s
  end.
Fixpoint serve (s : est) (segs : list bytes) : est :=
  match segs with
  | [] => s
  | seg :: r =>
      if is_idle (pc (lts s)) && nil_b (pend s) then
        let '(p', evs) := pfeed (par s) seg in
        serve {| lts := serve_events (lts s) evs; par := p'; pend := [] |} r
      else s
  end.
Definition serve_stream (s0 : st) (p : pstate) (segs : list bytes) : st :=
  lts (serve {| lts := s0; par := p; pend := [] |} segs).
End E2E.

(* the worker's effects on the error path *)
Definition worker_err_label (l : label) : Prop :=
  match l with
  | LErrBcast _ | LTValues _ | LTClear | LEvSetErr _ | LClose 0 | LExit => True
  | _ => False
  end.
(* the labels [settle] performs *)
Fixpoint settle_labels (fuel : nat) (s : st) : list label :=
  match fuel with
  | O => []
  | S f => match wnext s with
           | Some l => match step s l with Some s' => l :: settle_labels f s' | None => [] end
           | None => []
           end
  end.
(* number of worker effects until it is idle again or has exited *)
Definition wmeasure (s : st) : nat :=
  match pc s with
  | WIdle | WExited => 0
  | WNotif _ | WDel _ | WClosed => 1
  | WDeliver _ _ => 2
  | WLookup _ => 7 + length (table s)
  | WRaise _ => 6 + length (table s)
  | WErrSnap _ => 5 + length (table s)
  | WErrClear _ r => 4 + length r
  | WErrDeliver _ r => 3 + length r
  end%nat.
