(* ApiReuse.v — objects of the API that are used MORE THAN ONCE on one session, in terms of the request records of
   Model/SessionLTS.v.

   Modelled code:
     manager.py          Manager.execute        : cls(session, ...).request(...)  - a NEW operation object per call
                         Manager.locked         : LockContext(session, device_handler, target)
                         Manager.__exit__       : close_session(): a new CloseSession object, then Session.close()
     operations/lock.py  LockContext.__enter__  : Lock(session, ...).request(target)    - a NEW Lock per entry
                         LockContext.__exit__   : Unlock(session, ...).request(target)  - a NEW Unlock per exit
     operations/rpc.py   RPC.__init__           : draws the message-id, registers with the reply listener (label LReg)
                         RPC._request           : _single_use(): the object makes ONE request; a second request() is
                                                  refused before anything is sent (no label at all);
                                                  then Session.send (LChk, LPut when connected)
   An RPC object IS a request record of the LTS (rid = number of objects built before it on the session).  A use of an
   API object either builds a new record and sends it, or (request() on an object built by the application) sends
   an existing one once.  Definitions only; proofs in Proofs/ReuseProofs.v. *)
From NC Require Import Model.Base Model.SessionLTS.

Inductive ause :=
| UOp                   (* Manager.<operation>(...), LockContext.__enter__, LockContext.__exit__: new object, requested *)
| UNew (o : N)          (* the application builds an RPC object itself and keeps it under the name o *)
| UReq (o : N)          (* ... and calls request() on it *)
| UMgrExit.             (* leaving `with manager:` - close-session on a new object, then the session is closed *)

Inductive aout :=
| ASent (rid : nat)     (* the request record rid went into the out queue *)
| ABuilt (rid : nat)    (* UNew: the record exists, nothing sent *)
| ARefused.             (* the call raised before anything was sent: a used object, an unknown name, a closed session *)

Record ast := {
  a_next : nat;                   (* objects built so far = length of the LTS's request list *)
  a_objs : list (N * nat);        (* application-held objects: name -> rid *)
  a_used : list nat;              (* rids of application-held objects whose request() was accepted or refused once sent *)
  a_open : bool;                  (* Session.connected *)
  a_wire : list nat               (* rids put into the out queue, in order *)
}.

Definition ast0 : ast := {| a_next := 0; a_objs := []; a_used := []; a_open := true; a_wire := [] |}.

Fixpoint oget (o : N) (l : list (N * nat)) : option nat :=
  match l with [] => None | (k, v) :: l' => if N.eqb o k then Some v else oget o l' end.
Fixpoint memnat (x : nat) (l : list nat) : bool :=
  match l with [] => false | y :: l' => Nat.eqb x y || memnat x l' end.

(* the message-id the k-th object of the session draws (any injective supply; uuid4 in the code) *)
Definition id_of (rid : nat) : N := N.of_nat rid + 100.

(* one use: new state, what the caller sees, the LTS labels of the calling thread *)
Definition ause_step (a : ast) (u : ause) : ast * aout * list label :=
  let n := a_next a in
  match u with
  | UOp =>
      if a_open a then
        ({| a_next := S n; a_objs := a_objs a; a_used := a_used a; a_open := true; a_wire := a_wire a ++ [n] |},
         ASent n, [LReg n (id_of n); LChk n true; LPut n])
      else
        ({| a_next := S n; a_objs := a_objs a; a_used := a_used a; a_open := false; a_wire := a_wire a |},
         ARefused, [LReg n (id_of n); LChk n false])
  | UNew o =>
      match oget o (a_objs a) with
      | Some _ => (a, ARefused, [])                    (* the name is taken: not a history *)
      | None => ({| a_next := S n; a_objs := (o, n) :: a_objs a; a_used := a_used a; a_open := a_open a; a_wire := a_wire a |},
                 ABuilt n, [LReg n (id_of n)])
      end
  | UReq o =>
      match oget o (a_objs a) with
      | None => (a, ARefused, [])
      | Some rid =>
          if memnat rid (a_used a) then (a, ARefused, [])                 (* _single_use: refused, nothing happens *)
          else if a_open a then
            ({| a_next := n; a_objs := a_objs a; a_used := rid :: a_used a; a_open := true; a_wire := a_wire a ++ [rid] |},
             ASent rid, [LChk rid true; LPut rid])
          else
            ({| a_next := n; a_objs := a_objs a; a_used := rid :: a_used a; a_open := false; a_wire := a_wire a |},
             ARefused, [LChk rid false])
      end
  | UMgrExit =>
      if a_open a then
        ({| a_next := S n; a_objs := a_objs a; a_used := a_used a; a_open := false; a_wire := a_wire a ++ [n] |},
         ASent n, [LReg n (id_of n); LChk n true; LPut n; LClose 1])
      else
        ({| a_next := S n; a_objs := a_objs a; a_used := a_used a; a_open := false; a_wire := a_wire a |},
         ARefused, [LReg n (id_of n); LChk n false; LClose 1])
  end.

Fixpoint ause_run (a : ast) (h : list ause) : ast * list aout * list label :=
  match h with
  | [] => (a, [], [])
  | u :: h' =>
      let '(a1, o, ls) := ause_step a u in
      let '(a2, os, ls') := ause_run a1 h' in
      (a2, o :: os, ls ++ ls')
  end.

Definition api_state (h : list ause) : ast := fst (fst (ause_run ast0 h)).
Definition api_outs (h : list ause) : list aout := snd (fst (ause_run ast0 h)).
Definition api_labels (h : list ause) : list label := snd (ause_run ast0 h).
Definition api_wire (h : list ause) : list nat := a_wire (api_state h).

(* what the seeded kind of change does instead: the object behind a use is kept and requested AGAIN - the labels of a
   second send of record rid (used by the refuted statement and the examples) *)
Definition resend (rid : nat) : list label := [LChk rid true; LPut rid].
