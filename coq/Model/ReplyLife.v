(* ReplyLife.v — the life of the RPC objects of one Manager between request() and the delivery of
   their replies (property C10; asynchronous mode, replies delivered by another thread, several
   requests in flight).
   world  = the Manager's settings (huge_tree, async_mode) + every RPC object created so far,
            keyed by its message-id (uuid4: fresh per object);
   events = what the caller, the operations and the session's reader thread do, in any order:
     ESetMgrHuge / ESetMgrAsync   manager.huge_tree = b / manager.async_mode = b
     ECall id cls forced          Manager.execute(cls, ...): RPC.__init__ copies the Manager's
                                  settings and registers the object with the RPCReplyListener;
                                  request() of GetSchema / juniper GetConfiguration(text) /
                                  sros MdCliRawCommand sets self._huge_tree = True; _request sends
     ESetRpcHuge id b             the caller holding the (asynchronous) object: rpc.huge_tree = b
     EDeliver id raw              a message carrying this message-id is dispatched:
                                  RPCReplyListener.callback -> rpc.deliver_reply(raw), entry removed
                                  (an unknown / already answered id changes nothing)
   The synchronous call is the history  ECall id ... EDeliver id  followed by the rest of
   RPC._request (finish); the asynchronous caller reads rpc.reply (async_read).
   Definitions only. *)
From NC Require Import Model.Base Model.XTree Model.XmlHelpers Model.NsStrip Model.ReplyView.

Record rpc := mkRpc {
  o_cls : reply_cls;         (* REPLY_CLS of the operation *)
  o_huge : bool;             (* RPC._huge_tree *)
  o_async : bool;            (* RPC._async *)
  o_reg : bool;              (* still in RPCReplyListener._id2rpc *)
  o_reply : option reply     (* RPC._reply *)
}.

Definition rpcs := N -> option rpc.
Definition upd (id : N) (o : rpc) (f : rpcs) : rpcs := fun i => if N.eqb i id then Some o else f i.

Record world := mkWorld { w_huge : bool; w_async : bool; w_rpcs : rpcs }.
Definition world0 (huge async : bool) : world := mkWorld huge async (fun _ => None).

Inductive event :=
| ESetMgrHuge (b : bool)
| ESetMgrAsync (b : bool)
| ECall (id : N) (cls : reply_cls) (forced : bool)
| ESetRpcHuge (id : N) (b : bool)
| EDeliver (id : N) (raw : bytes).

Definition set_huge (b : bool) (o : rpc) : rpc := mkRpc (o_cls o) b (o_async o) (o_reg o) (o_reply o).
(* RPC.deliver_reply: self._reply = self.REPLY_CLS(raw, huge_tree=self._huge_tree) — the flag is read NOW *)
Definition take_reply (raw : bytes) (o : rpc) : rpc :=
  mkRpc (o_cls o) (o_huge o) (o_async o) false (Some (deliver_reply (o_cls o) raw (o_huge o))).

Definition step (w : world) (e : event) : world :=
  match e with
  | ESetMgrHuge b => mkWorld b (w_async w) (w_rpcs w)
  | ESetMgrAsync b => mkWorld (w_huge w) b (w_rpcs w)
  | ECall id cls forced =>
      mkWorld (w_huge w) (w_async w)
              (upd id (mkRpc cls (call_flag (w_huge w) forced) (w_async w) true None) (w_rpcs w))
  | ESetRpcHuge id b =>
      match w_rpcs w id with
      | Some o => mkWorld (w_huge w) (w_async w) (upd id (set_huge b o) (w_rpcs w))
      | None => w
      end
  | EDeliver id raw =>
      match w_rpcs w id with
      | Some o => if o_reg o then mkWorld (w_huge w) (w_async w) (upd id (take_reply raw o) (w_rpcs w)) else w
      | None => w
      end
  end.

Definition run_hist (w : world) (h : list event) : world := fold_left step h w.

Definition reply_of (id : N) (w : world) : option reply :=
  match w_rpcs w id with Some o => o_reply o | None => None end.

(* ---------- the rest of RPC._request once the event is set (synchronous mode): the reply is
   parsed with the flag it was built with; the aggregate-error re-parse and the NCElement use the
   RPC object's flag f as it is at that moment ---------- *)
Definition post (P Q : bool -> bytes -> option xnode) (Q2 : bool -> xnode -> option xnode)
           (p : profile) (rk : raise_kind) (f : bool) (r : reply) : outcome * list (site * bool) :=
  let log1 := [(SReplyParse, r_huge r)] in
  match P (r_huge r) (r_raw r) with
  | None => (OParseError, log1)
  | Some root =>
      match hook p (r_cls r) root with
      | DAttrErr => (OHookError, log1)
      | d =>
          match rk with
          | RSingle => (ORaised, log1)
          | RMulti =>
              let log2 := log1 ++ [(SErrorReparse, f)] in
              match P f (r_raw r) with None => (OParseError, log2) | Some _ => (ORaised, log2) end
          | RNone =>
              match p with
              | PDefault => (OReply r root d, log1)
              | PAlu => (OElem r (alu root), log1)
              | PSros => (OElem r (sros root), log1)
              | PJunos =>
                  let log3 := log1 ++ [(SXsltSheet, f); (SXsltInput, f); (SXsltOutput, f)] in
                  match Q f (r_raw r) with
                  | None => (OParseError, log3)
                  | Some t1 =>
                      match Q2 f (junos_xslt t1) with
                      | None => (OParseError, log3)
                      | Some t2 => (OElem r t2, log3)
                      end
                  end
              end
          end
      end
  end.

(* the synchronous caller: None = the wait timed out (no reply on the object) *)
Definition finish (P Q : bool -> bytes -> option xnode) (Q2 : bool -> xnode -> option xnode)
           (p : profile) (rk : raise_kind) (id : N) (w : world) : option (outcome * list (site * bool)) :=
  match w_rpcs w id with
  | Some o => match o_reply o with Some r => Some (post P Q Q2 p rk (o_huge o) r) | None => None end
  | None => None
  end.

(* the asynchronous caller reads rpc.reply.<view>: one lazy parse with the reply's own flag, the
   hook (retried after the profile's repair); no raising, no transform *)
Definition async_read (P : bool -> bytes -> option xnode) (p : profile) (r : reply) : outcome * list (site * bool) :=
  let log1 := [(SReplyParse, r_huge r)] in
  match P (r_huge r) (r_raw r) with
  | None => (OParseError, log1)
  | Some root =>
      match hook p (r_cls r) root with
      | DAttrErr => (OHookError, log1)
      | d => (OReply r root d, log1)
      end
  end.
