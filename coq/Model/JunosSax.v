(* JunosSax.v — the instance of the driver model (Model/JunosParse.v) the correspondence runs: the machine of one
   reply is expat + the modelled SAX handler (Model/SaxFilter.v).  expat is an oracle: for each octet given to the
   parser, the SAX events that octet completes (recorded by the harness from the real expat fed octet by octet), or
   "rejects".  The session side is an oracle too: per reply-to-be of the stream, the requests outstanding while it is
   parsed and what dispatching it does.  Definitions only. *)
From NC Require Import Model.Base Model.Utf8 Model.Framing10 Model.Framing11 Model.SaxFilter Model.JunosParse Model.JunosParse11.

Record piece : Type := mkpiece {
  penv : env;                               (* listener table while this reply is parsed *)
  pscript : list (option (list event));     (* per octet fed: events completed by it; None = expat rejects it *)
  pdisp : N }.                              (* dispatching it: 0 the DOM parser stays, 1 a new Junos parser is installed
                                               (or the parser is the Junos one already), 2 a listener raises *)
Definition world : Type := list piece.
Definition xstate : Type := (list (option (list event)) * SaxFilter.st)%type.

Definition sx_exn_code (x : exn) : N :=
  match x with ESwitch => 1 | EOperation => 2 | EKey => 3 | EIndex => 4 | EAttr => 5 | EValue => 8 end.

Definition sx_new (w : world) : xstate :=
  (match w with p :: _ => pscript p | [] => [] end, SaxFilter.init).

Definition sx_step (w : world) (x : xstate) (c : N) : xres xstate :=
  match fst x with
  | [] => XErr
  | None :: _ => XErr
  | Some evs :: scr' =>
      let e := match w with p :: _ => penv p | [] => mkenv false [] end in
      match exec e (snd x) evs with
      | (o, Fin hs') => XOk (scr', hs') (render o)
      | (o, Raised ESwitch) => XSwitch (render o)
      | (o, Raised ex) => XExc (sx_exn_code ex)
      end
  end.

(* getattr(handler, '_root', None) is not None *)
Definition sx_rooted (x : xstate) : bool :=
  match roottag (snd x) with Some _ => true | None => false end.

Definition sx_dispatch (w : world) (via_sax : bool) (msg : bytes) : dres world :=
  match w with
  | [] => DOk [] true
  | p :: w' => if N.eqb (pdisp p) 2 then DExc else DOk w' (negb (N.eqb (pdisp p) 0))
  end.

Definition sx_parse := parse world xstate sx_new sx_step sx_rooted sx_dispatch.
Definition sx_run := run world xstate sx_new sx_step sx_rooted sx_dispatch.
Definition sx_init := init world xstate sx_new.

(* the same instance on a base:1.1 session (Model/JunosParse11.v): one piece per chunked message, its script is that
   of the complete message *)
Definition sx_parse11 := parse11 world xstate sx_new sx_step sx_rooted sx_dispatch.
Definition sx_run11 := run11 world xstate sx_new sx_step sx_rooted sx_dispatch.
Definition sx_init11 (w : world) := init11s world w.
