(* Gating.v — model of the capability checks ncclient performs before a request is sent
   (after fixes a9ba88a [F21] and 5c67a43 [F22/F23]):
     operations/rpc.py      RPC.__init__ (DEPENDS loop, `except AttributeError: pass`), RPC._assert
     operations/util.py     datastore_or_url ("://" test -> :url)
     operations/edit.py     EditConfig / DeleteConfig / CopyConfig / Validate / Commit / CancelCommit / DiscardChanges
     operations/retrieve.py Get / GetConfig (with-defaults), Dispatch;  rpc.py GenericRPC
     operations/subscribe.py, flowmon.py (class DEPENDS)
     third_party/juniper/rpc.py Commit, third_party/sros/rpc.py Commit
   The request of a call is the class's DEPENDS loop, then registration with the reply
   listener, then a *program*: the exact sequence of checks `request()` performs, then the send.
   Everything that is not a capability check but can stop the call locally (lxml refusing a
   name or a character, validated_element, validate_args, urlparse) appears as an explicit
   verdict in the argument record — an oracle the theorems quantify over. *)
From Coq Require Import String.
From NC Require Import Model.Base Model.Lit Model.Caps Model.Xml.

Inductive exn : Type :=
| MissingCapability | WithDefaultsError | OperationError | XMLError | XMLSyntaxError
| ValueError | TypeError | NCClientError | AttributeError | KeyErr | Internal.

Inductive outcome : Type := Exn : exn -> outcome | Sent : outcome.

(* observable events of one Manager call *)
Inductive event : Type :=
| EvAssert : bytes -> event      (* `key in session.server_capabilities` *)
| EvLookup : bytes -> event      (* `session.server_capabilities[key]` *)
| EvRegister : event             (* RPCReplyListener.register *)
| EvSend : event.                (* session.send *)

(* what `self._session.server_capabilities` is *)
Inductive sess : Type :=
| SCaps : caps -> sess           (* a connected session *)
| SNoAttr : sess.                (* the attribute access raises AttributeError *)

Definition s_k_url := Eval compute in lit ":url"%string.
Definition s_k_candidate := Eval compute in lit ":candidate"%string.
Definition s_k_confirmed := Eval compute in lit ":confirmed-commit"%string.
Definition s_k_validate := Eval compute in lit ":validate"%string.
Definition s_k_validate11 := Eval compute in lit ":validate:1.1"%string.
Definition s_k_rollback := Eval compute in lit ":rollback-on-error"%string.
Definition s_k_notification := Eval compute in lit ":notification"%string.
Definition s_k_wd := Eval compute in lit ":with-defaults"%string.
Definition s_k_poweroff := Eval compute in lit "urn:liberouter:param:netconf:capability:power-control:1.0"%string.
Definition s_k_reboot := Eval compute in lit "urn:liberouter:params:netconf:capability:power-control:1.0"%string.
Definition s_css := Eval compute in lit "://"%string.
Definition s_basic_mode := Eval compute in lit "basic-mode"%string.
Definition s_also_supported := Eval compute in lit "also-supported"%string.
Definition COMMA : N := 44%N.
Definition s_merge := Eval compute in lit "merge"%string.
Definition s_replace := Eval compute in lit "replace"%string.
Definition s_none := Eval compute in lit "none"%string.
Definition s_test_then_set := Eval compute in lit "test-then-set"%string.
Definition s_set := Eval compute in lit "set"%string.
Definition s_test_only := Eval compute in lit "test-only"%string.
Definition s_stop_on_error := Eval compute in lit "stop-on-error"%string.
Definition s_continue_on_error := Eval compute in lit "continue-on-error"%string.
Definition s_rollback_on_error := Eval compute in lit "rollback-on-error"%string.
Definition s_f_xml := Eval compute in lit "xml"%string.
Definition s_f_text := Eval compute in lit "text"%string.
Definition s_f_url := Eval compute in lit "url"%string.

Definition DEFAULT_OPS : list bytes := [s_merge; s_replace; s_none].
Definition TEST_OPTS : list bytes := [s_test_then_set; s_set; s_test_only].
Definition ERROR_OPTS : list bytes := [s_stop_on_error; s_continue_on_error; s_rollback_on_error].

(* ---------------- one check ---------------- *)

(* RPC._assert *)
Definition assert_cap (s : sess) (key : bytes) : list event * option exn :=
  match s with
  | SNoAttr => ([], Some AttributeError)
  | SCaps d =>
      ([EvAssert key],
       match contains_key d key with
       | Ok true => None
       | Ok false => Some MissingCapability
       | _ => Some Internal
       end)
  end.

(* retrieve._get_valid_with_defaults_modes on the looked-up capability *)
Definition modes_of (c : capability) : option (list bytes) :=
  match dict_get s_basic_mode (parameters c) with
  | None => None
  | Some b => Some (b :: match dict_get s_also_supported (parameters c) with
                        | None => []
                        | Some a => split_on COMMA a
                        end)
  end.

(* retrieve._append_with_defaults_mode: lookup, validation of the normalised mode
   ([norm] = mode.strip().lower() as computed by CPython), then `.text = norm` *)
Definition with_defaults (s : sess) (norm : bytes) : list event * option exn :=
  match s with
  | SNoAttr => ([], Some AttributeError)
  | SCaps d =>
      ([EvLookup s_k_wd],
       match getitem d s_k_wd with
       | Ok c => match modes_of c with
                 | None => Some WithDefaultsError
                 | Some ms => if mem_bytes norm ms
                              then (if xml_chars_ok norm then None else Some ValueError)
                              else Some WithDefaultsError
                 end
       | KeyError => Some KeyErr
       | Crash _ => Some Internal
       end)
  end.

(* ---------------- programs ---------------- *)
Inductive step : Type :=
| SAssert : bytes -> step            (* self._assert(key) *)
| SFail : exn -> step                (* a local failure the arguments alone decide *)
| SWithDefaults : bytes -> step.     (* _append_with_defaults_mode with the normalised mode *)

Definition run_step (s : sess) (st : step) : list event * option exn :=
  match st with
  | SAssert k => assert_cap s k
  | SFail e => ([], Some e)
  | SWithDefaults norm => with_defaults s norm
  end.

Fixpoint run_steps (s : sess) (p : list step) : list event * option exn :=
  match p with
  | [] => ([], None)
  | st :: p' =>
      match run_step s st with
      | (tr, Some e) => (tr, Some e)
      | (tr, None) => let (tr', r) := run_steps s p' in (tr ++ tr', r)
      end
  end.

(* RPC.__init__: DEPENDS loop inside `try … except AttributeError: pass`, then registration *)
Definition construct (s : sess) (deps : list bytes) : list event * option exn :=
  match run_steps s (map SAssert deps) with
  | (tr, None) => (tr ++ [EvRegister], None)
  | (tr, Some AttributeError) => (tr ++ [EvRegister], None)
  | (tr, Some e) => (tr, Some e)
  end.

(* ---------------- arguments ---------------- *)
(* a datastore-or-URL argument: a str (with lxml's verdict on it: as an element name when it
   has no "://", as text when it has), or an object on which `"://" in loc` raises *)
Inductive dsarg : Type :=
| DsStr : bytes -> bool -> dsarg
| DsBad : exn -> dsarg.

(* copy_config/validate source: datastore-or-URL, or an inline document with the verdict of
   validated_element *)
Inductive srcarg : Type :=
| SrcDs : dsarg -> srcarg
| SrcInline : option exn -> srcarg.

Inductive vendor : Type := VStd | VJunos | VSros.

Inductive call : Type :=
| CGet (flt : option exn) (wd : option bytes)
| CGetConfig (src : dsarg) (flt : option exn) (wd : option bytes)
| CEditConfig (tgt : dsarg) (dop top eop : option bytes) (fmt : bytes) (cfg : option exn) (url_ok : bool)
| CDeleteConfig (tgt : dsarg)
| CCopyConfig (tgt : dsarg) (src : srcarg)
| CValidate (src : srcarg)
| CCommit (v : vendor) (confirmed tmo per pid : bool) (pre post : option exn)
    (* commit(confirmed, timeout, persist, persist_id, …): [confirmed] = truth value of the argument, [tmo] = `timeout is not
       None`, [per] = `persist is not None`, [pid] = truth value of persist_id (the tests request() branches on; the Junos
       override has no persist / persist_id parameter);  [pre] / [post] = the local failure the arguments cause before /
       after the capability check, if any *)
| CCancelCommit (body : option exn)
| CDiscardChanges
| CCreateSubscription (body : option exn)
| CPoweroff
| CReboot
| CDispatch (cmd : option exn) (src : option dsarg) (flt : option exn)
| CRpc (cmd : option exn) (tgt src : option dsarg) (flt cfg : option exn)
| CUngated (body : option exn).      (* lock, unlock, get_schema, close_session, kill_session *)

Definition fail_opt (o : option exn) : list step :=
  match o with None => [] | Some e => [SFail e] end.

(* util.datastore_or_url(wha, loc, self._assert) *)
Definition ds_steps (d : dsarg) : list step :=
  match d with
  | DsBad e => [SFail e]
  | DsStr loc lx =>
      (if contains loc s_css then [SAssert s_k_url] else [])
      ++ (if lx then [] else [SFail ValueError])
  end.

Definition ods_steps (o : option dsarg) : list step :=
  match o with None => [] | Some d => ds_steps d end.

Definition src_steps (s : srcarg) : list step :=
  match s with SrcDs d => ds_steps d | SrcInline v => fail_opt v end.

(* `with_defaults is not None` branch of Get/GetConfig *)
Definition wd_steps (wd : option bytes) : list step :=
  match wd with None => [] | Some norm => [SAssert s_k_wd; SWithDefaults norm] end.

(* util.validate_args for an optional enumerated argument *)
Definition enum_steps (v : option bytes) (allowed : list bytes) (then_ : bytes -> list step) : list step :=
  match v with
  | None => []
  | Some x => if mem_bytes x allowed then then_ x else [SFail OperationError]
  end.

Definition class_deps (c : call) : list bytes :=
  match c with
  | CValidate _ => [s_k_validate]
  | CCommit _ _ _ _ _ _ _ => [s_k_candidate]
  | CCancelCommit _ => [s_k_candidate; s_k_confirmed]
  | CDiscardChanges => [s_k_candidate]
  | CCreateSubscription _ => [s_k_notification]
  | CPoweroff => [s_k_poweroff]
  | CReboot => [s_k_reboot]
  | _ => []
  end.

(* Commit.request: `if confirmed: self._assert(":confirmed-commit")` in front of the <confirmed/> block and (edit.py,
   sros/rpc.py) `if persist_id: if not confirmed: self._assert(":confirmed-commit")` in front of <persist-id> — one test,
   and every local failure of the two blocks comes after it;  juniper/rpc.py has no persist / persist_id parameter *)
Definition has_per (v : vendor) (per : bool) : bool := match v with VJunos => false | _ => per end.
Definition has_pid (v : vendor) (pid : bool) : bool := match v with VJunos => false | _ => pid end.
Definition commit_checks (v : vendor) (confirmed pid : bool) : list step :=
  if confirmed || has_pid v pid then [SAssert s_k_confirmed] else [].

(* the body of request() up to the with-defaults branch, in source order *)
Definition body_steps (c : call) : list step :=
  match c with
  | CGet flt _ => fail_opt flt
  | CGetConfig src flt _ => ds_steps src ++ fail_opt flt
  | CEditConfig tgt dop top eop fmt cfg url_ok =>
      ds_steps tgt
      ++ enum_steps dop DEFAULT_OPS (fun _ => [])
      ++ enum_steps top TEST_OPTS (fun t => SAssert s_k_validate ::
                                            (if beq t s_test_only then [SAssert s_k_validate11] else []))
      ++ enum_steps eop ERROR_OPTS (fun e => if beq e s_rollback_on_error then [SAssert s_k_rollback] else [])
      ++ (if beq fmt s_f_xml then fail_opt cfg
          else if beq fmt s_f_text then fail_opt cfg
          else if beq fmt s_f_url then
                 (if url_ok then SAssert s_k_url :: fail_opt cfg else [SFail OperationError])
          else [])
  | CDeleteConfig tgt => ds_steps tgt
  | CCopyConfig tgt src => ds_steps tgt ++ src_steps src
  | CValidate src => src_steps src
  | CCommit v confirmed _ _ pid pre post =>
      fail_opt pre ++ commit_checks v confirmed pid ++ fail_opt post
  | CCancelCommit body => fail_opt body
  | CDiscardChanges => []
  | CCreateSubscription body => fail_opt body
  | CPoweroff => []
  | CReboot => []
  | CDispatch cmd src flt => fail_opt cmd ++ ods_steps src ++ fail_opt flt
  | CRpc cmd tgt src flt cfg => fail_opt cmd ++ ods_steps tgt ++ ods_steps src ++ fail_opt flt ++ fail_opt cfg
  | CUngated body => fail_opt body
  end.

(* the with_defaults argument (already normalised), for the two calls that have one *)
Definition wd_of (c : call) : option bytes :=
  match c with CGet _ wd => wd | CGetConfig _ _ wd => wd | _ => None end.

(* with-defaults is the last thing Get/GetConfig do before sending *)
Definition steps_of (c : call) : list step := body_steps c ++ wd_steps (wd_of c).

(* Manager.execute(cls, …): construct, request, send *)
Definition perform (s : sess) (c : call) : list event * outcome :=
  match construct s (class_deps c) with
  | (tr, Some e) => (tr, Exn e)
  | (tr, None) =>
      match run_steps s (steps_of c) with
      | (tr', Some e) => (tr ++ tr', Exn e)
      | (tr', None) => (tr ++ tr' ++ [EvSend], Sent)
      end
  end.

(* ---------------- order of calls: the object is built before / after the <hello> exchange ---------------- *)
(* `Session.__init__` sets `_server_capabilities = None # yet`; `_post_connect` stores the server's capabilities.  The
   operation classes are public: an application may build `Commit(session, device_handler)` on a session it connects
   afterwards.  [None] = the object is built while `session.server_capabilities is None`: the first `_assert` of the
   DEPENDS loop evaluates `capability not in None`, a TypeError (`except AttributeError` does not catch it) raised before
   the registration; with an empty DEPENDS the loop body never runs and the object is built and registered.
   [Some s0] = built on a session whose capabilities are s0.  request() then runs on the connected session [s]. *)
Definition construct_at (s0 : option sess) (deps : list bytes) : list event * option exn :=
  match s0 with
  | Some s => construct s deps
  | None => match deps with [] => ([EvRegister], None) | _ :: _ => ([], Some TypeError) end
  end.

Definition perform_prog_at (s0 : option sess) (s : sess) (deps : list bytes) (prog : list step) : list event * outcome :=
  match construct_at s0 deps with
  | (tr, Some e) => (tr, Exn e)
  | (tr, None) =>
      match run_steps s prog with
      | (tr', Some e) => (tr ++ tr', Exn e)
      | (tr', None) => (tr ++ tr' ++ [EvSend], Sent)
      end
  end.

Definition perform_at (s0 : option sess) (s : sess) (c : call) : list event * outcome :=
  perform_prog_at s0 s (class_deps c) (steps_of c).

(* ---------------- what a sent request carries ---------------- *)
(* the capability-dependent constructs request() puts into the element it hands to _request — the same branches of
   the same functions as [body_steps], read for their `sub_ele` / `new_ele` calls instead of their `_assert` calls *)
Inductive wire : Type :=
| WCommit            (* <commit> / junos <commit-configuration> *)
| WConfirmed         (* <confirmed/> *)
| WConfirmTimeout    (* <confirm-timeout> *)
| WPersist           (* <persist> *)
| WPersistId         (* <persist-id> inside <commit> *)
| WCancelCommit      (* <cancel-commit> *)
| WDiscardChanges    (* <discard-changes> *)
| WValidate          (* <validate> *)
| WTestOption        (* <test-option> *)
| WTestOnly          (* <test-option>test-only *)
| WRollbackOnError   (* <error-option>rollback-on-error *)
| WUrl               (* <url> under <source>/<target>, or under <edit-config> *)
| WWithDefaults      (* <with-defaults> *)
| WCreateSubscription.

(* util.datastore_or_url: `sub_ele(node, "url")` when "://" in loc *)
Definition ds_wire (d : dsarg) : list wire :=
  match d with
  | DsStr loc _ => if contains loc s_css then [WUrl] else []
  | DsBad _ => []
  end.
Definition ods_wire (o : option dsarg) : list wire := match o with None => [] | Some d => ds_wire d end.
Definition src_wire (s : srcarg) : list wire := match s with SrcDs d => ds_wire d | SrcInline _ => [] end.

(* Commit.request: `if confirmed:` <confirmed/>, `if timeout is not None:` <confirm-timeout>, `if persist is not None:`
   <persist> (all three inside `if confirmed:`); `if persist_id:` <persist-id> *)
Definition commit_wire (v : vendor) (confirmed tmo per pid : bool) : list wire :=
  (if confirmed
   then WConfirmed :: (if tmo then [WConfirmTimeout] else []) ++ (if has_per v per then [WPersist] else [])
   else [])
  ++ (if has_pid v pid then [WPersistId] else []).

Definition wire_of (c : call) : list wire :=
  match c with
  | CGet _ wd => match wd with None => [] | Some _ => [WWithDefaults] end
  | CGetConfig src _ wd => ds_wire src ++ match wd with None => [] | Some _ => [WWithDefaults] end
  | CEditConfig tgt _ top eop fmt _ _ =>
      ds_wire tgt
      ++ match top with
         | None => []
         | Some t => WTestOption :: (if beq t s_test_only then [WTestOnly] else [])
         end
      ++ match eop with
         | None => []
         | Some e => if beq e s_rollback_on_error then [WRollbackOnError] else []
         end
      ++ (if beq fmt s_f_url then [WUrl] else [])
  | CDeleteConfig tgt => ds_wire tgt
  | CCopyConfig tgt src => ds_wire tgt ++ src_wire src
  | CValidate src => WValidate :: src_wire src
  | CCommit v confirmed tmo per pid _ _ => WCommit :: commit_wire v confirmed tmo per pid
  | CCancelCommit _ => [WCancelCommit]
  | CDiscardChanges => [WDiscardChanges]
  | CCreateSubscription _ => [WCreateSubscription]
  | CPoweroff => []
  | CReboot => []
  | CDispatch _ src _ => ods_wire src
  | CRpc _ tgt src _ _ => ods_wire tgt ++ ods_wire src
  | CUngated _ => []
  end.
