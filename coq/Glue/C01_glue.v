(* Glue/C01_glue.v — runner entry for C01 (see Glue/FramingGlue.v for the protocol of functions 1-9).
     fn 20 [world; VB stream; VL [VL [VN len ...] ...]] : the byte-level driver of a Junos use_filter session
           (Model/JunosParse.v, instance Model/JunosSax.v) read by read - function 4 of Glue/C18_glue.v, same
           encodings: C01 runs its message / segmentation families through it (the C01_handover theorems). *)
From NC Require Import Model.Base Glue.FramingGlue Glue.C18_glue.
Definition run (v : val) : val :=
  match v with
  | VL [VN 20; w; VB stream; VL cutsets] =>
      let wd := dec_world w in VL (map (fun c => run_driver wd stream (dec_lens c)) cutsets)
  | _ => framing_run v
  end.
