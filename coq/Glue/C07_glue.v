(* Glue/C07_glue.v — entry point of the extracted runner for C07.
   run (VL [VN 1; profile; VB mid; call]) -> VL [VN 0; tree] | VL [VN 1; VN exn_code]
   run (VL [VN 2; VB s]) -> VB (escape_text s)     run (VL [VN 3; VB s]) -> VB (escape_attr s)
   run (VL [VN 4; VB s]) -> VB (unescape s)        run (VL [VN 5; VB s]) -> xml_chars_ok s
     tree    : VL [VN 0; VB ns; VB local; VL [VL [VB ans; VB alocal; VB value]...]; VL [tree...]] | VL [VN 1; VB text]
     profile : VL [VN 0|1 (prefixed|default namespace); VN iosxe]
     optstr  : VL [] | VL [VB s]        dsarg/optds/optexn: as in C09_glue
     filt    : VL [VN 0; tree] | VL [VN 1; VB select] | VL [VN 2; VL trees] | VL [VN 3; tree] | VL [VN 4; VN code]
     cfgarg  : VL [VN 0; tree] | VL [VN 1; VB s] | VL [VN 2; VB s; VN ok] | VL [VN 3] | VL [VN 4; VN code]
     isrc    : VL [VN 0; dsarg] | VL [VN 1; tree] | VL [VN 2; VN code]
     cmdarg  : VL [VN 0; VB name; VN lx] | VL [VN 1; tree]
     call    : VL [VN tag; fields...] in constructor order of Builders.opcall (tags 0..18)
   run (VL [VN 8; scope; dtree]) -> VL [decls...]   own declarations of every element of (NsScope.place scope dtree), document order
     binding : VL [VB prefix; VB uri]    scope, decls : VL [binding...] (innermost first)    dtree : VL [decls; VL [dtree...]]
   run (VL [VN 10; profile; VB mid; call]) -> VL [VL [tree...]; VL [VN hole...]; VN nvalues]   the carries tables of Spec/CarriesBase.v:
        the request [wrap (fill (values c) (template p (erase c)))], the holes of the template, the number of values
   run (VL [VN 11; VB mid; vcall])         -> the same for the vendor classes (Spec/CarriesVendor.v)
   run (VL [VN 13; sess; VL [call...]]) -> VL [outcome...]   CallHistory.history: the calls of Gating (C09_glue encodings) one after the other on ONE session
   run (VL [VN 12; VN iosxe; tree]) -> tree     Builders.transform_edit_config (the profile's hook) on an ARBITRARY tree
   (entry point 9 is unused; the carries tables were renumbered 8 -> 10, 9 -> 11 when merged with the NsScope entry point 8) *)
From NC Require Import Model.Base Model.Xml Model.Escape Model.Gating Model.Builders Glue.C09_glue.
From NC Require Import Model.VendorBuilders.
From NC Require Import Model.NsScope.
From NC Require Import Model.CallHistory.
From NC Require Import Spec.Template Spec.CarriesBase Spec.CarriesVendor.
From Coq Require Import ZArith.

Definition d_attr (v : val) : qname * bytes :=
  match v with VL [VB ns; VB l; VB x] => (qn ns l, x) | _ => (qn [] [], []) end.

Fixpoint d_tree (v : val) : tree :=
  match v with
  | VL [VN 0; VB ns; VB l; VL attrs; VL cs] => Elem (qn ns l) (map d_attr attrs) (map d_tree cs)
  | VL [VN 1; VB s] => Text s
  | _ => Text []
  end.

Fixpoint e_tree (t : tree) : val :=
  match t with
  | Elem q a cs => VL [VN 0; VB (q_ns q); VB (q_local q);
                       VL (map (fun kv => VL [VB (q_ns (fst kv)); VB (q_local (fst kv)); VB (snd kv)]) a);
                       VL (map e_tree cs)]
  | Text s => VL [VN 1; VB s]
  end.

Definition d_trees (v : val) : list tree := match v with VL l => map d_tree l | _ => [] end.

Definition d_exn (c : N) : exn := match exn_of c with Some e => e | None => Internal end.

Definition d_filt (v : val) : option filt :=
  match v with
  | VL [VN 0; t] => Some (FSubtree (d_tree t))
  | VL [VN 1; VB s] => Some (FXpath s)
  | VL [VN 2; ts] => Some (FList (d_trees ts))
  | VL [VN 3; t] => Some (FRaw (d_tree t))
  | VL [VN 4; VN c] => Some (FBad (d_exn c))
  | _ => None
  end.
Definition d_optfilt (v : val) : option (option filt) :=
  match v with
  | VL [] => Some None
  | VL [x] => match d_filt x with Some f => Some (Some f) | None => None end
  | _ => None
  end.
Definition d_cfg (v : val) : option cfgarg :=
  match v with
  | VL [VN 0; t] => Some (CfgXml (d_tree t))
  | VL [VN 1; VB s] => Some (CfgText s)
  | VL [VN 2; VB s; ok] => match d_bool ok with Some b => Some (CfgUrl s b) | None => None end
  | VL [VN 3] => Some CfgOther
  | VL [VN 4; VN c] => Some (CfgBad (d_exn c))
  | _ => None
  end.
Definition d_optcfg (v : val) : option (option cfgarg) :=
  match v with
  | VL [] => Some None
  | VL [x] => match d_cfg x with Some f => Some (Some f) | None => None end
  | _ => None
  end.
Definition d_isrc (v : val) : option isrc :=
  match v with
  | VL [VN 0; d] => match d_ds d with Some x => Some (ISds x) | None => None end
  | VL [VN 1; t] => Some (ISinline (d_tree t))
  | VL [VN 2; VN c] => Some (ISbad (d_exn c))
  | _ => None
  end.
Definition d_cmd (v : val) : option cmdarg :=
  match v with
  | VL [VN 0; VB n; lx] => match d_bool lx with Some b => Some (CmdName n b) | None => None end
  | VL [VN 1; t] => Some (CmdTree (d_tree t))
  | _ => None
  end.
Definition d_profile (v : val) : option profile :=
  match v with
  | VL [VN 0; x] => match d_bool x with Some b => Some {| p_ns := Prefixed; p_iosxe := b |} | None => None end
  | VL [VN 1; x] => match d_bool x with Some b => Some {| p_ns := DefaultNs; p_iosxe := b |} | None => None end
  | _ => None
  end.

Notation "'do' x <- e ; k" := (match e with Some x => k | None => None end)
  (at level 200, x pattern, e at level 100, k at level 200).

Definition d_opcall (v : val) : option opcall :=
  match v with
  | VL [VN 0; f; w] => do f' <- d_optfilt f; do w' <- d_optstr w; Some (OGet f' w')
  | VL [VN 1; s; f; w] => do s' <- d_ds s; do f' <- d_optfilt f; do w' <- d_optstr w; Some (OGetConfig s' f' w')
  | VL [VN 2; t; a; b; c; cfg] =>
      do t' <- d_ds t; do a' <- d_optstr a; do b' <- d_optstr b; do c' <- d_optstr c; do cfg' <- d_cfg cfg;
      Some (OEditConfig t' a' b' c' cfg')
  | VL [VN 3; t; s] => do t' <- d_ds t; do s' <- d_isrc s; Some (OCopyConfig t' s')
  | VL [VN 4; t] => do t' <- d_ds t; Some (ODeleteConfig t')
  | VL [VN 5; VB t; lx] => do b <- d_bool lx; Some (OLock t b)
  | VL [VN 6; VB t; lx] => do b <- d_bool lx; Some (OUnlock t b)
  | VL [VN 7; s] => do s' <- d_isrc s; Some (OValidate s')
  | VL [VN 8; cf; t; p; pid] =>
      do cf' <- d_bool cf; do t' <- d_optstr t; do p' <- d_optstr p; do pid' <- d_optstr pid; Some (OCommit cf' t' p' pid')
  | VL [VN 9; pid] => do pid' <- d_optstr pid; Some (OCancelCommit pid')
  | VL [VN 10] => Some ODiscardChanges
  | VL [VN 11] => Some OCloseSession
  | VL [VN 12; VB sid] => Some (OKillSession sid)
  | VL [VN 13; f; a; b; c] =>
      do f' <- d_optfilt f; do a' <- d_optstr a; do b' <- d_optstr b; do c' <- d_optstr c; Some (OCreateSubscription f' a' b' c')
  | VL [VN 14; VB i; a; b] => do a' <- d_optstr a; do b' <- d_optstr b; Some (OGetSchema i a' b')
  | VL [VN 15; cmd; s; f] => do cmd' <- d_cmd cmd; do s' <- d_optds s; do f' <- d_optfilt f; Some (ODispatch cmd' s' f')
  | VL [VN 16; cmd; t; s; f; cfg] =>
      do cmd' <- d_cmd cmd; do t' <- d_optds t; do s' <- d_optds s; do f' <- d_optfilt f; do cfg' <- d_optcfg cfg;
      Some (ORpc cmd' t' s' f' cfg')
  | VL [VN 17] => Some OPoweroff
  | VL [VN 18] => Some OReboot
  | _ => None
  end.

(* ---------------- vendor operation classes (Model/VendorBuilders.v) ----------------
   run (VL [VN 6; VB mid; vcall])            -> VL [VN 0; tree] | VL [VN 1; VN exn_code] | VL [VN 2] (nothing sent, nothing raised)
   run (VL [VN 7; VN mode; VB mid; vcall])   -> the same under envelope style mode (0 prefixed | 1 default namespace)
     docarg  : VL [VN 0; tree] | VL [VN 1; VN code]       elarg : VL [VN 0; tree] | VL [VN 1; VB s]
     jcfg    : VL [] | VL [VN 0; elarg] | VL [VN 1; VL [VB…]]
     timeout : VL [] | VL [VN 1; VN negative; VN abs] | VL [VN 2]
     afilter : VL [VN 0; docarg] | VL [VN 1; VL [VB…]]    cmdsarg : VL [VN 0; VB s] | VL [VN 1; VL [VB…]]
     vcall   : VL [VN tag; fields…] in constructor order of VendorBuilders.vcall (tags 0..29) *)
Definition d_doc (v : val) : option docarg :=
  match v with
  | VL [VN 0; t] => Some (DocTree (d_tree t))
  | VL [VN 1; VN c] => Some (DocBad (d_exn c))
  | _ => None
  end.
Definition d_el (v : val) : option elarg :=
  match v with
  | VL [VN 0; t] => Some (EElem (d_tree t))
  | VL [VN 1; VB s] => Some (EStr s)
  | _ => None
  end.
Definition d_optel (v : val) : option (option elarg) :=
  match v with
  | VL [] => Some None
  | VL [x] => match d_el x with Some e => Some (Some e) | None => None end
  | _ => None
  end.
Definition d_jcfg (v : val) : option jcfg :=
  match v with
  | VL [] => Some JNone
  | VL [VN 0; x] => match d_el x with Some e => Some (JOne e) | None => None end
  | VL [VN 1; l] => Some (JList (unVBs l))
  | _ => None
  end.
Definition d_timeout (v : val) : option jtimeout :=
  match v with
  | VL [] => Some TNone
  | VL [VN 1; VN sg; VN a] => Some (TInt (if N.eqb sg 0 then Z.of_N a else Z.opp (Z.of_N a)))
  | VL [VN 2] => Some TBad
  | _ => None
  end.
Definition d_optafilter (v : val) : option (option afilter) :=
  match v with
  | VL [] => Some None
  | VL [VL [VN 0; x]] => match d_doc x with Some d => Some (Some (AFDoc d)) | None => None end
  | VL [VL [VN 1; l]] => Some (Some (AFItems (unVBs l)))
  | _ => None
  end.
Definition d_cmds (v : val) : option cmdsarg :=
  match v with
  | VL [VN 0; VB s] => Some (CmStr s)
  | VL [VN 1; l] => Some (CmList (unVBs l))
  | _ => None
  end.

Definition d_vcall (v : val) : option vcall :=
  match v with
  | VL [VN 0; c; VB f] => do c' <- d_optstr c; Some (VJCommand c' f)
  | VL [VN 1; VB f; x] => do x' <- d_optel x; Some (VJGetConfiguration f x')
  | VL [VN 2; VB f; VB a; c] => do c' <- d_jcfg c; Some (VJLoadConfiguration f a c')
  | VL [VN 3; VB r; VB f] => Some (VJCompareConfiguration r f)
  | VL [VN 4; x] => do x' <- d_doc x; Some (VJExecuteRpc x')
  | VL [VN 5] => Some VJReboot
  | VL [VN 6] => Some VJHalt
  | VL [VN 7; cf; t; cm; sy; att; ck] =>
      do cf' <- d_bool cf; do t' <- d_timeout t; do cm' <- d_optstr cm; do sy' <- d_bool sy; do att' <- d_optstr att;
      do ck' <- d_bool ck; Some (VJCommit cf' t' cm' sy' att' ck')
  | VL [VN 8; VB r] => Some (VJRollback r)
  | VL [VN 9; c] => do c' <- d_optstr c; Some (VSMdCliRawCommand c')
  | VL [VN 10; cf; t; p; pid; cm; nb] =>
      do cf' <- d_bool cf; do t' <- d_optstr t; do p' <- d_optstr p; do pid' <- d_optstr pid; do cm' <- d_optstr cm;
      do nb' <- d_bool nb; Some (VSCommit cf' t' p' pid' cm' nb')
  | VL [VN 11; c] => do c' <- d_optstr c; Some (VAShowCli c')
  | VL [VN 12; VB ct; f; dt] => do f' <- d_optafilter f; do dt' <- d_bool dt; Some (VAGetConfiguration ct f' dt')
  | VL [VN 13; VB f; dop; t; c] =>
      do dop' <- d_optstr dop; do t' <- d_ds t; do c' <- d_optel c; Some (VALoadConfiguration f dop' t' c')
  | VL [VN 14; f] => do f' <- d_optfilt f; Some (VHGetBulk f')
  | VL [VN 15; s; f] => do s' <- d_ds s; do f' <- d_optfilt f; Some (VHGetBulkConfig s' f')
  | VL [VN 16; x] => do x' <- d_doc x; Some (VHCli x')
  | VL [VN 17; x] => do x' <- d_doc x; Some (VHAction x')
  | VL [VN 18; f] => do f' <- d_optstr f; Some (VHSave f')
  | VL [VN 19; f] => do f' <- d_optstr f; Some (VHLoad f')
  | VL [VN 20; f] => do f' <- d_optstr f; Some (VHRollback f')
  | VL [VN 21; c] => do c' <- d_cmds c; Some (VPDisplayCommand c')
  | VL [VN 22; c] => do c' <- d_cmds c; Some (VPConfigCommand c')
  | VL [VN 23; x] => do x' <- d_doc x; Some (VPAction x')
  | VL [VN 24; f] => do f' <- d_optstr f; Some (VPSave f')
  | VL [VN 25; f] => do f' <- d_optstr f; Some (VPRollback f')
  | VL [VN 26; x] => do x' <- d_doc x; Some (VWCli x')
  | VL [VN 27; x] => do x' <- d_doc x; Some (VWAction x')
  | VL [VN 28] => Some VXSaveConfig
  | VL [VN 29; l] => Some (VNExecCommand (unVBs l))
  | _ => None
  end.

Definition e_vres (r : vres) : val :=
  match r with
  | VBuilt t => VL [VN 0; e_tree t]
  | VRefused e => VL [VN 1; VN (exn_code e)]
  | VNothing => VL [VN 2]
  end.

Definition d_binding (v : val) : binding := match v with VL [VB p; VB u] => (p, u) | _ => ([], []) end.
Definition d_bindings (v : val) : list binding := match v with VL l => map d_binding l | _ => [] end.
Fixpoint d_dtree (v : val) : dtree :=
  match v with
  | VL [d; VL kids] => DNode (d_bindings d) (map d_dtree kids)
  | _ => DNode [] []
  end.
Definition e_bindings (d : list binding) : val := VL (map (fun b => VL [VB (fst b); VB (snd b)]) d).
Definition e_nat (n : nat) : val := VN (N.of_nat n).

Fixpoint d_gcalls (vs : list val) : option (list Gating.call) :=
  match vs with
  | [] => Some []
  | v :: r => match C09_glue.d_call v, d_gcalls r with Some c, Some cs => Some (c :: cs) | _, _ => None end
  end.

Definition run (v : val) : val :=
  match v with
  | VL [VN 13; s; VL cs] =>
      match C09_glue.d_sess s, d_gcalls cs with
      | Some s', Some cs' => VL (map (fun r => C09_glue.e_outcome (snd r)) (fst (history s' cs')))
      | _, _ => verr 1
      end
  | VL [VN 1; p; VB mid; c] =>
      match d_profile p, d_opcall c with
      | Some p', Some c' =>
          match build p' mid c' with
          | Built t => VL [VN 0; e_tree t]
          | Refused e => VL [VN 1; VN (exn_code e)]
          end
      | _, _ => verr 1
      end
  | VL [VN 2; VB s] => VB (escape_text s)
  | VL [VN 3; VB s] => VB (escape_attr s)
  | VL [VN 4; VB s] => VB (unescape s)
  | VL [VN 5; VB s] => vbool (xml_chars_ok s)
  | VL [VN 6; VB mid; c] =>
      match d_vcall c with Some c' => e_vres (vbuild mid c') | None => verr 1 end
  | VL [VN 10; p; VB mid; c] =>
      match d_profile p, d_opcall c with
      | Some p', Some c' =>
          let t := template p' (erase c') in
          VL [VL (map (fun op => e_tree (wrap p' mid op)) (fill (values c') t)); VL (map e_nat (holes t)); e_nat (length (values c'))]
      | _, _ => verr 1
      end
  | VL [VN 11; VB mid; c] =>
      match d_vcall c with
      | Some c' =>
          let t := vtemplate (verase c') in
          VL [VL (map (fun op => e_tree (vwrap (vmode (vcall_prof c')) mid op)) (fill (vvalues c') t)); VL (map e_nat (holes t));
              e_nat (length (vvalues c'))]
      | None => verr 1
      end
  | VL [VN 7; VN m; VB mid; c] =>
      match d_vcall c with
      | Some c' => e_vres (vbuild_under (if N.eqb m 0 then Prefixed else DefaultNs) mid c')
      | None => verr 1
      end
  | VL [VN 12; VN x; t] => e_tree (transform_edit_config {| p_ns := Prefixed; p_iosxe := negb (N.eqb x 0) |} (d_tree t))
  | VL [VN 8; sc; t] => VL (map e_bindings (decls_preorder (place (d_bindings sc) (d_dtree t))))
  | _ => verr 1
  end.
