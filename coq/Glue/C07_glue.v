(* Glue/C07_glue.v — entry point of the extracted runner for C07.
   run (VL [VN 1; profile; VB mid; call]) -> VL [VN 0; tree] | VL [VN 1; VN exn_code]
   run (VL [VN 2; VB s]) -> VB (escape_text s)     run (VL [VN 3; VB s]) -> VB (escape_attr s)
   run (VL [VN 4; VB s]) -> VB (unescape s)        run (VL [VN 5; VB s]) -> xml_chars_ok s
     tree    : VL [VN 0; VB ns; VB local; VL [VL [VB ans; VB alocal; VB value]...]; VL [tree...]] | VL [VN 1; VB text]
     profile : VL [VN 0|1 (prefixed|default namespace); VN iosxe]
     optstr  : VL [] | VL [VB s]        dsarg/optds/optexn: as in C09_glue
     filt    : VL [VN 0; tree] | VL [VN 1; VB select] | VL [VN 2; VL trees] | VL [VN 3; tree] | VL [VN 4; VN code]
     cfgarg  : VL [VN 0; tree] | VL [VN 1; VB s] | VL [VN 2; VB s; VN ok] | VL [VN 3] | VL [VN 4; VN code]
     isrc    : VL [VN 0; dsarg] | VL [VN 1; tree] | VL [VN 2; VN code]
     cmdarg  : VL [VN 0; VB name; VN lx] | VL [VN 1; tree]
     call    : VL [VN tag; fields...] in constructor order of Builders.opcall (tags 0..18) *)
From NC Require Import Model.Base Model.Xml Model.Escape Model.Gating Model.Builders Glue.C09_glue.

Definition d_attr (v : val) : qname * bytes :=
  match v with VL [VB ns; VB l; VB x] => (qn ns l, x) | _ => (qn [] [], []) end.

Fixpoint d_tree (v : val) : tree :=
  match v with
  | VL [VN 0; VB ns; VB l; VL attrs; VL cs] => Elem (qn ns l) (map d_attr attrs) (map d_tree cs)
  | VL [VN 1; VB s] => Text s
  | _ => Text []
  end.

Fixpoint e_tree (t : tree) : val :=
  match t with
  | Elem q a cs => VL [VN 0; VB (q_ns q); VB (q_local q);
                       VL (map (fun kv => VL [VB (q_ns (fst kv)); VB (q_local (fst kv)); VB (snd kv)]) a);
                       VL (map e_tree cs)]
  | Text s => VL [VN 1; VB s]
  end.

Definition d_trees (v : val) : list tree := match v with VL l => map d_tree l | _ => [] end.

Definition d_exn (c : N) : exn := match exn_of c with Some e => e | None => Internal end.

Definition d_filt (v : val) : option filt :=
  match v with
  | VL [VN 0; t] => Some (FSubtree (d_tree t))
  | VL [VN 1; VB s] => Some (FXpath s)
  | VL [VN 2; ts] => Some (FList (d_trees ts))
  | VL [VN 3; t] => Some (FRaw (d_tree t))
  | VL [VN 4; VN c] => Some (FBad (d_exn c))
  | _ => None
  end.
Definition d_optfilt (v : val) : option (option filt) :=
  match v with
  | VL [] => Some None
  | VL [x] => match d_filt x with Some f => Some (Some f) | None => None end
  | _ => None
  end.
Definition d_cfg (v : val) : option cfgarg :=
  match v with
  | VL [VN 0; t] => Some (CfgXml (d_tree t))
  | VL [VN 1; VB s] => Some (CfgText s)
  | VL [VN 2; VB s; ok] => match d_bool ok with Some b => Some (CfgUrl s b) | None => None end
  | VL [VN 3] => Some CfgOther
  | VL [VN 4; VN c] => Some (CfgBad (d_exn c))
  | _ => None
  end.
Definition d_optcfg (v : val) : option (option cfgarg) :=
  match v with
  | VL [] => Some None
  | VL [x] => match d_cfg x with Some f => Some (Some f) | None => None end
  | _ => None
  end.
Definition d_isrc (v : val) : option isrc :=
  match v with
  | VL [VN 0; d] => match d_ds d with Some x => Some (ISds x) | None => None end
  | VL [VN 1; t] => Some (ISinline (d_tree t))
  | VL [VN 2; VN c] => Some (ISbad (d_exn c))
  | _ => None
  end.
Definition d_cmd (v : val) : option cmdarg :=
  match v with
  | VL [VN 0; VB n; lx] => match d_bool lx with Some b => Some (CmdName n b) | None => None end
  | VL [VN 1; t] => Some (CmdTree (d_tree t))
  | _ => None
  end.
Definition d_profile (v : val) : option profile :=
  match v with
  | VL [VN 0; x] => match d_bool x with Some b => Some {| p_ns := Prefixed; p_iosxe := b |} | None => None end
  | VL [VN 1; x] => match d_bool x with Some b => Some {| p_ns := DefaultNs; p_iosxe := b |} | None => None end
  | _ => None
  end.

Notation "'do' x <- e ; k" := (match e with Some x => k | None => None end)
  (at level 200, x pattern, e at level 100, k at level 200).

Definition d_opcall (v : val) : option opcall :=
  match v with
  | VL [VN 0; f; w] => do f' <- d_optfilt f; do w' <- d_optstr w; Some (OGet f' w')
  | VL [VN 1; s; f; w] => do s' <- d_ds s; do f' <- d_optfilt f; do w' <- d_optstr w; Some (OGetConfig s' f' w')
  | VL [VN 2; t; a; b; c; cfg] =>
      do t' <- d_ds t; do a' <- d_optstr a; do b' <- d_optstr b; do c' <- d_optstr c; do cfg' <- d_cfg cfg;
      Some (OEditConfig t' a' b' c' cfg')
  | VL [VN 3; t; s] => do t' <- d_ds t; do s' <- d_isrc s; Some (OCopyConfig t' s')
  | VL [VN 4; t] => do t' <- d_ds t; Some (ODeleteConfig t')
  | VL [VN 5; VB t; lx] => do b <- d_bool lx; Some (OLock t b)
  | VL [VN 6; VB t; lx] => do b <- d_bool lx; Some (OUnlock t b)
  | VL [VN 7; s] => do s' <- d_isrc s; Some (OValidate s')
  | VL [VN 8; cf; t; p; pid] =>
      do cf' <- d_bool cf; do t' <- d_optstr t; do p' <- d_optstr p; do pid' <- d_optstr pid; Some (OCommit cf' t' p' pid')
  | VL [VN 9; pid] => do pid' <- d_optstr pid; Some (OCancelCommit pid')
  | VL [VN 10] => Some ODiscardChanges
  | VL [VN 11] => Some OCloseSession
  | VL [VN 12; VB sid] => Some (OKillSession sid)
  | VL [VN 13; f; a; b; c] =>
      do f' <- d_optfilt f; do a' <- d_optstr a; do b' <- d_optstr b; do c' <- d_optstr c; Some (OCreateSubscription f' a' b' c')
  | VL [VN 14; VB i; a; b] => do a' <- d_optstr a; do b' <- d_optstr b; Some (OGetSchema i a' b')
  | VL [VN 15; cmd; s; f] => do cmd' <- d_cmd cmd; do s' <- d_optds s; do f' <- d_optfilt f; Some (ODispatch cmd' s' f')
  | VL [VN 16; cmd; t; s; f; cfg] =>
      do cmd' <- d_cmd cmd; do t' <- d_optds t; do s' <- d_optds s; do f' <- d_optfilt f; do cfg' <- d_optcfg cfg;
      Some (ORpc cmd' t' s' f' cfg')
  | VL [VN 17] => Some OPoweroff
  | VL [VN 18] => Some OReboot
  | _ => None
  end.

Definition run (v : val) : val :=
  match v with
  | VL [VN 1; p; VB mid; c] =>
      match d_profile p, d_opcall c with
      | Some p', Some c' =>
          match build p' mid c' with
          | Built t => VL [VN 0; e_tree t]
          | Refused e => VL [VN 1; VN (exn_code e)]
          end
      | _, _ => verr 1
      end
  | VL [VN 2; VB s] => VB (escape_text s)
  | VL [VN 3; VB s] => VB (escape_attr s)
  | VL [VN 4; VB s] => VB (unescape s)
  | VL [VN 5; VB s] => vbool (xml_chars_ok s)
  | _ => verr 1
  end.
