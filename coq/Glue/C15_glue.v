(* Glue/C15_glue.v — entry point of the extracted runner for C15.
   run (VL [VN 1; cfg; oracle])  -> VL [VL events; VN result; detail]       SSHSession.connect
     detail = VL [VN sel; VN ktype; VN blob] (.host / .fingerprint of SSHUnknownHostError) | VL []
     cfg    = VL [VN verify; VL [VL [VN sel; VN ktype; VN blob]...]; pin; VN user_cb; VN profile_cb;
                  VN key_files; VN allow_agent; VN look_for_keys; VN password; VL [VB subsystem...]; VN exec_fallback]
       sel: 0 "host", 1 "[host]:port", 2 other;  pin: VL [] absent | VL [VN 0] unusable | VL [VN ktype; VN blob]
     oracle = VL [VN kex_ok; VL [VN ktype; VN blob]; cb; VL loads; VN agent_keys; VN default_keys;
                  VL auths; VL opens; VL subs; VN hello_ok]
       cb (the caller's callback as a function of (host name, key whose fingerprint it is shown)):
          VL [VN 0; VN b] constant | VL [VN 1; key] only that fingerprint | VL [VN 2; VN sel] only that host name
          | VL [VN 3; VN sel; key] both
   run (VL [VN 3; VL [VL [cfg; oracle]; ...]]) -> VL [VL [VL events; VN result; detail]; ...]   a history of connects (Auth.ssh_history)
   run (VL [VN 2; tcfg; toracle]) -> VL [VL events; VN result; VL []]      TLSSession.connect
     tcfg   = VL [VN host; VN certfile; VN protocol; VN check_hostname; VN ca_given; VN server_hostname]
     toracle= VL [VN load_cert; VN load_ca; VN connect_ok; VN handshake_ok; VN hello_ok]   (load: 0 ok, 1 SSLError, 2 IOError)
   events: [0] StartClient [1 sel ktype blob] CallbackAsked (host name, key) [2 how sel] HostKeyAccepted (how 0 known_hosts,1 pinned,2 callback)
           [3 kind idx ok] AuthAttempt (kind 0 key file,1 agent,2 default key,3 password) [4] OpenSession
           [5 name] InvokeSubsystem [6] ExecFallback [7] SendHello [8] TlsLoadCert [9] TlsLoadCA [10] TlsConnect
           [11 vr ch sh] Handshake
   result: 0 Ok 1 SSHUnknownHost 2 Authentication 3 SSHError 4 TLSErr 5 Other *)
From NC Require Import Model.Base Model.Auth.

Definition unN (v : val) : N := match v with VN n => n | _ => 0 end.
Definition unB (v : val) : bool := negb (N.eqb (unN v) 0).
Definition unL (v : val) : list val := match v with VL l => l | _ => [] end.
Definition unVB (v : val) : bytes := match v with VB b => b | _ => [] end.
Definition un_nat (v : val) : nat := N.to_nat (unN v).

Definition dec_sel (n : N) : hsel := if N.eqb n 0 then HHost else if N.eqb n 1 then HHostPort else HOther.
Definition dec_entry (v : val) : kh_entry :=
  match v with VL [VN s; VN t; VN b] => (dec_sel s, (t, b)) | _ => (HOther, (0, 0)) end.
Definition dec_key (v : val) : key := match v with VL [VN t; VN b] => (t, b) | _ => (0, 0) end.
Definition dec_pin (v : val) : pin :=
  match v with VL [] => PinAbsent | VL [VN t; VN b] => PinKey (t, b) | _ => PinBad end.
Definition dec_cb (v : val) : hsel -> key -> bool :=
  cb_of_policy
    match v with
    | VL [VN 1; k] => CbOnlyKey (dec_key k)
    | VL [VN 2; VN s] => CbOnlyHost (dec_sel s)
    | VL [VN 3; VN s; k] => CbHostKey (dec_sel s) (dec_key k)
    | VL [VN 0; b] => CbConst (unB b)
    | _ => CbConst false
    end.
Definition dec_load (n : N) : load_res := if N.eqb n 0 then LOk else if N.eqb n 1 then LSSLError else LIOError.

Definition sel_code (s : hsel) : N := match s with HHost => 0 | HHostPort => 1 | HOther => 2 end.
Definition enc_event (e : event) : val :=
  match e with
  | StartClient => VL [VN 0]
  | CallbackAsked s k => VL [VN 1; VN (sel_code s); VN (fst k); VN (snd k)]
  | HostKeyAccepted (ByKnownHosts s) => VL [VN 2; VN 0; VN (sel_code s)]
  | HostKeyAccepted ByPinned => VL [VN 2; VN 1; VN 0]
  | HostKeyAccepted ByCallback => VL [VN 2; VN 2; VN 0]
  | AuthAttempt (MKeyFile i) ok => VL [VN 3; VN 0; VN (N.of_nat i); vbool ok]
  | AuthAttempt (MAgent i) ok => VL [VN 3; VN 1; VN (N.of_nat i); vbool ok]
  | AuthAttempt (MDefaultKey i) ok => VL [VN 3; VN 2; VN (N.of_nat i); vbool ok]
  | AuthAttempt MPassword ok => VL [VN 3; VN 3; VN 0; vbool ok]
  | OpenSession => VL [VN 4]
  | InvokeSubsystem n => VL [VN 5; VB n]
  | ExecFallback => VL [VN 6]
  | SendHello => VL [VN 7]
  | TlsLoadCert => VL [VN 8]
  | TlsLoadCA => VL [VN 9]
  | TlsConnect => VL [VN 10]
  | Handshake a b c => VL [VN 11; vbool a; vbool b; vbool c]
  end.
Definition enc_result (r : result) : val :=
  VN (match r with Ok => 0 | Exn (SSHUnknownHost _ _) => 1 | Exn Authentication => 2 | Exn SSHError => 3
                 | Exn TLSErr => 4 | Exn Other => 5 end).
Definition enc_detail (r : result) : val :=
  match r with Exn (SSHUnknownHost s k) => VL [VN (sel_code s); VN (fst k); VN (snd k)] | _ => VL [] end.
Definition enc_out (tr : trace * result) : val :=
  VL [VL (map enc_event (fst tr)); enc_result (snd tr); enc_detail (snd tr)].

Definition dec_ssh (cfgv orcv : val) : option (ssh_cfg * ssh_oracle) :=
  match cfgv, orcv with
  | VL [ver; kh; pn; ucb; pcb; kf; ag; lk; pw; subs; fb], VL [kex; sk; cb; loads; nag; ndk; auths; opens; sbs; hk] =>
      Some ({| c_verify := unB ver; c_known_hosts := map dec_entry (unL kh); c_pin := dec_pin pn;
           c_user_cb := unB ucb; c_profile_cb := unB pcb; c_key_files := un_nat kf;
           c_allow_agent := unB ag; c_look_for_keys := unB lk; c_password := unB pw;
           c_subsystems := map unVB (unL subs); c_exec_fallback := unB fb |},
            {| o_kex_ok := unB kex; o_server_key := dec_key sk; o_cb := dec_cb cb; o_loads := map unB (unL loads);
           o_agent_keys := un_nat nag; o_default_keys := un_nat ndk; o_auths := map unB (unL auths);
           o_opens := map unB (unL opens); o_subs := map unB (unL sbs); o_hello_ok := unB hk |})
  | _, _ => None
  end.

(* one history step [VL [cfg; oracle]]; the known_hosts content inside cfg is the file's content at that connect *)
Fixpoint dec_steps (l : list val) : option (list (ssh_cfg * ssh_oracle)) :=
  match l with
  | [] => Some []
  | VL [cfgv; orcv] :: r =>
      match dec_ssh cfgv orcv, dec_steps r with
      | Some co, Some cos => Some (co :: cos)
      | _, _ => None
      end
  | _ => None
  end.

Definition run (v : val) : val :=
  match v with
  | VL [VN 1; cfgv; orcv] =>
      match dec_ssh cfgv orcv with
      | Some co => enc_out (ssh_connect (fst co) (snd co))
      | None => verr 1
      end
  | VL [VN 3; VL steps] =>
      match dec_steps steps with
      | Some cos => VL (map enc_out (ssh_history cos))
      | None => verr 1
      end
  | VL [VN 2; VL [h; cf; pr; ch; ca; sh]; VL [lc; lca; cn; hs; hk]] =>
      enc_out (tls_connect
        {| t_host_given := unB h; t_certfile_given := unB cf; t_protocol_given := unB pr;
           t_check_hostname := unB ch; t_ca_given := unB ca; t_server_hostname := unB sh |}
        {| to_load_cert := dec_load (unN lc); to_load_ca := dec_load (unN lca); to_connect_ok := unB cn;
           to_handshake_ok := unB hs; to_hello_ok := unB hk |})
  | _ => verr 1
  end.
