(* Glue/HIST_glue.v — runner entry for the session-object histories (Model/SessionHist.v), used by the C04 check
   (tools/harness/real_hist.py).
   run (VL [VN kind; VL steps])   kind: 0 ssh | 1 tls | 2 unix;  step: 0 HFailEarly | 1 HFailAuthd | 2 HClose | 3 HMgrClose
   -> VL [ VL [flags after each step]; flags after the successful connect;
           VL [VN connected; VN pc_code] of the LTS after the worker alone processed a peer close of the idle session ]
   flags = VL [VN closing; VN connected]

   Model/SessionEnd.v (tools/harness/real_apps.py, real_later.py):
   run (VL [VN 10; VL snapshot; VL live0])      listener = VL [VN id; VN role (0 reply | 1 notification | 2 application);
                                                               VL removes; VL adds; VN raises]
   -> VL [VL visited; VL caught; VL live; VL visited by the variant with one try around the loop]
   run (VL [VN 11; VL caps; VN sid; VN closes; VL [VL needs ...]])
   -> VL [VL [VN connected; VN caps known; VN id known]; VL [outcome of each call: 0 sent | 1 refused | 2 missing | 3 other]]
   run (VL [VN 12; VL caps; VN sid; VN style (0 keep | 1 guarded drop | 2 drop); VN lost (0 live | 1 after the thread's close());
            VL [op ...]])      op = VN 0 close | VN 1 close_session | VL [VN 2; body] with-block, body = VN 0 pass | VN 1 raise | VL needs
                                    | VL [VN 3; VL needs] request
   -> VL [VL [outcome code of each operation]; VL [VN connected; VN handle]] *)
From NC Require Import Model.Base Model.SessionLTS Model.SessionHist Model.SessionEnd.

Definition dec_kind (v : val) : option tkind :=
  match v with VN 0 => Some KSsh | VN 1 => Some KTls | VN 2 => Some KUnix | _ => None end.
Definition dec_step (v : val) : option hstep :=
  match v with VN 0 => Some HFailEarly | VN 1 => Some HFailAuthd | VN 2 => Some HClose | VN 3 => Some HMgrClose | _ => None end.
Fixpoint dec_steps (l : list val) : option (list hstep) :=
  match l with
  | [] => Some []
  | v :: l' => match dec_step v, dec_steps l' with Some x, Some xs => Some (x :: xs) | _, _ => None end
  end.
Definition enc_flags (o : obj) : val := VL [vbool (o_closing o); vbool (o_connected o)].
Definition pc_code (p : wpc) : N :=
  match p with
  | WIdle => 0 | WNotif _ => 1 | WLookup _ => 2 | WDeliver _ _ => 3 | WDel _ => 4 | WRaise _ => 5
  | WErrSnap _ => 6 | WErrClear _ _ => 7 | WErrDeliver _ _ => 8 | WClosed => 9 | WExited => 10
  end.

Fixpoint dec_ns (l : list val) : option (list N) :=
  match l with
  | [] => Some []
  | VN n :: l' => match dec_ns l' with Some ns => Some (n :: ns) | None => None end
  | _ => None
  end.
Definition dec_role (v : val) : option lrole :=
  match v with VN 0 => Some RReply | VN 1 => Some RNotif | VN 2 => Some RApp | _ => None end.
Definition dec_lsn (v : val) : option lsn :=
  match v with
  | VL [VN i; r; VL rm; VL ad; VN ra] =>
      match dec_role r, dec_ns rm, dec_ns ad with
      | Some r, Some rm, Some ad => Some {| l_id := i; l_role := r; l_removes := rm; l_adds := ad; l_raises := negb (N.eqb ra 0) |}
      | _, _, _ => None
      end
  | _ => None
  end.
Fixpoint dec_lsns (l : list val) : option (list lsn) :=
  match l with
  | [] => Some []
  | v :: l' => match dec_lsn v, dec_lsns l' with Some x, Some xs => Some (x :: xs) | _, _ => None end
  end.
Fixpoint dec_needs (l : list val) : option (list (list N)) :=
  match l with
  | [] => Some []
  | VL ns :: l' => match dec_ns ns, dec_needs l' with Some x, Some xs => Some (x :: xs) | _, _ => None end
  | _ => None
  end.
Definition enc_ns (l : list N) : val := VL (map VN l).
Definition is_some {A} (o : option A) : bool := match o with Some _ => true | None => false end.

Definition dec_style (v : val) : option cstyle :=
  match v with VN 0 => Some CKeep | VN 1 => Some CGuardDrop | VN 2 => Some CDrop | _ => None end.
Definition dec_cop (v : val) : option cop :=
  match v with
  | VN 0 => Some OClose
  | VN 1 => Some OCloseSession
  | VL [VN 2; VN 0] => Some (OWith BPass)
  | VL [VN 2; VN 1] => Some (OWith BRaise)
  | VL [VN 2; VL needs] => match dec_ns needs with Some ns => Some (OWith (BReq ns)) | None => None end
  | VL [VN 3; VL needs] => match dec_ns needs with Some ns => Some (OReq ns) | None => None end
  | _ => None
  end.
Fixpoint dec_cops (l : list val) : option (list cop) :=
  match l with
  | [] => Some []
  | v :: l' => match dec_cop v, dec_cops l' with Some x, Some xs => Some (x :: xs) | _, _ => None end
  end.

Definition run (v : val) : val :=
  match v with
  | VL [VN 10; VL snap; VL live0] =>
      match dec_lsns snap, dec_ns live0 with
      | Some snap, Some live0 =>
          let b := dispatch_error snap live0 in
          VL [enc_ns (visited b); enc_ns (caught b); enc_ns (live b); enc_ns (visited (dispatch_error_outer snap live0))]
      | _, _ => verr 3
      end
  | VL [VN 11; VL caps; VN sid; VN n; VL calls] =>
      match dec_ns caps, dec_needs calls with
      | Some caps, Some calls =>
          let o := closes (N.to_nat n) (connected_to caps sid) in
          VL [VL [vbool (e_connected o); vbool (is_some (e_caps o)); vbool (is_some (e_sid o))];
              VL (map (fun needs => VN (rout_code (request needs o))) calls)]
      | _, _ => verr 4
      end
  | VL [VN 12; VL caps; VN sid; sty; VN lost; VL ops] =>
      match dec_ns caps, dec_style sty, dec_cops ops with
      | Some caps, Some sty, Some ops =>
          let '(cs, t) := run_cops sty ops (if N.eqb lost 0 then live_t caps sid else lost_t sty caps sid) in
          VL [enc_ns cs; VL [vbool (e_connected (t_obj t)); vbool (t_handle t)]]
      | _, _, _ => verr 5
      end
  | VL [k; VL hs] =>
      match dec_kind k, dec_steps hs with
      | Some k, Some h =>
          let o := connect_ok (hist_run k h) in
          let '(_, s) := run_count (start_of true o) eof_alone 0 in
          VL [ VL (map enc_flags (hist_trace k obj0 h)); enc_flags o; VL [vbool (connected s); VN (pc_code (pc s))] ]
      | _, _ => verr 2
      end
  | _ => verr 1
  end.
