(* Glue/HIST_glue.v — runner entry for the session-object histories (Model/SessionHist.v), used by the C04 check
   (tools/harness/real_hist.py).
   run (VL [VN kind; VL steps])   kind: 0 ssh | 1 tls | 2 unix;  step: 0 HFailEarly | 1 HFailAuthd | 2 HClose | 3 HMgrClose
   -> VL [ VL [flags after each step]; flags after the successful connect;
           VL [VN connected; VN pc_code] of the LTS after the worker alone processed a peer close of the idle session ]
   flags = VL [VN closing; VN connected] *)
From NC Require Import Model.Base Model.SessionLTS Model.SessionHist.

Definition dec_kind (v : val) : option tkind :=
  match v with VN 0 => Some KSsh | VN 1 => Some KTls | VN 2 => Some KUnix | _ => None end.
Definition dec_step (v : val) : option hstep :=
  match v with VN 0 => Some HFailEarly | VN 1 => Some HFailAuthd | VN 2 => Some HClose | VN 3 => Some HMgrClose | _ => None end.
Fixpoint dec_steps (l : list val) : option (list hstep) :=
  match l with
  | [] => Some []
  | v :: l' => match dec_step v, dec_steps l' with Some x, Some xs => Some (x :: xs) | _, _ => None end
  end.
Definition enc_flags (o : obj) : val := VL [vbool (o_closing o); vbool (o_connected o)].
Definition pc_code (p : wpc) : N :=
  match p with
  | WIdle => 0 | WNotif _ => 1 | WLookup _ => 2 | WDeliver _ _ => 3 | WDel _ => 4 | WRaise _ => 5
  | WErrSnap _ => 6 | WErrClear _ _ => 7 | WErrDeliver _ _ => 8 | WClosed => 9 | WExited => 10
  end.

Definition run (v : val) : val :=
  match v with
  | VL [k; VL hs] =>
      match dec_kind k, dec_steps hs with
      | Some k, Some h =>
          let o := connect_ok (hist_run k h) in
          let '(_, s) := run_count (start_of true o) eof_alone 0 in
          VL [ VL (map enc_flags (hist_trace k obj0 h)); enc_flags o; VL [vbool (connected s); VN (pc_code (pc s))] ]
      | _, _ => verr 2
      end
  | _ => verr 1
  end.
