(* Glue/C10_glue.v — runner entry for C10 (codecs: Glue/XCodec.v).
   fn 1 junos_xslt [xnode] -> xnode        fn 2 alu [xnode] -> xnode
   fn 3 data_of   [VN cls; xnode] -> VL [VN 0] | VL [VN 1; xnode] | VL [VN 2; VL [] | VL [VB text]] | VL [VN 3]
   fn 4 has_errors [xnode] -> VN
   fn 5 request   [VN profile; VN cls; VN mgr; VN forced; VN raise_kind; xnode root]   (every parse succeeds and yields root)
          -> VL [VN outcome; VL [VL [VN site; VN flag]...]; VL [] | VL [xnode]]
          outcome: 0 parse error, 1 hook error, 2 raised, 3 reply, 4 element
          profile: 0 default 1 junos 2 alu 3 sros;  cls: 0 plain 1 get 2 get-schema;  raise_kind: 0 none 1 single 2 multi
          site: 0 reply parse, 1 error re-parse, 2 xslt sheet, 3 xslt input, 4 xslt output
   fn 6 erase_ns [xnode] -> xnode          fn 7 drop_blank [xnode] -> xnode     fn 8 strip [xnode] -> xnode
   histories (Model/ReplyLife.v); event: [0;b] manager.huge_tree=b  [1;b] manager.async_mode=b  [2;id;cls;forced] call
                                         [3;id;b] rpc.huge_tree=b   [4;id;VB raw] a message with this id is dispatched
   fn 9 run       [VN huge0; VN async0; VL events] -> VL, one entry per call event in order:
          VL [VN id; VN cls; VN huge; VN async; VN registered; VL [] | VL [VL [VN cls; VB raw; VN huge]]]
   fn 10 async_read [VN profile; VN cls; VN huge; xnode root] -> as fn 5
   fn 11 finish   [VN huge0; VN async0; VL events; VN id; VN profile; VN raise_kind; xnode root] -> VL [] (no reply) | VL [as fn 5] *)
From NC Require Import Model.Base Model.XTree Model.XmlHelpers Model.NsStrip Model.ReplyView Model.ReplyLife Glue.XCodec.

Definition dec_cls (n : N) : reply_cls := match n with 1 => ClsGet | 2 => ClsSchema | _ => ClsPlain end.
Definition dec_prof (n : N) : profile := match n with 1 => PJunos | 2 => PAlu | 3 => PSros | _ => PDefault end.
Definition dec_rk (n : N) : raise_kind := match n with 1 => RSingle | 2 => RMulti | _ => RNone end.
Definition enc_site (s : site) : val :=
  VN (match s with SReplyParse => 0 | SErrorReparse => 1 | SXsltSheet => 2 | SXsltInput => 3 | SXsltOutput => 4 end).
Definition enc_data (d : data_view) : val :=
  match d with
  | DNone => VL [VN 0]
  | DEle x => VL [VN 1; enc_x x]
  | DText o => VL [VN 2; vopt (option_map VB o)]
  | DAttrErr => VL [VN 3]
  end.
Definition enc_log (l : list (site * bool)) : val := VL (map (fun x => VL [enc_site (fst x); vbool (snd x)]) l).

Definition enc_cls (c : reply_cls) : val := VN (match c with ClsPlain => 0 | ClsGet => 1 | ClsSchema => 2 end).
Definition dec_event (v : val) : option event :=
  match v with
  | VL [VN 0; VN b] => Some (ESetMgrHuge (nz b))
  | VL [VN 1; VN b] => Some (ESetMgrAsync (nz b))
  | VL [VN 2; VN id; VN c; VN f] => Some (ECall id (dec_cls c) (nz f))
  | VL [VN 3; VN id; VN b] => Some (ESetRpcHuge id (nz b))
  | VL [VN 4; VN id; VB raw] => Some (EDeliver id raw)
  | _ => None
  end.
Fixpoint dec_events (l : list val) : list event :=
  match l with
  | [] => []
  | v :: t => match dec_event v with Some e => e :: dec_events t | None => dec_events t end
  end.
Definition enc_reply (r : reply) : val := VL [enc_cls (r_cls r); VB (r_raw r); vbool (r_huge r)].
Definition enc_rpc (id : N) (w : world) : val :=
  match w_rpcs w id with
  | Some o => VL [VN id; enc_cls (o_cls o); vbool (o_huge o); vbool (o_async o); vbool (o_reg o); vopt (option_map enc_reply (o_reply o))]
  | None => VL [VN id]
  end.
Fixpoint called (h : list event) : list N :=
  match h with [] => [] | ECall id _ _ :: t => id :: called t | _ :: t => called t end.
Definition enc_outcome (x : outcome * list (site * bool)) : val :=
  match x with
  | (OParseError, l) => VL [VN 0; enc_log l; VL []]
  | (OHookError, l) => VL [VN 1; enc_log l; VL []]
  | (ORaised, l) => VL [VN 2; enc_log l; VL []]
  | (OReply _ _ d, l) => VL [VN 3; enc_log l; VL [enc_data d]]
  | (OElem _ x, l) => VL [VN 4; enc_log l; VL [enc_x x]]
  end.

Definition run (v : val) : val :=
  match v with
  | VL [VN 9; VN h0; VN a0; VL evs] =>
      let h := dec_events evs in
      let w := run_hist (world0 (nz h0) (nz a0)) h in
      VL (map (fun id => enc_rpc id w) (called h))
  | VL [VN 10; VN p; VN c; VN f; t] =>
      let root := dec_x t in
      enc_outcome (async_read (fun _ _ => Some root) (dec_prof p) (mkReply (dec_cls c) [] (nz f)))
  | VL [VN 11; VN h0; VN a0; VL evs; VN id; VN p; VN k; t] =>
      let root := dec_x t in
      let w := run_hist (world0 (nz h0) (nz a0)) (dec_events evs) in
      vopt (option_map enc_outcome
              (finish (fun _ _ => Some root) (fun _ _ => Some root) (fun _ x => Some x) (dec_prof p) (dec_rk k) id w))
  | VL [VN 1; t] => enc_x (junos_xslt (dec_x t))
  | VL [VN 2; t] => enc_x (alu (dec_x t))
  | VL [VN 3; VN c; t] => enc_data (data_of (dec_cls c) (dec_x t))
  | VL [VN 4; t] => vbool (has_errors (dec_x t))
  | VL [VN 5; VN p; VN c; VN m; VN f; VN k; t] =>
      let root := dec_x t in
      match request (fun _ _ => Some root) (fun _ _ => Some root) (fun _ x => Some x)
                    (dec_prof p) (dec_cls c) (nz m) (nz f) (dec_rk k) [] with
      | (OParseError, l) => VL [VN 0; enc_log l; VL []]
      | (OHookError, l) => VL [VN 1; enc_log l; VL []]
      | (ORaised, l) => VL [VN 2; enc_log l; VL []]
      | (OReply _ _ d, l) => VL [VN 3; enc_log l; VL [enc_data d]]
      | (OElem _ x, l) => VL [VN 4; enc_log l; VL [enc_x x]]
      end
  | VL [VN 6; t] => enc_x (erase_ns (dec_x t))
  | VL [VN 7; t] => enc_x (drop_blank (dec_x t))
  | VL [VN 8; t] => enc_x (strip (dec_x t))
  | _ => verr 1
  end.
