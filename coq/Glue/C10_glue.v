(* Glue/C10_glue.v — runner entry for C10 (codecs: Glue/XCodec.v).
   fn 1 junos_xslt [xnode] -> xnode        fn 2 alu [xnode] -> xnode
   fn 3 data_of   [VN cls; xnode] -> VL [VN 0] | VL [VN 1; xnode] | VL [VN 2; VL [] | VL [VB text]] | VL [VN 3]
   fn 4 has_errors [xnode] -> VN
   fn 5 request   [VN profile; VN cls; VN mgr; VN forced; VN raise_kind; xnode root]   (every parse succeeds and yields root)
          -> VL [VN outcome; VL [VL [VN site; VN flag]...]; VL [] | VL [xnode]]
          outcome: 0 parse error, 1 hook error, 2 raised, 3 reply, 4 element
          profile: 0 default 1 junos 2 alu 3 sros;  cls: 0 plain 1 get 2 get-schema;  raise_kind: 0 none 1 single 2 multi
          site: 0 reply parse, 1 error re-parse, 2 xslt sheet, 3 xslt input, 4 xslt output
   fn 6 erase_ns [xnode] -> xnode          fn 7 drop_blank [xnode] -> xnode     fn 8 strip [xnode] -> xnode *)
From NC Require Import Model.Base Model.XTree Model.XmlHelpers Model.NsStrip Model.ReplyView Glue.XCodec.

Definition dec_cls (n : N) : reply_cls := match n with 1 => ClsGet | 2 => ClsSchema | _ => ClsPlain end.
Definition dec_prof (n : N) : profile := match n with 1 => PJunos | 2 => PAlu | 3 => PSros | _ => PDefault end.
Definition dec_rk (n : N) : raise_kind := match n with 1 => RSingle | 2 => RMulti | _ => RNone end.
Definition enc_site (s : site) : val :=
  VN (match s with SReplyParse => 0 | SErrorReparse => 1 | SXsltSheet => 2 | SXsltInput => 3 | SXsltOutput => 4 end).
Definition enc_data (d : data_view) : val :=
  match d with
  | DNone => VL [VN 0]
  | DEle x => VL [VN 1; enc_x x]
  | DText o => VL [VN 2; vopt (option_map VB o)]
  | DAttrErr => VL [VN 3]
  end.
Definition enc_log (l : list (site * bool)) : val := VL (map (fun x => VL [enc_site (fst x); vbool (snd x)]) l).

Definition run (v : val) : val :=
  match v with
  | VL [VN 1; t] => enc_x (junos_xslt (dec_x t))
  | VL [VN 2; t] => enc_x (alu (dec_x t))
  | VL [VN 3; VN c; t] => enc_data (data_of (dec_cls c) (dec_x t))
  | VL [VN 4; t] => vbool (has_errors (dec_x t))
  | VL [VN 5; VN p; VN c; VN m; VN f; VN k; t] =>
      let root := dec_x t in
      match request (fun _ _ => Some root) (fun _ _ => Some root) (fun _ x => Some x)
                    (dec_prof p) (dec_cls c) (nz m) (nz f) (dec_rk k) [] with
      | (OParseError, l) => VL [VN 0; enc_log l; VL []]
      | (OHookError, l) => VL [VN 1; enc_log l; VL []]
      | (ORaised, l) => VL [VN 2; enc_log l; VL []]
      | (OReply _ _ d, l) => VL [VN 3; enc_log l; VL [enc_data d]]
      | (OElem _ x, l) => VL [VN 4; enc_log l; VL [enc_x x]]
      end
  | VL [VN 6; t] => enc_x (erase_ns (dec_x t))
  | VL [VN 7; t] => enc_x (drop_blank (dec_x t))
  | VL [VN 8; t] => enc_x (strip (dec_x t))
  | _ => verr 1
  end.
