(* Glue/E2E_glue.v — runner entry for the composed model (Model/SessionE2E.v) with the concrete classifier
   (Model/Classify.v): byte-level replay of the scheduled real runs (tools/harness/e2e_check.py).
   run (VL [VN qualify; VN base11; VN repair; VL [VL [VB message-id; VN number] ...]; VL effects]) where an effect is
     VL [VN 30; VB octets]   ERead (one _transport_read result; empty = end-of-file)
     VL [VN 31]              EDispatch
     any label of Glue/LTS_glue.v (tags 1..21)   EL
   -> the ten fields of LTS_glue.run for the LTS component (accepted, total, outcomes, connected, nq, taken, pc, table,
      wrote, deliver_log) followed by VL (the LTS labels that took place, encoded as in LTS_glue) and VN |pend|. *)
From NC Require Import Model.Base Model.SessionLTS Model.SessionE2E Model.Classify Glue.LTS_glue.

Definition enc_label (l : label) : val :=
  let n x := VN (N.of_nat x) in
  match l with
  | LReg r i => VL [VN 1; n r; VN i]
  | LChk r b => VL [VN 2; n r; vbool b]
  | LPut r => VL [VN 3; n r]
  | LWaitRes r f => VL [VN 4; n r; vbool f]
  | LDeq r => VL [VN 5; n r]
  | LRecv k a => VL [VN 6; VN k; VN a]
  | LNqPut x => VL [VN 7; VN x]
  | LTGet i f => VL [VN 8; VN i; vbool f]
  | LEvSetReply r => VL [VN 9; n r]
  | LTDel i => VL [VN 10; VN i]
  | LReadEof => VL [VN 11]
  | LReadErr => VL [VN 12]
  | LTValues ids => VL [VN 13; VL (map VN ids)]
  | LTClear => VL [VN 14]
  | LEvSetErr r => VL [VN 15; n r]
  | LClose w => VL [VN 16; VN w]
  | LExit => VL [VN 17]
  | LTake g x => VL [VN 18; vbool g; VN x]
  | LErrBcast e => VL [VN 19; VN e]
  | LWriteFail => VL [VN 20]
  | LRaise e => VL [VN 21; VN e]
  end.

Definition dec_elabel (v : val) : option elabel :=
  match v with
  | VL [VN 30; VB seg] => Some (ERead seg)
  | VL [VN 31] => Some EDispatch
  | _ => match dec_label v with Some l => Some (EL l) | None => None end
  end.
Fixpoint dec_elabels (l : list val) : option (list elabel) :=
  match l with
  | [] => Some []
  | v :: l' => match dec_elabel v, dec_elabels l' with
               | Some x, Some xs => Some (x :: xs)
               | _, _ => None
               end
  end.
Definition dec_id (v : val) : bytes * N :=
  match v with VL [VB b; VN n] => (b, n) | _ => ([], 0) end.

Definition run (v : val) : val :=
  match v with
  | VL [q; b11; rep; VL ids; VL es] =>
      match dec_elabels es with
      | None => verr 2
      | Some t =>
          let cls := classify_xml (b_of rep) (map dec_id ids) in
          let '(k, s, ls) := erun_count cls (einit (b_of q) (b_of b11)) t 0 [] in
          let x := lts s in
          VL [ VN k; VN (N.of_nat (length t)); VL (map enc_req (reqs x)); vbool (connected x);
               VL (map VN (nq x)); VL (map VN (taken x)); VN (pc_code (pc x));
               VL (map (fun kv => VN (fst kv)) (table x));
               VL (map (fun r => VN (N.of_nat r)) (wrote x));
               VL (map (fun r => VN (N.of_nat r)) (deliver_log x));
               VL (map enc_label ls); VN (N.of_nat (length (pend s))) ]
      end
  | _ => verr 1
  end.
