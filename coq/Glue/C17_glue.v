(* Glue/C17_glue.v — runner entry for C17 (codecs: Glue/XCodec.v).
   fn 1 to_xml      [VB ser; VB enc]                    -> VB out
   fn 2 validated   [tags; VL reqs; name; VL names]     -> VN (0 accept, 1 tag rejected, 2 attribute rejected, 3 ValueError)
        tags: VL [] | VL [VN 0; VB s] | VL [VN 1; VL [VB..]]     req: VL [VN 0; VB s] | VL [VN 1; VL [VB..]]
   fn 3 replace_ns  [ns old; ns new; mnode]             -> mnode
   fn 4 program     [VL ops]                            -> VL [mnode] | VL []   (bad path)
        ops: [VN 0; VB tag; attrs] new_ele | [VN 1; VB tag; ns; attrs] new_ele_ns | [VN 2; VB tag; VL decls; attrs] new_ele_nsmap
             [VN 3; VL path; VB tag; attrs] sub_ele | [VN 4; VL path; VB tag; ns; attrs] sub_ele_ns
   fn 5 resolve     [mnode]                             -> xnode
   fn 6 parse_root  [VL events]                         -> VL [] | VL [name; attrs]
   fn 7 to_ele      [VL events]                         -> VL [] | VL [xnode]
        event: [VN 0; name; attrs] start | [VN 1] end | [VN 2; VB] text | [VN 3; VB] comment | [VN 4; VB; VB] pi | [VN 5] error
   fn 8 mview       [mnode]                             -> xnode
   fn 9 history     [mnode; VL hops]                    -> VL [ VL [mnode after the call; result] ... ]  (stops at a call that names no element)
        hop: [VN 0; VL path; VB enc] to_xml | [VN 1; VL path] to_ele | [VN 2; VL path; tags; VL reqs] validated_element
             [VN 3; VL path; ns old; ns new] replace_namespace | [VN 4; VL path; VB tag; attrs] sub_ele | [VN 5; VL path; VB tag; ns; attrs] sub_ele_ns
             (paths are lxml child indices: text is not a child)
        result: [VN 0] in-place edit | [VN 1; mnode] the element handed to the serialiser | [VN 2; mnode] the element returned | [VN 3; VN vres]
   fn 10 session    [VL defaults (5 attrs); VL dicts (attrs..); VL sops] -> VL [ VL [VL defaults; VL dicts; VL trees] ... ]  (state after every call)
        aarg: VL [] attrs omitted | VL [VN 0; VN i] the caller's i-th dictionary | VL [VN 1; attrs] a literal
        sop: [VN 0; VB tag; aarg; kw] new_ele | [VN 1; VB tag; ns; aarg; kw] new_ele_ns | [VN 2; VB tag; VL decls; aarg; kw] new_ele_nsmap
             [VN 3; VN tree; VL path; VB tag; aarg; kw] sub_ele | [VN 4; VN tree; VL path; VB tag; ns; aarg; kw] sub_ele_ns
             [VN 5; VN i; name; VB value] the caller's own d_i[name] = value
   fn 11 reparse    [VL table; VL rops] -> VL [ VL trees ... ]   (every tree handed out so far, after every call)
        table entry: [VN huge; VB text; VL [mnode] | VL []]   what the parser reads from the text (VL []: rejected)
        rop: [VN 0; VN huge; VB text] to_ele(text, huge_tree) | [VN 1; VN tree; hop] a helper on an element of that tree
             [VN 2; VN tree; mnode] the caller's own edit of that tree: the tree afterwards
             [VN 3; VN huge; VB text] a parsing helper that raised without the parser refusing the octets (encode / requirement) *)
From NC Require Import Model.Base Model.XTree Model.XmlHelpers Model.XmlHistory Model.XmlSession Model.XmlReparse Glue.XCodec.

Definition dec_tags (v : val) : tagsarg :=
  match v with
  | VL [VN 0; VB s] => TagsStr s
  | VL [VN 1; l] => TagsList (unVBs l)
  | _ => TagsNone
  end.
Definition dec_req (v : val) : req :=
  match v with VL [VN 0; VB s] => ReqStr s | VL [_; l] => ReqList (unVBs l) | _ => ReqList [] end.
Definition enc_vres (r : vres) : val :=
  VN (match r with VAccept => 0 | VRejectTag => 1 | VRejectAttr => 2 | VValueError => 3 end).

Definition dec_path (v : val) : list nat := map (fun x => N.to_nat (unVN x)) (unVL v).

Definition step (st : option mnode) (op : val) : option mnode :=
  match op, st with
  | VL [VN 0; VB tag; a], _ => Some (new_ele tag (dec_attrs a))
  | VL [VN 1; VB tag; u; a], _ => Some (new_ele_ns tag (dec_ns u) (dec_attrs a))
  | VL [VN 2; VB tag; m; a], _ => Some (new_ele_nsmap tag (dec_decls m) (dec_attrs a))
  | VL [VN 3; p; VB tag; a], Some t => sub_ele_at (dec_path p) tag (dec_attrs a) t
  | VL [VN 4; p; VB tag; u; a], Some t => sub_ele_ns_at (dec_path p) tag (dec_ns u) (dec_attrs a) t
  | _, _ => None
  end.

Definition dec_event (v : val) : event :=
  match v with
  | VL [VN 0; n; a] => EvStart (dec_name n) (dec_attrs a)
  | VL [VN 1] => EvEnd
  | VL [VN 2; VB s] => EvText s
  | VL [VN 3; VB s] => EvComment s
  | VL [VN 4; VB x; VB y] => EvPI x y
  | _ => EvError
  end.

Definition dec_hop (v : val) : hop :=
  match v with
  | VL [VN 0; p; VB enc] => HToXml (dec_path p) enc
  | VL [VN 2; p; tags; VL reqs] => HValidated (dec_path p) (dec_tags tags) (map dec_req reqs)
  | VL [VN 3; p; o; n] => HReplace (dec_path p) (dec_ns o) (dec_ns n)
  | VL [VN 4; p; VB tag; a] => HSubEle (dec_path p) tag (dec_attrs a)
  | VL [VN 5; p; VB tag; u; a] => HSubEleNs (dec_path p) tag (dec_ns u) (dec_attrs a)
  | VL (_ :: p :: _) => HToEle (dec_path p)
  | _ => HToEle []
  end.

(* the serialiser's octets are compared by fn 1; here the runner reports the element it is handed *)
Definition enc_obs (o : hobs) : val :=
  match o with
  | ODone => VL [VN 0]
  | OXml s _ => VL [VN 1; enc_m s]
  | OEle s => VL [VN 2; enc_m s]
  | OVal r => VL [VN 3; enc_vres r]
  end.

Definition dec_aarg (v : val) : aarg :=
  match v with
  | VL [VN 0; VN i] => ACaller (N.to_nat i)
  | VL [VN 1; a] => ALit (dec_attrs a)
  | _ => ADefault
  end.

Definition dec_sop (v : val) : sop :=
  match v with
  | VL [VN 0; VB tag; a; kw] => SNew tag (dec_aarg a) (dec_attrs kw)
  | VL [VN 1; VB tag; u; a; kw] => SNewNs tag (dec_ns u) (dec_aarg a) (dec_attrs kw)
  | VL [VN 2; VB tag; m; a; kw] => SNewNsmap tag (dec_decls m) (dec_aarg a) (dec_attrs kw)
  | VL [VN 3; VN t; p; VB tag; a; kw] => SSub (N.to_nat t) (dec_path p) tag (dec_aarg a) (dec_attrs kw)
  | VL [VN 4; VN t; p; VB tag; u; a; kw] => SSubNs (N.to_nat t) (dec_path p) tag (dec_ns u) (dec_aarg a) (dec_attrs kw)
  | VL [VN 5; VN i; k; VB x] => SDictSet (N.to_nat i) (dec_name k) x
  | _ => SDictSet 0 (None, []) []
  end.

Definition enc_sstate (st : sstate) : val :=
  VL [VL (map enc_attrs (s_dflt st)); VL (map enc_attrs (s_dicts st)); VL (map enc_m (s_trees st))].

Definition dec_tentry (v : val) : bool * bytes * option mnode :=
  match v with
  | VL [VN h; VB s; VL [t]] => (negb (N.eqb h 0), s, Some (dec_m t))
  | VL [VN h; VB s; _] => (negb (N.eqb h 0), s, None)
  | _ => (false, [], None)
  end.

Definition dec_rop (v : val) : rop :=
  match v with
  | VL [VN 0; VN h; VB s] => RParse (negb (N.eqb h 0)) s
  | VL [VN 1; VN k; o] => RHelper (N.to_nat k) (dec_hop o)
  | VL [VN 2; VN k; t] => RCaller (N.to_nat k) (dec_m t)
  | VL [VN 3; VN h; VB s] => RRaised (negb (N.eqb h 0)) s
  | _ => RParse false []
  end.

Definition run (v : val) : val :=
  match v with
  | VL [VN 1; VB ser; VB enc] => VB (to_xml ser enc)
  | VL [VN 2; tags; VL reqs; n; VL ks] =>
      enc_vres (validated (dec_tags tags) (map dec_req reqs) (dec_name n) (map dec_name ks))
  | VL [VN 3; o; n; t] => enc_m (replace_ns (dec_ns o) (dec_ns n) (dec_m t))
  | VL [VN 4; VL ops] => vopt (option_map enc_m (fold_left step ops None))
  | VL [VN 5; t] => enc_x (resolve None (dec_m t))
  | VL [VN 6; VL evs] =>
      match parse_root_ev (map dec_event evs) with
      | Some (n, a) => VL [enc_name n; enc_attrs a]
      | None => VL []
      end
  | VL [VN 7; VL evs] => vopt (option_map enc_x (to_ele_ev (map dec_event evs)))
  | VL [VN 8; t] => enc_x (mview (dec_m t))
  | VL [VN 9; t; VL ops] =>
      VL (map (fun so => VL [enc_m (fst so); enc_obs (snd so)]) (htrace (fun _ _ => []) (dec_m t) (map dec_hop ops)))
  | VL [VN 10; VL dflt; VL dicts; VL ops] =>
      VL (map enc_sstate (strace (mkS (map dec_attrs dflt) (map dec_attrs dicts) []) (map dec_sop ops)))
  | VL [VN 11; VL tb; VL ops] =>
      VL (map (fun ts => VL (map enc_m ts))
              (rtrace (table_parser (map dec_tentry tb)) (fun _ _ => []) [] (map dec_rop ops)))
  | _ => verr 1
  end.
