(* Glue/C17_glue.v — runner entry for C17 (codecs: Glue/XCodec.v).
   fn 1 to_xml      [VB ser; VB enc]                    -> VB out
   fn 2 validated   [tags; VL reqs; name; VL names]     -> VN (0 accept, 1 tag rejected, 2 attribute rejected, 3 ValueError)
        tags: VL [] | VL [VN 0; VB s] | VL [VN 1; VL [VB..]]     req: VL [VN 0; VB s] | VL [VN 1; VL [VB..]]
   fn 3 replace_ns  [ns old; ns new; mnode]             -> mnode
   fn 4 program     [VL ops]                            -> VL [mnode] | VL []   (bad path)
        ops: [VN 0; VB tag; attrs] new_ele | [VN 1; VB tag; ns; attrs] new_ele_ns | [VN 2; VB tag; VL decls; attrs] new_ele_nsmap
             [VN 3; VL path; VB tag; attrs] sub_ele | [VN 4; VL path; VB tag; ns; attrs] sub_ele_ns
   fn 5 resolve     [mnode]                             -> xnode
   fn 6 parse_root  [VL events]                         -> VL [] | VL [name; attrs]
   fn 7 to_ele      [VL events]                         -> VL [] | VL [xnode]
        event: [VN 0; name; attrs] start | [VN 1] end | [VN 2; VB] text | [VN 3; VB] comment | [VN 4; VB; VB] pi | [VN 5] error
   fn 8 mview       [mnode]                             -> xnode *)
From NC Require Import Model.Base Model.XTree Model.XmlHelpers Glue.XCodec.

Definition dec_tags (v : val) : tagsarg :=
  match v with
  | VL [VN 0; VB s] => TagsStr s
  | VL [VN 1; l] => TagsList (unVBs l)
  | _ => TagsNone
  end.
Definition dec_req (v : val) : req :=
  match v with VL [VN 0; VB s] => ReqStr s | VL [_; l] => ReqList (unVBs l) | _ => ReqList [] end.
Definition enc_vres (r : vres) : val :=
  VN (match r with VAccept => 0 | VRejectTag => 1 | VRejectAttr => 2 | VValueError => 3 end).

Definition dec_path (v : val) : list nat := map (fun x => N.to_nat (unVN x)) (unVL v).

Definition step (st : option mnode) (op : val) : option mnode :=
  match op, st with
  | VL [VN 0; VB tag; a], _ => Some (new_ele tag (dec_attrs a))
  | VL [VN 1; VB tag; u; a], _ => Some (new_ele_ns tag (dec_ns u) (dec_attrs a))
  | VL [VN 2; VB tag; m; a], _ => Some (new_ele_nsmap tag (dec_decls m) (dec_attrs a))
  | VL [VN 3; p; VB tag; a], Some t => sub_ele_at (dec_path p) tag (dec_attrs a) t
  | VL [VN 4; p; VB tag; u; a], Some t => sub_ele_ns_at (dec_path p) tag (dec_ns u) (dec_attrs a) t
  | _, _ => None
  end.

Definition dec_event (v : val) : event :=
  match v with
  | VL [VN 0; n; a] => EvStart (dec_name n) (dec_attrs a)
  | VL [VN 1] => EvEnd
  | VL [VN 2; VB s] => EvText s
  | VL [VN 3; VB s] => EvComment s
  | VL [VN 4; VB x; VB y] => EvPI x y
  | _ => EvError
  end.

Definition run (v : val) : val :=
  match v with
  | VL [VN 1; VB ser; VB enc] => VB (to_xml ser enc)
  | VL [VN 2; tags; VL reqs; n; VL ks] =>
      enc_vres (validated (dec_tags tags) (map dec_req reqs) (dec_name n) (map dec_name ks))
  | VL [VN 3; o; n; t] => enc_m (replace_ns (dec_ns o) (dec_ns n) (dec_m t))
  | VL [VN 4; VL ops] => vopt (option_map enc_m (fold_left step ops None))
  | VL [VN 5; t] => enc_x (resolve None (dec_m t))
  | VL [VN 6; VL evs] =>
      match parse_root_ev (map dec_event evs) with
      | Some (n, a) => VL [enc_name n; enc_attrs a]
      | None => VL []
      end
  | VL [VN 7; VL evs] => vopt (option_map enc_x (to_ele_ev (map dec_event evs)))
  | VL [VN 8; t] => enc_x (mview (dec_m t))
  | _ => verr 1
  end.
