(* Glue/LTSX_glue.v — runner entry for the extended session LTS (Model/SessionSoft.v), used by the session clause of
   the C14 check.  Same call and result format as Glue/LTS_glue.v; two more labels:
     VL [VN 6; VN 6; e]  inbound payload that is not XML, answered by the profile with exception class e (XRecvErr e)
     VL [VN 6; VN 7; n]  inbound <notification> n with a readable start tag and a body that is not well-formed (XRecvBadNotif n)
   every other label is the base label of Glue/LTS_glue.v (XB). One more result field: position inside a non-fatal
   broadcast (0 none, 1 SPre, 2 SSnap, 3 SClear, 4 SDeliver). *)
From NC Require Import Model.Base Model.SessionLTS Model.SessionSoft Glue.LTS_glue.

Definition dec_xlabel (v : val) : option xlabel :=
  match v with
  | VL [VN 6; VN 6; e] => Some (XRecvErr (n_of e))
  | VL [VN 6; VN 7; n] => Some (XRecvBadNotif (n_of n))
  | _ => match dec_label v with Some l => Some (XB l) | None => None end
  end.

Fixpoint dec_xlabels (l : list val) : option (list xlabel) :=
  match l with
  | [] => Some []
  | v :: l' => match dec_xlabel v, dec_xlabels l' with
               | Some x, Some xs => Some (x :: xs)
               | _, _ => None
               end
  end.

Definition sp_code (p : spc) : N :=
  match p with SNone => 0 | SPre _ => 1 | SSnap _ => 2 | SClear _ _ => 3 | SDeliver _ _ => 4 end.

Definition run (v : val) : val :=
  match v with
  | VL [q; VL ls] =>
      match dec_xlabels ls with
      | None => verr 2
      | Some labels =>
          let '(k, x) := xrun_count (xinit (b_of q)) labels 0 in
          let s := base x in
          VL [ VN k; VN (N.of_nat (length labels)); VL (map enc_req (reqs s)); vbool (connected s);
               VL (map VN (nq s)); VL (map VN (taken s)); VN (pc_code (pc s));
               VL (map (fun kv => VN (fst kv)) (table s));
               VL (map (fun r => VN (N.of_nat r)) (wrote s));
               VL (map (fun r => VN (N.of_nat r)) (deliver_log s));
               VN (sp_code (sp x)); VL (map VN (softs x)) ]
      end
  | _ => verr 1
  end.
