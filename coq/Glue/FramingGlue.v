(* Glue/FramingGlue.v — dispatcher shared by the C01 and C14 runners.
   framing_run (VL [VN fn; args...]):
     event     : Deliver m -> VL [VN 0; VB m]      Raise k -> VL [VN 1; VN k]
     fn 1 feed10 [VL segs] -> VL [ VL [VL events; VB buf; VN pos; VN dead] per segment ]
     fn 2 feed11 [VL segs] -> VL [ VL [VL events; VB buf; VB frags; VN dead] per segment ]
     fn 3 ref10  [VB stream] -> VL [VL events; VN dead]
     fn 4 ref11  [VB stream] -> VL [VL events; VN dead]
     fn 5 strip  [VB s]    -> VL [VN valid; VB (strip s)]
     fn 6 enc10  [VL msgs] -> VB stream
     fn 7 enc11  [VL (VL chunks) per message] -> VB stream
     fn 8 ws_encodings -> VL [VB ...]
     fn 9 constants -> VL [VB delim10; VN DELIM10_LEN; VB end11]  *)
From NC Require Import Model.Base Model.Utf8 Model.Framing10 Model.Framing11 Spec.RefFraming.

Definition unVB (v : val) : bytes := match v with VB b => b | _ => [] end.
Definition unVBs (v : val) : list bytes := match v with VL l => map unVB l | _ => [] end.
Definition enc_ev (e : pevent) : val :=
  match e with Deliver m => VL [VN 0; VB m] | Raise k => VL [VN 1; VN k] end.

Fixpoint run10 (st : pst10) (segs : list bytes) : list val :=
  match segs with
  | [] => []
  | s :: r => let '(st1, evs) := feed10 st s in
              VL [VL (map enc_ev evs); VB (buf10 st1); VN (N.of_nat (pos10 st1)); vbool (dead10 st1)] :: run10 st1 r
  end.
Fixpoint run11 (st : pst11) (segs : list bytes) : list val :=
  match segs with
  | [] => []
  | s :: r => let '(st1, evs) := feed11 st s in
              VL [VL (map enc_ev evs); VB (buf11 st1); VB (frags11 st1); vbool (dead11 st1)] :: run11 st1 r
  end.

Definition framing_run (v : val) : val :=
  match v with
  | VL [VN 1; segs] => VL (run10 init10 (unVBs segs))
  | VL [VN 2; segs] => VL (run11 init11 (unVBs segs))
  | VL [VN 3; VB s] => let '(r, evs) := ref10 rinit10 s in VL [VL (map enc_ev evs); vbool (rdead10 r)]
  | VL [VN 4; VB s] => let '(r, evs) := ref11 rinit11 s in VL [VL (map enc_ev evs); vbool (dead_r11 r)]
  | VL [VN 5; VB s] => VL [vbool (utf8_valid s); VB (strip s)]
  | VL [VN 6; msgs] => VB (enc10 (unVBs msgs))
  | VL [VN 7; VL css] => VB (enc11 (map unVBs css))
  | VL [VN 8] => VL (map VB ws_encodings)
  | VL [VN 9] => VL [VB delim10; VN (N.of_nat DELIM10_LEN); VB end11]
  | _ => verr 1
  end.
