(* Glue/C08_glue.v — entry point of the extracted runner for C08.
   run (VL [VN fn; args...]) :
     fn 1: getitem   [VL uris; VB key] ->  VL [VN 0; VB ns; VL [VL [VB k; VB v]...]]  found
                                           VL [VN 1]                                   KeyError
                                           VL [VN 2; VN code]                          other exception
     fn 2: contains  [VL uris; VB key] ->  VL [VN 0; VN b] | VL [VN 2; VN code]
     fn 3: abbreviate [VB uri]          -> VL [VN 0; VL [VB ...]] | VL [VN 2; VN code]   *)
From NC Require Import Model.Base Model.Caps.

Definition unVB (v : val) : bytes := match v with VB b => b | _ => [] end.
Definition unVBs (v : val) : list bytes := match v with VL l => map unVB l | _ => [] end.

Definition enc_cap (c : capability) : val :=
  VL [VN 0; VB (ns_uri c); VL (map (fun kv => VL [VB (fst kv); VB (snd kv)]) (parameters c))].

Definition run (v : val) : val :=
  match v with
  | VL [VN 1; uris; VB key] =>
      match getitem (caps_of (unVBs uris)) key with
      | Ok c => enc_cap c | KeyError => VL [VN 1] | Crash e => VL [VN 2; VN e] end
  | VL [VN 2; uris; VB key] =>
      match contains_key (caps_of (unVBs uris)) key with
      | Ok b => VL [VN 0; vbool b] | KeyError => VL [VN 1] | Crash e => VL [VN 2; VN e] end
  | VL [VN 4; uris; VL ops; VB key] =>            (* ops: VL [VN 0; VB u] add | VL [VN 1; VB u] remove *)
      let dec o := match o with VL [VN 0; VB u] => OAdd u | VL [VN 1; VB u] => ORemove u | _ => OAdd [] end in
      match getitem (caps_after (unVBs uris) (map dec ops)) key with
      | Ok c => enc_cap c | KeyError => VL [VN 1] | Crash e => VL [VN 2; VN e] end
  | VL [VN 3; VB uri] =>
      match abbreviate uri with
      | Ok l => VL [VN 0; VL (map VB l)] | KeyError => VL [VN 1] | Crash e => VL [VN 2; VN e] end
  | _ => verr 1
  end.
