(* Glue/C05_glue.v — entry point of the extracted runner for C05.
   tree  : VL [VB tag; text; VL children]      text: VL [] = None | VL [VB t]
   label : VL [VN 0; VN ready] LTop | VL [VN 1; tree] LRecv (HTree) | VL [VN 1] LRecv HOther
           | VL [VN 2] LDie | VL [VN 3] LTimeout | VL [VN 4] LMain | VL [VN 5; VN m] LPut
   run (VL [VN fn; args...]) :
     fn 1: choose_base [VL server; VL client]          -> VL [VN 0; VN (0=1.0,1=1.1)] | VL [VN 2; VN code]
     fn 2: parse [tree]                                 -> VL [VN 0; sid; VL caps] | VL [VN 2; VN code]
                                                           sid: VL [] = default 0 | VL [text]
     fn 3: profile_caps [VN kind; VN private; VL extra] -> VL [VL get_capabilities; VL keys of Capabilities(...)]
             kind: 0 default, 1 alu, 2 huawei, 3 huaweiyang, 4 nexus, 5 sros
     fn 4: run [VN fixed15; VL client; VL labels]       -> VL [] (a label was not enabled)
             | VL [VL frames(VL [VN framing; VN m]); main; sid; caps(VL [] | VL [VL uris]); VN base]
             main: VL [VN 0] waiting | VL [VN 1] returned ok | VL [VN 2; VN err(0 timeout,1 session close,2 parse,3 choose)]
     fn 5: build [VL client]                            -> tree
     fn 6: frun [VL client; VL flabels]  (Model/NegotiateSched.v, the two-thread system)
             -> VL [VN 0; VN i]  (label i is not accepted / not a label)
              | VL [VN 1; VL frames; mpc; sid; caps; VN base; VN pending; VN lis; VN ev; VN conn; VN wpc; err; VL q]
             flabel: VL [VN k; args] with k = 0 FMReg 1 FMPend 2 FMPutHello 3 FMStart 4 FMWait b 5 FMIsSet b 6 FMUnreg 7 FMCaps
                     8 FMBase (arg 1 = BASE_11) 9 FMRet 10 FMPut m 11 FWGet m 12 FWPendRd b 13 FWPendClr 14 FWBaseRd b 15 FWWrite
                     16 FWWriteFail 17 FWDisp (tree | nothing = HOther) 18 FWSid 19 FWCaps 20 FWErrCb 21 FWEvSet 22 FWDie e
                     23 FWBcast 24 FWClose 25 FWExit
             mpc: VL [VN 0..8] | VL [VN 9; r] | VL [VN 10; r]   r = VL [] (normal) | VL [VN err]
             wpc: 0 WNot 1 WTop 2 WGot 3 WClr 4 WRdB 5 WFr 6 WOk0 7 WOk1 8 WErr0 9 WSet 10 WRaised 11 WClosing 12 WExiting 13 WDone
     fn 7: hello_wait [VN entry; pos; kw; mp; cfg]  (Model/HelloWait.v, the deadline of the wait for the server hello)
             entry: 0 connect_ssh 1 connect 2 connect_tls 3 connect_uds
             pos / kw / mp: VL [] absent | VL [VL []] None | VL [VL [VN ms]] a number;   cfg: VL [] | VL [VN ms]
             -> VL [wait; manager timeout]   wait: VL [] Event.wait(None) | VL [VN ms];  manager timeout: VL [] None | VL [VN ms] *)
From NC Require Import Model.Base Model.Caps Model.Writer Model.Negotiate Model.NegotiateSched Model.HelloWait.

Definition unVB (v : val) : bytes := match v with VB b => b | _ => [] end.
Definition unVBs (v : val) : list bytes := match v with VL l => map unVB l | _ => [] end.
Definition un_text (v : val) : option bytes := match v with VL [VB t] => Some t | _ => None end.
Fixpoint un_node (v : val) : node :=
  match v with
  | VL [VB tag; tx; VL ch] => Node tag (un_text tx) (map un_node ch)
  | _ => Node [] None []
  end.
Definition enc_text (t : option bytes) : val := match t with Some t => VL [VB t] | None => VL [] end.
Fixpoint enc_node (n : node) : val :=
  match n with Node tag tx ch => VL [VB tag; enc_text tx; VL (map enc_node ch)] end.
Definition enc_base (b : base) : val := VN (match b with B10 => 0 | B11 => 1 end).
Definition enc_sid (s : sid) : val := match s with SidDefault => VL [] | SidText t => VL [enc_text t] end.
Definition un_profile (k priv : N) : profile :=
  match k with 1 => PAlu | 2 => PHuawei | 3 => PHuaweiYang | 4 => PNexus | 5 => PSros (negb (priv =? 0)) | _ => PDefault end.
Definition un_label (v : val) : label :=
  match v with
  | VL [VN 0; VN r] => LTop (negb (r =? 0))
  | VL [VN 1; t] => LRecv (HTree (un_node t))
  | VL [VN 1] => LRecv HOther
  | VL [VN 2] => LDie
  | VL [VN 3] => LTimeout
  | VL [VN 4] => LMain
  | VL [VN 5; VN m] => LPut m
  | _ => LDie
  end.
Definition enc_herr (e : herr) : N := match e with ETimeout => 0 | ESessionClose => 1 | EParse => 2 | EChoose => 3 | EOther => 4 end.
Definition enc_main (m : mainst) : val :=
  match m with MWaiting => VL [VN 0] | MReturned None => VL [VN 1] | MReturned (Some e) => VL [VN 2; VN (enc_herr e)] end.

Definition un_herr (n : N) : herr := match n with 0 => ETimeout | 1 => ESessionClose | 2 => EParse | 3 => EChoose | _ => EOther end.
Definition un_flabel (v : val) : option flabel :=
  match v with
  | VL [VN 0] => Some FMReg
  | VL [VN 1] => Some FMPend
  | VL [VN 2] => Some FMPutHello
  | VL [VN 3] => Some FMStart
  | VL [VN 4; VN b] => Some (FMWait (negb (b =? 0)))
  | VL [VN 5; VN b] => Some (FMIsSet (negb (b =? 0)))
  | VL [VN 6] => Some FMUnreg
  | VL [VN 7] => Some FMCaps
  | VL [VN 8; VN 1] => Some FMBase
  | VL [VN 9] => Some FMRet
  | VL [VN 10; VN m] => Some (FMPut m)
  | VL [VN 11; VN m] => Some (FWGet m)
  | VL [VN 12; VN b] => Some (FWPendRd (negb (b =? 0)))
  | VL [VN 13] => Some FWPendClr
  | VL [VN 14; VN b] => Some (FWBaseRd (if b =? 0 then B10 else B11))
  | VL [VN 15] => Some FWWrite
  | VL [VN 16] => Some FWWriteFail
  | VL [VN 17; t] => Some (FWDisp (HTree (un_node t)))
  | VL [VN 17] => Some (FWDisp HOther)
  | VL [VN 18] => Some FWSid
  | VL [VN 19] => Some FWCaps
  | VL [VN 20] => Some FWErrCb
  | VL [VN 21] => Some FWEvSet
  | VL [VN 22; VN e] => Some (FWDie (un_herr e))
  | VL [VN 23] => Some FWBcast
  | VL [VN 24] => Some FWClose
  | VL [VN 25] => Some FWExit
  | _ => None
  end.
Fixpoint frun (client : list bytes) (s : fstate) (ls : list val) (i : N) : fstate + N :=
  match ls with
  | [] => inl s
  | v :: r =>
      match un_flabel v with
      | Some l => match fstep client s l with Some s' => frun client s' r (i + 1) | None => inr i end
      | None => inr i
      end
  end.
Definition enc_res (r : option herr) : val := match r with None => VL [] | Some e => VL [VN (enc_herr e)] end.
Definition enc_mpc (m : mpc) : val :=
  match m with
  | M0 => VL [VN 0] | M1 => VL [VN 1] | M2 => VL [VN 2] | M3 => VL [VN 3] | M4 => VL [VN 4] | M5 => VL [VN 5]
  | M6 => VL [VN 6] | M7 => VL [VN 7] | M8 => VL [VN 8] | M9 r => VL [VN 9; enc_res r] | MDone r => VL [VN 10; enc_res r]
  end.
Definition enc_wpc (w : wpc) : N :=
  match w with
  | WNot => 0 | WTop => 1 | WGot _ => 2 | WClr _ => 3 | WRdB _ => 4 | WFr _ _ => 5 | WOk0 _ _ => 6 | WOk1 _ => 7
  | WErr0 _ _ => 8 | WSet _ => 9 | WRaised _ => 10 | WClosing => 11 | WExiting => 12 | WDone => 13
  end.

Definition un_pyopt (v : val) : option pyval :=
  match v with VL [VL [VN t]] => Some (PNum t) | VL [VL []] => Some PNone | _ => None end.
Definition un_nopt (v : val) : option N := match v with VL [VN t] => Some t | _ => None end.
Definition un_entry (n : N) : entry :=
  match n with 0 => EConnectSsh | 1 => EConnect | 2 => EConnectTls | _ => EConnectUds end.
Definition enc_wait (w : wait) : val := match w with Bounded t => VL [VN t] | Unbounded => VL [] end.
Definition enc_pyval (p : pyval) : val := match p with PNum t => VL [VN t] | PNone => VL [] end.

Definition run (v : val) : val :=
  match v with
  | VL [VN 1; sv; cl] =>
      match choose_base (unVBs sv) (unVBs cl) with
      | Ok b => VL [VN 0; enc_base b] | KeyError => VL [VN 1] | Crash e => VL [VN 2; VN e] end
  | VL [VN 2; t] =>
      match parse_hello (un_node t) with
      | Ok (s, caps) => VL [VN 0; enc_sid s; VL (map VB caps)] | KeyError => VL [VN 1] | Crash e => VL [VN 2; VN e] end
  | VL [VN 3; VN k; VN priv; extra] =>
      let l := profile_caps (un_profile k priv) (unVBs extra) in
      VL [VL (map VB l); VL (map VB (map fst (caps_of l)))]
  | VL [VN 4; VN fixed; cl; VL labels] =>
      match run_labels (negb (fixed =? 0)) (unVBs cl) init (map un_label labels) with
      | None => VL []
      | Some s => VL [VL (map (fun fm => VL [enc_base (fst fm); VN (snd fm)]) (s_wire s)); enc_main (s_main s);
                      enc_sid (s_sid s); match s_caps s with None => VL [] | Some l => VL [VL (map VB l)] end;
                      enc_base (s_base s)]
      end
  | VL [VN 5; cl] => enc_node (build (unVBs cl))
  | VL [VN 6; cl; VL labels] =>
      match frun (unVBs cl) finit labels 0 with
      | inr i => VL [VN 0; VN i]
      | inl s => VL [VN 1; VL (map (fun fm => VL [enc_base (fst fm); VN (snd fm)]) (f_wire s)); enc_mpc (f_m s);
                     enc_sid (f_sid s); match f_caps s with None => VL [] | Some l => VL [VL (map VB l)] end;
                     enc_base (f_base s); vbool (f_pending s); vbool (f_lis s); vbool (f_ev s); vbool (f_conn s);
                     VN (enc_wpc (f_w s)); enc_res (f_err s); VL (map VN (f_q s))]
      end
  | VL [VN 7; VN e; pos; kw; mp; cfg] =>
      let a := {| a_pos := un_pyopt pos; a_kw := un_pyopt kw; a_mp := un_pyopt mp; a_cfg := un_nopt cfg |} in
      VL [enc_wait (hello_wait (un_entry e) a); enc_pyval (manager_timeout a)]
  | _ => verr 1
  end.
