(* Glue/C05_glue.v — entry point of the extracted runner for C05.
   tree  : VL [VB tag; text; VL children]      text: VL [] = None | VL [VB t]
   label : VL [VN 0; VN ready] LTop | VL [VN 1; tree] LRecv (HTree) | VL [VN 1] LRecv HOther
           | VL [VN 2] LDie | VL [VN 3] LTimeout | VL [VN 4] LMain | VL [VN 5; VN m] LPut
   run (VL [VN fn; args...]) :
     fn 1: choose_base [VL server; VL client]          -> VL [VN 0; VN (0=1.0,1=1.1)] | VL [VN 2; VN code]
     fn 2: parse [tree]                                 -> VL [VN 0; sid; VL caps] | VL [VN 2; VN code]
                                                           sid: VL [] = default 0 | VL [text]
     fn 3: profile_caps [VN kind; VN private; VL extra] -> VL [VL get_capabilities; VL keys of Capabilities(...)]
             kind: 0 default, 1 alu, 2 huawei, 3 huaweiyang, 4 nexus, 5 sros
     fn 4: run [VN fixed15; VL client; VL labels]       -> VL [] (a label was not enabled)
             | VL [VL frames(VL [VN framing; VN m]); main; sid; caps(VL [] | VL [VL uris]); VN base]
             main: VL [VN 0] waiting | VL [VN 1] returned ok | VL [VN 2; VN err(0 timeout,1 session close,2 parse,3 choose)]
     fn 5: build [VL client]                            -> tree *)
From NC Require Import Model.Base Model.Caps Model.Writer Model.Negotiate.

Definition unVB (v : val) : bytes := match v with VB b => b | _ => [] end.
Definition unVBs (v : val) : list bytes := match v with VL l => map unVB l | _ => [] end.
Definition un_text (v : val) : option bytes := match v with VL [VB t] => Some t | _ => None end.
Fixpoint un_node (v : val) : node :=
  match v with
  | VL [VB tag; tx; VL ch] => Node tag (un_text tx) (map un_node ch)
  | _ => Node [] None []
  end.
Definition enc_text (t : option bytes) : val := match t with Some t => VL [VB t] | None => VL [] end.
Fixpoint enc_node (n : node) : val :=
  match n with Node tag tx ch => VL [VB tag; enc_text tx; VL (map enc_node ch)] end.
Definition enc_base (b : base) : val := VN (match b with B10 => 0 | B11 => 1 end).
Definition enc_sid (s : sid) : val := match s with SidDefault => VL [] | SidText t => VL [enc_text t] end.
Definition un_profile (k priv : N) : profile :=
  match k with 1 => PAlu | 2 => PHuawei | 3 => PHuaweiYang | 4 => PNexus | 5 => PSros (negb (priv =? 0)) | _ => PDefault end.
Definition un_label (v : val) : label :=
  match v with
  | VL [VN 0; VN r] => LTop (negb (r =? 0))
  | VL [VN 1; t] => LRecv (HTree (un_node t))
  | VL [VN 1] => LRecv HOther
  | VL [VN 2] => LDie
  | VL [VN 3] => LTimeout
  | VL [VN 4] => LMain
  | VL [VN 5; VN m] => LPut m
  | _ => LDie
  end.
Definition enc_herr (e : herr) : N := match e with ETimeout => 0 | ESessionClose => 1 | EParse => 2 | EChoose => 3 end.
Definition enc_main (m : mainst) : val :=
  match m with MWaiting => VL [VN 0] | MReturned None => VL [VN 1] | MReturned (Some e) => VL [VN 2; VN (enc_herr e)] end.

Definition run (v : val) : val :=
  match v with
  | VL [VN 1; sv; cl] =>
      match choose_base (unVBs sv) (unVBs cl) with
      | Ok b => VL [VN 0; enc_base b] | KeyError => VL [VN 1] | Crash e => VL [VN 2; VN e] end
  | VL [VN 2; t] =>
      match parse_hello (un_node t) with
      | Ok (s, caps) => VL [VN 0; enc_sid s; VL (map VB caps)] | KeyError => VL [VN 1] | Crash e => VL [VN 2; VN e] end
  | VL [VN 3; VN k; VN priv; extra] =>
      let l := profile_caps (un_profile k priv) (unVBs extra) in
      VL [VL (map VB l); VL (map VB (map fst (caps_of l)))]
  | VL [VN 4; VN fixed; cl; VL labels] =>
      match run_labels (negb (fixed =? 0)) (unVBs cl) init (map un_label labels) with
      | None => VL []
      | Some s => VL [VL (map (fun fm => VL [enc_base (fst fm); VN (snd fm)]) (s_wire s)); enc_main (s_main s);
                      enc_sid (s_sid s); match s_caps s with None => VL [] | Some l => VL [VL (map VB l)] end;
                      enc_base (s_base s)]
      end
  | VL [VN 5; cl] => enc_node (build (unVBs cl))
  | _ => verr 1
  end.
