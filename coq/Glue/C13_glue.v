(* Glue/C13_glue.v — entry point of the extracted runner for C13.
   prog   = VL [VN 0] Ret | VL [VN 1; VN e] Raise | VL [VN 2; VN kind; VB target] Req | VL [VN 3; p; q] Seq
          | VL [VN 4; VB target; p] Locked | VL [VN 5; p] Try | VL [VN 6; VN kind; VB target] AReq (asynchronous, dropped)
          | VL [VN 7; VB target; VL [VL [VN caught; p] ...]] Reuse: ONE context object entered once per entry (LockCtx.Reuse)
   answer = VL [ VL [opt severity; opt message] ... ]        (the rpc-errors of the n-th reply; opt x = VL [] | VL [x])
   run (VL [VN 1; prog; VN mode; VL pats; VL [answer...]]) ->
       VL [ VL [ VL [VN kind; VB target] ... ];  result ]
   run (VL [VN 2; prog; VN mode; VL pats; VL [tree...]]) -> the same, the n-th reply given as the TREE of its <rpc-reply>
       (tree = VL [VB tag; VL [VL [VB k; VB v]...]; opt text; VB ser; VL [tree...]], as in Glue/C06_glue.v): the rpc-errors
       of the reply are computed by Model.RpcErrors.parse_errors (RPCReply.parse + RPCError.__init__)
       result = VL [VN 0] normal | VL [VN 1; VN e] body exception
              | VL [VN 2; VN kind; VB target; VN single(1)/aggregate(2); VB severity; VB message; VN n_errors]   *)
From NC Require Import Model.Base Model.RpcErrors Model.LockCtx.

Definition unVB (v : val) : bytes := match v with VB b => b | _ => [] end.
Definition unVBs (v : val) : list bytes := match v with VL l => map unVB l | _ => [] end.
Definition dec_optb (v : val) : option bytes := match v with VL [VB b] => Some b | _ => None end.

Fixpoint dec_prog (v : val) : prog :=
  match v with
  | VL [VN 1; VN e] => Raise e
  | VL [VN 2; VN k; VB t] => Req k t
  | VL [VN 3; p; q] => Seq (dec_prog p) (dec_prog q)
  | VL [VN 4; VB t; p] => Locked t (dec_prog p)
  | VL [VN 5; p] => Try (dec_prog p)
  | VL [VN 6; VN k; VB t] => AReq k t
  | VL [VN 7; VB t; VL es] =>
      Reuse t (map (fun e => match e with VL [VN c; p] => (N.eqb c 1, dec_prog p) | _ => (false, Ret) end) es)
  | _ => Ret
  end.

Definition dec_err (v : val) : rpc_error :=
  match v with
  | VL [sev; msg] => mkErr None None None (dec_optb sev) None None (dec_optb msg)
  | _ => err_empty
  end.
Definition dec_answer (v : val) : list rpc_error := match v with VL l => map dec_err l | _ => [] end.
Definition dec_answers (v : val) : list (list rpc_error) := match v with VL l => map dec_answer l | _ => [] end.

Definition dec_attr (v : val) : bytes * bytes := match v with VL [VB k; VB w] => (k, w) | _ => ([], []) end.
Definition dec_attrs (v : val) : list (bytes * bytes) := match v with VL l => map dec_attr l | _ => [] end.
Fixpoint dec_node (v : val) : node :=
  match v with
  | VL [VB tag; attrs; txt; VB ser; VL kids] => Elem tag (dec_attrs attrs) (dec_optb txt) ser (map dec_node kids)
  | _ => Elem [] [] None [] []
  end.
Definition dec_replies (v : val) : list (list rpc_error) :=
  match v with VL l => map (fun r => parse_errors (dec_node r)) l | _ => [] end.

Definition optb (o : option bytes) : bytes := match o with Some b => b | None => [] end.
Definition enc_result (r : result) : val :=
  match r with
  | Normal => VL [VN 0]
  | Exc (BodyExn e) => VL [VN 1; VN e]
  | Exc (RpcExn k t Return) => VL [VN 3]                                        (* unreachable *)
  | Exc (RpcExn k t (RaiseSingle e)) =>
      VL [VN 2; VN k; VB t; VN 1; VB (optb (e_severity e)); VB (optb (e_message e)); VN 1]
  | Exc (RpcExn k t (RaiseAggregate es)) =>
      VL [VN 2; VN k; VB t; VN 2; VB (agg_severity es); VB (agg_message es); VN (N.of_nat (length es))]
  end.

Definition run (v : val) : val :=
  match v with
  | VL [VN 1; p; VN mode; pats; answers] =>
      let (tr, r) := exec (scripted (dec_answers answers)) (classify (unVBs pats)) mode (dec_prog p) [] in
      VL [VL (map (fun e => VL [VN (ev_kind e); VB (ev_target e)]) tr); enc_result r]
  | VL [VN 2; p; VN mode; pats; replies] =>
      let (tr, r) := exec (scripted (dec_replies replies)) (classify (unVBs pats)) mode (dec_prog p) [] in
      VL [VL (map (fun e => VL [VN (ev_kind e); VB (ev_target e)]) tr); enc_result r]
  | _ => verr 1
  end.
