(* Glue/C12_glue.v — entry point of the extracted runner for C12.
   run (VL [VN 1; VN transport; VL labels]) ->
     VL [VN accepted; VL [connected; closing; socket_open; peer_saw_eof; worker; phase;
                          VL pending; VL failed; VL answered; VL late;
                          client_closed; callbacks_after_close; sel_after_close; cs; VL chan]]
   accepted = number of labels accepted (= length labels iff the model accepts the trace);
   the state is the one reached after the accepted prefix.
   transport: 0 ssh, 1 tls, 2 unix.
   actor = the caller of the close() as measured by the harness (Model/CloseCallers.v caller_of_code): 0 main thread,
     1 the session's own thread, 2 another application thread, 3 the thread of ANOTHER session (one of its listeners
     closes this session); mapped by actor_of: only 1 is the actor Worker, every other caller is a Client.
   cstep: 0 SetClosing, 1 ClearConn, 2 CloseHandle, 3 JoinW, 4 ChanDrop.
   labels: [0] OpenHandle [1] SockCleanup [2] ConnectFail [3] SetConn [4] Start [5] HelloOk
     [6 rid acc] Submit [7] CloseCall [8 actor cstep did] CStep [9 actor] CloseRet [10] CsBegin [11] CsRet
     [12 exc] MgrExit [13] Raise [14] SelectBegin [15 ready] Select [16] ReadBegin
     [17 kind n] Read (kind 0 eof, 1 data with n messages, 2 error) [18 b] ChkClosing
     [19 [] | [rid]] Dispatch [20] CbRaise [21 [] | [rid]] CbClose [22] ErrBroadcast [23] WorkerCloseCall [24] Exit
     [25 n] Arrive (SSH: a chunk completing n messages enters the channel buffer)
     [26] Block (the read in progress sleeps inside the transport) [27] Unblock (it goes on, the handle still open)
   worker: 0 not started, 1..12 as the constructors of wpc without WBlocked, 13 WBlocked
   chan: the chunks still buffered in the SSH channel (their message counts) *)
From NC Require Import Model.Base Model.Close Model.CloseCallers.

Definition nb (n : N) : bool := negb (N.eqb n 0).

Definition dec_tr (n : N) : option transport :=
  match n with 0 => Some Ssh | 1 => Some Tls | 2 => Some Unix | _ => None end.
Definition dec_actor (n : N) : option actor :=
  match caller_of_code n with Some c => Some (actor_of c) | None => None end.
Definition dec_cstep (n : N) : option cstep :=
  match n with 0 => Some SetClosing | 1 => Some ClearConn | 2 => Some CloseHandle | 3 => Some JoinW
             | 4 => Some ChanDrop | _ => None end.

Definition dec_label (v : val) : option label :=
  match v with
  | VL [VN 0] => Some OpenHandle | VL [VN 1] => Some SockCleanup | VL [VN 2] => Some ConnectFail
  | VL [VN 3] => Some SetConn | VL [VN 4] => Some Start | VL [VN 5] => Some HelloOk
  | VL [VN 6; VN rid; VN acc] => Some (Submit rid (nb acc))
  | VL [VN 7] => Some CloseCall
  | VL [VN 8; VN a; VN c; VN d] =>
      match dec_actor a, dec_cstep c with Some a', Some c' => Some (CStep a' c' (nb d)) | _, _ => None end
  | VL [VN 9; VN a] => match dec_actor a with Some a' => Some (CloseRet a') | None => None end
  | VL [VN 10] => Some CsBegin | VL [VN 11] => Some CsRet
  | VL [VN 12; VN e] => Some (MgrExit (nb e))
  | VL [VN 13] => Some Raise | VL [VN 14] => Some SelectBegin
  | VL [VN 15; VN r] => Some (Select (nb r))
  | VL [VN 16] => Some ReadBegin
  | VL [VN 17; VN k; VN n] =>
      match k with 0 => Some (Read REof) | 1 => Some (Read (RData (N.to_nat n))) | 2 => Some (Read RErr) | _ => None end
  | VL [VN 18; VN b] => Some (ChkClosing (nb b))
  | VL [VN 19; VL []] => Some (Dispatch None)
  | VL [VN 19; VL [VN rid]] => Some (Dispatch (Some rid))
  | VL [VN 20] => Some CbRaise | VL [VN 22] => Some ErrBroadcast
  | VL [VN 21; VL []] => Some (CbClose None)
  | VL [VN 21; VL [VN rid]] => Some (CbClose (Some rid))
  | VL [VN 23] => Some WorkerCloseCall | VL [VN 24] => Some Exit
  | VL [VN 25; VN n] => Some (Arrive (N.to_nat n))
  | VL [VN 26] => Some Block | VL [VN 27] => Some Unblock
  | _ => None
  end.

Fixpoint dec_labels (l : list val) : option (list label) :=
  match l with
  | [] => Some []
  | v :: l' => match dec_label v, dec_labels l' with Some a, Some b => Some (a :: b) | _, _ => None end
  end.

Definition enc_worker (w : wpc) : N :=
  match w with
  | WNotStarted => 0 | WTop => 1 | WSelecting => 2 | WReady => 3 | WReading _ => 4 | WDispatching _ => 5
  | WAfterTimeout => 6 | WAfterEof => 7 | WBreak => 8 | WRaised => 9 | WErrDone _ => 10 | WClosing _ _ => 11
  | WExited => 12 | WBlocked => 13
  end.
Definition enc_phase (p : phase) : N :=
  match p with PFresh => 0 | PHandle => 1 | PHello => 2 | PUp => 3 | PFailing => 4 | PFailed => 5 end.
Definition enc_cs (c : csphase) : N :=
  match c with CsIdle => 0 | CsRequested => 1 | CsClosed => 2 | CsReturned => 3 end.

Definition enc_state (s : state) : val :=
  VL [vbool (connected s); vbool (closing s); vbool (socket_open s); vbool (peer_saw_eof s);
      VN (enc_worker (worker s)); VN (enc_phase (ph s));
      VL (map VN (pending s)); VL (map VN (failed s)); VL (map VN (answered s)); VL (map VN (late s));
      vbool (client_closed s); VN (callbacks_after_close s); VN (sel_after_close s); VN (enc_cs (cs s));
      VL (map (fun c => VN (N.of_nat c)) (chan s))].

Definition run (v : val) : val :=
  match v with
  | VL [VN 1; VN t; VL ls] =>
      match dec_tr t, dec_labels ls with
      | Some t', Some ls' =>
          let r := accepts_prefix (init t') ls' 0 in
          VL [VN (fst r); enc_state (snd r)]
      | _, _ => verr 1
      end
  | _ => verr 1
  end.
