(* Glue/C02_glue.v — entry point of the extracted runner for C02.
   run (VL [VN fn; args...]) :
     fn 1: frame   [VN base(0=1.0,1=1.1); VB msg]                       -> VB octets
     fn 2: worker  [VN base; VL msgs; VL readys(VN 0/1); VL answers]    -> VL [VB wire; status]
             answer: VL [VN 0; VN n] = returns n (0 = closed) | VL [VN 1] = negative | VL [VN 2] = raises
             status: VL [VN 0] drained | VL [VN 1; VL q] waiting | VL [VN 2; VB unsent; VL q] in flight
                     | VL [VN 3; VN kind(0 SessionCloseError, 1 transport exception); VB unsent; VL q] failed
     fn 3: decode11 [VB wire] -> VL [] | VL [VL msgs]          (strict RFC 6242 receiver, Spec/WireSpec.v)
     fn 4: decode10 [VB wire] -> VL [] | VL [VL msgs]          (strict RFC 4742 receiver)
     fn 5: write_loop [VB data; VL answers] -> VL [VB taken; result; VN unused answers]
             result: VL [VN 0] done | VL [VN 3; VN kind; VB unsent] | VL [VN 2; VB unsent] starved *)
From NC Require Import Model.Base Model.Writer Spec.WireSpec.

Definition unVB (v : val) : bytes := match v with VB b => b | _ => [] end.
Definition unVBs (v : val) : list bytes := match v with VL l => map unVB l | _ => [] end.
Definition un_base (n : N) : base := if n =? 0 then B10 else B11.
Definition un_bool (v : val) : bool := match v with VN 0 => false | _ => true end.
Definition un_answer (v : val) : answer :=
  match v with VL [VN 0; VN n] => Accept n | VL [VN 1] => Neg | _ => Raise end.
Definition un_list {A} (f : val -> A) (v : val) : list A := match v with VL l => map f l | _ => [] end.

Definition enc_err (e : werr) : list val :=
  match e with SessionClose u => [VN 0; VB u] | TransportExc u => [VN 1; VB u] end.
Definition enc_stat (s : wstat) : val :=
  match s with
  | Drained => VL [VN 0]
  | Waiting q => VL [VN 1; VL (map VB q)]
  | InFlight u q => VL [VN 2; VB u; VL (map VB q)]
  | Failed e q => VL (VN 3 :: enc_err e ++ [VL (map VB q)])
  end.
Definition enc_wres (r : wres) : val :=
  match r with WDone => VL [VN 0] | WErr e => VL (VN 3 :: enc_err e) | WStarved u => VL [VN 2; VB u] end.
Definition enc_opt (o : option (list bytes)) : val :=
  match o with None => VL [] | Some l => VL [VL (map VB l)] end.

Definition run (v : val) : val :=
  match v with
  | VL [VN 1; VN b; VB m] => VB (frame (un_base b) m)
  | VL [VN 2; VN b; msgs; readys; answers] =>
      let '(w, st) := worker (un_base b) (unVBs msgs) (un_list un_bool readys) (un_list un_answer answers) in
      VL [VB w; enc_stat st]
  | VL [VN 3; VB w] => enc_opt (decode11 w)
  | VL [VN 4; VB w] => enc_opt (decode10 w)
  | VL [VN 5; VB d; answers] =>
      let '(w, r, rest) := write_loop d (un_list un_answer answers) in
      VL [VB w; enc_wres r; VN (N.of_nat (length rest))]
  | _ => verr 1
  end.
