(* Glue/C02_glue.v — entry point of the extracted runner for C02.
   run (VL [VN fn; args...]) :
     fn 1: frame   [VN base(0=1.0,1=1.1); VB msg]                       -> VB octets
     fn 2: worker  [VN base; VL msgs; VL readys(VN 0/1); VL answers]    -> VL [VB wire; status]
             answer: VL [VN 0; VN n] = returns n (0 = closed) | VL [VN 1] = negative | VL [VN 2] = raises | VL [VN 3] = returns None
             status: VL [VN 0] drained | VL [VN 1; VL q] waiting | VL [VN 2; VB unsent; VL q] in flight
                     | VL [VN 3; VN kind(0 SessionCloseError, 1 transport exception, 2 TypeError of `None <= 0`); VB unsent; VL q] failed
     fn 3: decode11 [VB wire] -> VL [] | VL [VL msgs]          (strict RFC 6242 receiver, Spec/WireSpec.v)
     fn 4: decode10 [VB wire] -> VL [] | VL [VL msgs]          (strict RFC 4742 receiver)
     fn 5: write_loop [VB data; VL answers] -> VL [VB taken; result; VN unused answers]
             result: VL [VN 0] done | VL [VN 3; VN kind; VB unsent] | VL [VN 2; VB unsent] starved
     fn 6: WriterSched.run [VN base; VN pending; VL progs; VL labels]   (trace validation, tools/harness/wr_check.py)
             label: [0;t;b] LChk | [1;t;VB m] LPut | [2;b] LSetBase | [3;b] LEmpty | [4;b] LReady | [5;VB m] LGet | [6;b] LPendRd
                    | [7] LPendClr | [8;b] LBaseRd | [9;VB offered;answer] LWrite | [10] LSelect | [11;kind;VB unsent] LDispErr | [12] LClose
             -> VL [VN 0; VN i] label i is not accepted
              | VL [VN 1; VB wire; VL puts; VL q; VN wpc; err; VN connected; VN frames done; VN base; VN pending; VL subs]
                   entry: VL [VN thread; VB msg; VN tag]   err: VL [] | VL [VN kind; VB unsent]   sub: VL [VN pc; VN remaining] *)
From NC Require Import Model.Base Model.Writer Spec.WireSpec Model.WriterSched.

Definition unVB (v : val) : bytes := match v with VB b => b | _ => [] end.
Definition unVBs (v : val) : list bytes := match v with VL l => map unVB l | _ => [] end.
Definition un_base (n : N) : base := if n =? 0 then B10 else B11.
Definition un_bool (v : val) : bool := match v with VN 0 => false | _ => true end.
Definition un_answer (v : val) : answer :=
  match v with VL [VN 0; VN n] => Accept n | VL [VN 1] => Neg | VL [VN 3] => NoCount | _ => Raise end.
Definition un_list {A} (f : val -> A) (v : val) : list A := match v with VL l => map f l | _ => [] end.

Definition enc_err (e : werr) : list val :=
  match e with SessionClose u => [VN 0; VB u] | TransportExc u => [VN 1; VB u] | CompareExc u => [VN 2; VB u] end.
Definition enc_stat (s : wstat) : val :=
  match s with
  | Drained => VL [VN 0]
  | Waiting q => VL [VN 1; VL (map VB q)]
  | InFlight u q => VL [VN 2; VB u; VL (map VB q)]
  | Failed e q => VL (VN 3 :: enc_err e ++ [VL (map VB q)])
  end.
Definition enc_wres (r : wres) : val :=
  match r with WDone => VL [VN 0] | WErr e => VL (VN 3 :: enc_err e) | WStarved u => VL [VN 2; VB u] end.
Definition enc_opt (o : option (list bytes)) : val :=
  match o with None => VL [] | Some l => VL [VL (map VB l)] end.

Definition un_label (v : val) : option label :=
  match v with
  | VL [VN 0; VN t; VN b] => Some (LChk (N.to_nat t) (negb (b =? 0)))
  | VL [VN 1; VN t; VB m] => Some (LPut (N.to_nat t) m)
  | VL [VN 2; VN b] => Some (LSetBase (un_base b))
  | VL [VN 3; VN b] => Some (LEmpty (negb (b =? 0)))
  | VL [VN 4; VN b] => Some (LReady (negb (b =? 0)))
  | VL [VN 5; VB m] => Some (LGet m)
  | VL [VN 6; VN b] => Some (LPendRd (negb (b =? 0)))
  | VL [VN 7] => Some LPendClr
  | VL [VN 8; VN b] => Some (LBaseRd (un_base b))
  | VL [VN 9; VB d; a] => Some (LWrite d (un_answer a))
  | VL [VN 10] => Some LSelect
  | VL [VN 11; VN 0; VB u] => Some (LDispErr (SessionClose u))
  | VL [VN 11; VN 1; VB u] => Some (LDispErr (TransportExc u))
  | VL [VN 11; VN 2; VB u] => Some (LDispErr (CompareExc u))
  | VL [VN 12] => Some LClose
  | _ => None
  end.
Fixpoint srun (s : wstate) (ls : list val) (i : N) : wstate + N :=
  match ls with
  | [] => inl s
  | v :: r =>
      match un_label v with
      | Some l => match wstep s l with Some s' => srun s' r (i + 1) | None => inr i end
      | None => inr i
      end
  end.
Definition enc_base (b : base) : val := VN (match b with B10 => 0 | B11 => 1 end).
Definition enc_entry (e : entry) : val := VL [VN (N.of_nat (e_thr e)); VB (e_msg e); enc_base (e_tag e)].
Definition enc_wpc (w : wpc) : N :=
  match w with
  | PTop => 0 | PRdy => 1 | PGet => 2 | PPend _ => 3 | PClr _ => 4 | PBase _ => 5 | PWr _ _ => 6 | PSel => 7
  | PRaised _ _ => 8 | PClosing _ => 9 | PDone _ => 10
  end.
Definition enc_sub (x : sub) : val :=
  VL [VN (match sb_pc x with SIdle => 0 | SChecked => 1 | SRefused => 2 end); VN (N.of_nat (length (sb_prog x)))].

Definition run (v : val) : val :=
  match v with
  | VL [VN 6; VN b; VN pend; VL progs; VL labels] =>
      match srun (winit (un_base b) (negb (pend =? 0)) (map unVBs progs)) labels 0 with
      | inr i => VL [VN 0; VN i]
      | inl s => VL [VN 1; VB (ws_wire s); VL (map enc_entry (ws_puts s)); VL (map enc_entry (ws_q s)); VN (enc_wpc (ws_w s));
                     match ws_err s with None => VL [] | Some e => VL (enc_err e) end; vbool (ws_conn s);
                     VN (N.of_nat (ws_ndone s)); enc_base (ws_base s); vbool (ws_pending s); VL (map enc_sub (ws_subs s))]
      end
  | VL [VN 1; VN b; VB m] => VB (frame (un_base b) m)
  | VL [VN 2; VN b; msgs; readys; answers] =>
      let '(w, st) := worker (un_base b) (unVBs msgs) (un_list un_bool readys) (un_list un_answer answers) in
      VL [VB w; enc_stat st]
  | VL [VN 3; VB w] => enc_opt (decode11 w)
  | VL [VN 4; VB w] => enc_opt (decode10 w)
  | VL [VN 5; VB d; answers] =>
      let '(w, r, rest) := write_loop d (un_list un_answer answers) in
      VL [VB w; enc_wres r; VN (N.of_nat (length rest))]
  | _ => verr 1
  end.
