(* Glue/LTS_glue.v — runner entry for the session LTS (used by the C03, C04, C11 checks).
   run (VL [VN qualify; VL labels]) where a label is VL [VN tag; args...] (tags as in tools/harness/lts.py):
   -> VL [VN accepted; VN total; VL outcomes; VN connected; VL nq; VL taken; VN pc_code; VL table_ids;
          VL wrote; VL deliver_log]
   outcome of a request: VL [VN 0] not done | VL [VN 1; VN id] reply | VL [VN 2; VN e] exception;
   followed by reply/error fields: VL [st; VL [reply?]; VL [error?]; VN ev] *)
From NC Require Import Model.Base Model.SessionLTS.

Definition nat_of (v : val) : nat := match v with VN n => N.to_nat n | _ => O end.
Definition n_of (v : val) : N := match v with VN n => n | _ => 0 end.
Definition b_of (v : val) : bool := match v with VN 0 => false | VN _ => true | _ => false end.
Definition ns_of (v : val) : list N := match v with VL l => map n_of l | _ => [] end.

Definition dec_label (v : val) : option label :=
  match v with
  | VL [VN 1; r; i] => Some (LReg (nat_of r) (n_of i))
  | VL [VN 2; r; b] => Some (LChk (nat_of r) (b_of b))
  | VL [VN 3; r] => Some (LPut (nat_of r))
  | VL [VN 4; r; f] => Some (LWaitRes (nat_of r) (b_of f))
  | VL [VN 5; r] => Some (LDeq (nat_of r))
  | VL [VN 6; k; a] => Some (LRecv (n_of k) (n_of a))
  | VL [VN 7; n] => Some (LNqPut (n_of n))
  | VL [VN 8; i; f] => Some (LTGet (n_of i) (b_of f))
  | VL [VN 9; r] => Some (LEvSetReply (nat_of r))
  | VL [VN 10; i] => Some (LTDel (n_of i))
  | VL [VN 11] => Some LReadEof
  | VL [VN 12] => Some LReadErr
  | VL [VN 13; ids] => Some (LTValues (ns_of ids))
  | VL [VN 14] => Some LTClear
  | VL [VN 15; r] => Some (LEvSetErr (nat_of r))
  | VL [VN 16; w] => Some (LClose (n_of w))
  | VL [VN 17] => Some LExit
  | VL [VN 18; g; n] => Some (LTake (b_of g) (n_of n))
  | VL [VN 19; e] => Some (LErrBcast (n_of e))
  | VL [VN 20] => Some LWriteFail
  | VL [VN 21; e] => Some (LRaise (n_of e))
  | _ => None
  end.

Fixpoint dec_labels (l : list val) : option (list label) :=
  match l with
  | [] => Some []
  | v :: l' => match dec_label v, dec_labels l' with
               | Some x, Some xs => Some (x :: xs)
               | _, _ => None
               end
  end.

Definition enc_opt (o : option N) : val := match o with Some x => VL [VN x] | None => VL [] end.
Definition enc_req (r : req) : val :=
  VL [ match r_st r with
       | CDone (OReply i) => VL [VN 1; VN i]
       | CDone (OExc e) => VL [VN 2; VN e]
       | _ => VL [VN 0]
       end;
       enc_opt (r_reply r); enc_opt (r_error r); vbool (r_ev r) ].
Definition pc_code (p : wpc) : N :=
  match p with
  | WIdle => 0 | WNotif _ => 1 | WLookup _ => 2 | WDeliver _ _ => 3 | WDel _ => 4 | WRaise _ => 5
  | WErrSnap _ => 6 | WErrClear _ _ => 7 | WErrDeliver _ _ => 8 | WClosed => 9 | WExited => 10
  end.

Definition run (v : val) : val :=
  match v with
  | VL [q; VL ls] =>
      match dec_labels ls with
      | None => verr 2
      | Some labels =>
          let '(k, s) := run_count (init (b_of q)) labels 0 in
          VL [ VN k; VN (N.of_nat (length labels)); VL (map enc_req (reqs s)); vbool (connected s);
               VL (map VN (nq s)); VL (map VN (taken s)); VN (pc_code (pc s));
               VL (map (fun kv => VN (fst kv)) (table s));
               VL (map (fun r => VN (N.of_nat r)) (wrote s));
               VL (map (fun r => VN (N.of_nat r)) (deliver_log s)) ]
      end
  | _ => verr 1
  end.
