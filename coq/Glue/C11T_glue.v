(* Glue/C11T_glue.v — runner entry for Model/TakeNotif.v (second runner of the C11 check).
   run (VL [VN 1; block; timeout; VL queued; VL arrivals]) -> outcome
     block    : VL [] omitted | VL [VN b]
     timeout  : VL [] omitted | VL [VN 0] None | VL [VN 1; VN ms] number >= 0 | VL [VN 2; VN ms] the number -ms
     queued   : VN n ...            arrivals : VL [VN offset_ms; VN n] ...
     outcome  : VL [VN 0; VN ms] None at ms | VL [VN 1; VN n; VN ms] notification n at ms | VL [VN 2] blocks
                | VL [VN 3] ValueError; followed by nothing.  Malformed call -> verr 1. *)
From Coq Require Import ZArith.
From NC Require Import Model.Base Model.TakeNotif.

Definition dec_block (v : val) : option (option bool) :=
  match v with
  | VL [] => Some None
  | VL [VN 0] => Some (Some false)
  | VL [VN _] => Some (Some true)
  | _ => None
  end.

Definition dec_tmo (v : val) : option (option tmo) :=
  match v with
  | VL [] => Some None
  | VL [VN 0] => Some (Some TNone)
  | VL [VN 1; VN ms] => Some (Some (TNum (Z.of_N ms)))
  | VL [VN 2; VN ms] => Some (Some (TNum (- Z.of_N ms)))
  | _ => None
  end.

Fixpoint dec_ns (l : list val) : option (list N) :=
  match l with
  | [] => Some []
  | VN n :: r => match dec_ns r with Some r' => Some (n :: r') | None => None end
  | _ => None
  end.

Fixpoint dec_arr (l : list val) : option (list (Z * N)) :=
  match l with
  | [] => Some []
  | VL [VN a; VN n] :: r => match dec_arr r with Some r' => Some ((Z.of_N a, n) :: r') | None => None end
  | _ => None
  end.

Definition enc_outcome (o : outcome) : val :=
  match o with
  | Ret None a => VL [VN 0; VN (Z.to_N a)]
  | Ret (Some n) a => VL [VN 1; VN n; VN (Z.to_N a)]
  | Blocks => VL [VN 2]
  | RaisesValueError => VL [VN 3]
  end.

Definition run (v : val) : val :=
  match v with
  | VL [VN 1; b; t; VL q; VL arr] =>
      match dec_block b, dec_tmo t, dec_ns q, dec_arr arr with
      | Some ob, Some ot, Some q', Some arr' => enc_outcome (manager_call ob ot (mkenv q' arr'))
      | _, _, _, _ => verr 1
      end
  | _ => verr 1
  end.
