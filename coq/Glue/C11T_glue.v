(* Glue/C11T_glue.v — runner entry for Model/TakeNotif.v (second runner of the C11 check).
   run (VL [VN 1; block; timeout; VL queued; VL arrivals]) -> outcome
     block    : VL [] omitted | VL [VN b]
     timeout  : VL [] omitted | VL [VN 0] None | VL [VN 1; VN ms] number >= 0 | VL [VN 2; VN ms] the number -ms
     queued   : VN n ...            arrivals : VL [VN offset_ms; VN n] ...
     outcome  : VL [VN 0; VN ms] None at ms | VL [VN 1; VN n; VN ms] notification n at ms | VL [VN 2] blocks
                | VL [VN 3] ValueError; followed by nothing.  Malformed call -> verr 1.
   run (VL [VN 2; VL labels]) -> the connect window (Model/ConnectWindow.v): replay of a trace from cinit
     label    : VL [VN 0] CRegNotif | [1] CRegHello | [2] CStart | [3] CWDispHello | [4; n] CWDispNotif n | [5; n] CNqPut n
                | [6] CWake | [7] CUnregHello | [8] CRet | [9; got; n] CTake | [10] CWDispOther; anything else is a label the
                model does not have (rejected at its index)
     outcome  : VL [VN 0; VN i] label i is not accepted | VL [VN 1; VL nq; VL taken; VL lost; VL dispatched] *)
From Coq Require Import ZArith.
From NC Require Import Model.Base Model.TakeNotif Model.ConnectWindow.

Definition dec_block (v : val) : option (option bool) :=
  match v with
  | VL [] => Some None
  | VL [VN 0] => Some (Some false)
  | VL [VN _] => Some (Some true)
  | _ => None
  end.

Definition dec_tmo (v : val) : option (option tmo) :=
  match v with
  | VL [] => Some None
  | VL [VN 0] => Some (Some TNone)
  | VL [VN 1; VN ms] => Some (Some (TNum (Z.of_N ms)))
  | VL [VN 2; VN ms] => Some (Some (TNum (- Z.of_N ms)))
  | _ => None
  end.

Fixpoint dec_ns (l : list val) : option (list N) :=
  match l with
  | [] => Some []
  | VN n :: r => match dec_ns r with Some r' => Some (n :: r') | None => None end
  | _ => None
  end.

Fixpoint dec_arr (l : list val) : option (list (Z * N)) :=
  match l with
  | [] => Some []
  | VL [VN a; VN n] :: r => match dec_arr r with Some r' => Some ((Z.of_N a, n) :: r') | None => None end
  | _ => None
  end.

Definition enc_outcome (o : outcome) : val :=
  match o with
  | Ret None a => VL [VN 0; VN (Z.to_N a)]
  | Ret (Some n) a => VL [VN 1; VN n; VN (Z.to_N a)]
  | Blocks => VL [VN 2]
  | RaisesValueError => VL [VN 3]
  end.

Definition dec_clabel (v : val) : option clabel :=
  match v with
  | VL [VN 0] => Some CRegNotif
  | VL [VN 1] => Some CRegHello
  | VL [VN 2] => Some CStart
  | VL [VN 3] => Some CWDispHello
  | VL [VN 4; VN n] => Some (CWDispNotif n)
  | VL [VN 5; VN n] => Some (CNqPut n)
  | VL [VN 6] => Some CWake
  | VL [VN 7] => Some CUnregHello
  | VL [VN 8] => Some CRet
  | VL [VN 9; VN g; VN n] => Some (CTake (negb (N.eqb g 0)) n)
  | VL [VN 10] => Some CWDispOther
  | _ => None
  end.

(* replay from state s; i = index of the label at the head *)
Fixpoint crun_vals (s : cst) (ls : list val) (i : N) : val :=
  match ls with
  | [] => VL [VN 1; VL (map VN (c_nq s)); VL (map VN (c_taken s)); VL (map VN (c_lost s)); VL (map VN (c_disp s))]
  | v :: r => match dec_clabel v with
              | Some l => match cstep s l with Some s' => crun_vals s' r (i + 1) | None => VL [VN 0; VN i] end
              | None => VL [VN 0; VN i]
              end
  end.

Definition run (v : val) : val :=
  match v with
  | VL [VN 2; VL labels] => crun_vals cinit labels 0
  | VL [VN 1; b; t; VL q; VL arr] =>
      match dec_block b, dec_tmo t, dec_ns q, dec_arr arr with
      | Some ob, Some ot, Some q', Some arr' => enc_outcome (manager_call ob ot (mkenv q' arr'))
      | _, _, _, _ => verr 1
      end
  | _ => verr 1
  end.
