(* Glue/C18_glue.v — entry point of the extracted runner for C18.
   run (VL [VN fn; args...]):
     fn 1: handler   [env; VL events]  -> VL [VN code; VB buffer]   code 0 = ran to the end, 1.. = exception (exn order)
     fn 2: project   [ftree; doc]      -> doc (the projected tree)
     fn 3: escaping  [VB s]            -> VL [VB (escape s); VB (quoteattr s)]
     fn 4: driver    [world; VB stream; VL [VL [VN len ...] ...]]   (Model/JunosParse.v, instance Model/JunosSax.v)
                     for each list of read lengths: VL [VL [obs after each read ...]; VL outs; VL fed]
                     obs   VL [VN kind; VN detail; VB held; VB head; VB buffer; VN #outs; VN length of the current fed entry]
                           kind 0 SAX, 1 DOM, 2 dead (detail = exception code), 3 outside the model (detail 0 expat rejects,
                           1 switch from a parser with a root, 2 switch after output), 4 out of fuel
                     outs  VL [VL [VN via_sax; VB message] ...]     fed  VL [VB ...] (latest first)
              world  VL [VL [env; VL [VL [] | VL [VL events] ...]; VN dispatch] ...]
     fn 5: the same on a base:1.1 session (Model/JunosParse11.v)
     fn 6: process   [VL [VL [VN base; world; VB stream] ...]; VL [VL [VL [VL [VN len ...] per session]; VL [VN k ...]] ...]]
                     several sessions in one process (Model/JunosProcess.v; base 10 or 11 per session); for each run (read
                     lengths per session, order of turns: `deal`):
                     VL [VL [VL [VN k; obs of session k after its read] per scheduled read]; VL [VL [outs; fed] per session]]
   encodings: event  VL [VN 0; VB name; attrs] | VL [VN 1; VB name] | VL [VN 2; VB text]
              attrs  VL [VL [VB k; VB v] ...]
              ftree  VL [VB tag; VL kids]
              env    VL [VN has_listener; VL [VL [VB id; VL [] | VL [ftree]] ...]]
              doc    VL [VN 0; VB text] | VL [VN 1; VB name; attrs; VL kids]            *)
From NC Require Import Model.Base Model.SaxFilter Spec.Projection Model.JunosParse Model.JunosSax.
From NC Require Import Model.Framing11 Model.JunosParse11.
From NC Require Import Model.JunosProcess.

Definition dec_attrs (v : val) : attrs :=
  match v with
  | VL l => flat_map (fun kv => match kv with VL [VB k; VB x] => [(k, x)] | _ => [] end) l
  | _ => []
  end.

Definition dec_event (v : val) : list event :=
  match v with
  | VL [VN 0; VB n; a] => [Start n (dec_attrs a)]
  | VL [VN 1; VB n] => [End n]
  | VL [VN 2; VB c] => [Chars c]
  | _ => []
  end.

Fixpoint dec_ftree (v : val) : ftree :=
  match v with
  | VL [VB t; VL ks] => FN t (map dec_ftree ks)
  | _ => FN [] []
  end.

Definition dec_env (v : val) : env :=
  match v with
  | VL [VN h; VL rows] =>
      mkenv (negb (N.eqb h 0))
            (flat_map (fun r => match r with
                                | VL [VB id; VL []] => [(id, None)]
                                | VL [VB id; VL [f]] => [(id, Some (dec_ftree f))]
                                | _ => [] end) rows)
  | _ => mkenv false []
  end.

Fixpoint dec_doc (v : val) : xt :=
  match v with
  | VL [VN 1; VB n; a; VL ks] => E n (dec_attrs a) (map dec_doc ks)
  | VL [VN 0; VB c] => T c
  | _ => T []
  end.

Definition enc_attrs (a : attrs) : val := VL (map (fun kv => VL [VB (fst kv); VB (snd kv)]) a).

Fixpoint enc_doc (t : xt) : val :=
  match t with
  | T c => VL [VN 0; VB c]
  | E n a ks => VL [VN 1; VB n; enc_attrs a; VL (map enc_doc ks)]
  end.

Definition exn_code (x : exn) : N :=
  match x with ESwitch => 1 | EOperation => 2 | EKey => 3 | EIndex => 4 | EAttr => 5 | EValue => 8 end.

Definition dec_script (v : val) : list (option (list event)) :=
  match v with
  | VL l => map (fun x => match x with VL [VL evs] => Some (flat_map dec_event evs) | _ => None end) l
  | _ => []
  end.

Definition dec_world (v : val) : world :=
  match v with
  | VL l => flat_map (fun p => match p with VL [e; scr; VN d] => [mkpiece (dec_env e) (dec_script scr) d] | _ => [] end) l
  | _ => []
  end.

Definition dec_lens (v : val) : list nat :=
  match v with VL l => flat_map (fun x => match x with VN k => [N.to_nat k] | _ => [] end) l | _ => [] end.

Definition enc_obs (s : st world xstate) : val :=
  let no := VN (N.of_nat (length (outs s))) in
  let nf := VN (N.of_nat (length (match fed s with f :: _ => f | [] => [] end))) in
  match stat s with
  | Run (Sax held head _ sbuf) => VL [VN 0; VN 0; VB held; VB head; VB sbuf; no; nf]
  | Run (Dom dbuf) => VL [VN 1; VN 0; VB []; VB []; VB dbuf; no; nf]
  | Dead e => VL [VN 2; VN e; VB []; VB []; VB []; no; nf]
  | Stuck r => VL [VN 3; VN (match r with WExpat => 0 | WSwitchRooted => 1 | WSwitchOutput => 2 end); VB []; VB []; VB []; no; nf]
  | Fuel => VL [VN 4; VN 0; VB []; VB []; VB []; no; nf]
  end.

Fixpoint run_obs (s : st world xstate) (reads : list bytes) : list val * st world xstate :=
  match reads with
  | [] => ([], s)
  | r :: rs => let s' := sx_parse s r in let (l, sf) := run_obs s' rs in (enc_obs s' :: l, sf)
  end.

Definition run_driver (w : world) (stream : bytes) (lens : list nat) : val :=
  let (l, sf) := run_obs (sx_init w) (segments stream lens) in
  VL [VL l; VL (map (fun o => VL [vbool (fst o); VB (snd o)]) (outs sf)); VL (map VB (fed sf))].

(* base:1.1 (Model/JunosParse11.v): after each read the framing side (buffer, chunks of the message in progress) and
   the number of messages dispatched; kind 5 = running, 2 = an exception left parse() *)
Definition enc_obs11 (s : dst world * pst11) : val :=
  let no := VN (N.of_nat (length (douts (fst s)))) in
  match ddead (fst s) with
  | Some e => VL [VN 2; VN e; VB []; VB []; no]
  | None => VL [VN 5; VN 0; VB (buf11 (snd s)); VB (frags11 (snd s)); no]
  end.

Fixpoint run_obs11 (s : dst world * pst11) (reads : list bytes) : list val * (dst world * pst11) :=
  match reads with
  | [] => ([], s)
  | r :: rs => let s' := sx_parse11 s r in let (l, sf) := run_obs11 s' rs in (enc_obs11 s' :: l, sf)
  end.

Definition run_driver11 (w : world) (stream : bytes) (lens : list nat) : val :=
  let (l, sf) := run_obs11 (sx_init11 w) (segments stream lens) in
  VL [VL l; VL (map (fun o => VL [vbool (fst o); VB (snd o)]) (douts (fst sf))); VL (map VB ([] :: dfed (fst sf)))].

(* several sessions in one process (Model/JunosProcess.v): the schedule is dealt from the order of turns, after every
   scheduled read the state of the session that took it is recorded *)
Definition dec_sess (v : val) : list (bool * world * bytes) :=
  match v with
  | VL [VN b; w; VB stream] => [(N.eqb b 11, dec_world w, stream)]
  | _ => []
  end.

Definition sess_init (d : bool * world * bytes) : sess :=
  if fst (fst d) then S11 (sx_init11 (snd (fst d))) else S10 (sx_init (snd (fst d))).

Definition enc_sobs (s : sess) : val :=
  match s with S10 s => enc_obs s | S11 s => enc_obs11 s end.

Definition enc_final (s : sess) : val :=
  match s with
  | S10 sf => VL [VL (map (fun o => VL [vbool (fst o); VB (snd o)]) (outs sf)); VL (map VB (fed sf))]
  | S11 sf => VL [VL (map (fun o => VL [vbool (fst o); VB (snd o)]) (douts (fst sf))); VL (map VB ([] :: dfed (fst sf)))]
  end.

Fixpoint prun_obs (ss : list sess) (sched : list (nat * bytes)) : list val * list sess :=
  match sched with
  | [] => ([], ss)
  | r :: t => let ss' := pstep sess sparse ss r in
              let o := match nth_error ss' (fst r) with Some s => enc_sobs s | None => verr 1 end in
              let (l, sf) := prun_obs ss' t in (VL [VN (N.of_nat (fst r)); o] :: l, sf)
  end.

Definition run_process (ds : list (bool * world * bytes)) (r : val) : val :=
  match r with
  | VL [VL lens; order] =>
      let pending := map (fun p => segments (snd (fst p)) (dec_lens (snd p))) (combine ds lens) in
      let (l, sf) := prun_obs (map sess_init ds) (deal (dec_lens order) pending) in
      VL [VL l; VL (map enc_final sf)]
  | _ => verr 1
  end.

Definition run (v : val) : val :=
  match v with
  | VL [VN 1; e; VL evs] =>
      match runb (dec_env e) SaxFilter.init (flat_map dec_event evs) with
      | (b, Fin _) => VL [VN 0; VB b]
      | (b, Raised x) => VL [VN (exn_code x); VB b]
      end
  | VL [VN 2; f; d] => enc_doc (project (dec_ftree f) (dec_doc d))
  | VL [VN 3; VB s] => VL [VB (escape s); VB (quoteattr s)]
  | VL [VN 4; w; VB stream; VL cutsets] =>
      let wd := dec_world w in VL (map (fun c => run_driver wd stream (dec_lens c)) cutsets)
  | VL [VN 5; w; VB stream; VL cutsets] =>
      let wd := dec_world w in VL (map (fun c => run_driver11 wd stream (dec_lens c)) cutsets)
  | VL [VN 6; VL sessions; VL runs] =>
      let ds := flat_map dec_sess sessions in VL (map (run_process ds) runs)
  | _ => verr 1
  end.
