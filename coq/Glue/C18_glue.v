(* Glue/C18_glue.v — entry point of the extracted runner for C18.
   run (VL [VN fn; args...]):
     fn 1: handler   [env; VL events]  -> VL [VN code; VB buffer]   code 0 = ran to the end, 1.. = exception (exn order)
     fn 2: project   [ftree; doc]      -> doc (the projected tree)
     fn 3: escaping  [VB s]            -> VL [VB (escape s); VB (quoteattr s)]
   encodings: event  VL [VN 0; VB name; attrs] | VL [VN 1; VB name] | VL [VN 2; VB text]
              attrs  VL [VL [VB k; VB v] ...]
              ftree  VL [VB tag; VL kids]
              env    VL [VN has_listener; VL [VL [VB id; VL [] | VL [ftree]] ...]]
              doc    VL [VN 0; VB text] | VL [VN 1; VB name; attrs; VL kids]            *)
From NC Require Import Model.Base Model.SaxFilter Spec.Projection.

Definition dec_attrs (v : val) : attrs :=
  match v with
  | VL l => flat_map (fun kv => match kv with VL [VB k; VB x] => [(k, x)] | _ => [] end) l
  | _ => []
  end.

Definition dec_event (v : val) : list event :=
  match v with
  | VL [VN 0; VB n; a] => [Start n (dec_attrs a)]
  | VL [VN 1; VB n] => [End n]
  | VL [VN 2; VB c] => [Chars c]
  | _ => []
  end.

Fixpoint dec_ftree (v : val) : ftree :=
  match v with
  | VL [VB t; VL ks] => FN t (map dec_ftree ks)
  | _ => FN [] []
  end.

Definition dec_env (v : val) : env :=
  match v with
  | VL [VN h; VL rows] =>
      mkenv (negb (N.eqb h 0))
            (flat_map (fun r => match r with
                                | VL [VB id; VL []] => [(id, None)]
                                | VL [VB id; VL [f]] => [(id, Some (dec_ftree f))]
                                | _ => [] end) rows)
  | _ => mkenv false []
  end.

Fixpoint dec_doc (v : val) : xt :=
  match v with
  | VL [VN 1; VB n; a; VL ks] => E n (dec_attrs a) (map dec_doc ks)
  | VL [VN 0; VB c] => T c
  | _ => T []
  end.

Definition enc_attrs (a : attrs) : val := VL (map (fun kv => VL [VB (fst kv); VB (snd kv)]) a).

Fixpoint enc_doc (t : xt) : val :=
  match t with
  | T c => VL [VN 0; VB c]
  | E n a ks => VL [VN 1; VB n; enc_attrs a; VL (map enc_doc ks)]
  end.

Definition exn_code (x : exn) : N :=
  match x with ESwitch => 1 | EOperation => 2 | EKey => 3 | EIndex => 4 | EAttr => 5 | EValue => 8 end.

Definition run (v : val) : val :=
  match v with
  | VL [VN 1; e; VL evs] =>
      match runb (dec_env e) init (flat_map dec_event evs) with
      | (b, Fin _) => VL [VN 0; VB b]
      | (b, Raised x) => VL [VN (exn_code x); VB b]
      end
  | VL [VN 2; f; d] => enc_doc (project (dec_ftree f) (dec_doc d))
  | VL [VN 3; VB s] => VL [VB (escape s); VB (quoteattr s)]
  | _ => verr 1
  end.
