(* Glue/C06_glue.v — entry point of the extracted runner for C06.
   tree   = VL [VB tag; VL [VL [VB k; VB v]...]; opt text; VB ser; VL [tree...]]      (opt x = VL [] | VL [x])
   error  = VL [opt type; opt tag; opt app_tag; opt severity; opt info; opt path; opt message]
   outcome= VL [VN 0] | VL [VN 1; error] | VL [VN 2; VL [error...]; VB message; VB severity]
   run (VL [VN fn; args...]) :
     fn 1: reply   [tree; VN mode; VL pats]            -> VL [VL [error...]; VN ok; outcome]
                    RPCReply.errors / .ok and the decision of RPC._request for a handler whose exempt list is pats
     fn 2: exempt  [VL pats; opt msg]                   -> VN b       (constructor classification + is_rpc_error_exempt)
     fn 3: connect [VL profile; opt (VL user); opt (VN mode); tree] -> outcome   (connect-style plumbing)
     fn 4: history [VL [VL [VB name; VL pats]...]; pool; VL [step...]] -> VL [pool; VL [conn...]]
                    pool = VL [VL [VN id; VL [VL [VB key; pval]...]]...]
                    pval = VL [VN 0; VN n] | VL [VN 1; VB s] | VL [VN 2; VL strs] | VL [VN 3; VN classid; VL pats] | VL [VN 4]
                         | VL [VN 5; VB repr]
                    step = VL [VN route; opt dp; opt mp; opt np; opt ep; opt timeout; VN fail]     (opt = VL [] | VL [VN i])
                    conn = VL [VN 0; VL pats; VN mode; VN timeout] | VL [VN 1] refused | VL [VN 2] no such profile
                         | VL [VN 3] raise_mode given twice                                                            *)
From NC Require Import Model.Base Model.RpcErrors Model.ConnectHistory.

Definition unVB (v : val) : bytes := match v with VB b => b | _ => [] end.
Definition unVBs (v : val) : list bytes := match v with VL l => map unVB l | _ => [] end.
Definition dec_optb (v : val) : option bytes := match v with VL [VB b] => Some b | _ => None end.
Definition dec_attr (v : val) : bytes * bytes := match v with VL [VB k; VB w] => (k, w) | _ => ([], []) end.
Definition dec_attrs (v : val) : list (bytes * bytes) := match v with VL l => map dec_attr l | _ => [] end.

Fixpoint dec_node (v : val) : node :=
  match v with
  | VL [VB tag; attrs; txt; VB ser; VL kids] => Elem tag (dec_attrs attrs) (dec_optb txt) ser (map dec_node kids)
  | _ => Elem [] [] None [] []
  end.

Definition enc_optb (o : option bytes) : val := match o with Some b => VL [VB b] | None => VL [] end.
Definition enc_err (e : rpc_error) : val :=
  VL [enc_optb (e_type e); enc_optb (e_tag e); enc_optb (e_app_tag e); enc_optb (e_severity e);
      enc_optb (e_info e); enc_optb (e_path e); enc_optb (e_message e)].
Definition enc_outcome (o : outcome) : val :=
  match o with
  | Return => VL [VN 0]
  | RaiseSingle e => VL [VN 1; enc_err e]
  | RaiseAggregate es => VL [VN 2; VL (map enc_err es); VB (agg_message es); VB (agg_severity es)]
  end.

Definition dec_pval (v : val) : pval :=
  match v with
  | VL [VN 0; VN n] => PNum n
  | VL [VN 1; VB s] => PStr s
  | VL [VN 2; l] => PStrs (unVBs l)
  | VL [VN 3; VN id; l] => PHandler id (unVBs l)
  | VL [VN 4] => PNone
  | VL [VN 5; VB r] => POther r
  | _ => POther []
  end.
Definition enc_pval (x : pval) : val :=
  match x with
  | PNum n => VL [VN 0; VN n]
  | PStr s => VL [VN 1; VB s]
  | PStrs l => VL [VN 2; VL (map VB l)]
  | PHandler id l => VL [VN 3; VN id; VL (map VB l)]
  | PNone => VL [VN 4]
  | POther r => VL [VN 5; VB r]
  end.
Definition dec_item (v : val) : bytes * pval := match v with VL [VB k; x] => (k, dec_pval x) | _ => ([], PNone) end.
Definition dec_pdict (v : val) : pdict := match v with VL l => map dec_item l | _ => [] end.
Definition dec_obj (v : val) : N * pdict := match v with VL [VN i; d] => (i, dec_pdict d) | _ => (0, []) end.
Definition dec_pool (v : val) : pool := match v with VL l => map dec_obj l | _ => [] end.
Definition enc_pool (p : pool) : val :=
  VL (map (fun o => VL [VN (fst o); VL (map (fun kv => VL [VB (fst kv); enc_pval (snd kv)]) (snd o))]) p).
Definition dec_optn (v : val) : option N := match v with VL [VN i] => Some i | _ => None end.
Definition dec_step (v : val) : step :=
  match v with
  | VL [VN r; dp; mp; np; ep; t; VN f] =>
      mkStep r (dec_optn dp) (dec_optn mp) (dec_optn np) (dec_optn ep) (dec_optn t) (negb (N.eqb f 0))
  | _ => mkStep 0 None None None None None false
  end.
Definition dec_profile (v : val) : bytes * list bytes := match v with VL [VB n; l] => (n, unVBs l) | _ => ([], []) end.
Definition enc_conn (c : conn) : val :=
  match c with
  | Connected m => VL [VN 0; VL (map VB (m_pats m)); VN (m_mode m); VN (m_timeout m)]
  | ConnectRaised => VL [VN 1]
  | NoProfile => VL [VN 2]
  | BadCall => VL [VN 3]
  end.

Definition run (v : val) : val :=
  match v with
  | VL [VN 1; tree; VN mode; pats] =>
      let root := dec_node tree in
      let errs := parse_errors root in
      VL [VL (map enc_err errs); vbool (reply_ok root); enc_outcome (decide mode errs (classify (unVBs pats)))]
  | VL [VN 2; pats; msg] => vbool (exempt (classify (unVBs pats)) (dec_optb msg))
  | VL [VN 3; profile; user; mode; tree] =>
      let u := match user with VL [l] => Some (unVBs l) | _ => None end in
      let m := match mode with VL [VN m] => Some m | _ => None end in
      enc_outcome (call_outcome (unVBs profile) u m (dec_node tree))
  | VL [VN 4; VL profiles; pl; VL steps] =>
      let (p', cs) := run_history (map dec_profile profiles) (dec_pool pl) (map dec_step steps) in
      VL [enc_pool p'; VL (map enc_conn cs)]
  | _ => verr 1
  end.
