(* Glue/C06_glue.v — entry point of the extracted runner for C06.
   tree   = VL [VB tag; VL [VL [VB k; VB v]...]; opt text; VB ser; VL [tree...]]      (opt x = VL [] | VL [x])
   error  = VL [opt type; opt tag; opt app_tag; opt severity; opt info; opt path; opt message]
   outcome= VL [VN 0] | VL [VN 1; error] | VL [VN 2; VL [error...]; VB message; VB severity]
   run (VL [VN fn; args...]) :
     fn 1: reply   [tree; VN mode; VL pats]            -> VL [VL [error...]; VN ok; outcome]
                    RPCReply.errors / .ok and the decision of RPC._request for a handler whose exempt list is pats
     fn 2: exempt  [VL pats; opt msg]                   -> VN b       (constructor classification + is_rpc_error_exempt)
     fn 3: connect [VL profile; opt (VL user); opt (VN mode); tree] -> outcome   (connect-style plumbing)            *)
From NC Require Import Model.Base Model.RpcErrors.

Definition unVB (v : val) : bytes := match v with VB b => b | _ => [] end.
Definition unVBs (v : val) : list bytes := match v with VL l => map unVB l | _ => [] end.
Definition dec_optb (v : val) : option bytes := match v with VL [VB b] => Some b | _ => None end.
Definition dec_attr (v : val) : bytes * bytes := match v with VL [VB k; VB w] => (k, w) | _ => ([], []) end.
Definition dec_attrs (v : val) : list (bytes * bytes) := match v with VL l => map dec_attr l | _ => [] end.

Fixpoint dec_node (v : val) : node :=
  match v with
  | VL [VB tag; attrs; txt; VB ser; VL kids] => Elem tag (dec_attrs attrs) (dec_optb txt) ser (map dec_node kids)
  | _ => Elem [] [] None [] []
  end.

Definition enc_optb (o : option bytes) : val := match o with Some b => VL [VB b] | None => VL [] end.
Definition enc_err (e : rpc_error) : val :=
  VL [enc_optb (e_type e); enc_optb (e_tag e); enc_optb (e_app_tag e); enc_optb (e_severity e);
      enc_optb (e_info e); enc_optb (e_path e); enc_optb (e_message e)].
Definition enc_outcome (o : outcome) : val :=
  match o with
  | Return => VL [VN 0]
  | RaiseSingle e => VL [VN 1; enc_err e]
  | RaiseAggregate es => VL [VN 2; VL (map enc_err es); VB (agg_message es); VB (agg_severity es)]
  end.

Definition run (v : val) : val :=
  match v with
  | VL [VN 1; tree; VN mode; pats] =>
      let root := dec_node tree in
      let errs := parse_errors root in
      VL [VL (map enc_err errs); vbool (reply_ok root); enc_outcome (decide mode errs (classify (unVBs pats)))]
  | VL [VN 2; pats; msg] => vbool (exempt (classify (unVBs pats)) (dec_optb msg))
  | VL [VN 3; profile; user; mode; tree] =>
      let u := match user with VL [l] => Some (unVBs l) | _ => None end in
      let m := match mode with VL [VN m] => Some m | _ => None end in
      enc_outcome (call_outcome (unVBs profile) u m (dec_node tree))
  | _ => verr 1
  end.
