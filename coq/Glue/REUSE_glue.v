(* Glue/REUSE_glue.v — runner entry for the histories of API-object uses (Model/ApiReuse.v), used by the C03 check
   (tools/harness/reuse.py).
   run (VL [VN qualify; VL uses])   use: VL [VN 0] UOp | VL [VN 1; VN o] UNew o | VL [VN 2; VN o] UReq o | VL [VN 3] UMgrExit
   -> VL [ VL outs; VL wire; VN open; VN accepted; VN total ]
   out: VL [VN 0; VN rid] sent | VL [VN 1; VN rid] built | VL [VN 2] refused;
   accepted/total: how many of the history's LTS labels SessionLTS.step accepts from the initial state (all of them, by
   C03_reuse_accepted; evaluated here so that the extracted code is checked against the theorem on every case) *)
From NC Require Import Model.Base Model.SessionLTS Model.ApiReuse.

Definition dec_use (v : val) : option ause :=
  match v with
  | VL [VN 0] => Some UOp
  | VL [VN 1; VN o] => Some (UNew o)
  | VL [VN 2; VN o] => Some (UReq o)
  | VL [VN 3] => Some UMgrExit
  | _ => None
  end.
Fixpoint dec_uses (l : list val) : option (list ause) :=
  match l with
  | [] => Some []
  | v :: l' => match dec_use v, dec_uses l' with Some x, Some xs => Some (x :: xs) | _, _ => None end
  end.
Definition enc_out (o : aout) : val :=
  match o with
  | ASent r => VL [VN 0; VN (N.of_nat r)]
  | ABuilt r => VL [VN 1; VN (N.of_nat r)]
  | ARefused => VL [VN 2]
  end.

Definition run (v : val) : val :=
  match v with
  | VL [VN q; VL us] =>
      match dec_uses us with
      | Some h =>
          let ls := api_labels h in
          let '(k, _) := run_count (init (negb (N.eqb q 0))) ls 0 in
          VL [ VL (map enc_out (api_outs h)); VL (map (fun r => VN (N.of_nat r)) (api_wire h));
               vbool (a_open (api_state h)); VN k; VN (N.of_nat (length ls)) ]
      | None => verr 2
      end
  | _ => verr 1
  end.
