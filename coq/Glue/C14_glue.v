(* Glue/C14_glue.v — runner entry for C14 (see Glue/FramingGlue.v for the protocol). *)
From NC Require Import Model.Base Glue.FramingGlue.
Definition run (v : val) : val := framing_run v.
