(* Glue/C09_glue.v — entry point of the extracted runner for C09.
   run (VL [VN 1; sess; call]) -> VL [VL events; outcome; VL wire]   wire = codes of Gating.wire_of (constructor order) when sent, else []
     sess    : VL [VN 0; VL [VB uri...]] (connected, server capabilities) | VL [VN 1] (no attribute)
     optexn  : VL [] | VL [VN code]          code: see exn_code
     optstr  : VL [] | VL [VB s]
     dsarg   : VL [VN 0; VB loc; VN lx_ok] | VL [VN 1; VN code]
     optds   : VL [] | VL [dsarg]
     srcarg  : VL [VN 0; dsarg] | VL [VN 1; optexn]
     call    : VL [VN tag; fields...] in constructor order of Gating.call (tags 0..14)
     event   : VL [VN 0; VB k] assert | VL [VN 1; VB k] lookup | VL [VN 2] register | VL [VN 3] send
     outcome : VL [VN 0] sent | VL [VN 1; VN code]
   run (VL [VN 2; VB s]) -> xml_chars_ok s
   run (VL [VN 3; sess; vcall]) -> VL [VL events; outcome; VL wire]      (Model/VendorGating.vperform, vwire_of)
     commit  : VL [VN 6; vendor; confirmed; tmo; per; pid; optexn pre; optexn post]
     vcall   : VL [VN 0; VB fmt; dsarg; VL [] | VL [optexn]; optexn]   alu load_configuration
             | VL [VN 1; optexn]                                       alu get_configuration
             | VL [VN 2; dsarg; optexn]                                h3c get_bulk_config
             | VL [VN 3; VN k; optexn]                                 plain class k (constructor order of plainclass) *)
From NC Require Import Model.Base Model.Caps Model.Xml Model.Gating Model.VendorGating.

Definition exn_code (e : exn) : N :=
  match e with
  | MissingCapability => 1 | WithDefaultsError => 2 | OperationError => 3 | XMLError => 4
  | XMLSyntaxError => 5 | ValueError => 6 | TypeError => 7 | NCClientError => 8
  | AttributeError => 9 | KeyErr => 10 | Internal => 11
  end.
Definition exn_of (n : N) : option exn :=
  match n with
  | 1 => Some MissingCapability | 2 => Some WithDefaultsError | 3 => Some OperationError | 4 => Some XMLError
  | 5 => Some XMLSyntaxError | 6 => Some ValueError | 7 => Some TypeError | 8 => Some NCClientError
  | 9 => Some AttributeError | 10 => Some KeyErr | 11 => Some Internal | _ => None
  end.

Definition unVB (v : val) : bytes := match v with VB b => b | _ => [] end.
Definition unVBs (v : val) : list bytes := match v with VL l => map unVB l | _ => [] end.

Definition d_sess (v : val) : option sess :=
  match v with
  | VL [VN 0; uris] => Some (SCaps (caps_of (unVBs uris)))
  | VL [VN 1] => Some SNoAttr
  | _ => None
  end.
Definition d_optexn (v : val) : option (option exn) :=
  match v with
  | VL [] => Some None
  | VL [VN c] => match exn_of c with Some e => Some (Some e) | None => None end
  | _ => None
  end.
Definition d_optstr (v : val) : option (option bytes) :=
  match v with VL [] => Some None | VL [VB s] => Some (Some s) | _ => None end.
Definition d_bool (v : val) : option bool :=
  match v with VN 0 => Some false | VN 1 => Some true | _ => None end.
Definition d_ds (v : val) : option dsarg :=
  match v with
  | VL [VN 0; VB loc; lx] => match d_bool lx with Some b => Some (DsStr loc b) | None => None end
  | VL [VN 1; VN c] => match exn_of c with Some e => Some (DsBad e) | None => None end
  | _ => None
  end.
Definition d_optds (v : val) : option (option dsarg) :=
  match v with
  | VL [] => Some None
  | VL [x] => match d_ds x with Some d => Some (Some d) | None => None end
  | _ => None
  end.
Definition d_src (v : val) : option srcarg :=
  match v with
  | VL [VN 0; x] => match d_ds x with Some d => Some (SrcDs d) | None => None end
  | VL [VN 1; x] => match d_optexn x with Some o => Some (SrcInline o) | None => None end
  | _ => None
  end.
Definition d_vendor (v : val) : option vendor :=
  match v with VN 0 => Some VStd | VN 1 => Some VJunos | VN 2 => Some VSros | _ => None end.

Notation "'do' x <- e ; k" := (match e with Some x => k | None => None end)
  (at level 200, x pattern, e at level 100, k at level 200).

Definition d_call (v : val) : option call :=
  match v with
  | VL [VN 0; f; w] => do f' <- d_optexn f; do w' <- d_optstr w; Some (CGet f' w')
  | VL [VN 1; s; f; w] => do s' <- d_ds s; do f' <- d_optexn f; do w' <- d_optstr w; Some (CGetConfig s' f' w')
  | VL [VN 2; t; a; b; c; VB fmt; cfg; u] =>
      do t' <- d_ds t; do a' <- d_optstr a; do b' <- d_optstr b; do c' <- d_optstr c;
      do cfg' <- d_optexn cfg; do u' <- d_bool u; Some (CEditConfig t' a' b' c' fmt cfg' u')
  | VL [VN 3; t] => do t' <- d_ds t; Some (CDeleteConfig t')
  | VL [VN 4; t; s] => do t' <- d_ds t; do s' <- d_src s; Some (CCopyConfig t' s')
  | VL [VN 5; s] => do s' <- d_src s; Some (CValidate s')
  | VL [VN 6; vd; cf; tmo; per; pid; pre; post] =>
      do vd' <- d_vendor vd; do cf' <- d_bool cf; do tmo' <- d_bool tmo; do per' <- d_bool per; do pid' <- d_bool pid;
      do pre' <- d_optexn pre; do post' <- d_optexn post;
      Some (CCommit vd' cf' tmo' per' pid' pre' post')
  | VL [VN 7; b] => do b' <- d_optexn b; Some (CCancelCommit b')
  | VL [VN 8] => Some CDiscardChanges
  | VL [VN 9; b] => do b' <- d_optexn b; Some (CCreateSubscription b')
  | VL [VN 10] => Some CPoweroff
  | VL [VN 11] => Some CReboot
  | VL [VN 12; cmd; s; f] => do cmd' <- d_optexn cmd; do s' <- d_optds s; do f' <- d_optexn f; Some (CDispatch cmd' s' f')
  | VL [VN 13; cmd; t; s; f; cfg] =>
      do cmd' <- d_optexn cmd; do t' <- d_optds t; do s' <- d_optds s; do f' <- d_optexn f; do cfg' <- d_optexn cfg;
      Some (CRpc cmd' t' s' f' cfg')
  | VL [VN 14; b] => do b' <- d_optexn b; Some (CUngated b')
  | _ => None
  end.

Definition d_plain (n : N) : option plainclass :=
  match n with
  | 0 => Some KJCommand | 1 => Some KJGetConfiguration | 2 => Some KJLoadConfiguration | 3 => Some KJCompareConfiguration
  | 4 => Some KJExecuteRpc | 5 => Some KJReboot | 6 => Some KJHalt | 7 => Some KJRollback | 8 => Some KSMdCliRawCommand
  | 9 => Some KAShowCli | 10 => Some KHGetBulk | 11 => Some KHCli | 12 => Some KHAction | 13 => Some KHSave | 14 => Some KHLoad
  | 15 => Some KHRollback | 16 => Some KPDisplayCommand | 17 => Some KPConfigCommand | 18 => Some KPAction | 19 => Some KPSave
  | 20 => Some KPRollback | 21 => Some KWCli | 22 => Some KWAction | 23 => Some KXSaveConfig | 24 => Some KNExecCommand
  | _ => None
  end.
Definition d_vcall (v : val) : option vgcall :=
  match v with
  | VL [VN 0; VB fmt; t; VL []; dop] => do t' <- d_ds t; do dop' <- d_optexn dop; Some (GALoadConfiguration fmt t' None dop')
  | VL [VN 0; VB fmt; t; VL [cfg]; dop] =>
      do t' <- d_ds t; do cfg' <- d_optexn cfg; do dop' <- d_optexn dop; Some (GALoadConfiguration fmt t' (Some cfg') dop')
  | VL [VN 1; b] => do b' <- d_optexn b; Some (GAGetConfiguration b')
  | VL [VN 2; s; f] => do s' <- d_ds s; do f' <- d_optexn f; Some (GHGetBulkConfig s' f')
  | VL [VN 3; VN k; b] => do k' <- d_plain k; do b' <- d_optexn b; Some (GPlain k' b')
  | _ => None
  end.

Definition e_event (e : event) : val :=
  match e with
  | EvAssert k => VL [VN 0; VB k]
  | EvLookup k => VL [VN 1; VB k]
  | EvRegister => VL [VN 2]
  | EvSend => VL [VN 3]
  end.
Definition e_outcome (o : outcome) : val :=
  match o with Sent => VL [VN 0] | Exn e => VL [VN 1; VN (exn_code e)] end.

Definition wire_code (w : wire) : N :=
  match w with
  | WCommit => 0 | WConfirmed => 1 | WConfirmTimeout => 2 | WPersist => 3 | WPersistId => 4 | WCancelCommit => 5
  | WDiscardChanges => 6 | WValidate => 7 | WTestOption => 8 | WTestOnly => 9 | WRollbackOnError => 10 | WUrl => 11
  | WWithDefaults => 12 | WCreateSubscription => 13
  end.
Definition e_wire (o : outcome) (ws : list wire) : val :=
  match o with Sent => VL (map (fun w => VN (wire_code w)) ws) | Exn _ => VL [] end.

Definition run (v : val) : val :=
  match v with
  | VL [VN 1; s; c] =>
      match d_sess s, d_call c with
      | Some s', Some c' => let (tr, o) := perform s' c' in VL [VL (map e_event tr); e_outcome o; e_wire o (wire_of c')]
      | _, _ => verr 1
      end
  | VL [VN 2; VB s] => vbool (xml_chars_ok s)
  | VL [VN 3; s; c] =>
      match d_sess s, d_vcall c with
      | Some s', Some c' => let (tr, o) := vperform s' c' in VL [VL (map e_event tr); e_outcome o; e_wire o (vwire_of c')]
      | _, _ => verr 1
      end
  (* order of calls: VL [4; moment; sess; kind; call] — moment 0: the object is built before the <hello> (None),
     1: on the connected session; kind 0: standard call, 1: vendor call *)
  | VL [VN 4; VN m; s; VN 0; c] =>
      match d_sess s, d_call c with
      | Some s', Some c' =>
          let (tr, o) := perform_at (if N.eqb m 0 then None else Some s') s' c' in
          VL [VL (map e_event tr); e_outcome o; e_wire o (wire_of c')]
      | _, _ => verr 1
      end
  | VL [VN 4; VN m; s; VN 1; c] =>
      match d_sess s, d_vcall c with
      | Some s', Some c' =>
          let (tr, o) := vperform_at (if N.eqb m 0 then None else Some s') s' c' in
          VL [VL (map e_event tr); e_outcome o; e_wire o (vwire_of c')]
      | _, _ => verr 1
      end
  | _ => verr 1
  end.
