(* Glue/C16_glue.v — entry point of the extracted runner for C16.
   The runner evaluates histories on the SHIPPED tables (regenerated from the source by
   tools/translate.py, linked to the model in GenProps/C16_tables.v) plus one user handler class.
   run (VL [VN fn; args...]) :
     fn 1: history  [VL events]        -> VL [obs...]   one observation per event (leak = false)
     fn 2: history  [VL events]        -> the same with leak = true (code before the F18 repair)
     fn 3: nexus_subsystems [pref]     -> VL [VB name...]        pref = VL [] | VL [VB s]
     fn 5: tables   []                 -> VL [VL advertised; VL [VL [VB module; VB class]...]; VL standard op names;
                                              VN (1 if every handler class is modelled)]
   event  = VL [VN slot; VN 0; src; dp; VL ignore; VL user]   Construct
                 src = VL [VN 0] (no "name") | VL [VN 1; VB name] | VL [VN 2] (the user handler class)
                 dp  = VL [subsys; config_mode; VN with_ns]   subsys, config_mode = VL [] | VL [VB s]
                       with_ns: 0 absent/None, 1 True, 2 False, 3 the ints 0/1, 4 anything else
          | VL [VN slot; VN 1; VN g]  Get      | VL [VN slot; VN 2; VN g]  GetMut
                 g: 0 caps 1 nsdict 2 prefix-kwargs 3 qualify 4 subsystems 5 vendor ops 6 exempt patterns
          | VL [VN slot; VN 3; VB name]   Lookup
          | VL [VN slot; VN 4; VL [VL [VB prefix; VB uri]...]]   Xpath
   obs    = VL [VN 0] nothing | VL [VN 1; VB class] constructed | VL [VN 2; VN e] exception
          | VL [VN 3; VL strs] | VL [VN 4; nsdict] | VL [VN 5; VL [VL [VB k; nsdict]...]] | VL [VN 6; VN b]
          | VL [VN 7; VL [VL [VB name; VB class; VB module]...]]
          | VL [VN 8; VL src; VL exact; VL startwild; VL endwild; VL fullwild]
          | VL [VN 9; VN kind; VB class; VB module]   kind 0 vendor 1 standard 2 missing
          | VL [VN 10; VL [VL [VB prefix; VB uri]...]]
     nsdict = VL [VL [key; VB uri]...]  key = VL [] (None) | VL [VB prefix]
   malformed call -> verr 1 *)
From Coq Require Import String.
From NC Require Import Model.Base Model.Lit Model.Profiles.
From NC Require Import Gen.Gen_Devices Gen.Gen_Ops GenProps.C16_tables.

Definition unVB (v : val) : bytes := match v with VB b => b | _ => [] end.
Definition unVBs (v : val) : list bytes := match v with VL l => map unVB l | _ => [] end.
Definition unopt (v : val) : option bytes := match v with VL [VB s] => Some s | _ => None end.
Definition unpairs (v : val) : list (bytes * bytes) :=
  match v with VL l => map (fun e => match e with VL [VB k; VB x] => (k, x) | _ => ([], []) end) l | _ => [] end.

(* the user handler class of tools/props/c16.py (UserDeviceHandler) *)
Definition user_profile : profile := Eval vm_compute in mk_profile
  (lit "user"%string) (lit "UserDeviceHandler"%string)
  [lit "urn:ietf:params:netconf:base:1.1"%string; lit "urn:user:cap"%string]
  [lit "*User Exempt*"%string; lit "Exact One"%string; lit "tail*"%string; lit "*head"%string; lit "*"%string]
  (match exempt_append with Some b => b | None => false end)
  CapsBase [] (PfxLit []) false (SubLit [lit "netconf"%string; lit "user-subsys"%string])
  [(lit "get"%string, (lit "UserGet"%string, lit "user"%string));
   (lit "frob"%string, (lit "UserFrob"%string, lit "user"%string))].

Definition dec_with_ns (n : N) : with_ns :=
  match n with 0 => WnAbsent | 1 => WnTrue | 2 => WnFalse | 3 => WnIntLike | _ => WnInvalid end.
Definition dec_dp (v : val) : option dparams :=
  match v with
  | VL [a; b; VN w] => Some (mk_dparams (unopt a) (unopt b) (dec_with_ns w))
  | _ => None
  end.
Definition dec_getter (n : N) : option getter_id :=
  match n with 0 => Some GCaps | 1 => Some GNsdict | 2 => Some GPrefix | 3 => Some GQualify
             | 4 => Some GSubsys | 5 => Some GVendor | 6 => Some GExempt | _ => None end.

Definition dec_event (v : val) : option (N * op) :=
  match v with
  | VL [VN s; VN 0; src; dp; ig; us] =>
      match dec_dp dp, src with
      | Some d, VL [VN 0] => Some (s, Construct (ByName None) d (unVBs ig) (unVBs us))
      | Some d, VL [VN 1; VB n] => Some (s, Construct (ByName (Some n)) d (unVBs ig) (unVBs us))
      | Some d, VL [VN 2] => Some (s, Construct (UserClass user_profile) d (unVBs ig) (unVBs us))
      | _, _ => None
      end
  | VL [VN s; VN 1; VN g] => match dec_getter g with Some g' => Some (s, Get g') | None => None end
  | VL [VN s; VN 2; VN g] => match dec_getter g with Some g' => Some (s, GetMut g') | None => None end
  | VL [VN s; VN 3; VB n] => Some (s, Lookup n)
  | VL [VN s; VN 4; ns] => Some (s, Xpath (unpairs ns))
  | _ => None
  end.

Fixpoint dec_events (l : list val) : option history :=
  match l with
  | [] => Some []
  | v :: l' => match dec_event v, dec_events l' with Some e, Some h => Some (e :: h) | _, _ => None end
  end.

Definition enc_key (k : option bytes) : val := match k with None => VL [] | Some s => VL [VB s] end.
Definition enc_nsdict (d : Profiles.nsdict) : val := VL (map (fun kv => VL [enc_key (fst kv); VB (snd kv)]) d).
Definition enc_strs (l : list bytes) : val := VL (map VB l).

Definition enc_obs (o : obs) : val :=
  match o with
  | ONothing => VL [VN 0]
  | OConstructed c => VL [VN 1; VB c]
  | OError e => VL [VN 2; VN e]
  | OCaps l => VL [VN 3; enc_strs l]
  | ONs d => VL [VN 4; enc_nsdict d]
  | OPrefix l => VL [VN 5; VL (map (fun kv => VL [VB (fst kv); enc_nsdict (snd kv)]) l)]
  | OBool b => VL [VN 6; vbool b]
  | OVendor l => VL [VN 7; VL (map (fun kv => VL [VB (fst kv); VB (fst (snd kv)); VB (snd (snd kv))]) l)]
  | OExempt src e => VL [VN 8; enc_strs src; enc_strs (ex_exact e); enc_strs (ex_start_wild e);
                         enc_strs (ex_end_wild e); enc_strs (ex_full_wild e)]
  | OResolved (Vendor c) => VL [VN 9; VN 0; VB (fst c); VB (snd c)]
  | OResolved (Standard c) => VL [VN 9; VN 1; VB (fst c); VB (snd c)]
  | OResolved Missing => VL [VN 9; VN 2; VB []; VB []]
  | OXpath eff => VL [VN 10; VL (map (fun kv => VL [VB (fst kv); VB (snd kv)]) eff)]
  end.

Definition all_modelled : bool :=
  forallb (fun o => match o with Some _ => true | None => false end) shipped_opt.

Definition run (v : val) : val :=
  match v with
  | VL [VN 1; VL evs] =>
      match dec_events evs with
      | Some h => VL (map (fun e => enc_obs (snd e)) (run_from false (init_world shipped_globals) h))
      | None => verr 1
      end
  | VL [VN 2; VL evs] =>
      match dec_events evs with
      | Some h => VL (map (fun e => enc_obs (snd e)) (run_from true (init_world shipped_globals) h))
      | None => verr 1
      end
  | VL [VN 3; pref] => enc_strs (nexus_subsystems (unopt pref))
  | VL [VN 5] =>
      VL [enc_strs advertised_names;
          VL (map (fun p => VL [VB (pr_module p); VB (pr_class p)]) shipped);
          enc_strs (map fst std_ops); vbool all_modelled]
  | _ => verr 1
  end.
