(* Glue/XCodec.v — val <-> tree codecs shared by the C17 and C10 runners.
   ns      : VL [] | VL [VB uri]            name : VL [ns; VB local]      attr : VL [name; VB value]
   xnode   : VL [VN 0; name; VL attrs; VL kids] | VL [VN 1; VB text] | VL [VN 2; VB comment] | VL [VN 3; VB target; VB data]
   mnode   : VL [VN 0; name; VN prefixed; VL decls; VL attrs; VL kids] | (1,2,3 as xnode)
   decl    : VL [VN has_prefix; VB uri] *)
From NC Require Import Model.Base Model.XTree Model.XmlHelpers.

Definition unVB (v : val) : bytes := match v with VB b => b | _ => [] end.
Definition unVBs (v : val) : list bytes := match v with VL l => map unVB l | _ => [] end.
Definition unVL (v : val) : list val := match v with VL l => l | _ => [] end.
Definition unVN (v : val) : N := match v with VN n => n | _ => 0 end.
Definition nz (n : N) : bool := negb (N.eqb n 0).

Definition dec_ns (v : val) : ns := match v with VL [VB u] => Some u | _ => None end.
Definition dec_name (v : val) : name := match v with VL [u; VB l] => (dec_ns u, l) | _ => (None, []) end.
Definition dec_attr (v : val) : attr := match v with VL [n; VB x] => (dec_name n, x) | _ => ((None, []), []) end.
Definition dec_attrs (v : val) : list attr := map dec_attr (unVL v).
Definition dec_decl (v : val) : decl := match v with VL [VN p; VB u] => (nz p, u) | _ => (false, []) end.
Definition dec_decls (v : val) : list decl := map dec_decl (unVL v).

Definition enc_ns (u : ns) : val := match u with None => VL [] | Some x => VL [VB x] end.
Definition enc_name (n : name) : val := VL [enc_ns (fst n); VB (snd n)].
Definition enc_attr (a : attr) : val := VL [enc_name (fst a); VB (snd a)].
Definition enc_attrs (l : list attr) : val := VL (map enc_attr l).
Definition enc_decl (d : decl) : val := VL [vbool (fst d); VB (snd d)].

Fixpoint dec_x (v : val) : xnode :=
  match v with
  | VL [VN 0; n; a; VL k] => Elem (dec_name n) (dec_attrs a) (map dec_x k)
  | VL [VN 1; VB s] => Text s
  | VL [VN 2; VB s] => Comment s
  | VL [VN 3; VB x; VB y] => PI x y
  | _ => Text []
  end.

Fixpoint enc_x (t : xnode) : val :=
  match t with
  | Elem n a k => VL [VN 0; enc_name n; enc_attrs a; VL (map enc_x k)]
  | Text s => VL [VN 1; VB s]
  | Comment s => VL [VN 2; VB s]
  | PI x y => VL [VN 3; VB x; VB y]
  end.

Fixpoint dec_m (v : val) : mnode :=
  match v with
  | VL [VN 0; n; VN pf; ds; a; VL k] => ME (dec_name n) (nz pf) (dec_decls ds) (dec_attrs a) (map dec_m k)
  | VL [VN 1; VB s] => MT s
  | VL [VN 2; VB s] => MC s
  | VL [VN 3; VB x; VB y] => MP x y
  | _ => MT []
  end.

Fixpoint enc_m (t : mnode) : val :=
  match t with
  | ME n pf ds a k => VL [VN 0; enc_name n; vbool pf; VL (map enc_decl ds); enc_attrs a; VL (map enc_m k)]
  | MT s => VL [VN 1; VB s]
  | MC s => VL [VN 2; VB s]
  | MP x y => VL [VN 3; VB x; VB y]
  end.
