(* Props/C18w.v — C18, the one-level wrapper (to be merged into Props/C18.v).
   Spec: Spec/ProjectionW.v.  Proof: Proofs/SaxWrapperProofs.v. *)
From Coq Require Import String.
From NC Require Import Model.Base Model.Lit Model.SaxFilter Spec.Projection Spec.ProjectionW.
From NC Require Import Proofs.SaxProofs Proofs.SaxWrapperProofs.

(* For replies in the class wf_reply_w (Spec/ProjectionW.v: reply tag rpc-reply / nc:rpc-reply whose request carries
   filter f; before the first child element of the reply only blank text; that first child element w, the wrapper, is
   unprefixed, is not named like the filter root and is not a reply tag; the children of w, and likewise the siblings
   after w, are blank text, elements named like the filter root (unprefixed) whose content is in the class WFks of
   C18_projection_partial for the default tags [reply tag; w], and other elements, which are unprefixed, not named like
   w, the reply or a reply tag and contain no element named like themselves, w, the reply or a reply tag)
   the handler runs to the end and what it wrote, read as events, is the event stream of [project_w f doc] up to blank
   character events: the reply with its attributes, the wrapper WITHOUT its attributes, in it the projections along f
   of its children named like the filter root, after it the projections along f of the siblings named like the
   filter root; everything else dropped. *)
Theorem C18_projection_wrapper : forall e f doc, wf_reply_w e f doc ->
  exists o s', exec e init (ev doc) = (o, Fin s') /\
               drop_blank (oes o) = drop_blank (ev (project_w f doc)).
Proof. exact c18_projection_wrapper. Qed.
Print Assumptions C18_projection_wrapper.

(* ---------------- non-vacuity ---------------- *)
Definition Lw (s : string) : bytes := lit s.
Definition exw_f : ftree := FN (Lw "r") [FN (Lw "a") []; FN (Lw "c") [FN (Lw "d") []]].
Definition exw_env : env := mkenv true [(Lw "m1", Some exw_f); (Lw "m2", None)].
Definition exw_doc : xt :=
  E (Lw "rpc-reply") [(Lw "message-id", Lw "m1")]
    [ T (Lw " ");
      E (Lw "data") [(Lw "x", Lw "1")]
        [ T (Lw " ");
          E (Lw "r") [(Lw "id", Lw "1")] [E (Lw "a") [] [T (Lw "t")]; E (Lw "b") [] [T (Lw "dropped")]];
          E (Lw "other") [] [E (Lw "r") [] [E (Lw "a") [] [T (Lw "no")]]];
          T (Lw " ");
          E (Lw "r") [] [E (Lw "c") [] [E (Lw "d") [] [T (Lw "k")]]] ];
      T (Lw " ");
      E (Lw "z") [] [T (Lw "zz")];
      E (Lw "r") [] [E (Lw "a") [] [T (Lw "after")]] ].

Example C18_exw_in_class : wf_reply_w exw_env exw_f exw_doc.
Proof.
  constructor.
  - exists (Lw "rpc-reply"), [(Lw "message-id", Lw "m1")]. eexists. exists (Lw "m1"). repeat split.
    apply WFwtop_T; [reflexivity|].
    apply WFwtop_wrap; [reflexivity | reflexivity | reflexivity | |].
    + apply WFwk_T; [reflexivity|].
      apply (WFwk_root _ _ exw_f); [reflexivity | |].
      { eapply WFks_kept; [repeat split | reflexivity | constructor; repeat constructor; discriminate |].
        eapply WFks_skipped; [repeat split | reflexivity | repeat constructor | constructor]. }
      apply WFwk_other; [repeat split | reflexivity | repeat constructor |].
      apply WFwk_T; [reflexivity|].
      apply (WFwk_root _ _ exw_f); [reflexivity | | constructor].
      eapply WFks_kept; [repeat split | reflexivity | | constructor].
      constructor.
      eapply WFks_kept; [repeat split | reflexivity | constructor; repeat constructor; discriminate | constructor].
    + apply WFwk_T; [reflexivity|].
      apply WFwk_other; [repeat split | reflexivity | repeat constructor |].
      apply (WFwk_root _ _ exw_f); [reflexivity | | constructor].
      eapply WFks_kept; [repeat split | reflexivity | constructor; repeat constructor; discriminate | constructor].
  - reflexivity.
  - split; reflexivity.
Qed.

(* ... on it the handler writes exactly this (the wrapper's attribute x, b, other and z are gone) *)
Example C18_exw_output :
  runb exw_env init (ev exw_doc) =
  (Lw "<rpc-reply message-id=""m1""><data>
<r id=""1""><a>t</a>
</r>
<r><c><d>k</d>
</c>
</r>
</data>
<r><a>after</a>
</r>
</rpc-reply>
", Fin (mkst [FN (Lw "data") [exw_f]] (Some (Lw "r")) 2 false None [Lw "rpc-reply"; Lw "data"] false false)).
Proof. vm_compute. reflexivity. Qed.

Example C18_exw_projection :
  project_w exw_f exw_doc =
  E (Lw "rpc-reply") [(Lw "message-id", Lw "m1")]
    [ T (Lw " ");
      E (Lw "data") []
        [ T (Lw " ");
          E (Lw "r") [(Lw "id", Lw "1")] [E (Lw "a") [] [T (Lw "t")]];
          T (Lw " ");
          E (Lw "r") [] [E (Lw "c") [] [E (Lw "d") [] [T (Lw "k")]]] ];
      T (Lw " ");
      E (Lw "r") [] [E (Lw "a") [] [T (Lw "after")]] ].
Proof. vm_compute. reflexivity. Qed.

(* ---------------- the class restrictions are needed (exhibited by the model) ---------------- *)
(* text directly in the wrapper is not written (the wrapper's start does not set _currenttag), although the wrapper
   is kept: with non-blank text there the statement is false *)
Example C18_wrapper_text_outside_class :
  let doc := E (Lw "rpc-reply") [(Lw "message-id", Lw "m1")] [E (Lw "data") [] [T (Lw "txt"); E (Lw "r") [] []]] in
  exists o s', exec exw_env init (ev doc) = (o, Fin s') /\
               drop_blank (oes o) <> drop_blank (ev (project_w exw_f doc)).
Proof. eexists. eexists. split; [vm_compute; reflexivity | vm_compute; discriminate]. Qed.

(* an element named like the wrapper, inside the wrapper or after it (here: a second wrapper), is skipped but its end
   tag is written (the wrapper's name is a default tag): the output has two </data> for one <data> *)
Example C18_wrapper_name_clash_outside_class :
  let doc := E (Lw "rpc-reply") [(Lw "message-id", Lw "m1")]
               [E (Lw "data") [] [E (Lw "r") [] []]; E (Lw "data") [] [E (Lw "r") [] []]] in
  exists s', exec exw_env init (ev doc) =
             ([OStart (Lw "rpc-reply") [(Lw "message-id", Lw "m1")]; OBare (Lw "data"); OStart (Lw "r") []; OEnd (Lw "r");
               OEnd (Lw "data"); OEnd (Lw "data"); OEnd (Lw "rpc-reply")], Fin s').
Proof. eexists. vm_compute. reflexivity. Qed.

(* the same inside a kept element: <r><data/><a>x</a></r> under the wrapper data writes a stray </data> *)
Example C18_wrapper_name_in_kept_outside_class :
  let doc := E (Lw "rpc-reply") [(Lw "message-id", Lw "m1")]
               [E (Lw "data") [] [E (Lw "r") [] [E (Lw "data") [] []; E (Lw "a") [] [T (Lw "x")]]]] in
  exists o s', exec exw_env init (ev doc) = (o, Fin s') /\
               drop_blank (oes o) <> drop_blank (ev (project_w exw_f doc)).
Proof. eexists. eexists. split; [vm_compute; reflexivity | vm_compute; discriminate]. Qed.

(* a prefixed wrapper raises ValueError after its start tag has been written *)
Example C18_wrapper_prefixed_outside_class :
  exec exw_env init (ev (E (Lw "rpc-reply") [(Lw "message-id", Lw "m1")] [E (Lw "nc:data") [] [E (Lw "r") [] []]])) =
  ([OStart (Lw "rpc-reply") [(Lw "message-id", Lw "m1")]; OBare (Lw "nc:data")], Raised EValue).
Proof. vm_compute. reflexivity. Qed.
