(* Props/C08.v — property C08: capability lookup semantics and totality.
   Only statements, closed by [exact], each followed by Print Assumptions.
   Model: Model/Caps.v (ncclient/capabilities.py).  Spec: Spec/CapsSpec.v. *)
From Coq Require Import String.
From NC Require Import Model.Base Model.Lit Model.Caps Spec.CapsSpec Proofs.BaseFacts Proofs.CapsProofs.

(* Lookup never ends in anything but a capability or the documented KeyError, whatever
   URIs were advertised (the model makes every list index an explicit crash point). *)
Theorem C08_total : forall (uris : list bytes) (key : bytes) (e : N),
  getitem (caps_of uris) key <> Crash e /\ contains_key (caps_of uris) key <> Crash e.
Proof. exact c08_total. Qed.
Print Assumptions C08_total.

(* An advertised full URI is found, and yields the capability parsed from that URI. *)
Theorem C08_lookup_full : forall uris key,
  In key uris -> getitem (caps_of uris) key = Ok (from_uri key).
Proof. exact c08_lookup_full. Qed.
Print Assumptions C08_lookup_full.

(* A key that was not advertised verbatim is found iff it is a shorthand (per CapsSpec) of an
   advertised IETF capability/base URI, and then yields the first such URI's capability. *)
Theorem C08_lookup_shorthand : forall uris key w,
  ~ In key uris -> first_shorthand key uris w ->
  getitem (caps_of uris) key = Ok (from_uri w).
Proof. exact c08_lookup_shorthand. Qed.
Print Assumptions C08_lookup_shorthand.

(* ... and fails with KeyError otherwise. *)
Theorem C08_lookup_absent : forall uris key,
  ~ In key uris -> (forall u, In u uris -> ~ shorthand (ns_part u) key) ->
  getitem (caps_of uris) key = KeyError /\ contains_key (caps_of uris) key = Ok false.
Proof. exact c08_lookup_absent. Qed.
Print Assumptions C08_lookup_absent.

(* membership agrees with lookup *)
Theorem C08_contains_iff : forall uris key,
  contains_key (caps_of uris) key = Ok true <->
  (In key uris \/ exists u, In u uris /\ shorthand (ns_part u) key).
Proof. exact c08_contains_iff. Qed.
Print Assumptions C08_contains_iff.

(* The shorthand list the code derives is exactly the specification's relation. *)
Theorem C08_shorthand_exact : forall ns l key,
  abbreviate ns = Ok l -> (In key l <-> shorthand ns key).
Proof. exact c08_shorthand_exact. Qed.
Print Assumptions C08_shorthand_exact.

(* Query parameters: the exposed map is the last-wins map of the well-formed k=v pairs. *)
Theorem C08_params : forall uri ns pstr more k,
  split_on QMARK uri = ns :: pstr :: more ->
  ns_uri (from_uri uri) = ns /\
  dict_get k (parameters (from_uri uri)) = last_wins k (valid_pairs (split_on AMP pstr)).
Proof. exact c08_params. Qed.
Print Assumptions C08_params.

(* Histories: after ANY sequence of Capabilities.add / Capabilities.remove the object is exactly the one built from the
   (duplicate-free) list of URIs still present, so every statement above applies to it; a removed URI is gone and
   nothing else is. *)
Theorem C08_history : forall uris ops, exists ks, NoDup ks /\ caps_after uris ops = caps_of ks /\
  (forall x, mem_bytes x ks = mem_bytes x (fold_left keys_op ops (fold_left addk uris []))).
Proof. exact c08_history. Qed.
Print Assumptions C08_history.

Theorem C08_remove_present : forall ks u x,
  mem_bytes x (keys_op ks (ORemove u)) = mem_bytes x ks && negb (beq u x).
Proof. exact c08_remove_present. Qed.
Print Assumptions C08_remove_present.

Example C08_ex_remove_keeps_other_base :
  getitem (caps_after [lit "urn:ietf:params:netconf:base:1.0"%string; lit "urn:ietf:params:netconf:base:1.1"%string]
                      [ORemove (lit "urn:ietf:params:netconf:base:1.0"%string)]) (lit ":base"%string)
  = Ok (from_uri (lit "urn:ietf:params:netconf:base:1.1"%string)).
Proof. vm_compute. reflexivity. Qed.

(* Non-vacuity: concrete instances of the hypotheses and conclusions above. *)
Definition ex_uris : list bytes :=
  [ lit "urn:ietf:params:netconf:base:1.1"%string;
    lit "urn:ietf:params:netconf:capability"%string;                 (* truncated *)
    lit "urn:ietf:params:foo:netconf:capability:x:1"%string;         (* look-alike *)
    lit "urn:ietf:params:xml:ns:netconf:capability:candidate:1.0"%string;
    lit "urn:ietf:params:netconf:capability:with-defaults:1.0?basic-mode=explicit&also-supported=report-all,trim&junk&a=b=c"%string ].

Example C08_ex_found :
  getitem (caps_of ex_uris) (lit ":candidate"%string)
  = Ok (from_uri (lit "urn:ietf:params:xml:ns:netconf:capability:candidate:1.0"%string)).
Proof. vm_compute. reflexivity. Qed.

Example C08_ex_lookalike : getitem (caps_of ex_uris) (lit ":x"%string) = KeyError.
Proof. vm_compute. reflexivity. Qed.

Example C08_ex_params :
  match getitem (caps_of ex_uris) (lit ":with-defaults:1.0"%string) with
  | Ok c => dict_get (lit "also-supported"%string) (parameters c) = Some (lit "report-all,trim"%string)
            /\ dict_get (lit "a"%string) (parameters c) = None
  | _ => False
  end.
Proof. vm_compute. split; reflexivity. Qed.

Example C08_ex_first_shorthand :
  first_shorthand (lit ":base"%string) ex_uris (lit "urn:ietf:params:netconf:base:1.1"%string).
Proof.
  constructor. eapply sh_base with (p := prefix_a) (v := lit "1.1"%string) (rest := []).
  - left; reflexivity.
  - vm_compute. reflexivity.
Qed.
