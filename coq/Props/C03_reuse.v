(* Props/C03_reuse.v — C03 for objects of the API that are used more than once on a session: the same LockContext entered
   again (and again, nested, from several threads), the same operation repeated through one Manager, several Managers
   on one session, a Manager used for several with-blocks, an RPC object whose request() is called again.
   Models: Model/SessionLTS.v (one label = one shared-state effect) and Model/ApiReuse.v (a use of an API object in
   terms of the request records of the LTS).  [reach s] = result of ANY accepted label sequence: any number of threads,
   any interleaving with the session thread and the peer, any fault. *)
From NC Require Import Model.Base Model.SessionLTS Proofs.SessionLTSProofs Model.ApiReuse Proofs.ReuseProofs.

(* "Message-ids on the wire are unique within a session": two writes to the transport that carry one message-id are one
   write.  (C03_unique_ids is about the registered requests; this is about what the server sees.) *)
Theorem C03_wire_ids_unique : forall s i j a b ra rb,
  reach s ->
  nth_error (wrote s) i = Some a -> nth_error (wrote s) j = Some b ->
  rq s a = Some ra -> rq s b = Some rb -> r_id ra = r_id rb -> i = j.
Proof. exact c03_wire_ids_unique. Qed.
Print Assumptions C03_wire_ids_unique.

(* A request record goes into the out queue at most once, and is there only until it is written. *)
Theorem C03_put_once : forall s, reach s -> NoDup (wrote s ++ outq s).
Proof. exact c03_put_once. Qed.
Print Assumptions C03_put_once.

(* Sending a record AGAIN is not a behaviour of the modelled code: once it was put, [step] refuses both effects of
   Session.send for it - the re-use of an RPC object is refused before it has any effect (RPC._single_use). *)
Theorem C03_no_resend : forall s rid, reach s -> In rid (wrote s ++ outq s) ->
  forall b, step s (LChk rid b) = None /\ step s (LPut rid) = None.
Proof. exact c03_no_resend. Qed.
Print Assumptions C03_no_resend.

(* Every history of uses of API objects is a behaviour of the session LTS (so every theorem about [reach] applies to it
   and to every continuation); what it queued is what the API model says, every record carries the id drawn for it. *)
Theorem C03_reuse_accepted : forall q h,
  exists s, run (init q) (api_labels h) = Some s /\ reach s /\
            outq s = api_wire h /\ connected s = a_open (api_state h) /\ length (reqs s) = a_next (api_state h) /\
            (forall rid r, rq s rid = Some r -> r_id r = id_of rid).
Proof. exact c03_reuse_accepted. Qed.
Print Assumptions C03_reuse_accepted.

(* The callers that were told "sent" hold pairwise distinct request records - exactly those on the wire, in order: a
   LockContext entered n times makes n lock and n unlock requests, each with an id of its own. *)
Theorem C03_reuse_sent_distinct : forall h, sent_rids (api_outs h) = api_wire h /\ NoDup (sent_rids (api_outs h)).
Proof. exact c03_reuse_sent_distinct. Qed.
Print Assumptions C03_reuse_sent_distinct.

(* The only uses that are refused: any use on a closed session, request() on an application-held RPC object that was
   requested before (or on a name that is not a history: unknown / built twice).  Manager operations and lock contexts
   are never refused on an open session however often they are used. *)
Theorem C03_reuse_refused : forall a u a' ls, ause_step a u = (a', ARefused, ls) ->
  a_open a = false \/
  (exists o, u = UReq o /\ (oget o (a_objs a) = None \/ exists rid, oget o (a_objs a) = Some rid /\ memnat rid (a_used a) = true)) \/
  (exists o, u = UNew o /\ oget o (a_objs a) <> None).
Proof. exact c03_reuse_refused. Qed.
Print Assumptions C03_reuse_refused.

(* After any history and ANY further activity (session thread, peer, other threads), a request of the history that
   completes does so with the reply carrying its own id ... *)
Theorem C03_reuse_own_reply : forall q h ls s rid r i,
  run (init q) (api_labels h ++ ls) = Some s -> rq s rid = Some r -> r_st r = CDone (OReply i) -> i = r_id r.
Proof. intros q h ls s rid r i H. apply c03_outcome_own. exists q, (api_labels h ++ ls). exact H. Qed.
Print Assumptions C03_reuse_own_reply.

(* ... and keeping the object behind a use to request it again (what a cached Lock / Unlock / operation object does) is
   refused by the model: such an implementation is outside every theorem above. *)
Theorem C03_reuse_resend_refused : forall q h ls s rid,
  run (init q) (api_labels h ++ ls) = Some s -> In rid (api_wire h) -> run s (resend rid) = None.
Proof. exact c03_reuse_resend_refused. Qed.
Print Assumptions C03_reuse_resend_refused.

(* ---------- non-vacuity ---------- *)
(* `lc = m.locked(..)`; `with lc: m.get()`; `with lc: pass` : five requests, five records *)
Example C03_reuse_ex_lockctx :
  api_outs [UOp; UOp; UOp; UOp; UOp] = [ASent 0; ASent 1; ASent 2; ASent 3; ASent 4] /\
  api_wire [UOp; UOp; UOp; UOp; UOp] = [0; 1; 2; 3; 4]%nat.
Proof. vm_compute. split; reflexivity. Qed.

(* an application-held object requested twice, then used by another thread after a Manager operation *)
Example C03_reuse_ex_rpc :
  api_outs [UNew 7; UReq 7; UReq 7; UOp; UReq 7; UReq 8] = [ABuilt 0; ASent 0; ARefused; ASent 1; ARefused; ARefused] /\
  api_labels [UNew 7; UReq 7; UReq 7; UOp] = [LReg 0 100; LChk 0 true; LPut 0; LReg 1 101; LChk 1 true; LPut 1].
Proof. vm_compute. split; reflexivity. Qed.

(* `with m: m.get()` twice: the second block finds the session closed, nothing more reaches the wire *)
Example C03_reuse_ex_manager :
  api_outs [UOp; UMgrExit; UOp; UMgrExit] = [ASent 0; ASent 1; ARefused; ARefused] /\
  api_wire [UOp; UMgrExit; UOp; UMgrExit] = [0; 1]%nat /\
  match run (init true) (api_labels [UOp; UMgrExit; UOp; UMgrExit]) with
  | Some s => map r_st (reqs s) = [CSent; CSent; CDone (OExc 5); CDone (OExc 5)] /\ connected s = false
  | None => False
  end.
Proof. vm_compute. repeat split; reflexivity. Qed.

(* a lock context entered twice with the session thread and the peer in between: both <lock> requests complete with
   their own replies; the trace of the seeded change - the first Lock object requested again - is refused at its LChk *)
Definition served (rid : nat) (id : N) : list label :=
  [LDeq rid; LRecv 0 id; LTGet id true; LEvSetReply rid; LTDel id; LWaitRes rid true].
Example C03_reuse_ex_served :
  match run (init true) ([LReg 0 100; LChk 0 true; LPut 0] ++ served 0 100 ++ [LReg 1 101; LChk 1 true; LPut 1] ++ served 1 101) with
  | Some s => map r_st (reqs s) = [CDone (OReply 100); CDone (OReply 101)] /\ wrote s = [0; 1]%nat /\ connected s = true
  | None => False
  end /\
  run (init true) ([LReg 0 100; LChk 0 true; LPut 0] ++ served 0 100 ++ resend 0) = None /\
  run_count (init true) ([LReg 0 100; LChk 0 true; LPut 0] ++ served 0 100 ++ resend 0) 0 = (9%N, match run (init true) ([LReg 0 100; LChk 0 true; LPut 0] ++ served 0 100) with Some s => s | None => init true end).
Proof. vm_compute. repeat split; reflexivity. Qed.
