(* Props/C16.v — property C16: device profiles are complete, consistent and isolated.
   Only statements, closed by [exact], each followed by Print Assumptions.
   Model: Model/Profiles.v (ncclient/devices/*.py, manager.make_device_handler,
   Manager.__init__/__getattr__, xml_.NCElement.xpath).  Spec: Spec/ProfilesSpec.v.
   The statements here hold for EVERY profile record; that the 14 shipped classes are such
   records satisfying the side conditions is re-proved from the regenerated tables in
   GenProps/C16_tables.v (second root of this property). *)
From Coq Require Import String.
From NC Require Import Model.Base Model.Lit Model.Profiles Spec.ProfilesSpec Proofs.BaseFacts Proofs.ProfilesProofs.

(* SSH subsystem candidates of the Nexus profile, for every preferred name (any string, absent,
   or empty): duplicate-free, the preferred one first, "netconf" first when none is given. *)
Theorem C16_subsystems : forall pref : option bytes,
  NoDup (nexus_subsystems pref) /\
  hd_error (nexus_subsystems pref) = Some (preferred_or_default pref).
Proof. exact c16_subsystems. Qed.
Print Assumptions C16_subsystems.

(* ... and for every profile whose literal list is duplicate-free and starts with "netconf". *)
Theorem C16_subsystems_all : forall p dp, wf_subsys p = true ->
  NoDup (subsystems p dp) /\ hd_error (subsystems p dp) = Some (first_subsystem p dp).
Proof. exact c16_subsystems_all. Qed.
Print Assumptions C16_subsystems_all.

(* The client capability list contains a NETCONF base URI whatever device_params and whatever
   capabilities the user adds through nc_params, and computing it never raises. *)
Theorem C16_base_uri : forall p dp user, wf_caps p = true ->
  exists l, capabilities p dp user = Ok l /\ has_base l = true.
Proof. exact c16_base_uri. Qed.
Print Assumptions C16_base_uri.

(* Vendor operations take precedence over same-named standard ones, for all names ... *)
Theorem C16_vendor_precedence : forall vendor ops name c,
  dict_get name vendor = Some c -> resolve vendor ops name = Vendor c.
Proof. exact c16_vendor_wins. Qed.
Print Assumptions C16_vendor_precedence.

(* ... every name of a profile's vendor table is callable through its manager ... *)
Theorem C16_vendor_callable : forall p ops name,
  In name (map fst (pr_vendor p)) -> exists c, resolve (manager_vendor p) ops name = Vendor c.
Proof. exact c16_vendor_callable. Qed.
Print Assumptions C16_vendor_callable.

(* ... and every standard operation that is not shadowed stays callable, as the standard class. *)
Theorem C16_standard_callable : forall p ops name c,
  ~ In name (map fst (pr_vendor p)) -> dict_get name ops = Some c ->
  resolve (manager_vendor p) ops name = Standard c.
Proof. exact c16_standard_callable. Qed.
Print Assumptions C16_standard_callable.

(* A name resolves only to the class <Name>DeviceHandler of module <name>. *)
Theorem C16_name_resolution_sound : forall nm tbl name p,
  make_handler nm tbl name = Ok p ->
  In p tbl /\
  pr_module p = match name with Some n => n | None => n_default nm end /\
  pr_class p = class_name_of nm (pr_module p).
Proof. exact c16_make_handler_sound. Qed.
Print Assumptions C16_name_resolution_sound.

(* Isolation: for every table of classes, every history (constructions by name or from a user
   class, getter calls, caller-side mutation of returned objects, manager lookups, xpath calls with
   caller namespaces, on any number of slots, in any order) and every slot i, what is observed
   through slot i equals what is observed when all operations on other slots are deleted. *)
Theorem C16_isolated : forall (g : globals) (i : N) (h : history), isolated false g i h.
Proof. exact c16_isolated. Qed.
Print Assumptions C16_isolated.

Theorem C16_isolated_insert : forall g i h1 h2 j o, j <> i ->
  observations false g i (h1 ++ (j, o) :: h2) = observations false g i (h1 ++ h2).
Proof. exact c16_isolated_insert. Qed.
Print Assumptions C16_isolated_insert.

(* A getter's value is a function of the constructor arguments alone: after any operations that do
   not re-construct slot i, it is what the getter computes from (profile, device_params,
   ignore_errors, user capabilities). *)
Theorem C16_getter_function_of_ctor : forall g i src dp ig us gt h,
  (forall o, In (i, o) h -> match o with Construct _ _ _ _ => False | _ => True end) ->
  forall p, (match src with ByName n => make_handler (g_naming g) (g_table g) n | UserClass q => Ok q end) = Ok p ->
  last (observations false g i ((i, Construct src dp ig us) :: h ++ [(i, Get gt)])) ONothing =
  observe_getter (mk_instance p dp ig us) gt.
Proof. exact c16_getter_function_of_ctor. Qed.
Print Assumptions C16_getter_function_of_ctor.

(* ---------- non-vacuity ---------- *)
Definition ex_nexus : profile := mk_profile
  (lit "nexus"%string) (lit "NexusDeviceHandler"%string)
  [base_1_0; base_1_1; lit "urn:ietf:params:netconf:capability:candidate:1.0"%string]
  [lit "*VLAN with the same name exists*"%string] false
  CapsNexus [(None, nexus_base)] (PfxNsmap nexus_extra_ns) true SubNexus
  [(lit "exec_command"%string, (lit "ExecCommand"%string, lit "m.nexus"%string));
   (lit "commit"%string, (lit "VCommit"%string, lit "m.nexus"%string))].
Definition ex_alu : profile := mk_profile
  (lit "alu"%string) (lit "AluDeviceHandler"%string) [base_1_0; base_1_1] [] false
  (CapsLit [base_1_0]) [(None, nexus_base)] (PfxNsmap []) true (SubLit [s_netconf]) [].
Definition ex_ops : list (bytes * opcls) :=
  [(lit "get"%string, (lit "Get"%string, lit "m"%string)); (lit "commit"%string, (lit "Commit"%string, lit "m"%string))].
Definition ex_g : globals := mk_globals
  (mk_naming (lit "%sDeviceHandler"%string) true (lit "default"%string)) [ex_nexus; ex_alu] ex_ops
  [(lit "re"%string, lit "http://exslt.org/regular-expressions"%string)].
Definition ex_dp (s : option bytes) := mk_dparams s None WnAbsent.

(* preferred subsystem equal to a built-in one: no duplicate *)
Example ex_subsystems :
  nexus_subsystems (Some s_xmlagent) = [s_xmlagent; s_netconf] /\
  nexus_subsystems (Some (lit "x"%string)) = [lit "x"%string; s_netconf; s_xmlagent] /\
  nexus_subsystems (Some []) = [s_netconf; s_xmlagent].
Proof. vm_compute. auto. Qed.

(* the side conditions are satisfiable, and the nexus rule really overwrites position 0 *)
Example ex_base_uri :
  wf_caps ex_nexus = true /\ wf_subsys ex_alu = true /\
  capabilities ex_nexus (ex_dp None) [lit "urn:x"%string] =
    Ok [nexus_base; base_1_1; lit "urn:ietf:params:netconf:capability:candidate:1.0"%string; lit "urn:x"%string].
Proof. vm_compute. auto. Qed.

(* a profile violating the side condition does lose its base URI (the condition is needed) *)
Example ex_base_uri_needed :
  let bad := mk_profile (lit "n"%string) (lit "N"%string) [base_1_0] [] false CapsNexus [] (PfxLit []) true SubNexus [] in
  wf_caps bad = false /\ capabilities bad (ex_dp None) [] = Ok [nexus_base] /\ has_base [nexus_base] = false.
Proof. vm_compute. auto. Qed.

Example ex_vendor :
  resolve (manager_vendor ex_nexus) ex_ops (lit "commit"%string) = Vendor (lit "VCommit"%string, lit "m.nexus"%string) /\
  resolve (manager_vendor ex_nexus) ex_ops (lit "get"%string) = Standard (lit "Get"%string, lit "m"%string) /\
  resolve (manager_vendor ex_alu) ex_ops (lit "commit"%string) = Standard (lit "Commit"%string, lit "m"%string) /\
  resolve (manager_vendor ex_alu) ex_ops (lit "frob"%string) = Missing.
Proof. vm_compute. auto. Qed.

Example ex_names :
  make_handler (g_naming ex_g) (g_table ex_g) (Some (lit "nexus"%string)) = Ok ex_nexus /\
  make_handler (g_naming ex_g) (g_table ex_g) (Some (lit "Nexus"%string)) = Raise E_ModuleNotFound /\
  make_handler (g_naming ex_g) (g_table ex_g) None = Raise E_ModuleNotFound.
Proof. vm_compute. auto. Qed.

(* an interleaved history over two slots with a caller-supplied namespace on slot 1 *)
Definition ex_h : history :=
  [ (0, Construct (ByName (Some (lit "nexus"%string))) (ex_dp (Some s_xmlagent)) [] [lit "urn:x"%string]);
    (1, Construct (ByName (Some (lit "alu"%string))) (ex_dp None) [] []);
    (1, Xpath [(lit "re"%string, lit "urn:other"%string); (lit "p"%string, lit "urn:p"%string)]);
    (0, GetMut GCaps);
    (1, Lookup (lit "commit"%string));
    (0, Xpath []);
    (0, Lookup (lit "commit"%string));
    (0, Get GSubsys) ].

Example ex_isolated_run :
  observations false ex_g 0 ex_h =
  [ OConstructed (lit "NexusDeviceHandler"%string);
    OCaps [nexus_base; base_1_1; lit "urn:ietf:params:netconf:capability:candidate:1.0"%string; lit "urn:x"%string];
    OXpath [(lit "re"%string, lit "http://exslt.org/regular-expressions"%string)];
    OResolved (Vendor (lit "VCommit"%string, lit "m.nexus"%string));
    OCaps [s_xmlagent; s_netconf] ].
Proof. vm_compute. reflexivity. Qed.

(* The statement discriminates: in the model of the code BEFORE the F18 repair (xpath updates the
   module-level XPATH_NAMESPACES in place) the same history is NOT isolated - slot 0 sees the
   prefixes that slot 1's caller supplied. *)
Example C16_isolation_refuted_before_F18_fix : ~ isolated true ex_g 0 ex_h.
Proof. unfold isolated. vm_compute. discriminate. Qed.
