(* Props/C17.v — property C17: XML helper round-trips (partial: the round trip through libxml2 is
   covered by the correspondence with an independent reader; the theorems cover the tree-level logic
   of ncclient/xml_.py around the parser/serialiser oracles; see notes/C17.md).
   Model: Model/XTree.v, Model/XmlHelpers.v.  Spec: Spec/XmlHelpersSpec.v. *)
From NC Require Import Model.Base Model.XTree Model.XmlHelpers Spec.XmlHelpersSpec Proofs.XmlHelpersProofs Proofs.XmlReplaceProofs Proofs.XmlCtorProofs.
From NC Require Import Model.XmlHistory Proofs.XmlHistoryProofs.
From NC Require Import Model.XmlSession Spec.XmlSessionSpec Proofs.XmlSessionProofs.
From NC Require Import Model.XmlReparse Spec.XmlReparseSpec Proofs.XmlReparseProofs.

(* to_xml: whichever branch runs - the serialiser declared the document itself, or it did not and
   the declaration is prepended - the result is ONE declaration followed by the serialised element,
   for every serialiser answer of the stated shape and every encoding name without '?'. *)
Theorem C17_decl_once : forall ser enc body,
  ser_shape ser body -> enc_ok enc ->
  exists d, to_xml ser enc = d ++ body /\ decl_shape d.
Proof. exact c17_decl_once. Qed.
Print Assumptions C17_decl_once.

(* parse_root (first start event of the stream) agrees with the full parse whenever the latter succeeds,
   for every event stream the parser may produce. *)
Theorem C17_root_agrees : forall evs t,
  to_ele_ev evs = Some t ->
  exists n a, parse_root_ev evs = Some (n, a) /\ root_name t = Some n /\ root_attrs t = a.
Proof. exact c17_root_agrees. Qed.
Print Assumptions C17_root_agrees.

(* ... and needs nothing beyond the root's start tag *)
Theorem C17_root_prefix : forall pro n a rest,
  prolog_ok pro = true -> parse_root_ev (pro ++ EvStart n a :: rest) = Some (n, a).
Proof. exact c17_root_prefix. Qed.
Print Assumptions C17_root_prefix.

(* validated_element accepts exactly when the root tag is allowed (or no tag requirement is given) and
   every required attribute has one of its alternatives present. *)
Theorem C17_validated_iff : forall tags attrs root ks,
  alts_wellformed attrs ->
  (validated tags attrs root ks = VAccept <-> validated_spec tags attrs root ks).
Proof. exact c17_validated_iff. Qed.
Print Assumptions C17_validated_iff.

(* acceptance is sound without any assumption on the requirement strings *)
Theorem C17_validated_sound : forall tags attrs root ks,
  validated tags attrs root ks = VAccept -> validated_spec tags attrs root ks.
Proof. exact c17_validated_sound. Qed.
Print Assumptions C17_validated_sound.

Theorem C17_validated_reject_tag : forall tags attrs root ks,
  validated tags attrs root ks = VRejectTag <->
  (tags_list tags <> [] /\ ~ In (clark root) (tags_list tags)).
Proof. exact c17_validated_reject_tag. Qed.
Print Assumptions C17_validated_reject_tag.

(* replace_namespace, as stored in memory: exactly the element and attribute names of the old namespace
   move to the new one; every other name, every value, text, comment, PI and the order of children are
   unchanged (xrename), provided no renamed attribute lands on an attribute that stays. *)
Theorem C17_replace_ns_exact : forall o n t,
  attrs_ok o n (mview t) -> mview (replace_ns o n t) = xrename o n (mview t).
Proof. exact c17_replace_ns_exact. Qed.
Print Assumptions C17_replace_ns_exact.

(* the same for what a reader of the serialised tree sees, for clean trees (every parsed document) *)
Theorem C17_replace_ns_resolved : forall o v t d,
  cleanb d t = true -> attrs_ok o (Some v) (mview t) ->
  resolve d (replace_ns o (Some v) t) = xrename o (Some v) (resolve d t).
Proof. exact c17_replace_ns_resolved. Qed.
Print Assumptions C17_replace_ns_resolved.

(* the collision hypothesis is necessary: u:x="1" v:x="2" with u -> v loses one attribute *)
Theorem C17_replace_ns_collision_refuted :
  exists o n t, NoDup (keys (root_attrs (mview t))) /\ mview (replace_ns o n t) <> xrename o n (mview t).
Proof. exact c17_replace_ns_collision_refuted. Qed.
Print Assumptions C17_replace_ns_collision_refuted.

(* constructors, on the namespace-resolved view: new_ele / new_ele_ns build the named element;
   sub_ele appends a last child IN THE PARENT'S NAMESPACE (prefixed parent: copied; otherwise the child is
   stored without namespace and resolves to the default namespace in scope, which is the parent's);
   sub_ele_ns appends a child in the given namespace; well-formedness of bindings is preserved, so the
   statements chain over whole constructor programs. *)
Theorem C17_ctor_new : forall tag a,
  resolve None (new_ele tag a) = Elem (Some BASE_NS, tag) (attrs_of_dict a []) [] /\
  wfb None (new_ele tag a) = true.
Proof. exact c17_ctor_new. Qed.
Print Assumptions C17_ctor_new.

Theorem C17_ctor_new_ns : forall tag u a, u <> [] ->
  resolve None (new_ele_ns tag (Some u) a) = Elem (Some u, tag) (attrs_of_dict a []) [] /\
  wfb None (new_ele_ns tag (Some u) a) = true.
Proof. exact c17_ctor_new_ns. Qed.
Print Assumptions C17_ctor_new_ns.

Theorem C17_ctor : forall path tag a t t',
  wfb None t = true -> sub_ele_at path tag a t = Some t' ->
  xupdate_at path (x_sub_ele tag a) (resolve None t) = Some (resolve None t') /\ wfb None t' = true.
Proof. exact c17_ctor_sub_ele. Qed.
Print Assumptions C17_ctor.

Theorem C17_ctor_ns : forall path tag u a t t',
  wfb None t = true -> u <> [] -> sub_ele_ns_at path tag (Some u) a t = Some t' ->
  xupdate_at path (x_sub_ele_ns tag u a) (resolve None t) = Some (resolve None t') /\ wfb None t' = true.
Proof. exact c17_ctor_sub_ele_ns. Qed.
Print Assumptions C17_ctor_ns.

(* ---------------- histories of helper calls on one caller-owned tree ----------------
   The caller keeps a tree and hands elements of it (paths of lxml child indices) to the helpers in any order;
   [ser] is the serialiser oracle (any function of the element it is handed and the encoding). *)

(* to_xml, to_ele and validated_element return the caller's tree as it was *)
Theorem C17_hist_observer_frame : forall ser t op t' o,
  is_observer op = true -> hstep ser t op = Some (t', o) -> t' = t.
Proof. exact c17_observer_frame. Qed.
Print Assumptions C17_hist_observer_frame.

(* ... and report on the element at the path alone (the text following it in its parent is a sibling) *)
Theorem C17_hist_observer_result : forall ser t op t' o,
  is_observer op = true -> hstep ser t op = Some (t', o) ->
  exists s, lx_get_at (hop_path op) t = Some s /\ o = observe ser op s.
Proof. exact c17_observer_result. Qed.
Print Assumptions C17_hist_observer_result.

(* a history ends in the tree that its documented in-place edits alone produce *)
Theorem C17_hist_erase : forall ser ops t t' os,
  hrun ser t ops = Some (t', os) -> exists os', hrun ser t (mutators ops) = Some (t', os').
Proof. exact c17_history_erase. Qed.
Print Assumptions C17_hist_erase.

(* the result of any call in a history is the result of that call after the in-place edits that precede it:
   nothing depends on what was serialised, validated or looked at before, nor on the order of it *)
Theorem C17_hist_result : forall ser ops1 op ops2 t t' os,
  hrun ser t (ops1 ++ op :: ops2) = Some (t', os) ->
  exists t1 os1 t2 o, hrun ser t (mutators ops1) = Some (t1, os1) /\
                      hstep ser t1 op = Some (t2, o) /\ nth_error os (length ops1) = Some o.
Proof. exact c17_result_after_mutators. Qed.
Print Assumptions C17_hist_result.

(* observers only: the tree is untouched and each result is the one the call gives on the untouched tree *)
Theorem C17_hist_pure : forall ser ops t t' os,
  Forall (fun op => is_observer op = true) ops -> hrun ser t ops = Some (t', os) ->
  t' = t /\ Forall2 (fun op o => hstep ser t op = Some (t, o)) ops os.
Proof. exact c17_pure_history. Qed.
Print Assumptions C17_hist_pure.

(* every call, in-place edits included, leaves each element beside the one it was given exactly as it was
   (names, binding, declarations, attributes, text, tails, children) *)
Theorem C17_hist_step_frame : forall ser t op t' o q,
  hstep ser t op = Some (t', o) -> diverge (hop_path op) q = true -> lx_get_at q t' = lx_get_at q t.
Proof. exact c17_step_frame. Qed.
Print Assumptions C17_hist_step_frame.

(* ... and on the way down to the edited element every ancestor keeps its own name, binding, declarations
   and attributes; of its children (text and tails included) only the one on the path changes *)
Theorem C17_hist_ancestor : forall i p f sc n pf ds a k t',
  lx_update_at (i :: p) f sc (ME n pf ds a k) = Some t' ->
  exists l1 x y l2, k = l1 ++ x :: l2 /\ t' = ME n pf ds a (l1 ++ y :: l2) /\
                    lx_update_at p f (ds ++ sc) x = Some y /\ lx_nth i k = Some x.
Proof. exact lx_update_at_ancestor. Qed.
Print Assumptions C17_hist_ancestor.

(* the in-place edits at an element of the tree are the modelled helpers applied to that element
   (C17_replace_ns_exact / C17_ctor speak about them) *)
Theorem C17_hist_replace_at : forall ser t p o n t' x,
  hstep ser t (HReplace p o n) = Some (t', x) ->
  exists s, lx_get_at p t = Some s /\ lx_get_at p t' = Some (replace_ns o n s).
Proof. exact c17_replace_at. Qed.
Print Assumptions C17_hist_replace_at.

Theorem C17_hist_sub_ele_at : forall ser t p tag a t' x,
  hstep ser t (HSubEle p tag a) = Some (t', x) ->
  exists n pf ds atts k sc,
    lx_get_at p t = Some (ME n pf ds atts k) /\
    lx_get_at p t' = Some (ME n pf ds atts (k ++ [mk_elem (ds ++ sc) [] (parent_ns (ME n pf ds atts k)) tag a])).
Proof. exact c17_sub_ele_at. Qed.
Print Assumptions C17_hist_sub_ele_at.

Theorem C17_hist_sub_ele_ns_at : forall ser t p tag u a t' x,
  hstep ser t (HSubEleNs p tag u a) = Some (t', x) ->
  exists n pf ds atts k sc,
    lx_get_at p t = Some (ME n pf ds atts k) /\
    lx_get_at p t' = Some (ME n pf ds atts (k ++ [mk_elem (ds ++ sc) [] u tag a])).
Proof. exact c17_sub_ele_ns_at. Qed.
Print Assumptions C17_hist_sub_ele_ns_at.

(* the step-by-step trace the runner reports is the history *)
Theorem C17_hist_trace : forall ser ops t t' os,
  hrun ser t ops = Some (t', os) ->
  map snd (htrace ser t ops) = os /\ last (map fst (htrace ser t ops)) t = t'.
Proof. exact c17_trace_run. Qed.
Print Assumptions C17_hist_trace.

(* ---------------- several constructor programs in one process (Model/XmlSession.v, Spec/XmlSessionSpec.v) ---------------- *)
(* whatever is constructed and however the attributes are passed (omitted, a dictionary the caller keeps and
   passes again, a literal, keyword arguments): the constructors' default objects are what they were and the
   caller's dictionaries are what the caller's own assignments made them *)
Theorem C17_session_store : forall ops st st',
  srun st ops = Some st' ->
  s_dflt st' = s_dflt st /\ s_dicts st' = caller_dicts (s_dicts st) ops.
Proof. exact c17_session_store. Qed.
Print Assumptions C17_session_store.

(* a call leaves every tree it was not given exactly as it was *)
Theorem C17_session_step_frame : forall st op st' j,
  sstep st op = Some st' -> sop_tree op <> Some j -> (j < length (s_trees st))%nat ->
  nth_error (s_trees st') j = nth_error (s_trees st) j.
Proof. exact c17_session_step_frame. Qed.
Print Assumptions C17_session_step_frame.

(* in a process whose default objects are empty, every tree is the tree ITS OWN program specifies - the calls
   that create / extend it, each with the attributes written at the call site ([own] looks at no implementation
   state): what was built before, in between or afterwards for other trees does not show *)
Theorem C17_session_independent : forall ops st st' j,
  pristine st -> srun st ops = Some st' ->
  nth_error (s_trees st') j =
  fold_left lstep (own j (length (s_trees st)) (s_dicts st) ops) (nth_error (s_trees st) j).
Proof. exact c17_session_independent. Qed.
Print Assumptions C17_session_independent.

Theorem C17_session_alone : forall ops dflt dicts st' j,
  pristine (mkS dflt dicts []) -> srun (mkS dflt dicts []) ops = Some st' ->
  nth_error (s_trees st') j = fold_left lstep (own j 0 dicts ops) None.
Proof. exact c17_session_alone. Qed.
Print Assumptions C17_session_alone.

(* the state-after-every-call trace the runner reports is the run *)
Theorem C17_session_trace : forall ops st st',
  srun st ops = Some st' -> last (strace st ops) st = st' /\ length (strace st ops) = length ops.
Proof. exact c17_session_trace. Qed.
Print Assumptions C17_session_trace.

(* ---------------- a process that parses texts and edits what it got back (Model/XmlReparse.v) ----------------
   The parser (libxml2) and the serialiser are oracles: every theorem holds for every function of the parser's options
   and the octets. *)

(* whatever the process did before - parsed this very text (with the same parser), renamed / extended / emptied the
   tree it got, serialised, parsed other texts - the tree a parse hands out is the parser's reading of the text, as a
   new last tree *)
Theorem C17_reparse_fresh : forall parser ser ops ts h s ts' t,
  rrun parser ser ts (ops ++ [RParse h s]) = Some ts' -> parser h s = Some t ->
  exists ts1, rrun parser ser ts ops = Some ts1 /\ ts' = ts1 ++ [t] /\ nth_error ts' (length ts1) = Some t.
Proof. exact c17_reparse_fresh. Qed.
Print Assumptions C17_reparse_fresh.

(* a call leaves every tree it was not given as it was: a parse touches no tree handed out earlier, an in-place
   helper / an edit of the caller's touches no other tree (two readings of one text share nothing) *)
Theorem C17_reparse_step_frame : forall parser ser ts op ts' j,
  rstep parser ser ts op = Some ts' -> rop_tree op <> Some j -> (j < length ts)%nat ->
  nth_error ts' j = nth_error ts j.
Proof. exact c17_reparse_step_frame. Qed.
Print Assumptions C17_reparse_step_frame.

(* every tree is the reading of ITS text followed by the calls that were given THAT tree, whatever else was parsed
   or edited before, in between or afterwards *)
Theorem C17_reparse_independent : forall parser ser ops ts ts' j,
  rrun parser ser ts ops = Some ts' ->
  nth_error ts' j = fold_left (estep parser ser) (rown parser j (length ts) ops) (nth_error ts j).
Proof. exact c17_reparse_independent. Qed.
Print Assumptions C17_reparse_independent.

Theorem C17_reparse_alone : forall parser ser ops ts' j,
  rrun parser ser [] ops = Some ts' -> nth_error ts' j = fold_left (estep parser ser) (rown parser j 0 ops) None.
Proof. exact c17_reparse_alone. Qed.
Print Assumptions C17_reparse_alone.

(* parse s, do anything to the tree handed out, parse s again: the second tree is the reading of s, the first is
   what the edits made of it *)
Theorem C17_reparse_same_text : forall parser ser h s t edits ts',
  parser h s = Some t ->
  Forall (fun op => rop_tree op = Some 0%nat) edits ->
  rrun parser ser [] (RParse h s :: edits ++ [RParse h s]) = Some ts' ->
  exists t0, ts' = [t0; t] /\ Some t0 = fold_left (estep parser ser) (rown parser 0 1 edits) (Some t).
Proof. exact c17_reparse_same_text. Qed.
Print Assumptions C17_reparse_same_text.

(* A CALL THAT RAISES LEAVES NOTHING BEHIND.  A call raises when the parser refuses the octets (not well-formed, too
   large for the parser variant) or the helper raises without the parser's refusal (RRaised: the text cannot be encoded
   / the root does not meet validated_element's requirement).  Such a call is the identity on the process ... *)
Theorem C17_reparse_raise_step : forall parser ser ts op,
  rraises parser op = true -> rstep parser ser ts op = Some ts.
Proof. exact c17_reparse_raise_step. Qed.
Print Assumptions C17_reparse_raise_step.

(* ... so the calls that raised can be struck out of any history: the same trees come out *)
Theorem C17_reparse_raise_erase : forall parser ser ops ts,
  rrun parser ser ts ops = rrun parser ser ts (filter (fun op => negb (rraises parser op)) ops).
Proof. exact c17_reparse_raise_erase. Qed.
Print Assumptions C17_reparse_raise_erase.

(* ... after any raising calls the next parse is the parse of a fresh process *)
Theorem C17_reparse_after_raises : forall parser ser bad h s,
  Forall (fun op => rraises parser op = true) bad ->
  rrun parser ser [] (bad ++ [RParse h s]) = rrun parser ser [] [RParse h s].
Proof. exact c17_reparse_after_raises. Qed.
Print Assumptions C17_reparse_after_raises.

(* ... and in the middle of a history the later calls do not see them *)
Theorem C17_reparse_raises_between : forall parser ser ops1 bad ops2 ts,
  Forall (fun op => rraises parser op = true) bad ->
  rrun parser ser ts (ops1 ++ bad ++ ops2) = rrun parser ser ts (ops1 ++ ops2).
Proof. exact c17_reparse_raises_between. Qed.
Print Assumptions C17_reparse_raises_between.

(* the trees-after-every-call trace the runner reports is the run *)
Theorem C17_reparse_trace : forall parser ser ops ts ts',
  rrun parser ser ts ops = Some ts' ->
  last (rtrace parser ser ts ops) ts = ts' /\ length (rtrace parser ser ts ops) = length ops.
Proof. exact c17_reparse_trace. Qed.
Print Assumptions C17_reparse_trace.

(* ---------------- non-vacuity ---------------- *)
From Coq Require Import String.
From NC Require Import Model.Lit.

Definition ex_body : bytes := lit "<a x=""1""><!--<?xml version=""1.0""?>-->t</a>"%string.
Example C17_ex_decl_prepended :
  ser_shape ex_body ex_body /\
  to_xml ex_body (lit "UTF-8"%string) = lit "<?xml version=""1.0"" encoding=""UTF-8""?><a x=""1""><!--<?xml version=""1.0""?>-->t</a>"%string.
Proof.
  split; [|vm_compute; reflexivity].
  split; [|left; reflexivity]. eexists _, _. split; [reflexivity|discriminate].
Qed.

Example C17_ex_decl_serialiser :
  let ser := lit "<?xml version='1.0' encoding='ISO-8859-1'?>"%string ++ [10] ++ ex_body in
  ser_shape ser ex_body /\ to_xml ser (lit "ISO-8859-1"%string) = ser.
Proof.
  split; [|vm_compute; reflexivity].
  split; [eexists _, _; split; [reflexivity|discriminate]|].
  right. exists (lit "version='1.0' encoding='ISO-8859-1'"%string). split; vm_compute; reflexivity.
Qed.

(* HelloHandler-style tree: default-namespace root, children made by sub_ele are stored without
   namespace and every reader sees them in the base namespace *)
Definition ex_hello : option mnode :=
  match sub_ele_at [] [99] [] (new_ele_nsmap [104] [(false, BASE_NS)] []) with
  | Some t => sub_ele_at [0%nat] [100] [((Some [117], [97]), [49])] t
  | None => None
  end.
Example C17_ex_wrinkle :
  option_map mview ex_hello =
    Some (Elem (Some BASE_NS, [104]) [] [Elem (None, [99]) [] [Elem (None, [100]) [((Some [117], [97]), [49])] []]]) /\
  option_map (resolve None) ex_hello =
    Some (Elem (Some BASE_NS, [104]) [] [Elem (Some BASE_NS, [99]) [] [Elem (Some BASE_NS, [100]) [((Some [117], [97]), [49])] []]]) /\
  option_map (wfb None) ex_hello = Some true.
Proof. vm_compute. repeat split; reflexivity. Qed.

Example C17_ex_validated :
  let ks := [(None, [120]); (Some [118], [121])] in
  validated (TagsList [[97]; LBRACE :: [117] ++ RBRACE :: [97]]) [ReqList [[113]; [120]]; ReqStr (LBRACE :: [118] ++ RBRACE :: [121])] (Some [117], [97]) ks = VAccept /\
  validated TagsNone [ReqList []] (Some [117], [97]) ks = VRejectAttr /\
  validated (TagsStr [97]) [] (Some [117], [97]) ks = VRejectTag.
Proof. vm_compute. repeat split; reflexivity. Qed.

Example C17_ex_root :
  let t := Elem (Some [117], [97]) [((None, [120]), [49])] [Text [116]; Elem (None, [98]) [] []; Comment [99]] in
  to_ele_ev (EvComment [112] :: events_of t ++ [EvText [10]]) = Some t /\
  parse_root_ev (EvComment [112] :: events_of t ++ [EvError]) = Some ((Some [117], [97]), [((None, [120]), [49])]) /\
  to_ele_ev (EvComment [112] :: events_of t ++ [EvError]) = None.
Proof. vm_compute. repeat split; reflexivity. Qed.

Example C17_ex_replace :
  let t := ME (Some [117], [97]) false [(false, [117])] [((Some [117], [120]), [49]); ((None, [121]), [50])]
              [MT [116]; MC [99]; ME (Some [119], [98]) true [(true, [119])] [] []] in
  attrs_ok (Some [117]) (Some [118]) (mview t) /\ cleanb None t = true /\
  resolve None (replace_ns (Some [117]) (Some [118]) t) =
    Elem (Some [118], [97]) [((None, [121]), [50]); ((Some [118], [120]), [49])] [Text [116]; Comment [99]; Elem (Some [119], [98]) [] []].
Proof.
  split; [|split; vm_compute; reflexivity].
  cbn. repeat split; repeat constructor; simpl; try tauto; try (intros [H|[H|H]]; discriminate || tauto).
  - intros [H|H]; [discriminate|tauto].
  - intros l [H|[H|H]]; try tauto; try discriminate. injection H as <-. simpl. intros [H2|H2]; [discriminate|tauto].
  - intros l H; simpl in H; tauto.
Qed.

(* <a><b>x</b>tail<c/></a>: serialise b (which has a tail), look at c, rename c, serialise the whole tree.
   The serialiser is handed b without "tail"; the tree the last call serialises still has it. *)
Definition ex_hist_tree : mnode :=
  ME (None, [97]) false [] [] [ME (None, [98]) false [] [] [MT [120]]; MT [116;97;105;108]; ME (None, [99]) false [] [] []].
Definition ex_ser : mnode -> bytes -> bytes := fun _ _ => ex_body.
Example C17_ex_history :
  let enc := lit "UTF-8"%string in
  let ops := [HToXml [0%nat] enc; HValidated [1%nat] (TagsStr [99]) []; HReplace [1%nat] None (Some [117]); HToXml [] enc] in
  let t' := ME (None, [97]) false [] [] [ME (None, [98]) false [] [] [MT [120]]; MT [116;97;105;108]; ME (Some [117], [99]) false [] [] []] in
  hrun ex_ser ex_hist_tree ops =
    Some (t', [OXml (ME (None, [98]) false [] [] [MT [120]]) (to_xml ex_body enc); OVal VAccept; ODone; OXml t' (to_xml ex_body enc)]) /\
  hrun ex_ser ex_hist_tree (mutators ops) = Some (t', [ODone]) /\
  diverge [1%nat] [0%nat] = true /\ lx_get_at [0%nat] t' = lx_get_at [0%nat] ex_hist_tree /\
  lx_get_at [2%nat] ex_hist_tree = None.
Proof. vm_compute. repeat split; reflexivity. Qed.

(* one process: rpc/get-config with a keyword attribute and item with a caller's dictionary (which the caller then
   extends), then a second, unrelated rpc whose children are written WITHOUT attributes and one that passes the
   caller's dictionary again.  Tree 1 carries what its own calls say; tree 0 did not follow the caller's later
   assignment; the defaults are still empty. *)
Definition ex_k (s : string) : name := (None, lit s).
Definition ex_session : list sop :=
  [SNew (lit "rpc") ADefault [];
   SSub 0 [] (lit "get-config") ADefault [(ex_k "operation", lit "merge")];
   SSubNs 0 [] (lit "item") (Some (lit "urn:two")) (ACaller 0) [(ex_k "key", lit "k1")];
   SDictSet 0 (ex_k "b") (lit "2");
   SNew (lit "rpc") ADefault [];
   SSub 1 [] (lit "close-session") ADefault [];
   SSubNs 1 [] (lit "plain") (Some (lit "urn:two")) ADefault [];
   SSub 1 [] (lit "x") (ACaller 0) [(ex_k "a", lit "9")]].
Definition ex_st0 : sstate := mkS [[]; []; []; []; []] [[(ex_k "a", lit "1")]] [].
Example C17_ex_session :
  pristine ex_st0 /\
  exists st', srun ex_st0 ex_session = Some st' /\
    s_dflt st' = [[]; []; []; []; []] /\ s_dicts st' = [[(ex_k "a", lit "1"); (ex_k "b", lit "2")]] /\
    own 1 0 (s_dicts ex_st0) ex_session =
      [LNew (lit "rpc") []; LSub [] (lit "close-session") []; LSubNs [] (lit "plain") (Some (lit "urn:two")) [];
       LSub [] (lit "x") [(ex_k "a", lit "9"); (ex_k "b", lit "2")]] /\
    option_map mview (nth_error (s_trees st') 1) =
      Some (Elem (Some BASE_NS, lit "rpc") []
             [Elem (Some BASE_NS, lit "close-session") [] []; Elem (Some (lit "urn:two"), lit "plain") [] [];
              Elem (Some BASE_NS, lit "x") [(ex_k "a", lit "9"); (ex_k "b", lit "2")] []]) /\
    option_map mview (nth_error (s_trees st') 0) =
      Some (Elem (Some BASE_NS, lit "rpc") []
             [Elem (Some BASE_NS, lit "get-config") [(ex_k "operation", lit "merge")] [];
              Elem (Some (lit "urn:two"), lit "item") [(ex_k "key", lit "k1"); (ex_k "a", lit "1")] []]).
Proof.
  split; [intros []; reflexivity|]. eexists. split; [vm_compute; reflexivity|]. vm_compute. repeat split; reflexivity.
Qed.

(* the hypothesis [pristine] is needed, and the model evaluates a default the way Python does: had an earlier call
   left operation="merge" in sub_ele's default object, a later bare sub_ele would carry it *)
Example C17_session_polluted_refuted :
  let st := mkS [[]; []; []; [(ex_k "operation", lit "merge")]; []] [] [new_ele (lit "rpc") []] in
  exists st', srun st [SSub 0 [] (lit "close-session") ADefault []] = Some st' /\
    nth_error (s_trees st') 0 <> fold_left lstep (own 0 1 [] [SSub 0 [] (lit "close-session") ADefault []]) (nth_error (s_trees st) 0).
Proof. eexists. split; [vm_compute; reflexivity|]. vm_compute. discriminate. Qed.

(* <a xmlns="urn:u"><b/>t</a> parsed with huge_tree, renamed u -> v, given a child in urn:w and an attribute by the
   caller, then the same text parsed again with huge_tree (and once without): trees 1 and 2 are the document, tree 0
   is what the caller made of its own copy. *)
Definition ex_rp_text : bytes := lit "<a xmlns=""urn:u""><b/>t</a>"%string.
Definition ex_rp_doc : mnode :=
  ME (Some (lit "urn:u"), [97]) false [(false, lit "urn:u")] [] [ME (Some (lit "urn:u"), [98]) false [] [] []; MT [116]].
Definition ex_rp_parser := table_parser [(true, ex_rp_text, Some ex_rp_doc); (false, ex_rp_text, Some ex_rp_doc)].
Definition ex_rp_edited : mnode :=
  ME (Some (lit "urn:v"), [97]) false [(false, lit "urn:u")] [((None, [107]), [49])]
     [ME (Some (lit "urn:v"), [98]) false [] [] []; MT [116]; ME (Some (lit "urn:w"), [110]) true [(true, lit "urn:w")] [] []].
Example C17_ex_reparse :
  let edits := [RHelper 0 (HReplace [] (Some (lit "urn:u")) (Some (lit "urn:v")));
                RHelper 0 (HSubEleNs [] [110] (Some (lit "urn:w")) []);
                RCaller 0 ex_rp_edited] in
  Forall (fun op => rop_tree op = Some 0%nat) edits /\
  rrun ex_rp_parser ex_ser [] (RParse true ex_rp_text :: edits ++ [RParse true ex_rp_text; RParse false ex_rp_text; RParse true []]) =
    Some [ex_rp_edited; ex_rp_doc; ex_rp_doc] /\
  rown ex_rp_parser 1 0 (RParse true ex_rp_text :: edits ++ [RParse true ex_rp_text]) = [EParse true ex_rp_text].
Proof. split; [repeat constructor|]. vm_compute. split; reflexivity. Qed.

(* three calls that raise (the parser refuses "<a>"; a text with a lone surrogate; a requirement not met), between and
   before good parses: the hypotheses of C17_reparse_after_raises / _raises_between hold, and the trees are the readings *)
Example C17_ex_reparse_raises :
  let bad := [RParse true (lit "<a>"); RRaised true [60; 97; 62; 237; 178; 128]; RRaised false ex_rp_text] in
  Forall (fun op => rraises ex_rp_parser op = true) bad /\
  rraises ex_rp_parser (RParse true ex_rp_text) = false /\
  rrun ex_rp_parser ex_ser [] (bad ++ [RParse true ex_rp_text]) = Some [ex_rp_doc] /\
  rrun ex_rp_parser ex_ser [] (RParse true ex_rp_text :: RCaller 0 ex_rp_edited :: bad ++ [RParse true ex_rp_text; RParse false ex_rp_text]) =
    Some [ex_rp_edited; ex_rp_doc; ex_rp_doc].
Proof. split; [repeat constructor|]. vm_compute. repeat split; reflexivity. Qed.
