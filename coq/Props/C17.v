(* Props/C17.v — property C17: XML helper round-trips (partial: the round trip through libxml2 is
   covered by the correspondence with an independent reader; the theorems cover the tree-level logic
   of ncclient/xml_.py around the parser/serialiser oracles; see notes/C17.md).
   Model: Model/XTree.v, Model/XmlHelpers.v.  Spec: Spec/XmlHelpersSpec.v. *)
From NC Require Import Model.Base Model.XTree Model.XmlHelpers Spec.XmlHelpersSpec Proofs.XmlHelpersProofs Proofs.XmlReplaceProofs Proofs.XmlCtorProofs.

(* to_xml: whichever branch runs - the serialiser declared the document itself, or it did not and
   the declaration is prepended - the result is ONE declaration followed by the serialised element,
   for every serialiser answer of the stated shape and every encoding name without '?'. *)
Theorem C17_decl_once : forall ser enc body,
  ser_shape ser body -> enc_ok enc ->
  exists d, to_xml ser enc = d ++ body /\ decl_shape d.
Proof. exact c17_decl_once. Qed.
Print Assumptions C17_decl_once.

(* parse_root (first start event of the stream) agrees with the full parse whenever the latter succeeds,
   for every event stream the parser may produce. *)
Theorem C17_root_agrees : forall evs t,
  to_ele_ev evs = Some t ->
  exists n a, parse_root_ev evs = Some (n, a) /\ root_name t = Some n /\ root_attrs t = a.
Proof. exact c17_root_agrees. Qed.
Print Assumptions C17_root_agrees.

(* ... and needs nothing beyond the root's start tag *)
Theorem C17_root_prefix : forall pro n a rest,
  prolog_ok pro = true -> parse_root_ev (pro ++ EvStart n a :: rest) = Some (n, a).
Proof. exact c17_root_prefix. Qed.
Print Assumptions C17_root_prefix.

(* validated_element accepts exactly when the root tag is allowed (or no tag requirement is given) and
   every required attribute has one of its alternatives present. *)
Theorem C17_validated_iff : forall tags attrs root ks,
  alts_wellformed attrs ->
  (validated tags attrs root ks = VAccept <-> validated_spec tags attrs root ks).
Proof. exact c17_validated_iff. Qed.
Print Assumptions C17_validated_iff.

(* acceptance is sound without any assumption on the requirement strings *)
Theorem C17_validated_sound : forall tags attrs root ks,
  validated tags attrs root ks = VAccept -> validated_spec tags attrs root ks.
Proof. exact c17_validated_sound. Qed.
Print Assumptions C17_validated_sound.

Theorem C17_validated_reject_tag : forall tags attrs root ks,
  validated tags attrs root ks = VRejectTag <->
  (tags_list tags <> [] /\ ~ In (clark root) (tags_list tags)).
Proof. exact c17_validated_reject_tag. Qed.
Print Assumptions C17_validated_reject_tag.

(* replace_namespace, as stored in memory: exactly the element and attribute names of the old namespace
   move to the new one; every other name, every value, text, comment, PI and the order of children are
   unchanged (xrename), provided no renamed attribute lands on an attribute that stays. *)
Theorem C17_replace_ns_exact : forall o n t,
  attrs_ok o n (mview t) -> mview (replace_ns o n t) = xrename o n (mview t).
Proof. exact c17_replace_ns_exact. Qed.
Print Assumptions C17_replace_ns_exact.

(* the same for what a reader of the serialised tree sees, for clean trees (every parsed document) *)
Theorem C17_replace_ns_resolved : forall o v t d,
  cleanb d t = true -> attrs_ok o (Some v) (mview t) ->
  resolve d (replace_ns o (Some v) t) = xrename o (Some v) (resolve d t).
Proof. exact c17_replace_ns_resolved. Qed.
Print Assumptions C17_replace_ns_resolved.

(* the collision hypothesis is necessary: u:x="1" v:x="2" with u -> v loses one attribute *)
Theorem C17_replace_ns_collision_refuted :
  exists o n t, NoDup (keys (root_attrs (mview t))) /\ mview (replace_ns o n t) <> xrename o n (mview t).
Proof. exact c17_replace_ns_collision_refuted. Qed.
Print Assumptions C17_replace_ns_collision_refuted.

(* constructors, on the namespace-resolved view: new_ele / new_ele_ns build the named element;
   sub_ele appends a last child IN THE PARENT'S NAMESPACE (prefixed parent: copied; otherwise the child is
   stored without namespace and resolves to the default namespace in scope, which is the parent's);
   sub_ele_ns appends a child in the given namespace; well-formedness of bindings is preserved, so the
   statements chain over whole constructor programs. *)
Theorem C17_ctor_new : forall tag a,
  resolve None (new_ele tag a) = Elem (Some BASE_NS, tag) (attrs_of_dict a []) [] /\
  wfb None (new_ele tag a) = true.
Proof. exact c17_ctor_new. Qed.
Print Assumptions C17_ctor_new.

Theorem C17_ctor_new_ns : forall tag u a, u <> [] ->
  resolve None (new_ele_ns tag (Some u) a) = Elem (Some u, tag) (attrs_of_dict a []) [] /\
  wfb None (new_ele_ns tag (Some u) a) = true.
Proof. exact c17_ctor_new_ns. Qed.
Print Assumptions C17_ctor_new_ns.

Theorem C17_ctor : forall path tag a t t',
  wfb None t = true -> sub_ele_at path tag a t = Some t' ->
  xupdate_at path (x_sub_ele tag a) (resolve None t) = Some (resolve None t') /\ wfb None t' = true.
Proof. exact c17_ctor_sub_ele. Qed.
Print Assumptions C17_ctor.

Theorem C17_ctor_ns : forall path tag u a t t',
  wfb None t = true -> u <> [] -> sub_ele_ns_at path tag (Some u) a t = Some t' ->
  xupdate_at path (x_sub_ele_ns tag u a) (resolve None t) = Some (resolve None t') /\ wfb None t' = true.
Proof. exact c17_ctor_sub_ele_ns. Qed.
Print Assumptions C17_ctor_ns.

(* ---------------- non-vacuity ---------------- *)
From Coq Require Import String.
From NC Require Import Model.Lit.

Definition ex_body : bytes := lit "<a x=""1""><!--<?xml version=""1.0""?>-->t</a>"%string.
Example C17_ex_decl_prepended :
  ser_shape ex_body ex_body /\
  to_xml ex_body (lit "UTF-8"%string) = lit "<?xml version=""1.0"" encoding=""UTF-8""?><a x=""1""><!--<?xml version=""1.0""?>-->t</a>"%string.
Proof.
  split; [|vm_compute; reflexivity].
  split; [|left; reflexivity]. eexists _, _. split; [reflexivity|discriminate].
Qed.

Example C17_ex_decl_serialiser :
  let ser := lit "<?xml version='1.0' encoding='ISO-8859-1'?>"%string ++ [10] ++ ex_body in
  ser_shape ser ex_body /\ to_xml ser (lit "ISO-8859-1"%string) = ser.
Proof.
  split; [|vm_compute; reflexivity].
  split; [eexists _, _; split; [reflexivity|discriminate]|].
  right. exists (lit "version='1.0' encoding='ISO-8859-1'"%string). split; vm_compute; reflexivity.
Qed.

(* HelloHandler-style tree: default-namespace root, children made by sub_ele are stored without
   namespace and every reader sees them in the base namespace *)
Definition ex_hello : option mnode :=
  match sub_ele_at [] [99] [] (new_ele_nsmap [104] [(false, BASE_NS)] []) with
  | Some t => sub_ele_at [0%nat] [100] [((Some [117], [97]), [49])] t
  | None => None
  end.
Example C17_ex_wrinkle :
  option_map mview ex_hello =
    Some (Elem (Some BASE_NS, [104]) [] [Elem (None, [99]) [] [Elem (None, [100]) [((Some [117], [97]), [49])] []]]) /\
  option_map (resolve None) ex_hello =
    Some (Elem (Some BASE_NS, [104]) [] [Elem (Some BASE_NS, [99]) [] [Elem (Some BASE_NS, [100]) [((Some [117], [97]), [49])] []]]) /\
  option_map (wfb None) ex_hello = Some true.
Proof. vm_compute. repeat split; reflexivity. Qed.

Example C17_ex_validated :
  let ks := [(None, [120]); (Some [118], [121])] in
  validated (TagsList [[97]; LBRACE :: [117] ++ RBRACE :: [97]]) [ReqList [[113]; [120]]; ReqStr (LBRACE :: [118] ++ RBRACE :: [121])] (Some [117], [97]) ks = VAccept /\
  validated TagsNone [ReqList []] (Some [117], [97]) ks = VRejectAttr /\
  validated (TagsStr [97]) [] (Some [117], [97]) ks = VRejectTag.
Proof. vm_compute. repeat split; reflexivity. Qed.

Example C17_ex_root :
  let t := Elem (Some [117], [97]) [((None, [120]), [49])] [Text [116]; Elem (None, [98]) [] []; Comment [99]] in
  to_ele_ev (EvComment [112] :: events_of t ++ [EvText [10]]) = Some t /\
  parse_root_ev (EvComment [112] :: events_of t ++ [EvError]) = Some ((Some [117], [97]), [((None, [120]), [49])]) /\
  to_ele_ev (EvComment [112] :: events_of t ++ [EvError]) = None.
Proof. vm_compute. repeat split; reflexivity. Qed.

Example C17_ex_replace :
  let t := ME (Some [117], [97]) false [(false, [117])] [((Some [117], [120]), [49]); ((None, [121]), [50])]
              [MT [116]; MC [99]; ME (Some [119], [98]) true [(true, [119])] [] []] in
  attrs_ok (Some [117]) (Some [118]) (mview t) /\ cleanb None t = true /\
  resolve None (replace_ns (Some [117]) (Some [118]) t) =
    Elem (Some [118], [97]) [((None, [121]), [50]); ((Some [118], [120]), [49])] [Text [116]; Comment [99]; Elem (Some [119], [98]) [] []].
Proof.
  split; [|split; vm_compute; reflexivity].
  cbn. repeat split; repeat constructor; simpl; try tauto; try (intros [H|[H|H]]; discriminate || tauto).
  - intros [H|H]; [discriminate|tauto].
  - intros l [H|[H|H]]; try tauto; try discriminate. injection H as <-. simpl. intros [H2|H2]; [discriminate|tauto].
  - intros l H; simpl in H; tauto.
Qed.
