From NC Require Import Model.Base Model.XTree Model.XmlHelpers.
