(* Props/C07.v — property C07: requests are well-formed and carry caller data faithfully.
   Models: Model/Escape.v (libxml2 escaping), Model/Builders.v (19 standard operations),
   Model/Xml.v.  Spec: Spec/Rfc6241Schema.v (DESIGN Appendix F). *)
From Coq Require Import String.
From NC Require Import Model.Base Model.Lit Model.Xml Model.Escape Model.Gating Model.Builders.
From NC Require Import Proofs.EscapeProofs.

(* Escaping is invertible: what the reader un-escapes is the caller's string — ALL octet strings. *)
Theorem C07_escape_roundtrip : forall s : bytes,
  unescape (escape_text s) = s /\ unescape (escape_attr s) = s.
Proof. intros s. split; [apply c07_escape_roundtrip_text|apply c07_escape_roundtrip_attr]. Qed.
Print Assumptions C07_escape_roundtrip.

(* Escaped output cannot start markup: no '<' occurs, every '&' starts one of the produced
   references (&lt; &gt; &amp; &quot; &#13; &#10; &#9;), and an attribute value contains no
   double quote. *)
Theorem C07_no_injection : forall s : bytes,
  wf_escaped (escape_text s) = true /\ wf_escaped (escape_attr s) = true /\ no_quote (escape_attr s) = true.
Proof.
  intros s. split; [apply c07_no_injection_text|apply c07_no_injection_attr].
Qed.
Print Assumptions C07_no_injection.

(* … in words: at every position of the output *)
Theorem C07_no_injection_pointwise : forall (s a b : bytes) (c : N),
  escape_text s = a ++ c :: b \/ escape_attr s = a ++ c :: b ->
  c <> 60 /\ (c = 38 -> exists r v, In (r, v) refs /\ prefixb r (c :: b) = true).
Proof.
  intros s a b c [H|H].
  - exact (wf_escaped_spec _ (c07_no_injection_text s) a b c H).
  - exact (wf_escaped_spec _ (proj1 (c07_no_injection_attr s)) a b c H).
Qed.
Print Assumptions C07_no_injection_pointwise.

Example C07_ex_escape :
  escape_text (lit "a<b>&c]]>"%string) = lit "a&lt;b&gt;&amp;c]]&gt;"%string
  /\ escape_attr (lit "x""y"%string) = lit "x&quot;y"%string
  /\ unescape (lit "&lt;&amp;lt;&#13;&#9;&unknown;"%string) = [60; 38; 108; 116; 59; 13; 9] ++ lit "&unknown;"%string.
Proof. vm_compute. repeat split; reflexivity. Qed.
