(* Props/C07.v — property C07: requests are well-formed and carry caller data faithfully.
   Models: Model/Escape.v (libxml2 escaping), Model/Builders.v (19 standard operations),
   Model/Xml.v.  Spec: Spec/Rfc6241Schema.v (DESIGN Appendix F). *)
From Coq Require Import String.
From NC Require Import Model.Base Model.Lit Model.Xml Model.Escape Model.Gating Model.Builders.
From NC Require Import Proofs.EscapeProofs.

(* Escaping is invertible: what the reader un-escapes is the caller's string — ALL octet strings. *)
Theorem C07_escape_roundtrip : forall s : bytes,
  unescape (escape_text s) = s /\ unescape (escape_attr s) = s.
Proof. intros s. split; [apply c07_escape_roundtrip_text|apply c07_escape_roundtrip_attr]. Qed.
Print Assumptions C07_escape_roundtrip.

(* Escaped output cannot start markup: no '<' occurs, every '&' starts one of the produced
   references (&lt; &gt; &amp; &quot; &#13; &#10; &#9;), and an attribute value contains no
   double quote. *)
Theorem C07_no_injection : forall s : bytes,
  wf_escaped (escape_text s) = true /\ wf_escaped (escape_attr s) = true /\ no_quote (escape_attr s) = true.
Proof.
  intros s. split; [apply c07_no_injection_text|apply c07_no_injection_attr].
Qed.
Print Assumptions C07_no_injection.

(* … in words: at every position of the output *)
Theorem C07_no_injection_pointwise : forall (s a b : bytes) (c : N),
  escape_text s = a ++ c :: b \/ escape_attr s = a ++ c :: b ->
  c <> 60 /\ (c = 38 -> exists r v, In (r, v) refs /\ prefixb r (c :: b) = true).
Proof.
  intros s a b c [H|H].
  - exact (wf_escaped_spec _ (c07_no_injection_text s) a b c H).
  - exact (wf_escaped_spec _ (proj1 (c07_no_injection_attr s)) a b c H).
Qed.
Print Assumptions C07_no_injection_pointwise.

Example C07_ex_escape :
  escape_text (lit "a<b>&c]]>"%string) = lit "a&lt;b&gt;&amp;c]]&gt;"%string
  /\ escape_attr (lit "x""y"%string) = lit "x&quot;y"%string
  /\ unescape (lit "&lt;&amp;lt;&#13;&#9;&unknown;"%string) = [60; 38; 108; 116; 59; 13; 9] ++ lit "&unknown;"%string.
Proof. vm_compute. repeat split; reflexivity. Qed.

(* ------------------------------------------------------------------------------------------ *)
From NC Require Import Spec.Rfc6241Schema Proofs.BuildersProofs.

(* Every built request is one <rpc> in the base namespace whose only attribute is message-id =
   the request's id and whose only child is one element — all profiles, all 19 operations. *)
Theorem C07_envelope : forall (p : profile) (mid : bytes) (c : opcall) (t : tree),
  build p mid c = Built t -> exists op, envelope mid t op.
Proof. exact c07_envelope. Qed.
Print Assumptions C07_envelope.

(* The operation element has the name and namespace of its schema, no attributes, no text, and
   its children are schema children in schema order, each at most once — for the 17 operations
   with a fixed schema, under a prefixed envelope, when caller documents are rooted in the base
   namespace (see C07_unqualified_root_refuted for what happens otherwise). *)
Theorem C07_conforms : forall (p : profile) (mid : bytes) (c : opcall) (t : tree),
  p_ns p = Prefixed -> roots_qualified c = true -> build p mid c = Built t ->
  exists op, envelope mid t op /\ conforms c op.
Proof. exact c07_conforms. Qed.
Print Assumptions C07_conforms.

(* An enumerated argument outside its set (default-operation, test-option, error-option;
   with-defaults mode outside the advertised modes) never yields a request. *)
Theorem C07_enum_reject : forall (p : profile) (mid : bytes) (c : opcall),
  enum_violation c = true -> exists e, build p mid c = Refused e.
Proof. exact c07_enum_reject. Qed.
Print Assumptions C07_enum_reject.

(* The two constructions through which every caller string enters a standard request carry it verbatim — as the
   single text node of its element, or as the local name of the datastore element — or refuse it locally
   (characters lxml rejects).  The per-operation statement is C07_carries below. *)
Theorem C07_carries_leaf : forall (q : qname) (s : bytes) (t : tree),
  leaf q s = POk t -> xml_chars_ok s = true /\ t = Elem q [] (match s with [] => [] | _ => [Text s] end)
                      /\ (s <> [] -> texts t = [s]).
Proof. exact c07_carries_leaf. Qed.
Print Assumptions C07_carries_leaf.

Theorem C07_carries_ds : forall (wha : bytes) (d : dsarg) (t : tree),
  ds_node wha d = POk t ->
  exists loc lx, d = DsStr loc lx /\
    (if contains loc s_css then texts t = (match loc with [] => [] | _ => [loc] end) /\ locals t = [wha; s_url]
     else lx = true /\ locals t = [wha; loc] /\ texts t = []).
Proof. exact c07_carries_ds. Qed.
Print Assumptions C07_carries_ds.

(* ---------------- non-vacuity and the open finding ---------------- *)
Definition P_default := {| p_ns := Prefixed; p_iosxe := false |}.
Definition P_alu := {| p_ns := DefaultNs; p_iosxe := false |}.
Definition ex_cfg (q : qname) : tree := Elem q [] [Elem (qn (lit "urn:x"%string) (lit "a"%string)) [] [Text (lit "1<2"%string)]].
Definition ex_edit (q : qname) : opcall :=
  OEditConfig (DsStr (lit "http://h/x"%string) true) (Some s_merge) (Some s_test_only) (Some s_rollback_on_error) (CfgXml (ex_cfg q)).

Example C07_ex_conforms :
  roots_qualified (ex_edit (b_ s_config)) = true /\
  match build P_default (lit "m1"%string) (ex_edit (b_ s_config)) with
  | Built (Elem _ _ [Elem q _ cs]) =>
      q = b_ s_edit_config /\ child_names cs = [b_ s_target; b_ s_default_operation; b_ s_test_option; b_ s_error_option; b_ s_config]
  | _ => False
  end.
Proof. vm_compute. repeat split; reflexivity. Qed.

(* the open finding C07-unqualified-caller-root, exhibited by the faithful model: a bare <config>
   root stays un-namespaced under a prefixed envelope and the request does not fit the schema;
   under a default-namespace envelope (R3) or on iosxe it is read in the base namespace *)
Example C07_unqualified_root_refuted :
  match build P_default (lit "m1"%string) (ex_edit (a_ s_config)) with
  | Built (Elem _ _ [Elem _ _ cs]) =>
      fits [[b_ s_target]; [b_ s_default_operation]; [b_ s_test_option]; [b_ s_error_option]; [b_ s_config; b_ s_url; b_ s_config_text]]
           (child_names cs) = false
  | _ => False
  end
  /\ build P_alu (lit "m1"%string) (ex_edit (a_ s_config)) = build P_alu (lit "m1"%string) (ex_edit (b_ s_config))
  /\ build {| p_ns := Prefixed; p_iosxe := true |} (lit "m1"%string) (ex_edit (a_ s_config))
     = build P_default (lit "m1"%string) (ex_edit (b_ s_config)).
Proof. vm_compute. repeat split; reflexivity. Qed.

Example C07_ex_enum_reject :
  build P_default (lit "m1"%string)
    (OEditConfig (DsStr (lit "running"%string) true) (Some (lit "Merge"%string)) None None CfgOther) = Refused OperationError
  /\ build P_default (lit "m1"%string) (OGet None (Some (lit "report"%string))) = Refused WithDefaultsError.
Proof. vm_compute. split; reflexivity. Qed.

Example C07_ex_chars_rejected :
  build P_default (lit "m1"%string) (OKillSession [52; 0]) = Refused ValueError.
Proof. vm_compute. reflexivity. Qed.

(* ------------------------------------------------------------------------------------------ *)
(* Vendor operation classes (ncclient/operations/third_party/*/rpc.py) as reached through a Manager made with
   the profile that ships them.  Model: Model/VendorBuilders.v (30 classes: juniper Command, GetConfiguration,
   LoadConfiguration, CompareConfiguration, ExecuteRpc, Reboot, Halt, Commit, Rollback; sros MdCliRawCommand,
   Commit; alu ShowCLI, GetConfiguration, LoadConfiguration; h3c GetBulk, GetBulkConfig, CLI, Action, Save, Load,
   Rollback; hpcomware DisplayCommand, ConfigCommand, Action, Save, Rollback; huawei CLI, Action; iosxe SaveConfig;
   nexus ExecCommand).  Spec: Spec/VendorSchema.v.  The tree is the one an independent reader sees (rules R1-R3). *)
From Coq Require Import ZArith.
From NC Require Import Model.VendorBuilders Spec.VendorSchema Proofs.VendorBuildersProofs.

(* Every built vendor request is one <rpc> in the base namespace whose only attribute is message-id = the
   request's id and whose only child is one element — all 30 classes, all argument records, both envelope styles. *)
Theorem C07_vendor_envelope : forall (mid : bytes) (c : vcall) (t : tree),
  vbuild mid c = VBuilt t -> exists op, envelope mid t op.
Proof. exact c07_vendor_envelope. Qed.
Print Assumptions C07_vendor_envelope.

Theorem C07_vendor_envelope_any_profile : forall (m : nsmode) (mid : bytes) (c : vcall) (t : tree),
  vbuild_under m mid c = VBuilt t -> exists op, envelope mid t op.
Proof. exact c07_vendor_envelope_under. Qed.
Print Assumptions C07_vendor_envelope_any_profile.

(* The operation element is an instance of the vendor's schema as shipped: name and namespace (as read under the
   shipping profile's envelope), exactly the schema's attribute list, text only where the schema has text, children
   — recursively — among the schema's, in schema order, each position at most once unless repeatable.  Caller
   documents are parser output (vcallers_ok: elements; a raw filter rooted at a bare/base <filter>). *)
Theorem C07_vendor_conforms : forall (mid : bytes) (c : vcall) (t : tree),
  vcallers_ok c = true -> vbuild mid c = VBuilt t -> exists op, envelope mid t op /\ vconforms c op.
Proof. exact c07_vendor_conforms. Qed.
Print Assumptions C07_vendor_conforms.

(* Caller strings — CLI/command text, config text, file names, identifiers, format/action/rollback attributes, list
   items — are, verbatim, the text (or attribute value, or element name for a datastore) at the path the schema
   gives them; an omitted optional argument leaves no element.  Junos confirm-timeout is the documented conversion
   (seconds to minutes, rounded up). *)
Theorem C07_vendor_carries_text : forall (mid : bytes) (c : vcall) (t op : tree),
  vcallers_ok c = true -> vbuild mid c = VBuilt t -> envelope mid t op -> Forall (holds op) (carried_strings c).
Proof. exact c07_vendor_carries_strings. Qed.
Print Assumptions C07_vendor_carries_text.

(* Caller XML fragments are the element children of the element the schema puts them under, in order, nothing
   else beside them, as a reader sees the caller's own document where the default namespace in scope is d
   (none for junos; base for alu/h3c/hpcomware; the huawei private namespace under execute-cli/execute-action) … *)
Theorem C07_vendor_carries_fragment : forall (mid : bytes) (c : vcall) (t op : tree),
  vcallers_ok c = true -> vbuild mid c = VBuilt t -> envelope mid t op ->
  Forall (fholds (vmode (vcall_prof c)) op) (carried_fragments c).
Proof. exact c07_vendor_carries_fragments. Qed.
Print Assumptions C07_vendor_carries_fragment.

(* … which is the caller's document itself under the junos (prefixed) envelope, and under every envelope when all
   its elements are in namespaces of their own (parser output never has an attribute literally named xmlns). *)
Theorem C07_vendor_fragment_verbatim : forall (t : tree),
  no_xmlns t = true ->
  resolve Prefixed [] t = t /\ (forall m d, qualified t = true -> resolve m d t = t).
Proof. intros t N. split; [now apply resolve_prefixed_id|intros m d Q; now apply resolve_qualified_id]. Qed.
Print Assumptions C07_vendor_fragment_verbatim.

(* junos load_configuration: a format outside {xml, text, json} (after action='set' forced 'text') never yields a
   request (fix 4913cf2).  No other vendor class validates an enumerated argument (see the open findings). *)
Theorem C07_vendor_enum_reject : forall (mid : bytes) (c : vcall),
  venum_violation c = true -> vbuild mid c = VRefused OperationError.
Proof. exact c07_vendor_enum_reject. Qed.
Print Assumptions C07_vendor_enum_reject.

(* mutually exclusive arguments (junos commit confirmed + at_time; sros commit persist + persist_id) never yield a request *)
Theorem C07_vendor_excl_reject : forall (mid : bytes) (c : vcall),
  vexcl_violation c = true -> exists e, vbuild mid c = VRefused e.
Proof. exact c07_vendor_excl_reject. Qed.
Print Assumptions C07_vendor_excl_reject.

(* xml_.yang_action builds {base}action with an ATTRIBUTE xmlns=urn:ietf:params:xml:ns:yang:1 (rule R2): under the
   sros profile — the only one that ships a class using it; default-namespace envelope — a reader sees RFC 7950's
   {urn:ietf:params:xml:ns:yang:1}action; under a prefixed envelope the same element would be read as {base}action. *)
Theorem C07_vendor_yang_action : forall (mid : bytes) (command : option bytes) (t : tree),
  (vbuild_under DefaultNs mid (VSMdCliRawCommand command) = VBuilt t ->
     exists a cs, t = Elem (b_ s_rpc) [(a_ s_message_id, mid)] [Elem (qn NS_YANG s_action) a cs])
  /\ (vbuild_under Prefixed mid (VSMdCliRawCommand command) = VBuilt t ->
     exists a cs, t = Elem (b_ s_rpc) [(a_ s_message_id, mid)] [Elem (b_ s_action) a cs]).
Proof. exact c07_vendor_yang_action. Qed.
Print Assumptions C07_vendor_yang_action.

(* ---------------- non-vacuity ---------------- *)
Definition vx_mid := Eval compute in lit "m1"%string.
Definition vx_frag : tree :=
  Elem (a_ (lit "system"%string)) [] [Elem (qn (lit "urn:x"%string) (lit "host-name"%string)) [(a_ (lit "k"%string), lit "a""b"%string)] [Text (lit "r1<&>"%string)]].
Definition vx_op (r : vres) : option tree := match r with VBuilt (Elem _ _ [op]) => Some op | _ => None end.

Example C07_ex_vendor_envelope_conforms :
  (* one call per vendor, with markup characters, list arguments, text and xml config *)
  forallb (fun c => match vbuild vx_mid c with
                    | VBuilt (Elem q [(k, v)] [Elem oq oa ocs]) =>
                        qname_eqb q (b_ s_rpc) && qname_eqb k (a_ s_message_id) && beq v vx_mid
                        && matches (Elem oq oa ocs) (vschema c) && vcallers_ok c
                    | _ => false
                    end)
    [VJCommand (Some (lit "show <x> & ]]>"%string)) s_text;
     VJLoadConfiguration s_xml s_merge (JOne (EElem vx_frag));
     VJLoadConfiguration s_xml s_set (JList [lit "set a"%string; lit "set b"%string]);
     VJCommit true (TInt 125) (Some (lit "why"%string)) true None true;
     VSMdCliRawCommand (Some (lit "show version"%string));
     VSCommit true (Some (lit "50"%string)) None None (Some (lit " a comment "%string)) true;
     VAGetConfiguration s_cli (Some (AFItems [lit "port 1/1/11"%string; lit "system"%string])) true;
     VALoadConfiguration s_cli (Some s_merge) (DsStr (lit "candidate"%string) true) (Some (EStr (lit "configure <x>"%string)));
     VHGetBulkConfig (DsStr (lit "http://h/x"%string) true) (Some (FList [vx_frag; vx_frag]));
     VPDisplayCommand (CmList [lit "display version"%string; lit "display vlan"%string]);
     VWCli (DocTree vx_frag); VXSaveConfig; VNExecCommand [lit "show version"%string; lit "a<b"%string]] = true.
Proof. vm_compute. reflexivity. Qed.

Example C07_ex_vendor_carries :
  (* junos: the set-format config is the '\n'-joined list, verbatim, in configuration-set; action and the forced format are attributes *)
  (match vx_op (vbuild vx_mid (VJLoadConfiguration s_xml s_set (JList [lit "set a<"%string; lit "set b"%string]))) with
   | Some op => map text_of (at_path [b_ s_configuration_set] op) = [lit "set a<"%string ++ [10] ++ lit "set b"%string]
                /\ attr_of s_format op = Some s_text /\ attr_of s_action op = Some s_set
   | None => False end)
  (* junos commit: 125 s -> 3 minutes; -61 s -> -1 *)
  /\ (match vx_op (vbuild vx_mid (VJCommit true (TInt 125) None false None false)) with
      | Some op => map text_of (at_path [a_ s_confirm_timeout] op) = [lit "3"%string] | None => False end)
  /\ z_to_dec (ceil_minutes (-61)) = lit "-1"%string
  (* sros: the command is the text of {oper-global}md-cli-input-line below {yang:1}action/{oper-global}global-operations *)
  /\ (match vx_op (vbuild vx_mid (VSMdCliRawCommand (Some (lit "show <x>"%string)))) with
      | Some op => map text_of (at_path [o_ s_global_operations; o_ s_md_cli_raw_command; o_ s_md_cli_input_line] op) = [lit "show <x>"%string]
                   /\ name_of op = qn NS_YANG s_action
      | None => False end)
  (* huawei: the caller's un-namespaced <system> is read in the huawei private namespace (R2 + R3), its urn:x child and text unchanged *)
  /\ (match vx_op (vbuild vx_mid (VWCli (DocTree vx_frag))) with
      | Some op => kids_of op = [resolve DefaultNs NS_HW vx_frag]
                   /\ map name_of (kids_of op) = [h_ (lit "system"%string)]
      | None => False end)
  (* junos: the same fragment under <configuration> is the caller's document itself *)
  /\ (match vx_op (vbuild vx_mid (VJLoadConfiguration s_xml s_merge (JOne (EElem vx_frag)))) with
      | Some op => map kids_of (at_path [b_ s_configuration] op) = [[vx_frag]] | None => False end)
  /\ no_xmlns vx_frag = true.
Proof. vm_compute. repeat split; reflexivity. Qed.

Example C07_ex_vendor_reject :
  venum_violation (VJLoadConfiguration (lit "set"%string) s_merge (JOne (EStr (lit "set x"%string)))) = true
  /\ vbuild vx_mid (VJLoadConfiguration (lit "set"%string) s_merge (JOne (EStr (lit "set x"%string)))) = VRefused OperationError
  /\ vexcl_violation (VJCommit true TNone None false (Some (lit "12:00"%string)) false) = true
  /\ vbuild vx_mid (VJCommit true TNone None false (Some (lit "12:00"%string)) false) = VRefused NCClientError
  /\ vbuild vx_mid (VSCommit false None (Some (lit "a"%string)) (Some (lit "b"%string)) None false) = VRefused OperationError
  /\ vbuild vx_mid (VJLoadConfiguration s_xml s_merge (JOne (EStr (lit "<system/>"%string)))) = VRefused TypeError
  /\ vbuild vx_mid (VJCommand (Some [120; 0]) s_xml) = VRefused ValueError.
Proof. vm_compute. repeat split; reflexivity. Qed.

(* the faithful model exhibits the two open vendor findings:
   C07-vendor-config-omitted — junos load_configuration() without config: no request, no error; alu: <edit-config> without
   <target> and <config>;  C07-alu-unknown-selector — content/format outside {xml, cli}: the filter / the config is dropped *)
Example C07_vendor_omitted_refuted :
  vbuild vx_mid (VJLoadConfiguration s_text (lit "override"%string) JNone) = VNothing
  /\ (match vx_op (vbuild vx_mid (VALoadConfiguration s_xml None (DsStr s_running true) None)) with
      | Some (Elem q [] []) => q = b_ s_edit_config | _ => False end)
  /\ (match vx_op (vbuild vx_mid (VAGetConfiguration (lit "json"%string) (Some (AFItems [lit "system"%string])) false)) with
      | Some op => map name_of (kids_of op) = [b_ s_source] | None => False end)
  /\ (match vx_op (vbuild vx_mid (VALoadConfiguration (lit "text"%string) None (DsStr s_running true) (Some (EStr (lit "x"%string))))) with
      | Some op => kids_of op = [Elem (b_ s_config) [] []] | None => False end).
Proof. vm_compute. repeat split; reflexivity. Qed.

Example C07_ex_vendor_yang_action :
  (match vx_op (vbuild_under DefaultNs vx_mid (VSMdCliRawCommand None)) with Some op => name_of op = qn NS_YANG s_action | None => False end)
  /\ (match vx_op (vbuild_under Prefixed vx_mid (VSMdCliRawCommand None)) with Some op => name_of op = b_ s_action | None => False end).
Proof. vm_compute. split; reflexivity. Qed.

(* ================= namespace bindings in scope at the caller's elements (Model/NsScope.v) ================= *)
From NC Require Import Model.NsScope.
From NC Require Import Proofs.NsScopeProofs.

(* Caller data may use a namespace prefix only inside content (the select string of an XPath filter given with a prefix map, an
   identityref / instance-identifier value).  For EVERY scope [s] the envelope and the builder's elements put around the caller's
   document, every document [t], every element of it (path [p]) and every binding in scope there: the binding is in scope at the
   same element of the request - provided no declaration of the document repeats a namespace URI already bound where the
   declaring element's parent stands ([fresh]; without it see C07_ns_redundant_decl_refuted). *)
Theorem C07_ns_bindings_carried : forall (s : scope) (t : dtree) (p : list nat) (sc : scope),
  fresh s t = true -> scope_at [] t p = Some sc ->
  exists sc', scope_at s (place s t) p = Some sc' /\ forall pf u, lookup pf sc = Some u -> lookup pf sc' = Some u.
Proof. exact c07_ns_bindings_carried. Qed.
Print Assumptions C07_ns_bindings_carried.

(* filter=("xpath", (nsmap, select)): every entry of the caller's prefix map is in scope at <filter> *)
Theorem C07_ns_xpath_nsmap_carried : forall (s : scope) (nsmap : list binding),
  forallb (fun b => negb (uri_visible (snd b) s)) nsmap = true ->
  exists sc', scope_at s (place s (xpath_filter nsmap)) [] = Some sc'
              /\ forall pf u, lookup pf nsmap = Some u -> lookup pf sc' = Some u.
Proof. exact c07_ns_xpath_nsmap_carried. Qed.
Print Assumptions C07_ns_xpath_nsmap_carried.

(* No proviso: a declaration of the moved document's root is dropped if and only if its namespace URI is already bound, under
   some prefix, at the new parent - the exact predicate of the open finding C07-redundant-ns-declaration-dropped. *)
Theorem C07_ns_dropped_iff_redundant : forall (s : scope) (d : list binding) (kids : list dtree) (b : binding),
  In b d ->
  (In b (match place s (DNode d kids) with DNode d' _ => d' end) <-> uri_visible (snd b) s = false).
Proof. exact c07_ns_dropped_iff_redundant. Qed.
Print Assumptions C07_ns_dropped_iff_redundant.

(* ... and nothing else happens to declarations: element by element, what is on the wire is a sub-list of what the caller wrote *)
Theorem C07_ns_place_only_removes : forall (s : scope) (t : dtree),
  Forall2 (fun a b => incl a b) (decls_preorder (place s t)) (decls_preorder t).
Proof. intros s t. apply place_decls_subset. Qed.
Print Assumptions C07_ns_place_only_removes.

Definition nx_B := Eval compute in lit "urn:ietf:params:xml:ns:netconf:base:1.0"%string.
Definition nx_if := Eval compute in lit "urn:ietf:params:xml:ns:yang:ietf-interfaces"%string.
Definition nx_iana := Eval compute in lit "urn:ietf:params:xml:ns:yang:iana-if-type"%string.
Definition nx_ianaift := Eval compute in lit "ianaift"%string.
Definition nx_nc := Eval compute in lit "nc"%string.
(* <config xmlns=B><interfaces xmlns=IF><interface><type xmlns:ianaift=IANA>ianaift:ethernetCsmacd</type></interface></interfaces></config> *)
Definition nx_doc : dtree :=
  DNode [([], nx_B)] [DNode [([], nx_if)] [DNode [] [DNode [(nx_ianaift, nx_iana)] []]]].
(* the nexus envelope: default namespace = base, and a prefix "if" of its own *)
Definition nx_env : scope := [(lit "if"%string, lit "http://www.cisco.com/nxos:1.0:if_manager"%string); ([], nx_B)].

(* non-vacuity: the identityref document is fresh under a prefixed envelope; its ianaift binding is in scope at <type> on the wire *)
Example C07_ex_ns_bindings :
  fresh [(nx_nc, nx_B)] (DNode [] [DNode [([], nx_if)] [DNode [] [DNode [(nx_ianaift, nx_iana)] []]]]) = true
  /\ option_map (lookup nx_ianaift) (scope_at [] nx_doc [0%nat; 0%nat; 0%nat]) = Some (Some nx_iana)
  /\ option_map (lookup nx_ianaift) (scope_at nx_env (place nx_env nx_doc) [0%nat; 0%nat; 0%nat]) = Some (Some nx_iana)
  /\ decls_preorder (place nx_env nx_doc) = [[]; [([], nx_if)]; []; [(nx_ianaift, nx_iana)]].
Proof. vm_compute. repeat split; reflexivity. Qed.

(* the faithful model exhibits the open finding C07-redundant-ns-declaration-dropped: an instance-identifier whose prefix is
   declared for the namespace the surrounding elements already use as their default namespace
   <interfaces xmlns=IF><ref xmlns:if=IF>/if:interfaces</ref></interfaces>  ->  "if" is not bound at <ref> any more under a
   prefixed envelope, and under the nexus envelope it silently means the profile's own if_manager namespace *)
Example C07_ns_redundant_decl_refuted :
  let doc := DNode [([], nx_if)] [DNode [(lit "if"%string, nx_if)] []] in
  option_map (lookup (lit "if"%string)) (scope_at [] doc [0%nat]) = Some (Some nx_if)
  /\ option_map (lookup (lit "if"%string)) (scope_at [(nx_nc, nx_B)] (place [(nx_nc, nx_B)] doc) [0%nat]) = Some None
  /\ option_map (lookup (lit "if"%string)) (scope_at nx_env (place nx_env doc) [0%nat])
     = Some (Some (lit "http://www.cisco.com/nxos:1.0:if_manager"%string)).
Proof. vm_compute. repeat split; reflexivity. Qed.

(* ------------------------------------------------------------------------------------------ *)
(* CARRIES — every operation, every argument record: the request carries each caller value exactly once, at its
   documented position, unaltered, and nothing else in the request depends on it.
   Spec/Template.v: request templates with numbered holes and their instantiation [fill] (parametric in the values);
   Spec/CarriesBase.v / Spec/CarriesVendor.v: the tables — per operation the caller's values in document order
   ([values]), the call with all caller data forgotten ([erase]: what is left is the operation, which optional
   arguments are present and the class of a value that decides the shape), and the template of the erased call. *)
From Coq Require Import List.
From NC Require Import Spec.Template Spec.CarriesBase Spec.CarriesVendor.
From NC Require Import Proofs.TemplateProofs Proofs.CarriesProofs Proofs.CarriesVendorProofs.

(* the 19 standard operations, all profiles: the operation element is the template of the erased call with the
   caller's values in its holes, and the holes are 0 … n-1 in document order — each value fills exactly one hole, each
   hole takes exactly one value; all the rest of the request is the fixed text of a template chosen without looking
   at any caller string or fragment.  ([wrap]: the envelope; under a default-namespace envelope the reader's rule R3.) *)
Theorem C07_carries : forall (p : profile) (mid : bytes) (c : opcall) (t : tree),
  build p mid c = Built t ->
  exists op, t = wrap p mid op
             /\ fill (values c) (template p (erase c)) = [op]
             /\ holes (template p (erase c)) = seq 0 (length (values c)).
Proof. exact c07_carries. Qed.
Print Assumptions C07_carries.

(* the 30 vendor classes, as built in memory; [vwrap] is the envelope as an independent reader sees it (R1-R3,
   C07_vendor_fragment_verbatim) *)
Theorem C07_vendor_carries : forall (mid : bytes) (c : vcall) (t : tree),
  vbuild mid c = VBuilt t ->
  exists op, t = vwrap (vmode (vcall_prof c)) mid op
             /\ fill (vvalues c) (vtemplate (verase c)) = [op]
             /\ holes (vtemplate (verase c)) = seq 0 (length (vvalues c)).
Proof. exact c07_vendor_carries. Qed.
Print Assumptions C07_vendor_carries.

(* an instance depends on the values only through the holes of the template: two value lists that agree on the
   holes of t give the same trees — in particular a part of a request whose template does not contain hole i is
   the same whatever argument i is *)
Theorem C07_fill_only_holes : forall (t : tpl) (vs vs' : list value),
  (forall i, In i (holes t) -> nth_error vs i = nth_error vs' i) -> fill vs t = fill vs' t.
Proof. exact fill_only_holes. Qed.
Print Assumptions C07_fill_only_holes.

Theorem C07_fill_independent : forall (t : tpl) (i : nat) (vs vs' : list value),
  ~ In i (holes t) -> (forall j, j <> i -> nth_error vs j = nth_error vs' j) -> fill vs t = fill vs' t.
Proof.
  intros t i vs vs' Hn Hj. apply fill_only_holes. intros j Hin. apply Hj. intros ->. now apply Hn.
Qed.
Print Assumptions C07_fill_independent.

(* two calls that differ only in caller data (same erasure) are instances of ONE template *)
Theorem C07_carries_same_template : forall (p : profile) (mid : bytes) (c c' : opcall) (t t' : tree),
  erase c = erase c' -> build p mid c = Built t -> build p mid c' = Built t' ->
  exists T op op', t = wrap p mid op /\ t' = wrap p mid op'
    /\ fill (values c) T = [op] /\ fill (values c') T = [op']
    /\ holes T = seq 0 (length (values c)) /\ length (values c') = length (values c).
Proof. exact c07_carries_same_template. Qed.
Print Assumptions C07_carries_same_template.

Theorem C07_vendor_carries_same_template : forall (mid : bytes) (c c' : vcall) (t t' : tree),
  verase c = verase c' -> vbuild mid c = VBuilt t -> vbuild mid c' = VBuilt t' ->
  exists T op op', t = vwrap (vmode (vcall_prof c)) mid op /\ t' = vwrap (vmode (vcall_prof c')) mid op'
    /\ fill (vvalues c) T = [op] /\ fill (vvalues c') T = [op']
    /\ holes T = seq 0 (length (vvalues c)) /\ length (vvalues c') = length (vvalues c).
Proof. exact c07_vendor_carries_same_template. Qed.
Print Assumptions C07_vendor_carries_same_template.

(* the reader's rule R3 under a default-namespace envelope renames un-namespaced elements only: every text, attribute
   value and local name of the request survives it *)
Theorem C07_adopt_preserves : forall t : tree, texts (adopt t) = texts t /\ locals (adopt t) = locals t.
Proof. exact adopt_texts_locals. Qed.
Print Assumptions C07_adopt_preserves.

(* ---------------- non-vacuity: the tables on concrete calls ---------------- *)
Definition q_ (ns l : string) : qname := qn (lit ns) (lit l).
Definition B_ (l : string) : qname := b_ (lit l).

Example C07_ex_carries_edit_config :
  let c := ex_edit (b_ s_config) in
  erase c = OEditConfig (DsStr s_css true) (Some []) (Some []) (Some []) (CfgXml (Text []))
  /\ values c = [VStr (lit "http://h/x"%string); VStr s_merge; VStr s_test_only; VStr s_rollback_on_error; VTree (ex_cfg (b_ s_config))]
  (* the documented positions: target/url text, the three option leaves, the caller's <config> element as a child *)
  /\ hole_paths [] (template P_default (erase c))
     = [(0%nat, [B_ "edit-config"; B_ "target"; B_ "url"]); (1%nat, [B_ "edit-config"; B_ "default-operation"]);
        (2%nat, [B_ "edit-config"; B_ "test-option"]); (3%nat, [B_ "edit-config"; B_ "error-option"]); (4%nat, [B_ "edit-config"])]
  /\ match fill (values c) (template P_default (erase c)) with
     | [op] => build P_default (lit "m1"%string) c = Built (wrap P_default (lit "m1"%string) op)
     | _ => False
     end.
Proof. vm_compute. repeat split; reflexivity. Qed.

(* a datastore NAME is the name of an element; an XPath expression an attribute value; dispatch: the caller's own element
   with the builder's children appended after the caller's *)
Example C07_ex_carries_positions :
  hole_paths [] (template P_default (erase (OGetConfig (DsStr (lit "running"%string) true) (Some (FXpath (lit "/a[b='<']"%string))) (Some s_m_trim))))
    = [(0%nat, [B_ "get-config"; B_ "source"; name_step]); (1%nat, [B_ "get-config"; B_ "filter"; at_ (lit "select"%string)]);
       (2%nat, [B_ "get-config"; qn NS_WD s_with_defaults])]
  /\ (let c := ODispatch (CmdTree (Elem (q_ "urn:x" "do") [] [Elem (q_ "urn:x" "arg") [] [Text (lit "1"%string)]]))
                         (Some (DsStr (lit "running"%string) true)) (Some (FSubtree (Elem (q_ "urn:y" "top") [] []))) in
      hole_paths [] (template P_default (erase c)) = [(0%nat, []); (1%nat, [name_step; B_ "source"; name_step]); (2%nat, [name_step; B_ "filter"])]
      /\ fill (values c) (template P_default (erase c))
         = [Elem (q_ "urn:x" "do") []
              [Elem (q_ "urn:x" "arg") [] [Text (lit "1"%string)];
               Elem (B_ "source") [] [Elem (B_ "running") [] []];
               Elem (B_ "filter") [(a_ s_type, s_subtree)] [Elem (q_ "urn:y" "top") [] []]]]
      /\ build P_default (lit "m1"%string) c
         = Built (wrap P_default (lit "m1"%string) (hd (Text []) (fill (values c) (template P_default (erase c)))))).
Proof. vm_compute. repeat split; reflexivity. Qed.

(* two calls that differ in every caller string and fragment have the same erasure, hence the same template *)
Example C07_ex_carries_same_template :
  erase (ex_edit (b_ s_config))
  = erase (OEditConfig (DsStr (lit "ftp://other/<&>"%string) true) (Some s_none) (Some s_set) (Some s_stop_on_error)
                       (CfgXml (Elem (b_ s_config) [] [])))
  /\ erase (ex_edit (b_ s_config)) <> erase (OEditConfig (DsStr (lit "candidate"%string) true) (Some s_none) (Some s_set) (Some s_stop_on_error)
                                                         (CfgXml (Elem (b_ s_config) [] []))).
Proof. split; [vm_compute; reflexivity|vm_compute; discriminate]. Qed.

Example C07_ex_vendor_carries_template :
  (* junos load_configuration(action='set', config=[…]): the list joined with LF is the text of configuration-set; the action an attribute *)
  (let c := VJLoadConfiguration s_xml s_set (JList [lit "set a<"%string; lit "set b"%string]) in
   vvalues c = [VStr s_set; VStr (lit "set a<"%string ++ [10%N] ++ lit "set b"%string)]
   /\ hole_paths [] (vtemplate (verase c))
      = [(0%nat, [B_ "load-configuration"; at_ (lit "action"%string)]); (1%nat, [B_ "load-configuration"; B_ "configuration-set"])]
   /\ match fill (vvalues c) (vtemplate (verase c)) with
      | [op] => vbuild vx_mid c = VBuilt (vwrap Prefixed vx_mid op) | _ => False end)
  (* alu load_configuration(format='cli', target='candidate'): target name, default-operation, the CLI block *)
  /\ (let c := VALoadConfiguration s_cli (Some s_merge) (DsStr (lit "candidate"%string) true) (Some (EStr (lit "configure <x>"%string))) in
      hole_paths [] (vtemplate (verase c))
      = [(0%nat, [B_ "edit-config"; B_ "target"; name_step]); (1%nat, [B_ "edit-config"; B_ "default-operation"]);
         (2%nat, [B_ "edit-config"; B_ "config"; B_ "config-format-cli-block"])]
      /\ match fill (vvalues c) (vtemplate (verase c)) with
         | [op] => vbuild vx_mid c = VBuilt (vwrap DefaultNs vx_mid op) | _ => False end)
  (* nexus exec_command: one <cmd> per string, in order;  junos commit: 125 s are carried as 3 (minutes) *)
  /\ fill (vvalues (VNExecCommand [lit "show version"%string; lit "a<b"%string])) (vtemplate (verase (VNExecCommand [lit "x"%string])))
     = [Elem (qn NS_NXOS s_exec_command) [] [Elem (qn NS_NXOS s_cmd) [] [Text (lit "show version"%string)]; Elem (qn NS_NXOS s_cmd) [] [Text (lit "a<b"%string)]]]
  /\ vvalues (VJCommit true (TInt 125) (Some (lit "why"%string)) true None true) = [VStr (lit "3"%string); VStr (lit "why"%string)].
Proof. vm_compute. repeat split; reflexivity. Qed.

(* ---------------- the device profiles' hook on the finished request (transform_edit_config) ----------------
   Model/Builders.v models the hook as the code has it: a function on the whole <edit-config> element, called after the
   builder finished it (iosxe: the DIRECT children named config in no namespace; if there is exactly one, it moves to the base
   namespace; the 13 other profiles: identity). *)

(* The hook, on ANY tree: the element's name and attributes, the number and order of its children are kept; each child is either
   untouched or an un-namespaced <config> turned into {base}config with the same attributes and the same content - so nothing
   below a direct child is ever altered, whatever it is named (config, filter, source, rpc ... qualified or not); with no such
   child or with several nothing changes; without the iosxe flag nothing changes. *)
Theorem C07_hook_frame : forall p q a cs,
  exists cs', transform_edit_config p (Elem q a cs) = Elem q a cs' /\ Forall2 hook_child cs cs'
    /\ (length (filter is_bare_config cs) <> 1%nat -> cs' = cs)
    /\ (p_iosxe p = false -> cs' = cs).
Proof. exact c07_hook_frame. Qed.
Print Assumptions C07_hook_frame.

(* The hook on the requests edit_config builds, ALL argument records: the request is the one the same call gives under the
   profile without the hook, except that the element the caller handed in as config (at most one node, the last child) went
   through [iosxe_patch] - its root name only.  (C07_carries states the same through the template: hole TFrag XIosxe.) *)
Theorem C07_hook_root_only : forall p tgt dop top eop cfg op,
  op_node p (OEditConfig tgt dop top eop cfg) = POk op ->
  exists pre c, cfg_nodes cfg = POk c /\ (length c <= 1)%nat
    /\ op_node {| p_ns := p_ns p; p_iosxe := false |} (OEditConfig tgt dop top eop cfg) = POk (Elem (b_ s_edit_config) [] (pre ++ c))
    /\ op = Elem (b_ s_edit_config) [] (pre ++ map (iosxe_patch p) c).
Proof. exact c07_hook_root_only. Qed.
Print Assumptions C07_hook_root_only.

Definition P_iosxe := {| p_ns := Prefixed; p_iosxe := true |}.
(* caller data full of elements named like envelope elements: config / filter / source / rpc, un-namespaced, in the base
   namespace and in a foreign one, nested three deep, with an attribute and text *)
Definition ex_envnames (root : qname) : tree :=
  Elem root [(a_ s_type, lit "x"%string)]
    [Elem (a_ s_config) []
       [Elem (b_ s_config) [] [Elem (q_ "urn:x" "config") [] [Text (lit "1<2"%string)]]; Elem (a_ s_config) [] []; Elem (a_ s_rpc) [] []];
     Elem (a_ s_filter) [] [Elem (a_ s_source) [] [Elem (a_ s_config) [(a_ s_select, lit "/config"%string)] []]];
     Elem (a_ s_config) [] [Text (lit "flash:x"%string)]].
Definition ex_edit_cfg (t : tree) : opcall := OEditConfig (DsStr (lit "running"%string) true) None None None (CfgXml t).

Example C07_ex_hook :
  (* through a call: the un-namespaced root is patched, every nested element stays what the caller wrote *)
  build P_iosxe (lit "m1"%string) (ex_edit_cfg (ex_envnames (a_ s_config)))
    = build P_default (lit "m1"%string) (ex_edit_cfg (ex_envnames (b_ s_config)))
  /\ build P_iosxe (lit "m1"%string) (ex_edit_cfg (ex_envnames (a_ s_config)))
      <> build P_default (lit "m1"%string) (ex_edit_cfg (ex_envnames (a_ s_config)))
  (* a root the caller qualified: the hook does nothing, the nested un-namespaced <config> elements stay un-namespaced *)
  /\ build P_iosxe (lit "m1"%string) (ex_edit_cfg (ex_envnames (b_ s_config)))
      = build P_default (lit "m1"%string) (ex_edit_cfg (ex_envnames (b_ s_config)))
  (* the hook itself: two un-namespaced <config> children - nothing changes; exactly one among other children - that one only *)
  /\ (let n := Elem (b_ s_edit_config) [] [ex_envnames (a_ s_config); ex_envnames (a_ s_config)] in iosxe_transform n = n)
  /\ iosxe_transform (Elem (b_ s_edit_config) [] [ex_envnames (b_ s_config); Text (lit "t"%string); ex_envnames (a_ s_config); ex_envnames (a_ s_filter)])
      = Elem (b_ s_edit_config) [] [ex_envnames (b_ s_config); Text (lit "t"%string); ex_envnames (b_ s_config); ex_envnames (a_ s_filter)]
  /\ (let n := Elem (a_ s_config) [] [Elem (a_ s_filter) [] [ex_envnames (a_ s_config)]] in iosxe_transform n = n).
Proof. vm_compute. repeat split; try reflexivity. discriminate. Qed.

From NC Require Import Model.Caps Model.CallHistory.
From NC Require Import Spec.CapsSpec Spec.GatingSpec Proofs.GatingProofs Proofs.CallHistoryProofs.

(* ---------------- histories of calls on ONE session (Model/CallHistory.v) ----------------
   The request of a call is a function of the operation, its arguments and what the server advertised - not of the calls
   made before on the same session: the i-th call of any history does what the same call does as the first call on a fresh
   session of that server, and the session's parsed server capabilities at the end are those the <hello> gave. *)
Theorem C07_history_independent : forall (s : sess) (cs : list call),
  snd (history s cs) = s
  /\ forall i c, nth_error cs i = Some c -> nth_error (fst (history s cs)) i = Some (perform s c).
Proof. exact c07_history_independent. Qed.
Print Assumptions C07_history_independent.

(* ... in particular the enumerated set of with-defaults modes stays basic-mode + also-supported of THIS server after any
   calls (valid or refused): such a call is sent, exactly once, whatever came before it *)
Theorem C07_history_accepts : forall (uris : list bytes) (before : list call) (c : call),
  wellformed c = true -> (forall k, In k (needs c) -> advertised uris k) ->
  (forall norm, wd_of c = Some norm -> wd_accepts uris norm /\ xml_chars_ok norm = true) ->
  exists tr, nth_error (fst (history (SCaps (caps_of uris)) (before ++ [c]))) (length before) = Some (tr, Sent)
             /\ count_send tr = 1%nat.
Proof. exact c07_history_accepts. Qed.
Print Assumptions C07_history_accepts.

Definition hist_uris : list bytes :=
  [ lit "urn:ietf:params:netconf:base:1.1"%string;
    lit "urn:ietf:params:netconf:capability:with-defaults:1.0?basic-mode=explicit&also-supported=report-all,trim"%string ].
Definition hist_get (m : string) : call := CGet None (Some (lit m)).
Definition hist_get_config (m : string) : call := CGetConfig (DsStr (lit "running"%string) true) None (Some (lit m)).
(* also-supported modes after a basic-mode call, after each other, after a refused call; the refused mode stays refused;
   the hypotheses of C07_history_accepts hold for the last call *)
Example C07_ex_history :
  map snd (fst (history (SCaps (caps_of hist_uris))
     [hist_get "explicit"; hist_get_config "report-all"; hist_get "trim"; hist_get "report-all-tagged"; hist_get_config "trim"; hist_get "report-all"]))
  = [Sent; Sent; Sent; Exn WithDefaultsError; Sent; Sent]
  /\ snd (history (SCaps (caps_of hist_uris)) [hist_get "explicit"; hist_get "trim"]) = SCaps (caps_of hist_uris)
  /\ wellformed (hist_get "report-all") = true /\ (forall k, In k (needs (hist_get "report-all")) -> advertised hist_uris k)
  /\ wd_accepts hist_uris (lit "report-all"%string).
Proof.
  split; [vm_compute; reflexivity|]. split; [reflexivity|]. split; [reflexivity|]. split.
  - intros k Hk. apply present_iff. vm_compute in Hk. destruct Hk as [<-|[]]; vm_compute; reflexivity.
  - apply wd_accepts_iff. vm_compute. eexists; eexists. split; [reflexivity|]. split; reflexivity.
Qed.
