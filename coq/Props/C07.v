(* Props/C07.v — property C07: requests are well-formed and carry caller data faithfully.
   Models: Model/Escape.v (libxml2 escaping), Model/Builders.v (19 standard operations),
   Model/Xml.v.  Spec: Spec/Rfc6241Schema.v (DESIGN Appendix F). *)
From Coq Require Import String.
From NC Require Import Model.Base Model.Lit Model.Xml Model.Escape Model.Gating Model.Builders.
From NC Require Import Proofs.EscapeProofs.

(* Escaping is invertible: what the reader un-escapes is the caller's string — ALL octet strings. *)
Theorem C07_escape_roundtrip : forall s : bytes,
  unescape (escape_text s) = s /\ unescape (escape_attr s) = s.
Proof. intros s. split; [apply c07_escape_roundtrip_text|apply c07_escape_roundtrip_attr]. Qed.
Print Assumptions C07_escape_roundtrip.

(* Escaped output cannot start markup: no '<' occurs, every '&' starts one of the produced
   references (&lt; &gt; &amp; &quot; &#13; &#10; &#9;), and an attribute value contains no
   double quote. *)
Theorem C07_no_injection : forall s : bytes,
  wf_escaped (escape_text s) = true /\ wf_escaped (escape_attr s) = true /\ no_quote (escape_attr s) = true.
Proof.
  intros s. split; [apply c07_no_injection_text|apply c07_no_injection_attr].
Qed.
Print Assumptions C07_no_injection.

(* … in words: at every position of the output *)
Theorem C07_no_injection_pointwise : forall (s a b : bytes) (c : N),
  escape_text s = a ++ c :: b \/ escape_attr s = a ++ c :: b ->
  c <> 60 /\ (c = 38 -> exists r v, In (r, v) refs /\ prefixb r (c :: b) = true).
Proof.
  intros s a b c [H|H].
  - exact (wf_escaped_spec _ (c07_no_injection_text s) a b c H).
  - exact (wf_escaped_spec _ (proj1 (c07_no_injection_attr s)) a b c H).
Qed.
Print Assumptions C07_no_injection_pointwise.

Example C07_ex_escape :
  escape_text (lit "a<b>&c]]>"%string) = lit "a&lt;b&gt;&amp;c]]&gt;"%string
  /\ escape_attr (lit "x""y"%string) = lit "x&quot;y"%string
  /\ unescape (lit "&lt;&amp;lt;&#13;&#9;&unknown;"%string) = [60; 38; 108; 116; 59; 13; 9] ++ lit "&unknown;"%string.
Proof. vm_compute. repeat split; reflexivity. Qed.

(* ------------------------------------------------------------------------------------------ *)
From NC Require Import Spec.Rfc6241Schema Proofs.BuildersProofs.

(* Every built request is one <rpc> in the base namespace whose only attribute is message-id =
   the request's id and whose only child is one element — all profiles, all 19 operations. *)
Theorem C07_envelope : forall (p : profile) (mid : bytes) (c : opcall) (t : tree),
  build p mid c = Built t -> exists op, envelope mid t op.
Proof. exact c07_envelope. Qed.
Print Assumptions C07_envelope.

(* The operation element has the name and namespace of its schema, no attributes, no text, and
   its children are schema children in schema order, each at most once — for the 17 operations
   with a fixed schema, under a prefixed envelope, when caller documents are rooted in the base
   namespace (see C07_unqualified_root_refuted for what happens otherwise). *)
Theorem C07_conforms : forall (p : profile) (mid : bytes) (c : opcall) (t : tree),
  p_ns p = Prefixed -> roots_qualified c = true -> build p mid c = Built t ->
  exists op, envelope mid t op /\ conforms c op.
Proof. exact c07_conforms. Qed.
Print Assumptions C07_conforms.

(* An enumerated argument outside its set (default-operation, test-option, error-option;
   with-defaults mode outside the advertised modes) never yields a request. *)
Theorem C07_enum_reject : forall (p : profile) (mid : bytes) (c : opcall),
  enum_violation c = true -> exists e, build p mid c = Refused e.
Proof. exact c07_enum_reject. Qed.
Print Assumptions C07_enum_reject.

(* Partial (per construction, not yet per operation): the two constructions through which every
   caller string enters a request carry it verbatim — as the single text node of its element,
   or as the local name of the datastore element — or refuse it locally (characters lxml rejects). *)
Theorem C07_carries_leaf_partial : forall (q : qname) (s : bytes) (t : tree),
  leaf q s = POk t -> xml_chars_ok s = true /\ t = Elem q [] (match s with [] => [] | _ => [Text s] end)
                      /\ (s <> [] -> texts t = [s]).
Proof. exact c07_carries_leaf. Qed.
Print Assumptions C07_carries_leaf_partial.

Theorem C07_carries_ds_partial : forall (wha : bytes) (d : dsarg) (t : tree),
  ds_node wha d = POk t ->
  exists loc lx, d = DsStr loc lx /\
    (if contains loc s_css then texts t = (match loc with [] => [] | _ => [loc] end) /\ locals t = [wha; s_url]
     else lx = true /\ locals t = [wha; loc] /\ texts t = []).
Proof. exact c07_carries_ds. Qed.
Print Assumptions C07_carries_ds_partial.

(* ---------------- non-vacuity and the open finding ---------------- *)
Definition P_default := {| p_ns := Prefixed; p_iosxe := false |}.
Definition P_alu := {| p_ns := DefaultNs; p_iosxe := false |}.
Definition ex_cfg (q : qname) : tree := Elem q [] [Elem (qn (lit "urn:x"%string) (lit "a"%string)) [] [Text (lit "1<2"%string)]].
Definition ex_edit (q : qname) : opcall :=
  OEditConfig (DsStr (lit "http://h/x"%string) true) (Some s_merge) (Some s_test_only) (Some s_rollback_on_error) (CfgXml (ex_cfg q)).

Example C07_ex_conforms :
  roots_qualified (ex_edit (b_ s_config)) = true /\
  match build P_default (lit "m1"%string) (ex_edit (b_ s_config)) with
  | Built (Elem _ _ [Elem q _ cs]) =>
      q = b_ s_edit_config /\ child_names cs = [b_ s_target; b_ s_default_operation; b_ s_test_option; b_ s_error_option; b_ s_config]
  | _ => False
  end.
Proof. vm_compute. repeat split; reflexivity. Qed.

(* the open finding C07-unqualified-caller-root, exhibited by the faithful model: a bare <config>
   root stays un-namespaced under a prefixed envelope and the request does not fit the schema;
   under a default-namespace envelope (R3) or on iosxe it is read in the base namespace *)
Example C07_unqualified_root_refuted :
  match build P_default (lit "m1"%string) (ex_edit (a_ s_config)) with
  | Built (Elem _ _ [Elem _ _ cs]) =>
      fits [[b_ s_target]; [b_ s_default_operation]; [b_ s_test_option]; [b_ s_error_option]; [b_ s_config; b_ s_url; b_ s_config_text]]
           (child_names cs) = false
  | _ => False
  end
  /\ build P_alu (lit "m1"%string) (ex_edit (a_ s_config)) = build P_alu (lit "m1"%string) (ex_edit (b_ s_config))
  /\ build {| p_ns := Prefixed; p_iosxe := true |} (lit "m1"%string) (ex_edit (a_ s_config))
     = build P_default (lit "m1"%string) (ex_edit (b_ s_config)).
Proof. vm_compute. repeat split; reflexivity. Qed.

Example C07_ex_enum_reject :
  build P_default (lit "m1"%string)
    (OEditConfig (DsStr (lit "running"%string) true) (Some (lit "Merge"%string)) None None CfgOther) = Refused OperationError
  /\ build P_default (lit "m1"%string) (OGet None (Some (lit "report"%string))) = Refused WithDefaultsError.
Proof. vm_compute. split; reflexivity. Qed.

Example C07_ex_chars_rejected :
  build P_default (lit "m1"%string) (OKillSession [52; 0]) = Refused ValueError.
Proof. vm_compute. reflexivity. Qed.
