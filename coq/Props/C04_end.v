(* Props/C04_end.v — C04 at the end of a session, beyond the reply listener and beyond `get_config`:
   (1) the error broadcast reaches every outstanding request whatever ELSE is registered on the session (application
       listeners of any behaviour, in any position of the listener set);
   (2) on the object of a session that ended EVERY request is refused with the transport error, also the operations that
       consult the negotiated capabilities first.
   Model: Model/SessionEnd.v (+ Model/SessionLTS.v). *)
From NC Require Import Model.Base Model.SessionLTS Model.SessionEnd Proofs.SessionLTSProofs Proofs.SessionEndProofs.

(* ---- (1) ---- *)
(* Every listener of the snapshot has its errback called, exactly in snapshot order - for every order (the iteration order of
   the set is a free variable), every composition, and whatever each errback does: raise, unregister itself or the others,
   register new listeners. *)
Theorem C04_bcast_visits_all : forall snapshot live0,
  visited (dispatch_error snapshot live0) = map l_id snapshot /\
  caught (dispatch_error snapshot live0) = map l_id (filter l_raises snapshot).
Proof. intros. split; [apply bcast_visits_snapshot|apply bcast_caught]. Qed.
Print Assumptions C04_bcast_visits_all.

Theorem C04_bcast_reaches_reply_listener : forall snapshot live0 l,
  In l snapshot -> l_role l = RReply -> In (l_id l) (visited (dispatch_error snapshot live0)).
Proof. intros snapshot live0 l H _. apply bcast_reaches. exact H. Qed.
Print Assumptions C04_bcast_reaches_reply_listener.

(* ... and on the LTS: with ONE reply listener anywhere in the snapshot the worker's effects of the broadcast are accepted from
   the state in which it started, end in the state where every request written and unanswered holds its error with the event
   set (C04_prompt), and the worker's close() is enabled next. *)
Theorem C04_bcast_any_listeners : forall s e snapshot,
  reach s -> pc s = WErrSnap e -> n_reply snapshot = 1%nat ->
  exists s', run s (bcast_labels snapshot s) = Some s' /\ reach s' /\ pc s' = WErrDeliver e [] /\
             (forall rid r, rq s' rid = Some r -> In rid (wrote s') -> r_reply r = None -> r_error r <> None /\ r_ev r = true) /\
             step s' (LClose 0) <> None.
Proof. exact c04_bcast_any_listeners. Qed.
Print Assumptions C04_bcast_any_listeners.

(* Why each visit needs a try of its OWN (the statement for one try around the loop is FALSE of the model): a listener
   whose errback raises, standing before another one, keeps the error from it. *)
Theorem C04_bcast_outer_try_refuted : forall a r rest live0,
  l_raises a = true -> l_id r <> l_id a -> ~ In (l_id r) (visited (dispatch_error_outer (a :: r :: rest) live0)).
Proof. exact outer_misses. Qed.
Print Assumptions C04_bcast_outer_try_refuted.

(* ---- (2) ---- *)
(* A call that is a request on the live session (its capability checks pass, it is handed to send) is refused with the
   transport error on the ended session - after the session thread's close() and any number of further close() calls. *)
Theorem C04_later_refused : forall caps sid needs n,
  request needs (connected_to caps sid) = RSent -> request needs (closes (S n) (connected_to caps sid)) = RRefused.
Proof. exact later_refused. Qed.
Print Assumptions C04_later_refused.

(* nothing but the two refusals the live session knows: never a foreign exception; "capability missing" exactly when the live
   session said so too *)
Theorem C04_later_no_foreign_error : forall caps sid needs n,
  request needs (closes n (connected_to caps sid)) <> RCrash /\
  (request needs (closes n (connected_to caps sid)) = RMissing <-> request needs (connected_to caps sid) = RMissing).
Proof. intros. split; [apply later_never_crashes|apply later_same_check]. Qed.
Print Assumptions C04_later_no_foreign_error.

(* Why close() must leave the negotiated state alone (the statement is FALSE of a close() that resets it): every operation
   that checks a capability - although the server advertised it - ends with a foreign exception instead of the refusal. *)
Theorem C04_later_reset_refuted : forall caps sid c needs,
  request (c :: needs) (connected_to caps sid) = RSent -> request (c :: needs) (closed_reset (connected_to caps sid)) = RCrash.
Proof. intros. apply later_reset_crashes. Qed.
Print Assumptions C04_later_reset_refuted.

(* ---- (3) the closing operations ---- *)
(* On the session that was lost (the session thread closed it) EVERY sequence of further session.close() calls, close_session()
   calls, with-block exits (empty body, a body that raises, a body that makes a request) and requests ends, operation by
   operation, as the property asks (`expect`): close() returns, close_session() and the end of the with-block are refused with the
   transport error, a request is refused with it (or "capability missing" as on the live session); the object stays
   disconnected.  For both ways the transports treat their handle in close(): kept (tls, unix), dropped behind a guard (ssh). *)
Theorem C04_closing_refused : forall sty caps sid ops, sty <> CDrop ->
  fst (run_cops sty ops (lost_t sty caps sid)) = map (expect caps sid) ops /\
  e_connected (t_obj (snd (run_cops sty ops (lost_t sty caps sid)))) = false.
Proof. exact c04_closing_refused. Qed.
Print Assumptions C04_closing_refused.

(* ... so no operation ends with a foreign exception (3) nor lets the body's own exception (5) stand for the refusal *)
Theorem C04_closing_no_foreign_error : forall sty caps sid ops c, sty <> CDrop ->
  In c (fst (run_cops sty ops (lost_t sty caps sid))) -> c = 0 \/ c = 1 \/ c = 2.
Proof.
  intros sty caps sid ops c Hs Hin. destruct (c04_closing_refused sty caps sid ops Hs) as (H & _). rewrite H in Hin.
  apply in_map_iff in Hin. destruct Hin as (op & <- & _). apply expect_codes.
Qed.
Print Assumptions C04_closing_no_foreign_error.

(* Why close() must keep its handle or guard its use (the statement is FALSE of a close() that drops it and uses it unguarded):
   the first closing operation after the loss - the SECOND close() of the session - ends with a foreign exception that replaces
   the refusal of <close-session> and, at the end of a with-block, the exception of the body. *)
Theorem C04_closing_drop_refuted : forall caps sid op rest, (forall needs, op <> OReq needs) ->
  exists cs, fst (run_cops CDrop (op :: rest) (lost_t CDrop caps sid)) = 3 :: cs.
Proof. exact closing_drop_crashes. Qed.
Print Assumptions C04_closing_drop_refuted.

(* ---- non-vacuity ---- *)
Definition app_raises (i : N) : lsn := {| l_id := i; l_role := RApp; l_removes := []; l_adds := []; l_raises := true |}.
Definition app_leaves (i : N) : lsn := {| l_id := i; l_role := RApp; l_removes := [i]; l_adds := []; l_raises := false |}.
Definition app_wrecks (i : N) : lsn := {| l_id := i; l_role := RApp; l_removes := [1; 2; 3; 4; 5]; l_adds := [9]; l_raises := true |}.
Definition the_reply : lsn := {| l_id := 1; l_role := RReply; l_removes := []; l_adds := []; l_raises := false |}.
Definition the_notif : lsn := {| l_id := 2; l_role := RNotif; l_removes := []; l_adds := []; l_raises := false |}.

(* a raising listener before the reply listener, one that unregisters everybody (and raises) and one that leaves after it *)
Example C04_end_ex_bcast :
  dispatch_error [app_raises 3; the_notif; app_wrecks 4; the_reply; app_leaves 5] [1; 2; 3; 4; 5] =
    {| live := [9]; visited := [3; 2; 4; 1; 5]; caught := [3; 4] |} /\
  dispatch_error_outer [app_raises 3; the_notif; app_wrecks 4; the_reply; app_leaves 5] [1; 2; 3; 4; 5] =
    {| live := [1; 2; 3; 4; 5]; visited := [3]; caught := [3] |}.
Proof. vm_compute. split; reflexivity. Qed.

(* the same snapshot on the LTS: two requests on the wire, the peer closes *)
Example C04_end_ex_lts :
  match run (init true) [LReg 0 100; LChk 0 true; LPut 0; LReg 1 101; LChk 1 true; LPut 1; LDeq 0; LDeq 1; LReadEof; LErrBcast 1] with
  | Some s => bcast_labels [app_raises 3; the_notif; app_wrecks 4; the_reply; app_leaves 5] s = [LTValues [100; 101]; LTClear; LEvSetErr 0; LEvSetErr 1] /\
              match run s (bcast_labels [app_raises 3; the_notif; app_wrecks 4; the_reply; app_leaves 5] s ++ [LClose 0; LExit; LWaitRes 0 true; LWaitRes 1 true]) with
              | Some s' => map r_st (reqs s') = [CDone (OExc 1); CDone (OExc 1)] /\ connected s' = false
              | None => False
              end
  | None => False
  end.
Proof. vm_compute. repeat split; reflexivity. Qed.

(* capabilities 0 = :candidate, 2 = :validate advertised, 1 = :confirmed-commit not: commit / validate / get are refused after
   the end, a confirmed commit is "missing" before and after; a close() that resets turns commit into a foreign exception *)
Example C04_end_ex_later :
  map (fun needs => (request needs (connected_to [0; 2] 7), request needs (closes 2 (connected_to [0; 2] 7)),
                     request needs (closed_reset (connected_to [0; 2] 7))))
      [[]; [0]; [2]; [0; 1]] =
  [(RSent, RRefused, RRefused); (RSent, RRefused, RCrash); (RSent, RRefused, RCrash); (RMissing, RMissing, RCrash)].
Proof. vm_compute. reflexivity. Qed.

(* close_session, close, with-blocks of the three bodies, a commit and a confirmed commit: on the live session (sent, then the
   session is closed by the application: refused from there on; the body's exception leaves its block only while the session is
   live), on the lost session under the three styles *)
Definition ex_cops : list cop := [OWith BRaise; OCloseSession; OClose; OWith BPass; OWith (BReq [0]); OReq [0]; OReq [0; 1]; OClose].
Example C04_end_ex_closing :
  fst (run_cops CKeep ex_cops (live_t [0; 2] 7)) = [5; 1; 0; 1; 1; 1; 2; 0] /\
  fst (run_cops CKeep ex_cops (lost_t CKeep [0; 2] 7)) = [1; 1; 0; 1; 1; 1; 2; 0] /\
  fst (run_cops CGuardDrop ex_cops (lost_t CGuardDrop [0; 2] 7)) = [1; 1; 0; 1; 1; 1; 2; 0] /\
  fst (run_cops CDrop ex_cops (lost_t CDrop [0; 2] 7)) = [3; 3; 3; 3; 3; 1; 2; 3] /\
  fst (run_cops CKeep [OCloseSession; OCloseSession] (live_t [0; 2] 7)) = [0; 1].
Proof. vm_compute. repeat split; reflexivity. Qed.
